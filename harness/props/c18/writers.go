package c18

// Multiplexer binding, part 3 (spec/MConn/Writers.tla): who writes the wire of ONE
// MConnection while the connection stalls a write.
//
// Two REAL conn.MConnections A and B over net.Pipe (directly, or with a real
// SecretConnection pair in between).  A's end of the pipe is wrapped by gateConn: like a
// socket it lets one Write through at a time, and it can hold a Write back - accept the
// first Pre(len, k) bytes, then block until released (Arm / Release of the model).  The
// environment steps of a behaviour of Writers.tla (send, ping, arm, the write that gets
// held, release) are played in the model's order; the steps of the connection's own
// goroutines are left to the code.  Everything is synchronised by channels:
//   - "held": the gate reports that a Write of A is inside and blocked;
//   - a ping is a real PacketPing written into the B -> A stream between two Writes of B;
//     that A has dealt with it is known when a marker message B sends right behind it has
//     reached A's onReceive - or when a SECOND goroutine of A has arrived at conn.Write
//     while the first one is still inside (the what-if PongBy = "recv" of the model: the
//     code is probed for it; the probe alone is no verdict).
// Oracle = the property: after the release and one closing message per channel, what B's
// onReceive got on every channel is exactly what A.Send accepted, in order, byte-exact
// (the same for the markers B -> A), at every step it is a beginning of that, neither side
// reported an error, both connections are still running.

import (
	"bytes"
	"encoding/json"
	"fmt"
	"io/ioutil"
	"math/rand"
	"net"
	"path/filepath"
	"sort"
	"strings"
	"sync"
	"sync/atomic"
	"time"

	"github.com/lianxiangcloud/linkchain/libs/p2p/conn"
	"github.com/lianxiangcloud/linkchain/libs/ser"

	"verifh/core"
	"verifh/mbt"
	"verifh/tlc"
)

// ---- the gate --------------------------------------------------------------

type gateEvent struct {
	kind string // "held"
	n, k int
}

type gateConn struct {
	net.Conn
	wmu      sync.Mutex // one Write at a time, like a socket / net.Pipe
	mu       sync.Mutex
	armed    bool
	kcl      string
	rel      chan struct{} // closed by release()
	holding  bool
	events   chan gateEvent
	inWrite  int32
	second   int32 // a second goroutine arrived at Write while one was inside
	secondCh chan struct{}
	once     sync.Once
	writes   int
	sabotage bool // negative control: the stalled write goes out twice
	tap      bytes.Buffer
}

func newGateConn(c net.Conn) *gateConn {
	return &gateConn{Conn: c, events: make(chan gateEvent, 64), secondCh: make(chan struct{})}
}

// wrPre mirrors Pre(len, k) of Writers.tla.
func wrPre(n int, k string) int {
	switch k {
	case "none":
		return 0
	case "one":
		return 1
	case "half":
		return n / 2
	default:
		return n - 1
	}
}

func (g *gateConn) arm(k string) {
	g.mu.Lock()
	g.armed, g.kcl, g.rel = true, k, make(chan struct{})
	g.mu.Unlock()
}

func (g *gateConn) release() {
	g.mu.Lock()
	if g.rel != nil {
		select {
		case <-g.rel:
		default:
			close(g.rel)
		}
	}
	g.armed = false
	g.mu.Unlock()
}

func (g *gateConn) note(e gateEvent) {
	select {
	case g.events <- e:
	default:
	}
}

func (g *gateConn) Write(p []byte) (int, error) {
	if atomic.AddInt32(&g.inWrite, 1) >= 2 {
		atomic.StoreInt32(&g.second, 1)
		g.once.Do(func() { close(g.secondCh) })
	}
	defer atomic.AddInt32(&g.inWrite, -1)
	g.wmu.Lock()
	defer g.wmu.Unlock()
	g.mu.Lock()
	armed, k, rel := g.armed, g.kcl, g.rel
	g.armed = false
	g.writes++
	if armed {
		g.holding = true
	}
	g.mu.Unlock()
	if !armed || len(p) == 0 {
		n, err := g.Conn.Write(p)
		g.tap.Write(p[:n])
		return n, err
	}
	pre := wrPre(len(p), k)
	if pre > 0 {
		n, err := g.Conn.Write(p[:pre])
		g.tap.Write(p[:n])
		if err != nil {
			return n, err
		}
	}
	g.note(gateEvent{kind: "held", n: len(p), k: pre})
	<-rel
	g.mu.Lock()
	g.holding = false
	g.mu.Unlock()
	// the rest is read from the caller's slice as it is NOW
	n, err := g.Conn.Write(p[pre:])
	g.tap.Write(p[pre : pre+n])
	if err == nil && g.sabotage {
		g.Conn.Write(p)
	}
	return pre + n, err
}

// sharedConn: B's end. The harness writes whole packets between two Writes of B.
type sharedConn struct {
	net.Conn
	mu sync.Mutex
}

func (s *sharedConn) Write(p []byte) (int, error) {
	s.mu.Lock()
	defer s.mu.Unlock()
	return s.Conn.Write(p)
}

// ---- schedules ---------------------------------------------------------------

type wrAct struct {
	Op   string `json:"op"`
	Ch   int    `json:"ch,omitempty"`
	ID   int    `json:"id,omitempty"`
	N    int    `json:"n,omitempty"`
	K    string `json:"k,omitempty"`
	Held bool   `json:"held,omitempty"`
}

type wrVariant struct {
	P     int    `json:"p"`     // MaxPacketMsgPayloadSize
	Tail  int    `json:"tail"`  // bytes of the last packet of a message: 0 = 1 byte, 1 = P/2, 2 = P
	Wire  string `json:"wire"`  // pipe | secret
	Pings int    `json:"pings"` // real pings per "ping" of the behaviour
	IDs   []byte `json:"ids"`
}

var (
	wrPs    = []int{1024, 16, 32768, 300}
	wrWires = []string{"pipe", "secret"}
	wrPings = []int{1, 3, 2}
)

func wrVariantFor(i int) wrVariant {
	return wrVariant{P: wrPs[i%len(wrPs)], Tail: (i / 2) % 3, Wire: wrWires[(i/3)%len(wrWires)], Pings: wrPings[(i/5)%len(wrPings)], IDs: mxIDSets[(i/7)%len(mxIDSets)]}
}

// wrSchedule projects a behaviour of the model onto the steps of the environment.
func wrSchedule(g *mbt.Graph, seq []int) (out []wrAct) {
	for _, ei := range seq {
		var a wrAct
		if json.Unmarshal(g.Edges[ei].Act, &a) != nil {
			continue
		}
		if a.Op == "send" || a.Op == "ping" || a.Op == "arm" || a.Op == "release" {
			out = append(out, a)
		} else if a.Op == "write" && a.Held {
			out = append(out, wrAct{Op: "held"})
		}
	}
	return
}

func wrKey(s []wrAct) string {
	var b strings.Builder
	for _, a := range s {
		fmt.Fprintf(&b, "%s%d.%d.%d%s;", a.Op, a.Ch, a.ID, a.N, a.K)
	}
	return b.String()
}

// wrRank: interesting = pings (or sends) while a write is held
func wrRank(s []wrAct) int {
	held, r := false, 0
	for _, a := range s {
		if a.Op == "held" {
			held = true
		} else if a.Op == "release" {
			held = false
		} else if a.Op == "ping" && held {
			r += 4
		} else if a.Op == "send" && held {
			r++
		}
	}
	return r
}

type wrDelivery struct {
	ch byte
	b  []byte
}

type wrLog struct {
	mu   sync.Mutex
	got  [2][]wrDelivery // 0: what B received (A -> B), 1: what A received (B -> A)
	errs []string
	sig  chan struct{}
}

func (l *wrLog) poke() {
	select {
	case l.sig <- struct{}{}:
	default:
	}
}

func (l *wrLog) recv(dir int) func(byte, []byte) {
	return func(ch byte, b []byte) {
		l.mu.Lock()
		l.got[dir] = append(l.got[dir], wrDelivery{ch, append([]byte(nil), b...)})
		l.mu.Unlock()
		l.poke()
	}
}

func (l *wrLog) onErr(who string) func(interface{}) {
	return func(r interface{}) {
		l.mu.Lock()
		l.errs = append(l.errs, fmt.Sprintf("%s: %v", who, r))
		l.mu.Unlock()
		l.poke()
	}
}

func (l *wrLog) snap(dir int) ([]wrDelivery, []string) {
	l.mu.Lock()
	defer l.mu.Unlock()
	return append([]wrDelivery(nil), l.got[dir]...), append([]string(nil), l.errs...)
}

const wrMarkerCh = 3 // index into IDs of the channel the markers (B -> A) use

// wrReplay plays one schedule on a fresh pair of real connections.
func wrReplay(sched []wrAct, v wrVariant, sabotage bool) (steps int, probe bool, mm *mismatch) {
	pa, pb := net.Pipe()
	ga := newGateConn(pa)
	ga.sabotage = sabotage
	defer pb.Close()
	defer pa.Close()
	defer ga.release()
	var ca, cb net.Conn = ga, pb
	if v.Wire == "secret" {
		sa, sb, err := securePair(ga, pb)
		if err != nil {
			return 0, false, honestFailure(err)
		}
		ca, cb = sa, sb
	}
	shb := &sharedConn{Conn: cb}
	var descs []*conn.ChannelDescriptor
	for i := range v.IDs {
		descs = append(descs, &conn.ChannelDescriptor{ID: v.IDs[i], Priority: 1 + i, SendQueueCapacity: 32})
	}
	log := &wrLog{sig: make(chan struct{}, 1)}
	cfg := mconnConfig(v.P)
	a := conn.NewMConnectionWithConfig(ca, descs, log.recv(1), log.onErr("A"), cfg)
	b := conn.NewMConnectionWithConfig(shb, descs, log.recv(0), log.onErr("B"), cfg)
	if err := a.Start(); err != nil {
		return 0, false, &mismatch{kind: "infra", desc: "MConnection.Start: " + err.Error()}
	}
	defer a.Stop()
	if err := b.Start(); err != nil {
		return 0, false, &mismatch{kind: "infra", desc: "MConnection.Start: " + err.Error()}
	}
	defer b.Stop()
	defer ga.release() // before the Stops: a held Write must not outlive the run
	second := func() bool { return atomic.LoadInt32(&ga.second) == 1 }

	ping := ser.MustEncodeToBytesWithType(conn.PacketPing{})
	var sent [2][]wrDelivery // what Send accepted, per direction
	nextID := map[byte]int{}
	heldNow, pingsHeld := false, 0
	where := func(i int) string {
		return fmt.Sprintf("step %d of %s", i+1, wrKey(sched))
	}
	msgLen := func(n int) int {
		tail := []int{1, v.P / 2, v.P}[v.Tail]
		if tail < 1 {
			tail = 1
		}
		return (n-1)*v.P + tail
	}
	send := func(dir int, mc *conn.MConnection, ch byte, n int) bool {
		nextID[ch]++
		p := muxContent(ch, nextID[ch]+dir*1000, n)
		if !mc.Send(ch, p) {
			return false
		}
		sent[dir] = append(sent[dir], wrDelivery{ch, p})
		return true
	}
	// prefix / equality of the deliveries of one direction, per channel
	check := func(dir int, exact bool, i int) *mismatch {
		got, _ := log.snap(dir)
		who := [2]string{"B", "A"}[dir]
		for _, id := range v.IDs {
			var w, g [][]byte
			for _, d := range sent[dir] {
				if d.ch == id {
					w = append(w, d.b)
				}
			}
			for _, d := range got {
				if d.ch == id {
					g = append(g, d.b)
				}
			}
			for j := range g {
				if j >= len(w) {
					return &mismatch{kind: "prop", key: "mconn/writers/spurious-delivery", step: i, desc: fmt.Sprintf("%s.onReceive got %d messages on channel %#x, Send accepted %d; the extra one has %d bytes, hash %s (%s)", who, len(g), id, len(w), len(g[j]), hashOf(g[j]), where(i))}
				}
				if !bytes.Equal(g[j], w[j]) {
					what := "differs from"
					for jj := range w {
						if bytes.Equal(g[j], w[jj]) {
							what = fmt.Sprintf("is message %d again / out of order, expected", jj+1)
						}
					}
					return &mismatch{kind: "prop", key: "mconn/writers/corrupt-delivery", step: i, desc: fmt.Sprintf("delivery %d of %s.onReceive on channel %#x (%d bytes, hash %s) %s message %d as sent (%d bytes, hash %s), first difference at byte %d (%s)", j+1, who, id, len(g[j]), hashOf(g[j]), what, j+1, len(w[j]), hashOf(w[j]), firstDiff(g[j], w[j]), where(i))}
				}
			}
			if exact && len(g) < len(w) {
				return &mismatch{kind: "prop", key: "mconn/writers/messages-lost", step: i, desc: fmt.Sprintf("Send accepted %d messages on channel %#x, %s.onReceive got %d (%s)", len(w), id, who, len(g), where(i))}
			}
		}
		return nil
	}
	failed := func(i int) *mismatch {
		if _, errs := log.snap(0); len(errs) > 0 {
			gb, _ := log.snap(0)
			return &mismatch{kind: "prop", key: "mconn/writers/connection-failed", step: i, desc: fmt.Sprintf("a healthy connection (%s; writes only held back and released, no byte lost or changed by the transport; %d pings sent to A during a stalled write; second goroutine at conn.Write: %v) was torn down: %s; %d of %d messages delivered; %s (%s)", v.Wire, pingsHeld, second(), strings.Join(errs, " | "), len(gb), len(sent[0]), wrTap(ga, v), where(i))}
		}
		return nil
	}
	// wait until everything accepted so far has arrived (both directions)
	quiesce := func(i int) *mismatch {
		idle, since, last := 0, time.Now(), -1
		for {
			if m := failed(i); m != nil {
				return m
			}
			g0, _ := log.snap(0)
			g1, _ := log.snap(1)
			if len(g0) >= len(sent[0]) && len(g1) >= len(sent[1]) {
				return nil
			}
			if n := len(g0) + len(g1); n != last {
				last, idle, since = n, 0, time.Now()
			} else {
				idle++
			}
			if idle >= 100 && time.Since(since) > 10*time.Second {
				if m := check(0, true, i); m != nil {
					return m
				}
				if m := check(1, true, i); m != nil {
					return m
				}
				return &mismatch{kind: "infra", desc: "quiescence not reached", step: i}
			}
			select {
			case <-log.sig:
			case <-time.After(100 * time.Millisecond):
			}
		}
	}
	// A has dealt with everything B wrote so far: a marker comes back out of A's onReceive,
	// or (probe) a second goroutine of A stands at conn.Write behind the held one
	barrier := func(i int) *mismatch {
		if !send(1, b, v.IDs[wrMarkerCh], 9+len(sent[1])%5) {
			if m := failed(i); m != nil {
				return m
			}
			return &mismatch{kind: "infra", desc: "B.Send(marker) refused", step: i}
		}
		deadline := time.After(30 * time.Second)
		for {
			if m := failed(i); m != nil {
				return m
			}
			if g1, _ := log.snap(1); len(g1) >= len(sent[1]) {
				return nil
			}
			select {
			case <-log.sig:
			case <-ga.secondCh:
				return nil
			case <-deadline:
				return &mismatch{kind: "infra", desc: "A does not read while its write is held back", step: i}
			}
		}
	}

	for i, s := range sched {
		steps++
		if s.Op == "send" {
			if !send(0, a, v.IDs[s.Ch-1], msgLen(s.N)) {
				if m := failed(i); m != nil {
					return steps, second(), m
				}
				return steps, second(), &mismatch{kind: "prop", key: "mconn/writers/send-refused", step: i, desc: fmt.Sprintf("A.Send refused a message on a running connection with room in the queue (%s)", where(i))}
			}
		} else if s.Op == "arm" {
			// the model arms the gate on a quiet sender
			if m := quiesce(i); m != nil {
				return steps, second(), m
			}
			ga.arm(s.K)
		} else if s.Op == "held" {
			deadline := time.After(30 * time.Second)
			for ok := false; !ok; {
				select {
				case e := <-ga.events:
					ok = e.kind == "held"
				case <-deadline:
					return steps, second(), &mismatch{kind: "infra", desc: "A never wrote after Send", step: i}
				}
			}
			heldNow = true
		} else if s.Op == "ping" {
			// all pings of this step in one Write; it returns when A has taken them off the pipe,
			// which A does not do while its recvRoutine stands at conn.Write (probe)
			done := make(chan error, 1)
			go func() {
				shb.mu.Lock()
				_, err := shb.Conn.Write(bytes.Repeat(ping, v.Pings))
				shb.mu.Unlock()
				done <- err
			}()
			deadline := time.After(30 * time.Second)
			select {
			case err := <-done:
				if err != nil {
					if m := failed(i); m != nil {
						return steps, second(), m
					}
					return steps, second(), &mismatch{kind: "infra", desc: "writing a ping: " + err.Error(), step: i}
				}
			case <-ga.secondCh:
			case <-deadline:
				return steps, second(), &mismatch{kind: "infra", desc: "A does not read the pings", step: i}
			}
			if heldNow {
				pingsHeld += v.Pings
			}
			if m := barrier(i); m != nil {
				return steps, second(), m
			}
		} else if s.Op == "release" {
			ga.release()
			heldNow = false
		}
		if m := check(0, false, i); m != nil {
			return steps, second(), m
		}
	}
	ga.release()
	last := len(sched) - 1
	if m := quiesce(last); m != nil {
		return steps, second(), m
	}
	// one closing message per channel and direction: whatever the connection still holds
	// (a duplicate, a left-over piece) comes out before it
	for _, id := range v.IDs {
		for dir, mc := range []*conn.MConnection{a, b} {
			if !send(dir, mc, id, 9) {
				if m := failed(last); m != nil {
					return steps, second(), m
				}
				return steps, second(), &mismatch{kind: "prop", key: "mconn/writers/send-refused", step: last, desc: fmt.Sprintf("Send refused the closing message on channel %#x of a connection that should be running (A running: %v, B running: %v) (%s)", id, a.IsRunning(), b.IsRunning(), where(last))}
			}
		}
	}
	if m := quiesce(last); m != nil {
		return steps, second(), m
	}
	for dir := 0; dir < 2; dir++ {
		if m := check(dir, true, last); m != nil {
			return steps, second(), m
		}
	}
	if m := failed(last); m != nil {
		return steps, second(), m
	}
	if !a.IsRunning() || !b.IsRunning() {
		return steps, second(), &mismatch{kind: "prop", key: "mconn/writers/connection-failed", step: last, desc: fmt.Sprintf("after the behaviour the connections are not running any more (A: %v, B: %v) although the transport lost nothing (%s)", a.IsRunning(), b.IsRunning(), where(last))}
	}
	return steps, second(), nil
}

// wrTap describes the bytes A put on the wire (plain pipe only): do they decode as whole packets?
func wrTap(g *gateConn, v wrVariant) string {
	if v.Wire != "pipe" {
		return "wire not decoded (encrypted)"
	}
	g.mu.Lock()
	holding := g.holding
	g.mu.Unlock()
	if holding || atomic.LoadInt32(&g.inWrite) > 0 {
		return "wire not decoded (a write is in flight)"
	}
	g.wmu.Lock()
	data := append([]byte(nil), g.tap.Bytes()...)
	g.wmu.Unlock()
	r := bytes.NewReader(data)
	n := 0
	for r.Len() > 0 {
		at := len(data) - r.Len()
		var p conn.Packet
		if _, err := ser.DecodeReaderWithType(r, &p, 1<<22); err != nil {
			return fmt.Sprintf("the %d bytes A wrote decode into %d whole packets, then fail at offset %d: %v", len(data), n, at, err)
		}
		n++
	}
	return fmt.Sprintf("the %d bytes A wrote decode into %d whole packets", len(data), n)
}

// ---- driver --------------------------------------------------------------------

func wrWhatIfCfg(base string, invs string) []byte {
	var out []string
	for _, l := range strings.Split(base, "\n") {
		if strings.HasPrefix(l, "ACTION_CONSTRAINT") {
			continue
		} else if strings.HasPrefix(l, "INVARIANTS") {
			l = "INVARIANTS " + invs
		} else if strings.Contains(l, "PongBy =") {
			l = `  PongBy = "recv"`
		}
		out = append(out, l)
	}
	return []byte(strings.Join(out, "\n"))
}

// runWritersWhatIf: the model must discriminate - with the pong written by recvRoutine the
// invariants fail.
func runWritersWhatIf(c *core.Ctx, cfgName string) {
	baseB, err := ioutil.ReadFile(filepath.Join(c.SpecDir("MConn"), cfgName))
	if err != nil {
		c.Infra("reading %s: %v", cfgName, err)
		return
	}
	base := string(baseB)
	o := c.Out()
	var wg sync.WaitGroup
	var mu sync.Mutex
	got := map[string]string{}
	for _, invs := range []string{"WireWhole InOrderWhole", "NoTeardown"} {
		wg.Add(1)
		go func(invs string) {
			defer wg.Done()
			res, err := tlc.Run(tlc.Options{SpecDir: c.SpecDir("MConn"), Module: "Writers", Config: "WhatIf.cfg", Workers: 1, Timeout: c.MinutesT(3, 10),
				Files: map[string][]byte{"WhatIf.cfg": wrWhatIfCfg(base, invs)}})
			if err != nil || res == nil {
				c.Infra("Writers what-if (%s): %v", invs, err)
				return
			}
			mu.Lock()
			o.TLCRuns = append(o.TLCRuns, fmt.Sprintf("Writers what-if PongBy=recv, %s: %s", invs, res.Describe()))
			got[invs] = res.Violated
			mu.Unlock()
			if res.Violated == "" {
				c.Infra("vacuous model: Writers.tla with the pong written by recvRoutine (PongBy = \"recv\") does not violate %s: %s\n%s", invs, res.Describe(), res.Tail)
			}
		}(invs)
	}
	wg.Wait()
	c.SetExtra("writers_whatif_recv_violates", got)
}

func replayWriters(c *core.Ctx, k *checker, g *mbt.Graph) {
	rng := rand.New(rand.NewSource(c.Seed*7 + 4))
	seqs := dagTours(g, rng)
	nTours := len(seqs)
	seqs = append(seqs, g.Walks(c.Pick(300, 3000), 60, rng)...)
	seen := map[string]bool{}
	var scheds [][]wrAct
	for _, s := range seqs {
		sc := wrSchedule(g, s)
		if len(sc) == 0 || seen[wrKey(sc)] {
			continue
		}
		seen[wrKey(sc)] = true
		scheds = append(scheds, sc)
	}
	total := len(scheds)
	// the behaviours with pings / sends during a stalled write first; the others as far as the budget goes
	sort.SliceStable(scheds, func(i, j int) bool { return wrRank(scheds[i]) > wrRank(scheds[j]) })
	if max := c.Pick(2500, 20000); len(scheds) > max {
		scheds = scheds[:max]
	}
	c.SetExtra("writers_tour_behaviours", nTours)
	c.SetExtra("writers_distinct_schedules", total)
	c.SetExtra("writers_schedules_replayed", len(scheds))
	var mu sync.Mutex
	reported := map[string]bool{}
	var stop int32
	probes, stalledPings, sampled := 0, 0, false
	off := int(c.Seed) * 3
	deadline := time.Now().Add(time.Duration(c.Pick(40, 720)) * time.Second)
	skipped := 0
	parallel(len(scheds), func(i int) {
		if atomic.LoadInt32(&stop) >= 1 { // one violation of this part is enough
			return
		}
		if time.Now().After(deadline) {
			mu.Lock()
			skipped++
			mu.Unlock()
			return
		}
		v := wrVariantFor(i + off)
		steps, probe := 0, false
		mm := retryInfra(func() (m *mismatch) {
			steps, probe, m = wrReplay(scheds[i], v, false)
			if m != nil && m.kind == "infra" && atomic.LoadInt32(&stop) >= 1 {
				m = nil // a verdict exists already; no retries
			}
			return
		})
		k.count("writers", fmt.Sprintf("%v|%s", v, wrKey(scheds[i])), steps)
		mu.Lock()
		defer mu.Unlock()
		if probe {
			probes++
		}
		if wrRank(scheds[i]) >= 4 {
			stalledPings++
		}
		if !sampled && mm == nil && wrRank(scheds[i]) >= 4 {
			sampled = true
			c.Sample(map[string]interface{}{"model": "Writers", "behaviour (environment steps)": scheds[i], "instantiation": v})
		}
		if mm != nil {
			if mm.kind == "prop" {
				atomic.AddInt32(&stop, 1)
				if reported[mm.key] {
					return
				}
				reported[mm.key] = true
			}
			k.report("writers", mm, replayRec{Variant: v, Sched: scheds[i]})
		}
	})
	c.SetExtra("writers_schedules_with_pings_during_a_stalled_write", stalledPings)
	c.SetExtra("writers_schedules_skipped_for_time", skipped)
	c.SetExtra("writers_second_goroutine_at_conn_write_observed", probes)
	if probes > 0 {
		k.drift("writers-second-writer", fmt.Sprintf("Writers: in %d behaviours a second goroutine of the connection arrived at conn.Write while another one was inside (the model's what-if PongBy = \"recv\"); the code is expected to write from sendRoutine only", probes))
	}
	// negative control: the stalled write goes out twice - must be noticed
	for _, sc := range scheds {
		if wrRank(sc) >= 4 {
			if _, _, mm := wrReplay(sc, wrVariantFor(0), true); mm == nil || mm.kind != "prop" {
				c.Infra("vacuous binding: the Writers replay did not notice a write repeated on the wire (%v)", mm)
			}
			break
		}
	}
}
