package c18

// Peer-level binding of the Handshake model: the behaviours in which party T completes
// the handshake and then receives a NodeInfo are replayed with T played by a REAL
// p2p.Switch (Switch.DialPeerWithAddress -> MakeSecretConnection -> NodeInfo exchange ->
// addPeer) dialling the scripted peer over TCP loopback.
//   pi_prop = (DialPeerWithAddress returned success | error,
//              the public key under which the Switch registered the peer).

import (
	"encoding/json"
	"fmt"
	"net"
	"sync"
	"time"

	"github.com/lianxiangcloud/linkchain/config"
	"github.com/lianxiangcloud/linkchain/libs/crypto"
	dbm "github.com/lianxiangcloud/linkchain/libs/db"
	"github.com/lianxiangcloud/linkchain/libs/log"
	"github.com/lianxiangcloud/linkchain/libs/p2p"
	pcmn "github.com/lianxiangcloud/linkchain/libs/p2p/common"
	"github.com/lianxiangcloud/linkchain/libs/ser"
	"github.com/lianxiangcloud/linkchain/types"
	"github.com/lianxiangcloud/linkchain/version"

	"verifh/mbt"
)

var peerGlobals sync.Once

func peerNodeInfo(moniker string) p2p.NodeInfo {
	return p2p.NodeInfo{Network: "c18-net", Version: version.Version, Channels: []byte{0x40}, Moniker: moniker, Type: types.NodeValidator}
}

// newSwitch builds a Switch that neither listens nor discovers: only DialPeerWithAddress is used.
func newSwitch(key crypto.PrivKey) (*p2p.Switch, error) {
	peerGlobals.Do(func() {
		p2p.DefaultNewTableFunc = func(sw *p2p.Switch, seeds []*pcmn.Node) error { return nil }
		p2p.ListenerBindFunc = func(nodeType types.NodeType, full string, ext string, logger log.Logger) (net.Listener, *p2p.NetAddress, *net.UDPConn, bool) {
			return nil, nil, nil, false
		}
	})
	cfg := config.DefaultP2PConfig()
	cfg.ListenAddress = ""
	// deadlines of the code under test: far beyond anything a stalled machine produces
	cfg.HandshakeTimeout = 30 * time.Minute
	cfg.DialTimeout = 2 * time.Minute
	return p2p.NewP2pManager(log.NewNopLogger(), key, cfg, peerNodeInfo("switch-under-test"), nil, dbm.NewMemDB())
}

// tOnlyPaths enumerates the behaviours in which only party x moves and that contain a NodeInfo step.
func tOnlyPaths(g *mbt.Graph, x string, max int) [][]int {
	var out [][]int
	var walk func(s int, path []int)
	walk = func(s int, path []int) {
		if len(out) >= max {
			return
		}
		ext := false
		for _, ei := range g.Out[s] {
			var a hsAct
			json.Unmarshal(g.Edges[ei].Act, &a)
			if a.X != x {
				continue
			}
			ext = true
			walk(g.Edges[ei].To, append(append([]int(nil), path...), ei))
		}
		if !ext && len(path) > 0 {
			var a hsAct
			json.Unmarshal(g.Edges[path[len(path)-1]].Act, &a)
			if a.Op == "nodeinfo" {
				out = append(out, path)
			}
		}
	}
	walk(0, nil)
	return out
}

func peerReplay(w *hsWorld, g *mbt.Graph, seq []int) (steps int, mm *mismatch) {
	const wait = 20 * time.Second
	sw, err := newSwitch(w.keys["T"])
	if err != nil {
		return 0, &mismatch{kind: "infra", desc: "NewP2pManager: " + err.Error()}
	}
	ln, err := net.Listen("tcp", "127.0.0.1:0")
	if err != nil {
		return 0, &mismatch{kind: "infra", desc: err.Error()}
	}
	defer ln.Close()
	done := make(chan error, 1)
	go func() {
		var err error
		defer func() {
			if r := recover(); r != nil {
				err = fmt.Errorf("panic: %v", r)
			}
			done <- err
		}()
		err = sw.DialPeerWithAddress(p2p.NewNetAddress(ln.Addr()))
	}()
	ln.(*net.TCPListener).SetDeadline(time.Now().Add(wait))
	c, err := ln.Accept()
	if err != nil {
		return 0, &mismatch{kind: "infra", desc: "the switch did not dial: " + err.Error()}
	}
	defer c.Close()
	c.SetDeadline(time.Now().Add(10 * time.Minute))
	p := &hsParty{name: "T", att: c, done: make(chan hsResult, 1)}
	s := &hsSession{w: w, parties: map[string]*hsParty{"T": p}, attEph: map[string]*[32]byte{}}
	s.remOf = map[string]*[32]byte{}
	s.chalOf = map[string][]string{}
	if p.eph, err = readEph(c); err != nil {
		return 0, &mismatch{kind: "infra", desc: "reading the switch's ephemeral key: " + err.Error()}
	}
	var dialErr error
	dialDone := false
	waitDial := func() bool {
		if dialDone {
			return true
		}
		select {
		case dialErr = <-done:
			dialDone = true
		case <-time.After(wait):
		}
		return dialDone
	}
	registered := func() (n int, key crypto.PubKey, id string) {
		ps := sw.Peers().List()
		if len(ps) > 0 {
			ni := ps[0].NodeInfo()
			return len(ps), ni.PubKey, ps[0].ID()
		}
		return 0, nil, ""
	}
	authKey := "nil" // the key the scripted peer proved possession of (model: est[T])
	for i, ei := range seq {
		var a hsAct
		var st hsState
		if json.Unmarshal(g.Edges[ei].Act, &a) != nil || json.Unmarshal(g.Edges[ei].ToSt, &st) != nil || a.X != "T" {
			return steps, &mismatch{kind: "infra", desc: "bad edge for the peer-level replay", step: i}
		}
		steps++
		switch a.Op {
		case "eph":
			r := s.eph(a.R)
			if err := writeEph(c, r); err != nil {
				return steps, &mismatch{kind: "infra", desc: err.Error(), step: i}
			}
			s.remOf["T"] = r
			s.chalOf["T"] = []string{"eT", a.R}
			if a.R == "eT" {
				s.chalOf["T"] = []string{a.R}
			}
			m, _, err := readAuth(c)
			if err != nil {
				return steps, &mismatch{kind: "infra", desc: "reading the switch's authSigMessage: " + err.Error(), step: i}
			}
			p.auth, p.hasAuth = m, true
			if m.Key == nil || !m.Key.Equals(s.pub("T")) || !m.Key.VerifyBytes(sortedChallenge(&p.eph, r), m.Sig) {
				return steps, &mismatch{"prop", "handshake/own-proof-invalid", "the switch wrote an authSigMessage that is not its key's signature over the challenge of the two ephemeral keys of this session", i}
			}
		case "auth":
			sig, err := s.signature(p, a.SK, a.SC)
			if err != nil {
				return steps, &mismatch{kind: "infra", desc: err.Error(), step: i}
			}
			bz, err := encodeAuth(s.pub(a.Key), sig)
			if err != nil {
				return steps, &mismatch{kind: "infra", desc: err.Error(), step: i}
			}
			writeFramed(c, bz, w.v.Cut)
			// a switch that accepts the handshake goes on to write its NodeInfo
			_, rerr := readFrame(c)
			if ne, ok := rerr.(net.Error); ok && ne.Timeout() {
				return steps, &mismatch{kind: "infra", desc: "scripted peer: " + rerr.Error(), step: i}
			}
			if a.Res == "ok" {
				authKey = a.Key
				if rerr != nil {
					waitDial()
					return steps, &mismatch{"prop", "handshake/honest-rejected", fmt.Sprintf("the switch dropped a handshake the model accepts (key %s): %v", a.Key, dialErr), i}
				}
			} else if rerr == nil {
				return steps, &mismatch{"prop", "handshake/accepted-unauthenticated", fmt.Sprintf("the switch went on to the NodeInfo exchange after an authSigMessage (key %s) the model rejects", a.Key), i}
			}
		case "nodeinfo":
			claimed, ok := s.pub(a.Key).(crypto.PubKeyEd25519)
			if !ok {
				return steps, &mismatch{kind: "infra", desc: "NodeInfo can only present ed25519 keys", step: i}
			}
			ni := peerNodeInfo("scripted-peer")
			ni.PubKey = claimed
			nb, err := ser.EncodeToBytesWithType(ni)
			if err != nil {
				return steps, &mismatch{kind: "infra", desc: err.Error(), step: i}
			}
			writeFramed(c, nb, 0)
			if !waitDial() {
				return steps, &mismatch{kind: "infra", desc: "DialPeerWithAddress does not return", step: i}
			}
			n, key, id := registered()
			if a.Res == "peer" {
				if dialErr != nil || n != 1 || key == nil || !key.Equals(claimed) {
					return steps, &mismatch{"prop", "peer/honest-peer-refused", fmt.Sprintf("the peer proved possession of key %s and presents the same key in its NodeInfo; DialPeerWithAddress returned %v, %d peers registered", a.Key, dialErr, n), i}
				}
			} else if dialErr == nil || n != 0 {
				return steps, &mismatch{"prop", "peer/identity-unauthenticated", fmt.Sprintf("the peer proved possession of the private key of %s only, its NodeInfo presents the public key of %s (%v): DialPeerWithAddress returned %v and the switch registered the peer under that key (peer id %s) without any proof of possession", authKey, a.Key, claimed, dialErr, id), i}
			}
		case "break":
			if a.At == "eph" {
				s.malformedEph(p)
			} else {
				s.malformedAuth(p)
			}
		}
		if st.PC["T"] == "fail" {
			if !waitDial() {
				return steps, &mismatch{kind: "infra", desc: "DialPeerWithAddress does not return after a failed handshake", step: i}
			}
			if n, _, _ := registered(); dialErr == nil || n != 0 {
				return steps, &mismatch{"prop", "handshake/accepted-unauthenticated", fmt.Sprintf("DialPeerWithAddress returned %v with %d peers registered; the model rejects the handshake", dialErr, n), i}
			}
		}
	}
	c.Close()
	if !waitDial() {
		return steps, &mismatch{kind: "infra", desc: "DialPeerWithAddress does not return after the connection was closed", step: len(seq)}
	}
	return steps, nil
}
