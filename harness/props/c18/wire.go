package c18

// In-memory transports for the connections under test.
//
// memConn is a buffered, duplex, in-process net.Conn: writes never block, so a
// behaviour of the model (Write, Write, Read, ...) can be replayed step by step from
// one goroutine.  Options per direction:
//   - message mode (default): a Read never returns bytes of two different Writes
//     (like net.Pipe); stream mode: Reads coalesce like TCP;
//   - trickle: at most N bytes per Read (exercises io.ReadFull in the code);
//   - gate: the reader only sees the bytes released so far (the harness plays the
//     model's FIFO of packets in flight);
//   - nonblocking: a Read that would block returns errWouldBlock (sequential replay:
//     the model says data is available, so blocking means bytes were lost).

import (
	"errors"
	"io"
	"net"
	"sync"
	"time"
)

var errWouldBlock = errors.New("c18: read would block (no bytes in flight)")

type halfPipe struct {
	mu       sync.Mutex
	cond     *sync.Cond
	chunks   [][]byte // unread data, one entry per Write (message mode) or merged (stream mode)
	stream   bool
	maxRead  int
	gated    bool
	released int64 // absolute offset up to which the reader may read (gated only)
	nonblock bool
	wclosed  bool // writer closed: reader gets io.EOF after the data
	rclosed  bool // reader closed
	written  int64
	read     int64
	readFn   func(n int) int // optional: size limit per read (seeded random chunking)
}

func newHalfPipe() *halfPipe {
	h := &halfPipe{}
	h.cond = sync.NewCond(&h.mu)
	return h
}

func (h *halfPipe) write(p []byte) (int, error) {
	h.mu.Lock()
	defer h.mu.Unlock()
	if h.wclosed || h.rclosed {
		return 0, io.ErrClosedPipe
	}
	if len(p) == 0 {
		return 0, nil
	}
	b := append([]byte(nil), p...)
	if h.stream && len(h.chunks) > 0 {
		h.chunks[len(h.chunks)-1] = append(h.chunks[len(h.chunks)-1], b...)
	} else {
		h.chunks = append(h.chunks, b)
	}
	h.written += int64(len(p))
	h.cond.Broadcast()
	return len(p), nil
}

func (h *halfPipe) readInto(p []byte) (int, error) {
	h.mu.Lock()
	defer h.mu.Unlock()
	for {
		if h.rclosed {
			return 0, io.ErrClosedPipe
		}
		avail := 0
		if len(h.chunks) > 0 {
			avail = len(h.chunks[0])
			if h.gated {
				if lim := h.released - h.read; int64(avail) > lim {
					avail = int(lim)
				}
			}
		}
		if avail > 0 {
			if len(p) == 0 {
				return 0, nil
			}
			n := avail
			if n > len(p) {
				n = len(p)
			}
			if h.maxRead > 0 && n > h.maxRead {
				n = h.maxRead
			}
			if h.readFn != nil {
				if m := h.readFn(n); m >= 1 && m < n {
					n = m
				}
			}
			copy(p, h.chunks[0][:n])
			if n == len(h.chunks[0]) {
				h.chunks[0] = nil
				h.chunks = h.chunks[1:]
			} else {
				h.chunks[0] = h.chunks[0][n:]
			}
			h.read += int64(n)
			h.cond.Broadcast()
			return n, nil
		}
		if h.wclosed && len(h.chunks) == 0 {
			return 0, io.EOF
		}
		if h.nonblock {
			return 0, errWouldBlock
		}
		h.cond.Wait()
	}
}

// release lets the reader see n more bytes (gated pipes).
func (h *halfPipe) release(n int64) {
	h.mu.Lock()
	h.released += n
	h.cond.Broadcast()
	h.mu.Unlock()
}

func (h *halfPipe) counters() (written, read int64) {
	h.mu.Lock()
	defer h.mu.Unlock()
	return h.written, h.read
}

func (h *halfPipe) closeWrite() {
	h.mu.Lock()
	h.wclosed = true
	h.cond.Broadcast()
	h.mu.Unlock()
}

func (h *halfPipe) closeRead() {
	h.mu.Lock()
	h.rclosed = true
	h.chunks = nil
	h.cond.Broadcast()
	h.mu.Unlock()
}

func (h *halfPipe) set(f func(*halfPipe)) {
	h.mu.Lock()
	f(h)
	h.cond.Broadcast()
	h.mu.Unlock()
}

type memAddr string

func (a memAddr) Network() string { return "mem" }
func (a memAddr) String() string  { return string(a) }

// memConn is one end of the duplex connection.
type memConn struct {
	name string
	in   *halfPipe // what this end reads
	out  *halfPipe // what this end writes
}

func newMemPair() (a, b *memConn) {
	ab, ba := newHalfPipe(), newHalfPipe()
	return &memConn{"a", ba, ab}, &memConn{"b", ab, ba}
}

func (c *memConn) Read(p []byte) (int, error)  { return c.in.readInto(p) }
func (c *memConn) Write(p []byte) (int, error) { return c.out.write(p) }
func (c *memConn) Close() error {
	c.out.closeWrite()
	c.in.closeRead()
	return nil
}

// CloseWrite ends this end's output only; the peer reads io.EOF after the data in flight.
func (c *memConn) CloseWrite()                        { c.out.closeWrite() }
func (c *memConn) LocalAddr() net.Addr                { return memAddr("mem-" + c.name) }
func (c *memConn) RemoteAddr() net.Addr               { return memAddr("mem-peer-of-" + c.name) }
func (c *memConn) SetDeadline(t time.Time) error      { return nil }
func (c *memConn) SetReadDeadline(t time.Time) error  { return nil }
func (c *memConn) SetWriteDeadline(t time.Time) error { return nil }

// byteConn gives a connection a ReadByte method, so that ser.DecodeReaderWithType reads
// exactly the bytes of one value instead of wrapping the connection in a throw-away
// bufio.Reader (which would swallow whatever follows the value).
type byteConn struct{ io.Reader }

func (b byteConn) ReadByte() (byte, error) {
	var one [1]byte
	_, err := io.ReadFull(b.Reader, one[:])
	return one[0], err
}

// tcpPair returns the two ends of a loopback TCP connection.
func tcpPair() (net.Conn, net.Conn, error) {
	ln, err := net.Listen("tcp", "127.0.0.1:0")
	if err != nil {
		return nil, nil, err
	}
	defer ln.Close()
	type res struct {
		c   net.Conn
		err error
	}
	ch := make(chan res, 1)
	go func() {
		c, err := ln.Accept()
		ch <- res{c, err}
	}()
	c1, err := net.DialTimeout("tcp", ln.Addr().String(), 60*time.Second)
	if err != nil {
		return nil, nil, err
	}
	r := <-ch
	if r.err != nil {
		c1.Close()
		return nil, nil, r.err
	}
	return c1, r.c, nil
}

// ephBoundary wraps a connection so that the first 33 bytes read from it (the peer's
// ephemeral key message) are never returned together with what follows them.
//
// Reason: conn.shareEphPubKey decodes the ephemeral key with ser.DecodeReaderWithType
// directly on the raw connection; ser wraps a reader without ReadByte in a throw-away
// bufio.Reader, so on a transport that coalesces writes (TCP) the read that fetches the
// ephemeral key can also swallow the authSigMessage the peer sent right behind it, and
// the handshake then waits forever (until the deadline set by the caller).  That is a
// liveness defect of the handshake, outside the statement of C18; the harness reports it
// once (probeCoalescedHandshake) and keeps it from disturbing the other measurements.
type ephBoundary struct {
	net.Conn
	mu   sync.Mutex
	left int
}

func newEphBoundary(c net.Conn) *ephBoundary { return &ephBoundary{Conn: c, left: 33} }

func (e *ephBoundary) Read(p []byte) (int, error) {
	e.mu.Lock()
	left := e.left
	e.mu.Unlock()
	if left > 0 && len(p) > left {
		p = p[:left]
	}
	n, err := e.Conn.Read(p)
	if left > 0 {
		e.mu.Lock()
		e.left -= n
		e.mu.Unlock()
	}
	return n, err
}
