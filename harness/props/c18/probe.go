package c18

import (
	"fmt"
	"time"

	"github.com/lianxiangcloud/linkchain/libs/crypto"
	"github.com/lianxiangcloud/linkchain/libs/p2p/conn"
)

// probeCoalescedHandshake plays one legal schedule of a byte-stream transport between two
// honest, REAL MakeSecretConnection calls: A's incoming bytes are held back until B has
// written both its ephemeral key and (after reading A's) its authSigMessage, and are then
// delivered in one piece, as TCP may do.  shareEphPubKey decodes the ephemeral key through
// a throw-away bufio.Reader (ser wraps readers that have no ReadByte), which swallows the
// authSigMessage; A then waits for it forever.  This is a liveness defect of the handshake
// (the caller's deadline turns it into a failed dial); it is outside the statement of C18
// (nothing unauthenticated is accepted, no established connection loses bytes), so it is
// reported as drift, not as a violation.  Returns a description, or "" if A completed.
func probeCoalescedHandshake() (string, error) {
	ma, mb := newMemPair()
	defer ma.Close()
	defer mb.Close()
	ma.in.set(func(h *halfPipe) { h.stream, h.gated, h.released = true, true, 0 })
	type r struct {
		sc  *conn.SecretConnection
		err error
	}
	ra, rb := make(chan r, 1), make(chan r, 1)
	run := func(c *memConn, out chan r) {
		var res r
		defer func() {
			if p := recover(); p != nil {
				res.err = fmt.Errorf("panic: %v", p)
			}
			out <- res
		}()
		res.sc, res.err = conn.MakeSecretConnection(c, crypto.GenPrivKeyEd25519())
	}
	go run(ma, ra)
	go run(mb, rb)
	// B writes 33 bytes (ephemeral key) and then one frame (authSigMessage)
	deadline := time.Now().Add(20 * time.Second)
	for {
		if w, _ := ma.in.counters(); w > 33+5 {
			break
		}
		if time.Now().After(deadline) {
			return "", fmt.Errorf("side B never wrote its authSigMessage")
		}
		time.Sleep(time.Millisecond)
	}
	w, _ := ma.in.counters()
	ma.in.set(func(h *halfPipe) { h.gated = false })
	// B completes once A has answered; A must complete too
	select {
	case x := <-rb:
		if x.err != nil {
			return "", fmt.Errorf("side B failed: %v", x.err)
		}
	case <-time.After(20 * time.Second):
		return "", fmt.Errorf("side B did not complete")
	}
	select {
	case x := <-ra:
		if x.err != nil {
			return fmt.Sprintf("handshake between two honest parties failed on side A when B's ephemeral key and authSigMessage (%d bytes) arrived in one read: %v", w, x.err), nil
		}
		return "", nil
	case <-time.After(3 * time.Second):
		return fmt.Sprintf("handshake liveness (outside C18): when the peer's ephemeral key and its authSigMessage (%d bytes together) arrive in ONE read of a byte-stream transport, MakeSecretConnection waits forever for the authSigMessage although the peer sent it and completed its own handshake: shareEphPubKey decodes through a throw-away bufio.Reader that swallows the bytes following the key", w), nil
	}
}
