package c18

// The scripted peer: speaks the wire format of libs/p2p/conn with the same primitives
// the code uses (ser for the messages, snappy for the frame payload, sha256 of the
// sorted ephemeral keys for the challenge, the repo's crypto package for keys and
// signatures), but does whatever the behaviour under replay tells it to do.

import (
	"bytes"
	"crypto/sha256"
	"encoding/binary"
	"fmt"
	"io"

	"github.com/golang/snappy"
	"github.com/lianxiangcloud/linkchain/libs/crypto"
	"github.com/lianxiangcloud/linkchain/libs/ser"
)

const (
	frameMax      = 32 * 1024 // dataMaxSize of secret_connection.go
	frameHdr      = 5         // leading byte + 4 bytes length
	frameLeading  = 0xF0 | 0x0F
	frameCapacity = 65535
)

// authSig mirrors conn.authSigMessage (unexported there; the encoding is structural).
type authSig struct {
	Key crypto.PubKey
	Sig crypto.Signature
}

func writeEph(w io.Writer, e *[32]byte) error {
	_, err := ser.EncodeWriterWithType(w, e)
	return err
}

func readEph(r io.Reader) (e [32]byte, err error) {
	_, err = ser.DecodeReaderWithType(byteConn{r}, &e, 1024*1024)
	return
}

// sortedChallenge = genChallenge(sort32(a, b)) of the code.
func sortedChallenge(a, b *[32]byte) []byte {
	lo, hi := a, b
	if bytes.Compare(a[:], b[:]) >= 0 {
		lo, hi = b, a
	}
	h := sha256.New()
	h.Write(lo[:])
	h.Write(hi[:])
	return h.Sum(nil)
}

// rawChallenge hashes exactly the given keys in the given order (for signatures over a
// challenge that does not have the form the code derives).
func rawChallenge(keys ...*[32]byte) []byte {
	h := sha256.New()
	for _, k := range keys {
		h.Write(k[:])
	}
	return h.Sum(nil)
}

// frame builds one compressed frame around at most frameMax bytes.
func frame(chunk []byte) []byte {
	f := make([]byte, frameHdr+snappy.MaxEncodedLen(len(chunk)))
	f[0] = frameLeading
	n := len(snappy.Encode(f[frameHdr:], chunk))
	binary.BigEndian.PutUint32(f[1:], uint32(n))
	return f[:frameHdr+n]
}

// writeFramed writes data as a sequence of frames of at most cut bytes each (cut <= 0:
// the code's own cut at frameMax).
func writeFramed(w io.Writer, data []byte, cut int) error {
	if cut <= 0 || cut > frameMax {
		cut = frameMax
	}
	for len(data) > 0 {
		n := len(data)
		if n > cut {
			n = cut
		}
		if _, err := w.Write(frame(data[:n])); err != nil {
			return err
		}
		data = data[n:]
	}
	return nil
}

// readFrame reads one frame and returns its payload.
func readFrame(r io.Reader) ([]byte, error) {
	var hdr [frameHdr]byte
	if _, err := io.ReadFull(r, hdr[:]); err != nil {
		return nil, err
	}
	if hdr[0] != frameLeading {
		return nil, fmt.Errorf("unexpected leading byte %#x", hdr[0])
	}
	n := binary.BigEndian.Uint32(hdr[1:])
	if n > frameCapacity {
		return nil, fmt.Errorf("frame of %d bytes", n)
	}
	raw := make([]byte, n)
	if _, err := io.ReadFull(r, raw); err != nil {
		return nil, err
	}
	return snappy.Decode(nil, raw)
}

func encodeAuth(key crypto.PubKey, sig crypto.Signature) ([]byte, error) {
	return ser.EncodeToBytesWithType(authSig{key, sig})
}

// readAuth reads the authSigMessage an honest party wrote (one Write = one frame) and
// returns the decoded message together with its raw encoding (for replaying it verbatim).
func readAuth(r io.Reader) (authSig, []byte, error) {
	var m authSig
	p, err := readFrame(r)
	if err != nil {
		return m, nil, err
	}
	if err := ser.DecodeBytesWithType(p, &m); err != nil {
		return m, p, err
	}
	return m, p, nil
}
