// Package c18 checks property C18: peer connections deliver each channel's messages
// intact, in order, authenticated (libs/p2p/conn: SecretConnection, MConnection).
//
// Three TLA+ models, three bindings (see the file comments):
//
//	spec/MConn/Stream.tla        -> stream.go  replay of Write/Read chunkings on real SecretConnections
//	spec/MConn/MConn.tla         -> mux.go     replay of packet interleavings on a real receiving MConnection
//	spec/MConn/Trace_MConn.tla   -> mtrace.go  validation of traces of two real MConnections
//	spec/MConn/Writers.tla       -> writers.go replay of stalled writes / pings / sends on two real MConnections
//	spec/Handshake/Handshake.tla -> hs.go      replay of attacker behaviours on real MakeSecretConnection
package c18

import (
	"encoding/json"
	"fmt"
	"io/ioutil"
	"math/rand"
	"path/filepath"
	"sort"
	"strings"
	"sync"
	"time"

	"verifh/core"
	"verifh/mbt"
	"verifh/tlc"
)

func init() { core.Register("C18", run) }

const workers = 8

type edgeRec struct {
	Act json.RawMessage `json:"act"`
	To  json.RawMessage `json:"to"`
}

type replayRec struct {
	Part     string      `json:"part"` // stream | mconn | handshake
	Edges    []edgeRec   `json:"edges"`
	Variant  interface{} `json:"variant"`
	Seed     int64       `json:"seed"`
	PModel   int         `json:"p_model,omitempty"`
	Hon      []string    `json:"honest,omitempty"`
	Old      [][2]string `json:"old_sessions,omitempty"`
	Sched    []wrAct     `json:"sched,omitempty"`
	Mismatch string      `json:"mismatch"`
	Step     int         `json:"step"`
}

func edgesOf(g *mbt.Graph, seq []int) (out []edgeRec) {
	for _, ei := range seq {
		out = append(out, edgeRec{g.Edges[ei].Act, g.Edges[ei].ToSt})
	}
	return
}

func actsOf(g *mbt.Graph, seq []int, max int) (out []string) {
	for i, ei := range seq {
		if i >= max {
			out = append(out, "...")
			break
		}
		out = append(out, mbt.Compact(g.Edges[ei].Act))
	}
	return
}

// graphOf rebuilds a linear graph from a recorded behaviour (for --replay).
func graphOf(edges []edgeRec) (*mbt.Graph, []int) {
	g := &mbt.Graph{}
	var seq []int
	for i, e := range edges {
		g.Edges = append(g.Edges, mbt.Edge{From: i, To: i + 1, Act: e.Act, ToSt: e.To})
		seq = append(seq, i)
	}
	return g, seq
}

type checker struct {
	c  *core.Ctx
	mu sync.Mutex
	// measured
	behaviours int
	steps      int
	distinct   map[string]bool
	perPart    map[string]int
	driftSeen  map[string]bool
}

func (k *checker) count(part string, key string, steps int) {
	k.mu.Lock()
	k.behaviours++
	k.steps += steps
	k.distinct[part+"|"+key] = true
	k.perPart[part]++
	k.mu.Unlock()
}

func (k *checker) drift(key, msg string) {
	k.mu.Lock()
	seen := k.driftSeen[key]
	k.driftSeen[key] = true
	k.mu.Unlock()
	if !seen {
		k.c.Drift("%s", msg)
	}
}

func (k *checker) report(part string, m *mismatch, rec replayRec) {
	rec.Part, rec.Mismatch, rec.Step = part, m.desc, m.step
	switch m.kind {
	case "infra":
		k.c.Infra("%s replay: %s", part, m.desc)
	default:
		k.c.Violate(m.key, m.desc, rec)
	}
}

// retryInfra runs one replay; a result that is no verdict (a timeout of the harness: the
// machine stalled) is retried after a pause, a verdict or a clean run is returned at once.
func retryInfra(f func() *mismatch) *mismatch {
	var mm *mismatch
	for attempt := 0; attempt < 3; attempt++ {
		if mm = f(); mm == nil || mm.kind != "infra" {
			return mm
		}
		time.Sleep(time.Duration(2+3*attempt) * time.Second)
	}
	return mm
}

func parallel(n int, f func(i int)) {
	var wg sync.WaitGroup
	ch := make(chan int)
	for w := 0; w < workers; w++ {
		wg.Add(1)
		go func() {
			defer wg.Done()
			for i := range ch {
				f(i)
			}
		}()
	}
	for i := 0; i < n; i++ {
		ch <- i
	}
	close(ch)
	wg.Wait()
}

func seqKey(seq []int) string {
	var b strings.Builder
	for _, e := range seq {
		fmt.Fprintf(&b, "%d,", e)
	}
	return b.String()
}

// withSizes adds seeded sizes to the WSizes / RSizes sets of a Stream configuration.
func withSizes(cfg string, w, r []int) string {
	add := func(name string, xs []int) {
		s := ""
		for _, x := range xs {
			s += fmt.Sprintf("%d, ", x)
		}
		cfg = strings.Replace(cfg, name+" = {", name+" = {"+s, 1)
	}
	add("WSizes", w)
	add("RSizes", r)
	return cfg
}

func run(c *core.Ctx) {
	o := c.Out()
	o.Level = "model_checking"
	o.Rule = "behaviour = root-to-leaf path through a TLC-exported graph (Stream: Write/Read chunkings; MConn: channel/packet interleavings; Writers: sends, peer pings and stalled / released writes of one connection; Handshake: attacker moves) replayed on the real connection code under one concrete instantiation, or one direction of one recorded connection validated by Trace_MConn; non-trivial = at least one byte / packet / message crosses the real code; distinct = distinct (model, edge sequence, instantiation)"
	o.Assumptions = []string{
		"frame mode = the compiled-in default (snappy-compressed frames); sealed and raw modes are not selectable through the exported interface",
		"symbolic cryptography in the Handshake model: a signature verifies only under the signing key and the signed challenge",
		"the attacker cannot sign with an honest key; it sees and controls every message",
		"flush throttling, the ping / pong timers and rate limiting are not modelled (rate limiting switched off, nothing asserted on timing); the peer's pings, the pongs answering them and writes stalled by the transport are (Writers.tla)",
		"Writers.tla: the steps inside bufio.Writer.Write / Flush are atomic up to the call of conn.Write and after its return; a stalled write is cut at 0, 1, half or all but one of its bytes",
		"message sizes up to 7 packets, write/read sizes up to 100001 bytes plus seeded sizes",
	}
	o.Trusted = []string{"TLC", "ed25519 / secp256k1 / curve25519 / sha256 / snappy libraries", "libs/ser encoding (property C11)", "the in-memory, net.Pipe and TCP loopback transports"}
	k := &checker{c: c, distinct: map[string]bool{}, perPart: map[string]int{}, driftSeen: map[string]bool{}}

	if c.Replay != "" {
		runReplayFile(c, k)
		return
	}

	rng := rand.New(rand.NewSource(c.Seed))
	// seeded sizes for the Stream model (besides the fixed boundary values of the .cfg)
	wExtra := []int{2 + rng.Intn(32765), 32770 + rng.Intn(67000)}
	rExtra := []int{32770 + rng.Intn(67000), 2 + rng.Intn(32765)}
	if !c.Thorough() {
		wExtra, rExtra = wExtra[:1], rExtra[:1]
	}
	stCfgName := "Stream.cfg"
	mxCfg := "MConn.cfg"
	hsCfg := "Handshake.cfg"
	if c.Thorough() {
		stCfgName, mxCfg, hsCfg = "StreamBig.cfg", "MConnBig.cfg", "HandshakeBig.cfg"
	}
	stCfgText, err := ioutil.ReadFile(filepath.Join(c.SpecDir("MConn"), stCfgName))
	if err != nil {
		c.Infra("reading %s: %v", stCfgName, err)
		return
	}

	wrCfg := "Writers.cfg"
	if c.Thorough() {
		wrCfg = "WritersBig.cfg"
	}
	var stRes, mxRes, hsRes, wrRes *tlc.Result
	var twg sync.WaitGroup
	twg.Add(5)
	go func() {
		defer twg.Done()
		wrRes = c.TLC(tlc.Options{SpecDir: c.SpecDir("MConn"), Module: "Writers", Config: wrCfg, Workers: 1, Timeout: c.MinutesT(3, 15)})
	}()
	go func() {
		defer twg.Done()
		runWritersWhatIf(c, wrCfg)
	}()
	go func() {
		defer twg.Done()
		stRes = c.TLC(tlc.Options{SpecDir: c.SpecDir("MConn"), Module: "Stream", Config: "StreamSeeded.cfg", Workers: 1, Timeout: c.MinutesT(3, 15),
			Files: map[string][]byte{"StreamSeeded.cfg": []byte(withSizes(string(stCfgText), wExtra, rExtra))}})
	}()
	go func() {
		defer twg.Done()
		mxRes = c.TLC(tlc.Options{SpecDir: c.SpecDir("MConn"), Module: "MConn", Config: mxCfg, Workers: 1, Timeout: c.MinutesT(3, 15)})
	}()
	go func() {
		defer twg.Done()
		hsRes = c.TLC(tlc.Options{SpecDir: c.SpecDir("Handshake"), Module: "Handshake", Config: hsCfg, Workers: 1, Timeout: c.MinutesT(3, 15)})
	}()
	// meanwhile: record traces of real connection pairs
	tStart := time.Now()
	traces := recordTraces(c, k)
	c.SetExtra("trace_recording_seconds", time.Since(tStart).Seconds())
	twg.Wait()
	c.SetExtra("tlc_and_recording_seconds", time.Since(tStart).Seconds())

	exhaustive := true
	load := func(name string, res *tlc.Result) *mbt.Graph {
		if res == nil {
			exhaustive = false
			return nil
		}
		if res.Violated != "" || !res.Finished || res.TimedOut {
			c.Infra("%s model: %s\n%s", name, res.Describe(), res.Tail)
			exhaustive = false
			return nil
		}
		g, err := mbt.Load(res.Lines)
		if err != nil {
			c.Infra("%s: edge load: %v", name, err)
			return nil
		}
		c.SetExtra(name+"_states", len(g.States))
		c.SetExtra(name+"_edges", len(g.Edges))
		c.SetExtra(name+"_edges_by_action", g.ActionKinds("op"))
		return g
	}
	stG := load("stream", stRes)
	stRes = nil
	mxG := load("mconn", mxRes)
	mxRes = nil
	hsG := load("handshake", hsRes)
	hsRes = nil
	wrG := load("writers", wrRes)
	wrRes = nil
	c.SetExtra("stream_seeded_sizes", map[string][]int{"write": wExtra, "read": rExtra})

	// the recorded traces are validated by TLC while the replays run
	var vwg sync.WaitGroup
	vwg.Add(1)
	var traceSecs float64
	go func() {
		defer vwg.Done()
		ts := time.Now()
		validateTraces(c, k, traces)
		traceSecs = time.Since(ts).Seconds()
	}()
	phase := map[string]float64{}
	t0 := time.Now()
	lap := func(name string) {
		phase[name] = time.Since(t0).Seconds()
		t0 = time.Now()
	}
	if stG != nil {
		replayStream(c, k, stG)
	}
	lap("stream_replay")
	if mxG != nil {
		pModel := constInt(filepath.Join(c.SpecDir("MConn"), mxCfg), "P")
		if pModel <= 0 {
			c.Infra("cannot read P from %s", mxCfg)
		} else {
			replayMux(c, k, mxG, pModel)
		}
	}
	lap("mconn_replay")
	if wrG != nil {
		replayWriters(c, k, wrG)
	}
	lap("writers_replay")
	if hsG != nil {
		hon, old := hsConsts(filepath.Join(c.SpecDir("Handshake"), hsCfg))
		replayHandshake(c, k, hsG, hon, old)
	}
	lap("handshake_replay")
	vwg.Wait()
	phase["trace_validation_in_background"] = traceSecs
	c.SetExtra("phase_seconds", phase)

	if d, err := probeCoalescedHandshake(); err != nil {
		c.Infra("coalesced-handshake probe: %v", err)
	} else if d != "" {
		c.Drift("%s", d)
		c.SetExtra("handshake_overread_reproduced", true)
	} else {
		c.SetExtra("handshake_overread_reproduced", false)
	}
	o.Exhaustive = exhaustive
	o.Traces = k.behaviours
	o.Evaluations = k.steps
	o.Distinct = len(k.distinct)
	c.SetExtra("behaviours_by_part", k.perPart)
}

// constInt reads "NAME = <int>" from a configuration file.
func constInt(path, name string) int {
	b, err := ioutil.ReadFile(path)
	if err != nil {
		return 0
	}
	for _, l := range strings.Split(string(b), "\n") {
		f := strings.Fields(l)
		if len(f) == 3 && f[0] == name && f[1] == "=" {
			var v int
			fmt.Sscan(f[2], &v)
			return v
		}
	}
	return 0
}

// hsConsts reads Hon and OldSess from a Handshake configuration.
func hsConsts(path string) (hon []string, old [][2]string) {
	b, _ := ioutil.ReadFile(path)
	names := func(s string) (out []string) {
		for _, f := range strings.FieldsFunc(s, func(r rune) bool { return strings.ContainsRune(" {},=\"", r) }) {
			out = append(out, f)
		}
		return
	}
	for _, l := range strings.Split(string(b), "\n") {
		l = strings.TrimSpace(l)
		switch {
		case strings.HasPrefix(l, "Hon "), strings.HasPrefix(l, "Hon="):
			hon = names(l)[1:]
		case strings.HasPrefix(l, "OldSess"):
			n := names(l)[1:]
			for i := 0; i+1 < len(n); i += 2 {
				old = append(old, [2]string{n[i], n[i+1]})
			}
		}
	}
	return
}

// ---- Stream ----------------------------------------------------------------

type stVariant struct {
	Wire    string `json:"wire"`
	Content string `json:"content"`
	Dir     int    `json:"dir"`
}

func stVariantFor(i int) stVariant {
	return stVariant{Wire: stWires[i%len(stWires)], Content: stContents[(i/len(stWires))%len(stContents)], Dir: (i / 3) % 2}
}

func replayStream(c *core.Ctx, k *checker, g *mbt.Graph) {
	rng := rand.New(rand.NewSource(c.Seed*7 + 1))
	seqs := dagTours(g, rng)
	nTours := len(seqs)
	seqs = append(seqs, g.Walks(c.Pick(300, 3000), 12, rng)...)
	passes := c.Pick(1, 2)
	var bytesTotal int64
	var mu sync.Mutex
	sampled := false
	for pass := 0; pass < passes; pass++ {
		off := int(c.Seed)*5 + pass*7
		parallel(len(seqs), func(i int) {
			if len(seqs[i]) == 0 {
				return
			}
			v := stVariantFor(i + off)
			seed := c.Seed*1000003 + int64(i)
			var st stStats
			mm := retryInfra(func() (m *mismatch) {
				st, m = stReplay(g, seqs[i], v.Wire, v.Content, v.Dir, seed, false)
				return
			})
			k.count("stream", fmt.Sprintf("%v|%s", v, seqKey(seqs[i])), st.steps)
			mu.Lock()
			bytesTotal += st.bytes
			if !sampled && len(seqs[i]) >= 5 && mm == nil {
				sampled = true
				c.Sample(map[string]interface{}{"model": "Stream", "behaviour": actsOf(g, seqs[i], 10), "instantiation": v})
			}
			mu.Unlock()
			if st.drift != "" {
				k.drift("stream-read-size", "Stream ("+v.Wire+"): "+st.drift)
			}
			if mm != nil {
				k.report("stream", mm, replayRec{Edges: edgesOf(g, seqs[i]), Variant: v, Seed: seed})
			}
		})
	}
	c.SetExtra("stream_tour_behaviours", nTours)
	c.SetExtra("stream_bytes_through_real_connections", bytesTotal)
	// negative control: a wrong expectation must be noticed
	for i := range seqs {
		if len(seqs[i]) >= 4 {
			if _, mm := stReplay(g, seqs[i], "mem-message", "random", 0, 1, true); mm == nil || mm.kind != "prop" {
				c.Infra("vacuous binding: the Stream replay accepted a corrupted expectation")
			}
			break
		}
	}
}

// ---- MConn -----------------------------------------------------------------

func replayMux(c *core.Ctx, k *checker, g *mbt.Graph, pModel int) {
	rng := rand.New(rand.NewSource(c.Seed*7 + 2))
	seqs := dagTours(g, rng)
	nTours := len(seqs)
	seqs = append(seqs, g.Walks(c.Pick(300, 3000), 40, rng)...)
	sampled := false
	var mu sync.Mutex
	off := int(c.Seed) * 3
	parallel(len(seqs), func(i int) {
		if len(seqs[i]) == 0 {
			return
		}
		v := mxVariantFor(i + off)
		steps := 0
		mm := retryInfra(func() (m *mismatch) {
			steps, m = mxReplay(g, seqs[i], pModel, v, false)
			return
		})
		k.count("mconn", fmt.Sprintf("%d/%s/%d/%x|%s", v.Scale, v.Wire, v.RecvBuf, v.IDs, seqKey(seqs[i])), steps)
		mu.Lock()
		if !sampled && len(seqs[i]) >= 8 && mm == nil {
			sampled = true
			c.Sample(map[string]interface{}{"model": "MConn", "behaviour": actsOf(g, seqs[i], 14), "instantiation": v})
		}
		mu.Unlock()
		if mm != nil {
			k.report("mconn", mm, replayRec{Edges: edgesOf(g, seqs[i]), Variant: v, PModel: pModel})
		}
	})
	c.SetExtra("mconn_tour_behaviours", nTours)
	for i := range seqs {
		if hasDelivery(g, seqs[i]) {
			if _, mm := mxReplay(g, seqs[i], pModel, mxVariantFor(0), true); mm == nil || mm.kind != "prop" {
				c.Infra("vacuous binding: the MConn replay accepted a corrupted expectation")
			}
			break
		}
	}
}

func hasDelivery(g *mbt.Graph, seq []int) bool {
	for _, ei := range seq {
		var a mxAct
		json.Unmarshal(g.Edges[ei].Act, &a)
		if a.Op == "recv" && a.Deliver {
			return true
		}
	}
	return false
}

// ---- Handshake -------------------------------------------------------------

// withoutOp returns a view of the graph without the edges of one action.
func withoutOp(g *mbt.Graph, op string) *mbt.Graph {
	f := &mbt.Graph{States: g.States, Edges: g.Edges, Out: make([][]int, len(g.Out))}
	for s, outs := range g.Out {
		for _, ei := range outs {
			var a struct {
				Op string `json:"op"`
			}
			json.Unmarshal(g.Edges[ei].Act, &a)
			if a.Op != op {
				f.Out[s] = append(f.Out[s], ei)
			}
		}
	}
	return f
}

func replayHandshake(c *core.Ctx, k *checker, full *mbt.Graph, hon []string, old [][2]string) {
	rng := rand.New(rand.NewSource(c.Seed*7 + 3))
	// MakeSecretConnection level: everything but the NodeInfo step (replayed on a Switch below)
	g := withoutOp(full, "nodeinfo")
	seqs := dagTours(g, rng)
	nTours := len(seqs)
	seqs = append(seqs, g.Walks(c.Pick(300, 3000), 12, rng)...)
	passes := c.Pick(1, 2)
	// one world (long-term keys + recorded old sessions) per variant
	nVar := 60
	worlds := make([]*hsWorld, nVar)
	var wmu sync.Mutex
	world := func(i int) (*hsWorld, error) {
		wmu.Lock()
		defer wmu.Unlock()
		if worlds[i] == nil {
			w, err := newHsWorld(hsVariantFor(i), hon, old, rand.New(rand.NewSource(c.Seed*100+int64(i))))
			if err != nil {
				return nil, err
			}
			worlds[i] = w
		}
		// a world is used by one behaviour at a time only for its rng; give each user a copy with its own rng
		cp := *worlds[i]
		cp.rng = rand.New(rand.NewSource(c.Seed*100 + int64(i) + rand.Int63()))
		return &cp, nil
	}
	sampled := false
	var mu sync.Mutex
	accepted, rejected := 0, 0
	for pass := 0; pass < passes; pass++ {
		off := int(c.Seed)*11 + pass*13
		parallel(len(seqs), func(i int) {
			if len(seqs[i]) == 0 {
				return
			}
			vi := (i + off) % nVar
			w, err := world(vi)
			if err != nil {
				c.Infra("handshake world: %v", err)
				return
			}
			steps := 0
			mm := retryInfra(func() (m *mismatch) {
				steps, m = hsReplay(w, g, seqs[i], false)
				return
			})
			k.count("handshake", fmt.Sprintf("%d|%s", vi, seqKey(seqs[i])), steps)
			mu.Lock()
			for _, ei := range seqs[i] {
				var a hsAct
				json.Unmarshal(g.Edges[ei].Act, &a)
				if a.Op == "auth" && a.Res == "ok" {
					accepted++
				} else if a.Op != "eph" {
					rejected++
				}
			}
			if !sampled && len(seqs[i]) >= 4 && mm == nil {
				sampled = true
				c.Sample(map[string]interface{}{"model": "Handshake", "behaviour": actsOf(g, seqs[i], 8), "instantiation": w.v})
			}
			mu.Unlock()
			if mm != nil {
				k.report("handshake", mm, replayRec{Edges: edgesOf(g, seqs[i]), Variant: w.v, Hon: hon, Old: old, Seed: c.Seed})
			}
		})
	}
	// Switch level: the behaviours of party T alone that end with a NodeInfo
	paths := tOnlyPaths(full, "T", c.Pick(400, 4000))
	peerPass := c.Pick(1, 3)
	type found struct {
		mm   *mismatch
		rec  replayRec
		rank int
	}
	var finds []found
	for pass := 0; pass < peerPass; pass++ {
		parallel(len(paths), func(i int) {
			vi := (4 * (i + pass + int(c.Seed))) % nVar // variants whose keys are all ed25519 (NodeInfo.PubKey is ed25519)
			w, err := world(vi)
			if err != nil {
				c.Infra("handshake world: %v", err)
				return
			}
			steps := 0
			mm := retryInfra(func() (m *mismatch) {
				steps, m = peerReplay(w, full, paths[i])
				return
			})
			k.count("peer", fmt.Sprintf("%d|%s", vi, seqKey(paths[i])), steps)
			if mm != nil {
				// report the plainest instance of a key first: the attacker authenticates with its
				// own key and names an honest party's key
				rank := 2
				var auth, ni hsAct
				for _, ei := range paths[i] {
					var a hsAct
					json.Unmarshal(full.Edges[ei].Act, &a)
					if a.Op == "auth" {
						auth = a
					} else if a.Op == "nodeinfo" {
						ni = a
					}
				}
				if auth.Key == "M" && ni.Key == "H" {
					rank = 0
				} else if auth.Key == "M" {
					rank = 1
				}
				mu.Lock()
				finds = append(finds, found{mm, replayRec{Edges: edgesOf(full, paths[i]), Variant: w.v, Hon: hon, Old: old, Seed: c.Seed}, rank*100000 + len(paths[i])*1000 + i})
				mu.Unlock()
			} else if i == 0 && pass == 0 {
				c.Sample(map[string]interface{}{"model": "Handshake (Switch level)", "behaviour": actsOf(full, paths[i], 8), "instantiation": w.v})
			}
		})
	}
	sort.Slice(finds, func(i, j int) bool { return finds[i].rank < finds[j].rank })
	for _, f := range finds {
		k.report("peer", f.mm, f.rec)
	}
	c.SetExtra("peer_level_behaviours", len(paths))
	c.SetExtra("handshake_tour_behaviours", nTours)
	c.SetExtra("handshake_auth_messages_accepted_by_model", accepted)
	c.SetExtra("handshake_attacks_rejected_by_model", rejected)
	// negative control: flip the expected outcome of one authSigMessage
	for i := range seqs {
		has := false
		for _, ei := range seqs[i] {
			var a hsAct
			json.Unmarshal(g.Edges[ei].Act, &a)
			has = has || a.Op == "auth"
		}
		if has {
			w, err := world(0)
			if err == nil {
				if _, mm := hsReplay(w, g, seqs[i], true); mm == nil || mm.kind != "prop" {
					c.Infra("vacuous binding: the Handshake replay accepted a flipped expectation")
				}
			}
			break
		}
	}
}

// ---- traces ----------------------------------------------------------------

func recordTraces(c *core.Ctx, k *checker) []*trResult {
	ps := []int{1024, 32768, 16}
	wires := []string{"net.Pipe", "tcp", "mem-stream"}
	n := c.Pick(9, 150)
	msgs := c.Pick(50, 80)
	out := make([]*trResult, n)
	var wg sync.WaitGroup
	sem := make(chan struct{}, 4)
	for i := 0; i < n; i++ {
		wg.Add(1)
		go func(i int) {
			defer wg.Done()
			sem <- struct{}{}
			defer func() { <-sem }()
			j := i + int(c.Seed)
			v := trVariant{P: ps[i%len(ps)], Wire: wires[(j/3)%len(wires)], QCap: []int{1, 2, 10}[(j/2)%3], Msgs: msgs,
				IDs: mxIDSets[j%len(mxIDSets)], Prios: [][]int{{1, 1, 1, 1}, {1, 5, 10, 2}, {10, 1, 3, 7}}[j%3]}
			if v.P == 32768 {
				v.Msgs = msgs / 2
			}
			for attempt := 0; attempt < 3; attempt++ {
				out[i] = trRun(v, c.Seed*977+int64(i))
				if out[i].mm == nil || out[i].mm.kind != "infra" {
					break
				}
				time.Sleep(3 * time.Second)
			}
		}(i)
	}
	wg.Wait()
	return out
}

func validateTraces(c *core.Ctx, k *checker, traces []*trResult) {
	o := c.Out()
	byP := map[int][]*trResult{}
	sent, recvd, refused := 0, 0, 0
	for _, t := range traces {
		if t == nil {
			continue
		}
		if t.mm != nil {
			k.report("mconn-trace", t.mm, replayRec{Variant: t.v})
			if t.mm.kind != "prop" {
				continue
			}
		}
		byP[t.v.P] = append(byP[t.v.P], t)
		sent += t.sent[0] + t.sent[1]
		recvd += t.recvd[0] + t.recvd[1]
		refused += t.refused
	}
	c.SetExtra("trace_messages_sent", sent)
	c.SetExtra("trace_messages_received", recvd)
	c.SetExtra("trace_sends_refused", refused)
	runTrace := func(p int, data []byte) (consumed, lines int, res *tlc.Result, err error) {
		res, err = tlc.Run(tlc.Options{SpecDir: c.SpecDir("MConn"), Module: "Trace_MConn", Config: "TraceGen.cfg", Workers: 1, Timeout: c.MinutesT(3, 15),
			Files: map[string][]byte{"trace.ndjson": data, "TraceGen.cfg": trCfg(p, 4)}})
		if err != nil {
			return 0, 0, nil, err
		}
		consumed, lines = -1, -1
		for _, l := range res.Lines {
			var m struct {
				Consumed *int `json:"consumed"`
				Lines    *int `json:"lines"`
			}
			if json.Unmarshal([]byte(l), &m) == nil && m.Consumed != nil && m.Lines != nil {
				consumed, lines = *m.Consumed, *m.Lines
			}
		}
		return
	}
	var negSource []string
	negP := 0
	var wg sync.WaitGroup
	var amu sync.Mutex
	account := func(name string, res *tlc.Result) {
		amu.Lock()
		o.States += res.Distinct
		o.Transitions += res.Generated
		o.TLCRuns = append(o.TLCRuns, fmt.Sprintf("%s: %s", name, res.Describe()))
		amu.Unlock()
	}
	for p, ts := range byP {
		var parts [][]string
		var complete []bool
		var owner []*trResult
		for _, t := range ts {
			for d := 0; d < 2; d++ {
				parts = append(parts, t.lines[d])
				complete = append(complete, t.complete[d] && t.mm == nil)
				owner = append(owner, t)
				if negSource == nil && t.mm == nil && len(t.lines[d]) > 20 {
					negSource, negP = t.lines[d], p
				}
			}
		}
		wg.Add(1)
		go func(p int, parts [][]string, complete []bool, owner []*trResult) {
			defer wg.Done()
			data := trBundle(parts, complete)
			consumed, lines, res, err := runTrace(p, data)
			if err != nil || res == nil {
				c.Infra("trace validation (P=%d): %v", p, err)
				return
			}
			account(fmt.Sprintf("Trace_MConn P=%d (%d connections x 2 directions)", p, len(parts)/2), res)
			if consumed < 0 || !res.Finished {
				c.Infra("trace validation (P=%d) did not finish: %s\n%s\n%s", p, res.Describe(), res.ErrorText, res.Tail)
				return
			}
			if res.Violated != "" {
				// an invariant of MConn failed on a state reached by the trace
				c.Violate("mconn/trace-"+res.Violated, fmt.Sprintf("a recorded trace (P=%d) drives the MConn model into a state violating %s after %d lines", p, res.Violated, consumed), map[string]interface{}{"p": p, "lines_consumed": consumed})
				return
			}
			if consumed == lines {
				for i := range parts {
					k.count("mconn-trace", fmt.Sprintf("%d/%d", p, i), 0)
				}
				k.mu.Lock()
				k.steps += lines
				k.mu.Unlock()
				return
			}
			// the first line TLC could not explain
			all := strings.Split(strings.TrimSpace(string(data)), "\n")
			bad := all[consumed]
			idx := -1 // which connection / direction it belongs to
			for i, l := range all {
				if strings.Contains(l, `"e":"reset"`) {
					idx++
				}
				if i == consumed {
					break
				}
			}
			var v interface{}
			if idx >= 0 && idx < len(owner) {
				v = owner[idx].v
			}
			lo := consumed - 12
			if lo < 0 {
				lo = 0
			}
			c.Violate("mconn/trace-rejected", fmt.Sprintf("a trace recorded from two real MConnections is not a behaviour of the model: line %d cannot be explained: %s", consumed+1, bad),
				map[string]interface{}{"p": p, "connection": v, "first_unexplained_line": bad, "preceding_lines": all[lo:consumed]})
		}(p, parts, complete, owner)
	}
	// negative control
	if negSource == nil {
		if len(byP) > 0 {
			c.Infra("no trace long enough for the negative control")
		}
		wg.Wait()
		return
	}
	for name, f := range map[string]func([]string) []string{"swap two recv lines of one channel": trSwapRecv, "change one hash": trFlipHash} {
		bad := f(negSource)
		if bad == nil {
			c.Infra("negative control %q could not be built", name)
			continue
		}
		wg.Add(1)
		go func(name string, bad []string) {
			defer wg.Done()
			consumed, lines, res, err := runTrace(negP, trBundle([][]string{bad}, []bool{true}))
			if err != nil || res == nil || consumed < 0 {
				c.Infra("negative control %q: TLC did not run: %v", name, err)
				return
			}
			amu.Lock()
			o.TLCRuns = append(o.TLCRuns, fmt.Sprintf("Trace_MConn negative control (%s): consumed %d of %d lines", name, consumed, lines))
			amu.Unlock()
			if consumed == lines && res.Violated == "" {
				c.Infra("vacuous binding: Trace_MConn accepted a corrupted trace (%s)", name)
			}
		}(name, bad)
	}
	wg.Wait()
}

// ---- replay of a recorded violation ------------------------------------------

func runReplayFile(c *core.Ctx, k *checker) {
	b, err := ioutil.ReadFile(c.Replay)
	if err != nil {
		c.Infra("replay file: %v", err)
		return
	}
	var f struct {
		Record replayRec `json:"record"`
	}
	if err := json.Unmarshal(b, &f); err != nil {
		c.Infra("replay file: %v", err)
		return
	}
	r := f.Record
	g, seq := graphOf(r.Edges)
	vb, _ := json.Marshal(r.Variant)
	switch r.Part {
	case "stream":
		var v stVariant
		json.Unmarshal(vb, &v)
		st, mm := stReplay(g, seq, v.Wire, v.Content, v.Dir, r.Seed, false)
		k.count("stream", "replay", st.steps)
		if mm != nil {
			k.report("stream", mm, r)
		}
	case "mconn":
		var v mxVariant
		json.Unmarshal(vb, &v)
		steps, mm := mxReplay(g, seq, r.PModel, v, false)
		k.count("mconn", "replay", steps)
		if mm != nil {
			k.report("mconn", mm, r)
		}
	case "writers":
		var v wrVariant
		json.Unmarshal(vb, &v)
		steps, _, mm := wrReplay(r.Sched, v, false)
		k.count("writers", "replay", steps)
		if mm != nil {
			k.report("writers", mm, r)
		}
	case "handshake":
		var v hsVariant
		json.Unmarshal(vb, &v)
		w, err := newHsWorld(v, r.Hon, r.Old, rand.New(rand.NewSource(r.Seed)))
		if err != nil {
			c.Infra("replay: %v", err)
			return
		}
		steps, mm := hsReplay(w, g, seq, false)
		k.count("handshake", "replay", steps)
		if mm != nil {
			k.report("handshake", mm, r)
		}
	case "peer":
		var v hsVariant
		json.Unmarshal(vb, &v)
		w, err := newHsWorld(v, r.Hon, r.Old, rand.New(rand.NewSource(r.Seed)))
		if err != nil {
			c.Infra("replay: %v", err)
			return
		}
		steps, mm := peerReplay(w, g, seq)
		k.count("peer", "replay", steps)
		if mm != nil {
			k.report("peer", mm, r)
		}
	default:
		c.Infra("replay of part %q is not supported (recorded traces are not replayable)", r.Part)
	}
	o := c.Out()
	o.Traces, o.Evaluations, o.Distinct = k.behaviours, k.steps, len(k.distinct)
}
