// Package c06: see harness/ledger (shared Ledger binding).
package c06

import (
	"verifh/core"
	"verifh/ledger"
)

func init() { core.Register("C06", func(c *core.Ctx) { ledger.Run(c, "C06") }) }
