package c14

// The writer at the grain of ONE Group.Write call (spec/WAL/WAL.tla, GroupWrite / EncodeCuts).
//
// baseWAL.Write -> WALEncoder.Encode hands a record to the *autofile.Group in one or more
// Group.Write calls. The group's mutex is held per call, so the group's own goroutine
// (processTicks -> checkHeadSizeLimit -> RotateFile) can rotate between two calls of one
// Encode. This file
//   - probes how the code under test cuts a record into Group.Write calls (pi_shape, the
//     model's EncodeCuts),
//   - realises the model's "rotate between two Group.Write calls" on the real WAL:
//       hook   (the verif hook cmn.VerifPoint("group:write") at the top of (*Group).Write,
//               proposed_fixes/hook-c14-group-write.diff): baseWAL.Write itself is called and
//               Group.RotateFile runs from the hook before the chosen call takes the mutex;
//       tap    (while the hook is absent): the real WALEncoder writes into the real Group
//               through an io.Writer of the harness that calls Group.RotateFile before the
//               chosen call - what NewWAL wires (`NewWALEncoder(group)`) with the ticker's
//               part played in between; baseWAL.Write's three lines are by-passed,
//   - runs two deterministic / concurrent extras: every boundary of every record kind
//     (also records far larger than the model's), and a real rotator goroutine.

import (
	"fmt"
	"io/ioutil"
	"math/rand"
	"os"
	"path/filepath"
	"runtime"
	"sort"
	"strconv"
	"strings"
	"sync"
	"sync/atomic"
	"time"

	cs "github.com/lianxiangcloud/linkchain/consensus"
	auto "github.com/lianxiangcloud/linkchain/libs/autofile"
	cmn "github.com/lianxiangcloud/linkchain/libs/common"

	"verifh/core"
)

const (
	keyBetweenGroupWrites = "search/missed-marker/rotation-between-group-writes"
	keyConcurrentRotation = "search/missed-marker/concurrent-rotation"
	keyConcurrentStrict   = "strict/concurrent-rotation"
	groupWritePoint       = "group:write"
)

type gwBinding int

const (
	bindTap gwBinding = iota
	bindHook
)

// pendingProbe: what the boundary probe found (it runs while TLC does; see flushPending).
var (
	pendingMu    sync.Mutex
	pendingProbe *core.Violation
)

func flushPending(c *core.Ctx) {
	pendingMu.Lock()
	defer pendingMu.Unlock()
	if pendingProbe != nil {
		c.Violate(pendingProbe.Key, pendingProbe.Desc, pendingProbe.Record)
		pendingProbe = nil
	}
}

// gwMode: how a rotation between two Group.Write calls is realised (set once, before any replay).
var gwMode = bindTap

// hookMu orders the realisations that install cmn.VerifPointHook (a process-wide variable)
// with all the others: a realisation that rotates between group writes holds it exclusively,
// every other one shared. Only taken in hook mode.
var hookMu sync.RWMutex

// withSharedHook runs writes that must not be counted by a hook another goroutine installs.
func withSharedHook(f func()) {
	if gwMode == bindHook {
		hookMu.RLock()
		defer hookMu.RUnlock()
	}
	f()
}

// ---- how does the encoder cut a record into write calls? -------------------------------------

type sizeRecorder struct{ sizes []int }

func (r *sizeRecorder) Write(p []byte) (int, error) {
	r.sizes = append(r.sizes, len(p))
	return len(p), nil
}

// encodeCalls: the sizes of the Write calls the real WALEncoder makes for one record.
func encodeCalls(msg cs.WALMessage, t time.Time) ([]int, error) {
	rec := &sizeRecorder{}
	if err := cs.NewWALEncoder(rec).Encode(&cs.TimedWALMessage{Time: t, Msg: msg}); err != nil {
		return nil, err
	}
	return rec.sizes, nil
}

// boundaryCells: for every boundary between two write calls, the bytes handed over so far and
// the cell (1..8) the last of them belongs to. Empty calls make no boundary.
type boundary struct {
	Call  int // the rotation is placed before this call (1-based)
	Bytes int
	Cell  int
}

func boundaries(sizes []int) []boundary {
	total := 0
	for _, s := range sizes {
		total += s
	}
	var out []boundary
	cum := 0
	for j, s := range sizes {
		cum += s
		if j == len(sizes)-1 || cum == 0 || cum >= total || s == 0 {
			continue
		}
		out = append(out, boundary{Call: j + 2, Bytes: cum, Cell: cellOf(cum-1, total-8)})
	}
	return out
}

func cutsString(cells map[int]bool) string {
	var cs []int
	for c := range cells {
		cs = append(cs, c)
	}
	sort.Ints(cs)
	var s []string
	for _, c := range cs {
		s = append(s, strconv.Itoa(c))
	}
	return strings.Join(s, ",")
}

// probeEncodeCuts: the cells after which Encode ends a write call, for every record kind the
// replay writes (the model applies one EncodeCuts to every record: the cuts common to all of
// them) and, for the evidence and the boundary probe, for large block parts as well.
func probeEncodeCuts() (common string, perKind map[string][]int, nonUniform bool, err error) {
	perKind = map[string][]int{}
	var inter map[int]bool
	union := map[int]bool{}
	probe := func(name string, msg cs.WALMessage, small bool) error {
		sizes, err := encodeCalls(msg, nominalTime)
		if err != nil {
			return fmt.Errorf("%s: %v", name, err)
		}
		perKind[name] = sizes
		cells := map[int]bool{}
		for _, b := range boundaries(sizes) {
			cells[b.Cell] = true
			union[b.Cell] = true
		}
		if !small {
			return nil
		}
		if inter == nil {
			inter = cells
			return nil
		}
		for c := range inter {
			if !cells[c] {
				delete(inter, c)
			}
		}
		return nil
	}
	for _, h := range []uint64{0, 1, 1 << 62} {
		if err := probe(fmt.Sprintf("end-height(%d)", h), cs.EndHeightMessage{Height: h}, true); err != nil {
			return "", nil, false, err
		}
	}
	for k := 0; k < nKinds; k++ {
		if err := probe(kindNames[k], mkMsg(k, 1, 2, 1), true); err != nil {
			return "", nil, false, err
		}
	}
	for _, n := range bigPartSizes {
		if err := probe(fmt.Sprintf("block-part(%d bytes)", n), blockPartOfSize(n, 1, 2, 1), false); err != nil {
			return "", nil, false, err
		}
	}
	common = cutsString(inter)
	return common, perKind, cutsString(union) != common, nil
}

var bigPartSizes = []int{5000, 39000, 70000, 300000}

func (v writerVariant) tlaCuts() string { return "{" + strings.Replace(v.Cuts, ",", ", ", -1) + "}" }

// ---- is the hook there? -------------------------------------------------------------------------

// probeGroupWriteHook: does (*Group).Write announce itself through cmn.VerifPoint, and how many
// Group.Write calls does one baseWAL.Write make (must be what the encoder alone does)?
func probeGroupWriteHook(dir string) (present bool, callsPerWrite int, err error) {
	defer func() {
		cmn.VerifPointHook = nil
		if r := recover(); r != nil {
			err = fmt.Errorf("panic: %v", r)
		}
	}()
	d := filepath.Join(dir, "probe-hook")
	os.MkdirAll(d, 0700)
	defer os.RemoveAll(d)
	w, err := cs.NewWAL(filepath.Join(d, "wal"))
	if err != nil {
		return false, 0, err
	}
	n := 0
	cmn.VerifPointHook = func(name string) {
		if name == groupWritePoint {
			n++
		}
	}
	if err := w.Start(); err != nil { // OnStart: WriteSync(EndHeightMessage{0})
		return false, 0, err
	}
	atStart := n
	w.Write(mkMsg(0, 1, 2, 1))
	callsPerWrite = n - atStart
	w.Stop()
	w.Group().Head.Close()
	return atStart > 0, callsPerWrite, nil
}

// ---- one record with rotations between its group writes --------------------------------------

type gwTap struct {
	g   *auto.Group
	n   int
	rot map[int]bool
}

func (t *gwTap) Write(p []byte) (int, error) {
	t.n++
	if t.rot[t.n] {
		t.g.RotateFile()
	}
	return t.g.Write(p)
}

// planRotations maps the model's "rotate after cell c of the record" to the Group.Write call
// before which RotateFile has to run.
func planRotations(msg cs.WALMessage, rotAt []int, pick int) (rot map[int]bool, calls int, lastBytes int, err error) {
	sizes, err := encodeCalls(msg, time.Now())
	if err != nil {
		return nil, 0, 0, err
	}
	bs := boundaries(sizes)
	rot = map[int]bool{}
	for _, c := range rotAt {
		var cand []boundary
		for _, b := range bs {
			if b.Cell == c && !rot[b.Call] {
				cand = append(cand, b)
			}
		}
		if len(cand) == 0 {
			return nil, 0, 0, fmt.Errorf("the encoder makes calls of %v bytes for this record: no call ends in cell %d", sizes, c)
		}
		b := cand[pick%len(cand)]
		rot[b.Call] = true
		if b.Bytes > lastBytes {
			lastBytes = b.Bytes
		}
	}
	return rot, len(sizes), lastBytes, nil
}

// writeRotating = baseWAL.Write(msg) [+ Group.Flush] with Group.RotateFile between the chosen
// Group.Write calls. In hook mode the caller holds hookMu exclusively.
func writeRotating(w cs.WAL, msg cs.WALMessage, sync bool, rot map[int]bool, calls int) error {
	if gwMode == bindHook {
		n := 0
		cmn.VerifPointHook = func(name string) {
			if name != groupWritePoint {
				return
			}
			n++
			if rot[n] {
				w.Group().RotateFile() // the mutex is not yet taken by this Group.Write call
			}
		}
		func() {
			defer func() { cmn.VerifPointHook = nil }()
			if sync {
				w.WriteSync(msg)
			} else {
				w.Write(msg)
			}
		}()
		if n != calls {
			return fmt.Errorf("baseWAL.Write made %d Group.Write calls, the encoder alone makes %d", n, calls)
		}
		return nil
	}
	tap := &gwTap{g: w.Group(), rot: rot}
	if err := cs.NewWALEncoder(tap).Encode(&cs.TimedWALMessage{Time: time.Now(), Msg: msg}); err != nil {
		return err
	}
	if sync {
		return w.Group().Flush()
	}
	return nil
}

func bindingName() string {
	if gwMode == bindHook {
		return "hook: baseWAL.Write, Group.RotateFile called from cmn.VerifPoint(\"group:write\") at the top of (*Group).Write"
	}
	return "tap (hook absent): the real WALEncoder writing into the real Group through a writer of the harness that calls Group.RotateFile before the chosen Group.Write call; baseWAL.Write is by-passed for these records"
}

// ---- the compiled history ------------------------------------------------------------------------

// step: one call of the writer's own goroutine; a "write" carries what happens inside its Encode.
type step struct {
	Op    string
	S, H  int
	RotAt []int // cells of the record handed to the group when the group rotates between two of its Group.Write calls
}

func compileHist(hist []histAct) ([]step, error) {
	var out []step
	for _, a := range hist {
		mid := a.Op == "more" || (a.Op == "rotate" && a.S > 0)
		if !mid {
			out = append(out, step{Op: a.Op, S: a.S, H: a.H})
			continue
		}
		if len(out) == 0 || out[len(out)-1].Op != "write" {
			return nil, fmt.Errorf("history: %s outside a record", a.Op)
		}
		w := &out[len(out)-1]
		if a.Op == "rotate" {
			w.RotAt = append(w.RotAt, a.S)
		} else if a.S != 0 {
			w.S = a.S // the head buffer runs full inside a later call of the same record
		}
	}
	return out, nil
}

func hasMidRotation(hist []histAct) bool {
	for _, a := range hist {
		if a.Op == "rotate" && a.S > 0 {
			return true
		}
	}
	return false
}

// ---- extra 1: every boundary of every record kind (deterministic) ---------------------------

// checkUndamaged reads the group in dir back: the strict reader must yield exactly what was
// written, every marker must be found in both modes and the reader returned with it must yield
// what follows. Returns the first failure ("" = none) and what was observed.
func checkUndamaged(base, dir string, recs []int, written []cs.WALMessage, kinds []string, heights []uint64) (fail string, info map[string]interface{}, err error) {
	rl := &realLog{Recs: recs, Inst: &instance{}, Kind: kinds}
	for _, m := range written {
		rl.Written = append(rl.Written, cs.VerifWALDescribe(m))
	}
	if err := rl.load(dir); err != nil {
		return "", nil, err
	}
	rd, err := newReader(filepath.Join(base, "gw-read"), rl)
	if err != nil {
		return "", nil, err
	}
	defer rd.close()
	// observe takes abstract indices 0..len-1 for the heights: identity here
	ro, err := rd.observe(dcase{Kind: "none"}, rl.Stream, heights, false)
	if err != nil {
		return "", nil, err
	}
	info = map[string]interface{}{"file_sizes": rl.FileSize, "record_starts": rl.RecStart, "file_ends_in_cells": rl.Bounds,
		"a_file_starts_inside_a_record": rl.misaligned(), "strict_reader": seqString(ro.Strict)}
	var out []string
	for _, s := range ro.Search {
		out = append(out, fmt.Sprintf("h=%d ignore_corruption=%v: %s %s tail[%s]", heights[s.H], s.Ign, s.Res, s.Err, seqString(s.Tail)))
	}
	info["search"] = out
	n := len(recs)
	if ro.Panic != "" {
		return "strict reader panics: " + ro.Panic, info, nil
	}
	if len(ro.Strict) != n+1 || ro.Strict[n].K != "eof" {
		return fmt.Sprintf("the strict reader yields %s for %d written records", seqString(ro.Strict), n), info, nil
	}
	for i := 0; i < n; i++ {
		if ro.Strict[i].K != "msg" || ro.Strict[i].R != i+1 {
			return fmt.Sprintf("the strict reader yields %s for %d written records", seqString(ro.Strict), n), info, nil
		}
	}
	for _, s := range ro.Search {
		at := -1
		for r, h := range recs {
			if h >= 0 && heights[s.H] == markerHeight(written[r]) {
				at = r + 1
			}
		}
		if at < 0 {
			continue
		}
		if s.Res != "found" {
			return fmt.Sprintf("SearchForEndHeight(%d, ignore corruption=%v) = %s %s: the marker (record %d) was completely written and nothing is damaged", heights[s.H], s.Ign, s.Res, s.Err, at), info, nil
		}
		if len(s.Tail) != n-at+1 || s.Tail[len(s.Tail)-1].K != "eof" {
			return fmt.Sprintf("SearchForEndHeight(%d, ignore corruption=%v): the returned reader yields %s, %d records follow the marker", heights[s.H], s.Ign, seqString(s.Tail), n-at), info, nil
		}
		for i := 0; i < n-at; i++ {
			if s.Tail[i].K != "msg" || s.Tail[i].R != at+1+i {
				return fmt.Sprintf("SearchForEndHeight(%d, ignore corruption=%v): the returned reader yields %s, records %d.. follow the marker", heights[s.H], s.Ign, seqString(s.Tail), at+1), info, nil
			}
		}
	}
	return "", info, nil
}

func markerHeight(m cs.WALMessage) uint64 {
	if e, ok := m.(cs.EndHeightMessage); ok {
		return e.Height
	}
	return ^uint64(0)
}

// groupWriteBoundaryProbe: for every record kind (also block parts far larger than the head
// buffer) and every boundary between two Group.Write calls of its Encode, the log
//
//	EndHeight(0) | EndHeight(1) sync | <the record, the group rotating at that boundary> | EndHeight(next) sync | timeout
//
// is written with the real WAL and read back. Nothing to do where Encode makes one call.
func groupWriteBoundaryProbe(c *core.Ctx, base string) {
	result := map[string]interface{}{"binding": bindingName()}
	defer func() {
		if r := recover(); r != nil {
			result["panic"] = fmt.Sprint(r)
			c.Infra("group write boundary probe: panic: %v", r)
		}
		c.SetExtra("group_write_boundary_probe", result)
	}()
	type cand struct {
		name string
		msg  cs.WALMessage
	}
	var cands []cand
	cands = append(cands, cand{"end-height", cs.EndHeightMessage{Height: 2}})
	for k := 0; k < nKinds; k++ {
		cands = append(cands, cand{kindNames[k], mkMsg(k, 2, 2, c.Seed)})
	}
	for _, n := range bigPartSizes {
		cands = append(cands, cand{fmt.Sprintf("block-part(%d bytes)", n), blockPartOfSize(n, 2, 2, c.Seed)})
	}
	schedules, failed := 0, 0
	dir := filepath.Join(base, "gw-probe")
	defer os.RemoveAll(dir)
	for _, cd := range cands {
		sizes, err := encodeCalls(cd.msg, time.Now())
		if err != nil {
			c.Infra("group write boundary probe: %v", err)
			return
		}
		for _, b := range boundaries(sizes) {
			os.RemoveAll(dir)
			os.MkdirAll(dir, 0700)
			w, err := cs.NewWAL(filepath.Join(dir, "wal"))
			if err != nil {
				c.Infra("group write boundary probe: %v", err)
				return
			}
			var serr error
			withSharedHook(func() { serr = w.Start() })
			if serr != nil {
				c.Infra("group write boundary probe: %v", serr)
				return
			}
			tail := mkMsg(4, 4, 3, c.Seed)
			// (marker heights increase, as the node writes them)
			written := []cs.WALMessage{cs.EndHeightMessage{Height: 0}, cs.EndHeightMessage{Height: 1}, cd.msg, cs.EndHeightMessage{Height: 2}, tail}
			recs := []int{0, 1, -1, 2, -1}
			heights := []uint64{0, 1, 2}
			if _, ok := cd.msg.(cs.EndHeightMessage); ok {
				written[3] = cs.EndHeightMessage{Height: 3}
				recs = []int{0, 1, 2, 3, -1}
				heights = []uint64{0, 1, 2, 3}
			}
			withSharedHook(func() { w.WriteSync(written[1]) })
			if gwMode == bindHook {
				hookMu.Lock()
			}
			err = writeRotating(w, cd.msg, false, map[int]bool{b.Call: true}, len(sizes))
			if gwMode == bindHook {
				hookMu.Unlock()
			}
			withSharedHook(func() {
				w.WriteSync(written[3])
				w.Write(tail)
			})
			w.Stop()
			w.Group().Head.Close()
			if err != nil {
				c.Infra("group write boundary probe, %s: %v", cd.name, err)
				return
			}
			schedules++
			fail, info, err := checkUndamaged(base, dir, recs, written, []string{"end-height", "end-height", cd.name, "end-height", "timeout"}, heights)
			if err != nil {
				c.Infra("group write boundary probe, %s, rotation before call %d of %v: %v", cd.name, b.Call, sizes, err)
				return
			}
			if fail != "" {
				failed++
				info["kind"] = "groupwrite-probe"
				info["calls"] = fmt.Sprintf("NewWAL, Start, WriteSync(EndHeight{1}), Write(%s) = Group.Write calls of %v bytes with Group.RotateFile before call %d, WriteSync(EndHeight{next}), Write(timeout), Stop", cd.name, sizes, b.Call)
				info["binding"] = bindingName()
				// (reported after the replay: a replayed model behaviour, which records the files, goes first)
				pendingMu.Lock()
				if pendingProbe == nil {
					pendingProbe = &core.Violation{Key: keyBetweenGroupWrites, Record: info, Desc: fmt.Sprintf("undamaged log, the group rotated between two Group.Write calls of one record (%s: calls of %v bytes, rotation after %d bytes): %s; files %v bytes, record starts %v",
						cd.name, sizes, b.Bytes, fail, info["file_sizes"], info["record_starts"])}
				}
				pendingMu.Unlock()
			}
		}
	}
	result["schedules"] = schedules
	result["schedules_with_unfindable_markers_or_lost_records"] = failed
	c.AddTraces(schedules)
}

// ---- extra 2: a real rotator goroutine ----------------------------------------------------------

// concurrentRotationProbe: one goroutine writes heights (vote, block part, WriteSync(EndHeight))
// through baseWAL.Write in a tight loop, another calls Group.RotateFile; nothing stands between
// the encoder and the group. The schedule is the Go scheduler's: what it shows is probabilistic
// (a rotation lands between two Group.Write calls of a record about once in a hundred when the
// encoder makes two calls), what it reports is not: the log is undamaged, so every marker must
// be found and the strict reader must yield the written sequence.
func concurrentRotationProbe(c *core.Ctx, base string, rounds, rotations int) {
	result := map[string]interface{}{}
	defer func() {
		if r := recover(); r != nil {
			result["panic"] = fmt.Sprint(r)
			c.Infra("concurrent rotation probe: panic: %v", r)
		}
		c.SetExtra("concurrent_rotation_probe", result)
	}()
	dir := filepath.Join(base, "gw-conc")
	defer os.RemoveAll(dir)
	var perRound []map[string]interface{}
	for round := 0; round < rounds; round++ {
		os.RemoveAll(dir)
		os.MkdirAll(dir, 0700)
		w, err := cs.NewWAL(filepath.Join(dir, "wal"))
		if err != nil {
			c.Infra("concurrent rotation probe: %v", err)
			return
		}
		if gwMode == bindHook {
			hookMu.RLock()
		}
		unlock := func() {
			if gwMode == bindHook {
				hookMu.RUnlock()
			}
		}
		if err := w.Start(); err != nil {
			unlock()
			c.Infra("concurrent rotation probe: %v", err)
			return
		}
		var progress, stop, writerDone int64
		var written []cs.WALMessage
		written = append(written, cs.EndHeightMessage{Height: 0})
		// (the same vote and block part for every height: building messages would only widen the
		// part of the writer's loop in which no rotation can land inside a record)
		v := mkMsg(0, 1, 1, c.Seed+int64(round))
		p := mkMsg(3, 2, 1, c.Seed+int64(round))
		var wg sync.WaitGroup
		wg.Add(1)
		var writerPanic, rotatorPanic interface{}
		go func() {
			defer wg.Done()
			defer atomic.StoreInt64(&writerDone, 1)
			defer func() { writerPanic = recover() }()                           // (baseWAL.Write panics when the group reports an error)
			for h := uint64(1); atomic.LoadInt64(&stop) == 0 && h <= 1500; h++ { // (reading back is quadratic)
				e := cs.EndHeightMessage{Height: h}
				w.Write(v)
				atomic.AddInt64(&progress, 1)
				w.Write(p)
				atomic.AddInt64(&progress, 1)
				w.Write(e) // (not WriteSync: the window between two group writes is what matters, not the fsync)
				atomic.AddInt64(&progress, 1)
				written = append(written, v, p, e)
			}
		}()
		done := 0
		seen := int64(0)
		spins := 0
		rng := rand.New(rand.NewSource(c.Seed*7 + int64(round)))
		var sink uint64
		func() {
			defer func() { rotatorPanic = recover() }()
			for done < rotations && spins < 50000000 && atomic.LoadInt64(&writerDone) == 0 {
				// rotate only after the writer has moved on (the writer's progress is the clock), a
				// random few hundred nanoseconds later: RotateFile takes long enough for the writer to
				// be waiting at the start of a record whenever it returns
				if p := atomic.LoadInt64(&progress); p > seen {
					for i, k := 0, rng.Intn(4000); i < k; i++ {
						sink += uint64(i)
					}
					w.Group().Head.Size() // as checkHeadSizeLimit does before it rotates (opens the head file if it is not open)
					w.Group().RotateFile()
					seen = atomic.LoadInt64(&progress)
					done++
				} else {
					spins++
					if spins%256 == 0 {
						runtime.Gosched() // let the writer run on a loaded machine
					}
				}
			}
		}()
		_ = sink
		atomic.StoreInt64(&stop, 1)
		wg.Wait()
		unlock()
		func() {
			defer func() { recover() }()
			w.Stop()
			w.Group().Head.Close()
		}()
		if writerPanic != nil || rotatorPanic != nil {
			// not what this property is about (nothing was read back): noted, the probe ends here
			result["panic_while_writing"] = trunc(fmt.Sprint("Write: ", writerPanic, " RotateFile: ", rotatorPanic), 400)
			c.Drift("concurrent rotation probe: the writer side panicked (Write: %s; RotateFile: %s)", trunc(fmt.Sprint(writerPanic), 200), trunc(fmt.Sprint(rotatorPanic), 200))
			return
		}
		// sampled markers: 0 (every file is searched, each reader running to the end of the group:
		// quadratic, which is what bounds the number of rotations) and the last one
		last := uint64(len(written)-1) / 3
		heights := []uint64{0}
		for _, h := range []uint64{last} {
			if h >= 1 && h != heights[len(heights)-1] {
				heights = append(heights, h)
			}
		}
		fail, info, err := checkUndamagedLarge(dir, written, heights)
		r := map[string]interface{}{"rotations": done, "records_written": len(written)}
		for k, v := range info {
			r[k] = v
		}
		perRound = append(perRound, r)
		result["rounds"] = perRound
		if err != nil {
			c.Infra("concurrent rotation probe: %v", err)
			return
		}
		c.AddTraces(1)
		if fail != "" {
			r["kind"] = "concurrent"
			r["calls"] = "goroutine A: loop { Write(vote); Write(block part); Write(EndHeight{h}) } ; goroutine B: Group().RotateFile() each time A has moved on"
			key := keyConcurrentRotation
			if !strings.HasPrefix(fail, "SearchForEndHeight") {
				key = keyConcurrentStrict // the strict reader does not yield the written sequence
			}
			c.Violate(key, fmt.Sprintf("undamaged log written by one goroutine while another called Group.RotateFile %d times: %s", done, fail), r)
			return
		}
		if n, _ := info["files_beginning_inside_a_record"].(int); n > 0 {
			return // the window was hit and the property held: nothing more to learn from another round
		}
	}
}

// checkUndamagedLarge: as checkUndamaged, for a log of thousands of records over a hundred
// files (no byte-wise bookkeeping: messages are compared by their description).
func checkUndamagedLarge(dir string, written []cs.WALMessage, heights []uint64) (fail string, info map[string]interface{}, err error) {
	info = map[string]interface{}{}
	w, err := cs.NewWAL(filepath.Join(dir, "wal"))
	if err != nil {
		return "", info, err
	}
	defer w.Group().Head.Close()
	g := w.Group()
	info["files_in_group"] = g.MaxIndex() - g.MinIndex() + 1
	// how many files begin inside a record (pi_shape: what makes the search fail)
	inside := 0
	fis, err := ioutil.ReadDir(dir)
	if err != nil {
		return "", info, err
	}
	var names []string
	for _, fi := range fis {
		if fi.Name() != "wal" {
			names = append(names, fi.Name())
		}
	}
	sort.Strings(names)
	names = append(names, "wal")
	off, next := 0, 0 // next: offset of the next record start
	for _, nm := range names {
		b, err := ioutil.ReadFile(filepath.Join(dir, nm))
		if err != nil {
			if nm == "wal" && os.IsNotExist(err) {
				continue
			}
			return "", info, err
		}
		if len(b) > 0 && off != next {
			inside++
		}
		// walk the records that start in this file (headers that straddle files are followed byte-wise)
		for next < off+len(b) {
			if next+8 > off+len(b) {
				// header straddles the boundary: read the rest from a strict pass instead
				next = -1
				break
			}
			p := next - off
			l := int(uint32(b[p+4])<<24 | uint32(b[p+5])<<16 | uint32(b[p+6])<<8 | uint32(b[p+7]))
			next += 8 + l
		}
		if next < 0 {
			break
		}
		off += len(b)
	}
	if next < 0 {
		info["files_beginning_inside_a_record"] = "not counted (a header straddles two files)"
	} else {
		info["files_beginning_inside_a_record"] = inside
	}
	// the strict reader
	gr, err := g.NewReader(g.MinIndex())
	if err != nil {
		return "", info, err
	}
	dec := cs.NewWALDecoder(gr)
	for i := 0; ; i++ {
		m, err := dec.Decode()
		if err != nil {
			gr.Close()
			if errKind(err) != "eof" || i != len(written) {
				return fmt.Sprintf("the strict reader ends with %q after %d of %d records", err.Error(), i, len(written)), info, nil
			}
			break
		}
		if i >= len(written) || cs.VerifWALDescribe(m.Msg) != cs.VerifWALDescribe(written[i]) {
			gr.Close()
			return fmt.Sprintf("output %d of the strict reader is not record %d as written", i+1, i+1), info, nil
		}
	}
	var out []string
	for _, h := range heights {
		for _, ign := range []bool{false, true} {
			sgr, found, err := w.SearchForEndHeight(h, &cs.WALSearchOptions{IgnoreDataCorruptionErrors: ign})
			out = append(out, fmt.Sprintf("h=%d ignore_corruption=%v: found=%v err=%v", h, ign, found, err))
			info["search"] = out
			if !found {
				if sgr != nil {
					sgr.Close()
				}
				return fmt.Sprintf("SearchForEndHeight(%d, ignore corruption=%v) = found false, err %v: the marker was completely written and nothing is damaged", h, ign, err), info, nil
			}
			// catchupReplay reads on from here: the next record is the first one of height h+1
			m, derr := cs.NewWALDecoder(sgr).Decode()
			sgr.Close()
			idx := 0 // index in written of the record after marker h
			if h > 0 {
				idx = int(3 * h)
			}
			idx++
			if idx < len(written) {
				if derr != nil || cs.VerifWALDescribe(m.Msg) != cs.VerifWALDescribe(written[idx]) {
					return fmt.Sprintf("SearchForEndHeight(%d, ignore corruption=%v): the returned reader does not yield the record written after the marker (err %v)", h, ign, derr), info, nil
				}
			}
		}
	}
	return "", info, nil
}
