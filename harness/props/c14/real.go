package c14

// Realisation of the model's writer behaviours on the real consensus WAL
// (consensus.NewWAL / baseWAL.Write / WriteSync / Group.Flush / Group.RotateFile /
// Stop) and the byte <-> cell mapping between a real log and spec/WAL/WAL.tla.

import (
	"bytes"
	"encoding/binary"
	"fmt"
	"hash/crc32"
	"io/ioutil"
	"math/rand"
	"os"
	"path/filepath"
	"sort"
	"time"

	cs "github.com/lianxiangcloud/linkchain/consensus"
	cstypes "github.com/lianxiangcloud/linkchain/consensus/types"
	"github.com/lianxiangcloud/linkchain/libs/common"
	"github.com/lianxiangcloud/linkchain/libs/crypto"
	"github.com/lianxiangcloud/linkchain/libs/crypto/merkle"
	"github.com/lianxiangcloud/linkchain/libs/ser"
	"github.com/lianxiangcloud/linkchain/types"
)

const (
	headBufSize = 4096 * 10   // libs/autofile/group.go OpenGroup: bufio.NewWriterSize(head, 4096*10)
	maxMsgSize  = 1024 * 1024 // consensus/wal.go maxMsgSizeBytes
	cellsPerRec = 9
)

var crcTable = crc32.MakeTable(crc32.Castagnoli)

// ---- the model's vocabulary -------------------------------------------------

type histAct struct {
	Op string `json:"op"`
	S  int    `json:"s"`
	H  int    `json:"h"`
}

// cellOf maps the index of a byte inside a record (payload length L) to its cell 1..9.
func cellOf(idx, L int) int {
	switch {
	case idx == 0:
		return 1
	case idx <= 2:
		return 2
	case idx == 3:
		return 3
	case idx == 4:
		return 4
	case idx <= 6:
		return 5
	case idx == 7:
		return 6
	case idx == 8:
		return 7
	case idx < 8+L-1:
		return 8
	default:
		return 9
	}
}

// splitBytes lists the byte counts k (bytes of the record that reach the file in the
// first flush) that fall into split class s for a record with payload length L.
func splitBytes(s, L int) []int {
	switch s {
	case 1:
		return []int{1}
	case 2:
		return []int{2, 3}
	case 3:
		return []int{4}
	case 4:
		return []int{5}
	case 5:
		return []int{6, 7}
	case 6:
		return []int{8}
	case 7:
		return []int{9}
	case 8:
		return []int{10, 8 + L/2, 8 + L - 3} // (the record may come out a byte or two shorter than estimated)
	}
	return nil
}

// ---- concrete messages --------------------------------------------------------

const nKinds = 7

var kindNames = []string{"vote-prevote", "vote-precommit-nil", "proposal", "block-part", "timeout", "round-state", "block-part-large"}

func detBytes(n int, seed int64) []byte {
	r := rand.New(rand.NewSource(seed))
	b := make([]byte, n)
	r.Read(b)
	return b
}

func mkSig(seed int64) crypto.Signature { return crypto.SignatureEd25519FromBytes(detBytes(64, seed)) }

// mkMsg builds record payloads of every kind the node hands to its WAL
// (consensus/state.go: newStep -> EventDataRoundState; receiveRoutine -> msgInfo of
// proposal / block part / vote messages, timeoutInfo).
func mkMsg(kind int, idx int, height uint64, seed int64) cs.WALMessage {
	s := seed*131 + int64(idx)
	ts := time.Unix(1600000000+int64(idx), int64(idx)*1000).UTC()
	switch kind {
	case 0:
		v := &types.Vote{ValidatorAddress: detBytes(20, s), ValidatorIndex: idx % 4, ValidatorSize: 4, Height: height, Round: idx % 3,
			Timestamp: ts, Type: types.VoteTypePrevote, Signature: mkSig(s)}
		v.BlockID = types.BlockID{Hash: common.BytesToHash(detBytes(32, s+1)), PartsHeader: types.PartSetHeader{Total: 3, Hash: detBytes(20, s+2)}}
		return cs.VerifWALMsgInfo(&cs.VoteMessage{Vote: v}, fmt.Sprintf("peer-%x", detBytes(4, s)))
	case 1:
		v := &types.Vote{ValidatorAddress: detBytes(20, s), ValidatorIndex: idx % 4, ValidatorSize: 4, Height: height, Round: 1 << 20,
			Timestamp: ts, Type: types.VoteTypePrecommit, Signature: mkSig(s)}
		return cs.VerifWALMsgInfo(&cs.VoteMessage{Vote: v}, "") // own vote: empty peer id
	case 2:
		p := &types.Proposal{Height: height, Round: idx % 2, Timestamp: ts, BlockPartsHeader: types.PartSetHeader{Total: 1 + idx, Hash: detBytes(20, s)},
			POLRound: -1, Signature: mkSig(s)}
		return cs.VerifWALMsgInfo(&cs.ProposalMessage{Proposal: p}, "")
	case 3:
		part := &types.Part{Index: idx, Bytes: detBytes(60+int(s%40), s), Proof: merkle.SimpleProof{Aunts: [][]byte{detBytes(20, s+3), detBytes(20, s+4)}}}
		return cs.VerifWALMsgInfo(&cs.BlockPartMessage{Height: height, Round: 0, Part: part}, fmt.Sprintf("peer-%x", detBytes(4, s)))
	case 4:
		return cs.VerifWALTimeout(cs.VerifTimeout{Duration: time.Duration(1000+idx) * time.Millisecond, Height: height, Round: idx % 3, Step: cstypes.RoundStepPropose})
	case 5:
		return types.EventDataRoundState{Height: height, Round: idx % 3, Step: "RoundStepPrevote"}
	default:
		part := &types.Part{Index: idx, Bytes: detBytes(300+int(s%300), s)}
		return cs.VerifWALMsgInfo(&cs.BlockPartMessage{Height: height, Round: 0, Part: part}, "p")
	}
}

func blockPartOfSize(m int, idx int, height uint64, seed int64) cs.WALMessage {
	part := &types.Part{Index: idx, Bytes: detBytes(m, seed*977+int64(idx))}
	return cs.VerifWALMsgInfo(&cs.BlockPartMessage{Height: height, Round: 0, Part: part}, "filler")
}

var nominalTime = time.Unix(1790000000, 500000000)

// recSizeAt is the size of the record baseWAL.Write produces for msg when it takes the time
// stamp t. libs/ser encodes the nanoseconds as a variable-length integer, so the size of
// a record depends on when it is written; the sizes that matter are therefore computed
// with the clock at the moment of the write (and the resulting layout is verified).
func recSizeAt(msg cs.WALMessage, t time.Time) int {
	return 8 + len(ser.MustEncodeToBytes(&cs.TimedWALMessage{Time: t, Msg: msg}))
}

func recSize(msg cs.WALMessage) int { return recSizeAt(msg, nominalTime) }

// fillerOfRecSize finds a block part message whose record has exactly the given size.
func fillerOfRecSize(size int, idx int, height uint64, seed int64, t time.Time) (cs.WALMessage, bool) {
	m := size - 120
	if m < 1 {
		return nil, false
	}
	for tries := 0; tries < 400; tries++ {
		msg := blockPartOfSize(m, idx, height, seed)
		got := recSizeAt(msg, t)
		if got == size {
			return msg, true
		}
		if got > size {
			if got-size > m-1 {
				return nil, false
			}
			m -= got - size
		} else {
			m += size - got
		}
	}
	return nil, false
}

// ---- instantiation of one abstract log -----------------------------------------

type instance struct {
	Seed   int64
	Base   uint64 // concrete height of marker h >= 1 is Base + h ; marker 0 is 0
	Kinds  []int  // per record (1-based index-1): kind of a plain message
	SplitK []int  // per record: 0, or how many bytes of it reach the file when the buffer runs full
	Sync   []bool // per record: write+flush pairs are issued as WriteSync
}

func (in *instance) height(h int) uint64 {
	if h <= 0 {
		return 0
	}
	return in.Base + uint64(h)
}

var heightBases = []uint64{0, 254, 65534, 1<<32 - 2, 1 << 62, 1<<64 - 16}

// ---- a realised log ---------------------------------------------------------------

type realLog struct {
	Recs     []int
	Hist     []histAct
	Inst     *instance
	Kind     []string // per record
	Written  []string // VerifWALDescribe of what was handed to Write
	Stream   []byte   // concatenation of the files, oldest first
	RecStart []int    // len n+1
	Payload  [][]byte
	Times    []time.Time
	FileSize []int // bytes per file, oldest first (head last)
	FileName []string
	Bounds   []int // cell offsets of the file ends (without the head), as the model counts them
	MidRot   int   // records written with the group rotating between two Group.Write calls of their Encode
	byLoad   map[string]int
}

func (rl *realLog) n() int { return len(rl.Recs) }

// cellsKept: how many cells the model counts for a log cut after off bytes.
func (rl *realLog) cellsKept(off int) int {
	r := sort.Search(rl.n(), func(i int) bool { return rl.RecStart[i+1] > off })
	if r == rl.n() {
		return cellsPerRec * rl.n()
	}
	k := off - rl.RecStart[r]
	if k == 0 {
		return cellsPerRec * r
	}
	return cellsPerRec*r + cellOf(k-1, len(rl.Payload[r]))
}

// cellAt: the cell (1-based, over the whole log) byte b belongs to, and its record (0-based).
func (rl *realLog) cellAt(b int) (cell, rec int) {
	r := sort.Search(rl.n(), func(i int) bool { return rl.RecStart[i+1] > b })
	return cellsPerRec*r + cellOf(b-rl.RecStart[r], len(rl.Payload[r])), r
}

type writerVariant struct {
	FlushOnRotate bool
	TornTailIsEOF bool
	Cuts          string // the model's EncodeCuts, "6" = {6}: cells after which WALEncoder.Encode ends a Group.Write call ("" = one call per record)
}

// realise executes the writer actions of one model behaviour on the real WAL in dir
// and reads the resulting files back.
func realise(dir string, recs []int, hist []histAct, in *instance, variant writerVariant) (rl *realLog, err error) {
	defer func() {
		if r := recover(); r != nil {
			err = fmt.Errorf("panic while writing: %v", r)
		}
	}()
	os.RemoveAll(dir)
	if err := os.MkdirAll(dir, 0700); err != nil {
		return nil, err
	}
	path := filepath.Join(dir, "wal")
	rl = &realLog{Recs: recs, Hist: hist, Inst: in}
	var w interface {
		cs.WAL
	}
	closeWAL := func() {
		if w != nil {
			w.Stop()
			w.Group().Head.Close() // stops the AutoFile ticker
			w = nil
		}
	}
	defer closeWAL()
	// concrete messages, decided up front (the size of a filler depends on what follows)
	n := len(recs)
	msgs := make([]cs.WALMessage, n)
	for i, h := range recs {
		if h >= 0 {
			msgs[i] = cs.EndHeightMessage{Height: in.height(h)}
			rl.Kind = append(rl.Kind, "end-height")
		} else {
			msgs[i] = mkMsg(in.Kinds[i], i, in.height(1)+uint64(i), in.Seed)
			rl.Kind = append(rl.Kind, kindNames[in.Kinds[i]])
		}
	}
	steps, err := compileHist(hist)
	if err != nil {
		return nil, err
	}
	if gwMode == bindHook {
		// cmn.VerifPointHook is process-wide: a realisation that installs it runs alone
		if hasMidRotation(hist) {
			hookMu.Lock()
			defer hookMu.Unlock()
		} else {
			hookMu.RLock()
			defer hookMu.RUnlock()
		}
	}
	ri := 0
	buffered := 0 // bytes in Group.headBuf
	for ai := 0; ai < len(steps); ai++ {
		a := steps[ai]
		switch a.Op {
		case "open":
			nw, err := cs.NewWAL(path)
			if err != nil {
				return nil, err
			}
			w = nw
			if err := w.Start(); err != nil { // OnStart writes EndHeightMessage{0} into an empty head
				return nil, err
			}
			if a.H == 0 {
				ri++
			}
			buffered = 0
		case "write":
			if ai+1 < len(steps) && steps[ai+1].Op == "write" && steps[ai+1].S != 0 {
				// the next record is to be split after SplitK bytes: make this one fill the buffer up to there
				want := headBufSize - in.SplitK[ri+1] - buffered
				f, ok := fillerOfRecSize(want, ri, in.height(1)+uint64(ri), in.Seed, time.Now())
				if !ok {
					return nil, fmt.Errorf("no filler of record size %d", want)
				}
				msgs[ri] = f
				rl.Kind[ri] = "block-part-filler"
			}
			sync := in.Sync[ri] && a.S == 0 && ai+1 < len(steps) && steps[ai+1].Op == "flush"
			switch {
			case len(a.RotAt) > 0:
				// the group rotates between two Group.Write calls of this record's Encode
				rot, calls, lastBytes, err := planRotations(msgs[ri], a.RotAt, int(in.Seed)+ri)
				if err != nil {
					return nil, err
				}
				if err := writeRotating(w, msgs[ri], sync, rot, calls); err != nil {
					return nil, err
				}
				rl.MidRot++
				buffered = recSizeAt(msgs[ri], time.Now()) - lastBytes // (RotateFile flushed what had been handed over)
				if sync {
					ai++
					buffered = 0
				}
			case sync:
				w.WriteSync(msgs[ri]) // = Write ; Group.Flush
				ai++
				buffered = 0
			default:
				w.Write(msgs[ri])
				sz := recSizeAt(msgs[ri], time.Now())
				if a.S != 0 {
					buffered = sz - in.SplitK[ri]
				} else {
					buffered += sz
				}
			}
			ri++
		case "flush":
			if err := w.Group().Flush(); err != nil {
				return nil, err
			}
			buffered = 0
		case "rotate":
			w.Group().RotateFile()
			if variant.FlushOnRotate {
				buffered = 0
			}
		case "close":
			closeWAL()
			buffered = 0
		default:
			return nil, fmt.Errorf("history: unknown writer action %q", a.Op)
		}
	}
	closeWAL()
	for _, m := range msgs {
		rl.Written = append(rl.Written, cs.VerifWALDescribe(m))
	}
	if err := rl.load(dir); err != nil {
		return nil, err
	}
	return rl, nil
}

// load reads the files of the group in dir and parses the record framing.
func (rl *realLog) load(dir string) error {
	fis, err := ioutil.ReadDir(dir)
	if err != nil {
		return err
	}
	var rotated []string
	for _, fi := range fis {
		if fi.Name() != "wal" {
			rotated = append(rotated, fi.Name())
		}
	}
	sort.Strings(rotated) // wal.000 < wal.001 < ...
	names := append(rotated, "wal")
	rl.Stream, rl.FileSize, rl.FileName = nil, nil, nil
	for _, nm := range names {
		b, err := ioutil.ReadFile(filepath.Join(dir, nm))
		if err != nil {
			if nm == "wal" && os.IsNotExist(err) {
				b = nil // rotated and never written again
			} else {
				return err
			}
		}
		rl.Stream = append(rl.Stream, b...)
		rl.FileSize = append(rl.FileSize, len(b))
		rl.FileName = append(rl.FileName, nm)
	}
	return rl.parse()
}

// parse splits the stream into records (and, where known, checks them against what was written).
func (rl *realLog) parse() error {
	rl.RecStart, rl.Payload, rl.Times = []int{0}, nil, nil
	rl.byLoad = map[string]int{}
	p := 0
	for p < len(rl.Stream) {
		if p+8 > len(rl.Stream) {
			return fmt.Errorf("undamaged log ends inside a header at %d", p)
		}
		l := int(binary.BigEndian.Uint32(rl.Stream[p+4:]))
		if p+8+l > len(rl.Stream) {
			return fmt.Errorf("undamaged log ends inside a record at %d", p)
		}
		pay := rl.Stream[p+8 : p+8+l]
		if crc32.Checksum(pay, crcTable) != binary.BigEndian.Uint32(rl.Stream[p:]) {
			return fmt.Errorf("undamaged log: checksum of record %d does not match", len(rl.Payload))
		}
		var tm cs.TimedWALMessage
		if err := ser.DecodeBytes(pay, &tm); err != nil {
			return fmt.Errorf("undamaged log: record %d does not decode: %v", len(rl.Payload), err)
		}
		i := len(rl.Payload)
		if rl.Written != nil { // (not known when a recorded log is replayed)
			if i >= len(rl.Written) {
				return fmt.Errorf("more records on disk than written")
			}
			if got := cs.VerifWALDescribe(tm.Msg); got != rl.Written[i] {
				return fmt.Errorf("record %d on disk is %q, written %q", i, trunc(got, 120), trunc(rl.Written[i], 120))
			}
		}
		if re := ser.MustEncodeToBytes(&tm); !bytes.Equal(re, pay) {
			return fmt.Errorf("record %d does not re-encode to its payload", i)
		}
		rl.byLoad[string(pay)] = i
		rl.Payload = append(rl.Payload, pay)
		rl.Times = append(rl.Times, tm.Time)
		p += 8 + l
		rl.RecStart = append(rl.RecStart, p)
	}
	if len(rl.Payload) != len(rl.Recs) {
		return fmt.Errorf("%d records on disk, %d written", len(rl.Payload), len(rl.Recs))
	}
	rl.Bounds = nil
	off := 0
	for i := 0; i < len(rl.FileSize)-1; i++ {
		off += rl.FileSize[i]
		rl.Bounds = append(rl.Bounds, rl.cellsKept(off))
	}
	return nil
}

func trunc(s string, n int) string {
	if len(s) > n {
		return s[:n] + "..."
	}
	return s
}

func sameInts(a, b []int) bool {
	if len(a) != len(b) {
		return false
	}
	for i := range a {
		if a[i] != b[i] {
			return false
		}
	}
	return true
}
