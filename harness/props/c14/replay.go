package c14

// Damage of a realised log (every cut offset, every byte flipped), reading it back
// through the real group reader / WALDecoder / SearchForEndHeight, and comparison
// with what spec/WAL/WAL.tla computed for the damage class.

import (
	"bytes"
	"encoding/binary"
	"fmt"
	"io"
	"io/ioutil"
	"os"
	"path/filepath"
	"runtime"
	"strings"

	cs "github.com/lianxiangcloud/linkchain/consensus"
	"github.com/lianxiangcloud/linkchain/libs/ser"
)

type dmgT struct {
	K string `json:"k"`
	C int    `json:"c"`
	E string `json:"e"`
	J int    `json:"j"`
}

func (d dmgT) key() string { return fmt.Sprintf("%s/%d/%s/%d", d.K, d.C, d.E, d.J) }

type outT struct {
	K string `json:"k"` // msg | eof | torn | plain | corrupt
	R int    `json:"r"` // 1-based record index of a message
}
type sresT struct {
	Res string `json:"res"` // found | notfound | err
	At  int    `json:"at"`
}
type searchT struct {
	H    int     `json:"h"`
	Ign  bool    `json:"ign"`
	Must string  `json:"must"` // found | notfound | any
	Res  []sresT `json:"res"`
}
type obsT struct {
	Strict []outT    `json:"strict"`
	Search []searchT `json:"search"`
	Tails  [][]outT  `json:"tails"`
}

// one concrete damage
type dcase struct {
	Kind  string // none | cut | flip
	Off   int    // cut: bytes kept ; flip: byte index
	Mask  byte
	First bool // flip: the first mask tried on this byte
}

func (d dcase) String() string {
	switch d.Kind {
	case "cut":
		return fmt.Sprintf("cut after %d bytes", d.Off)
	case "flip":
		return fmt.Sprintf("byte %d xor 0x%02x", d.Off, d.Mask)
	}
	return "undamaged"
}

// classify maps a concrete damage to the model's damage class.
func (rl *realLog) classify(d dcase) dmgT {
	switch d.Kind {
	case "none":
		return dmgT{K: "none", E: "-"}
	case "cut":
		return dmgT{K: "cut", C: rl.cellsKept(d.Off), E: "-"}
	}
	cell, r := rl.cellAt(d.Off)
	out := dmgT{K: "flip", C: cell, E: "-"}
	idx := d.Off - rl.RecStart[r]
	if idx < 4 || idx > 7 {
		return out
	}
	var lb [4]byte
	copy(lb[:], rl.Stream[rl.RecStart[r]+4:rl.RecStart[r]+8])
	lb[idx-4] ^= d.Mask
	L, L2 := len(rl.Payload[r]), int(binary.BigEndian.Uint32(lb[:]))
	dataStart := rl.RecStart[r] + 8
	switch {
	case L2 > maxMsgSize:
		out.E = "huge"
	case L2 == 0:
		out.E = "zero"
	case L2 > len(rl.Stream)-dataStart:
		out.E = "beyond"
	case L2 < L:
		out.E = "lost"
	default:
		out.E = "lost"
		for j := r + 2; j <= rl.n(); j++ { // 0-based start index j = model record j+1
			if dataStart+L2 == rl.RecStart[j] {
				out.E, out.J = "resync", j+1
			}
		}
	}
	return out
}

// headerDistance: how far byte b is from the start of its record.
func (rl *realLog) headerDistance(b int) int {
	_, r := rl.cellAt(b)
	return b - rl.RecStart[r]
}

// intactPrefix: the number of records wholly before the damage (computed from the bytes,
// independently of the model).
func (rl *realLog) intactPrefix(d dcase) int {
	switch d.Kind {
	case "cut":
		k := 0
		for k < rl.n() && rl.RecStart[k+1] <= d.Off {
			k++
		}
		return k
	case "flip":
		_, r := rl.cellAt(d.Off)
		return r
	}
	return rl.n()
}

// ---- reading the damaged log with the real code --------------------------------------

type maxReader struct {
	r   io.Reader
	max int
}

func (m *maxReader) Read(p []byte) (int, error) {
	if len(p) > m.max {
		m.max = len(p)
	}
	return m.r.Read(p)
}

type realSearch struct {
	H     int
	Ign   bool
	Res   string
	Err   string
	Tail  []outT
	Alloc uint64
	Panic string
}

type realObs struct {
	Strict []outT
	Detail []string // what was decoded where it was not the expected record
	MaxReq int
	Search []realSearch
	Panic  string
}

type reader struct {
	dir   string
	rl    *realLog
	w     cs.WAL
	names []string
	dirty []bool // per file: its content is not the original
}

func newReader(dir string, rl *realLog) (*reader, error) {
	os.RemoveAll(dir)
	if err := os.MkdirAll(dir, 0700); err != nil {
		return nil, err
	}
	rd := &reader{dir: dir, rl: rl, names: rl.FileName}
	if err := rd.put(rl.Stream, -1, -1); err != nil {
		return nil, err
	}
	w, err := cs.NewWAL(filepath.Join(dir, "wal")) // not started: it only serves readers
	if err != nil {
		return nil, err
	}
	rd.w = w
	return rd, nil
}

func (rd *reader) close() {
	if rd.w != nil {
		rd.w.Group().Head.Close()
	}
	os.RemoveAll(rd.dir)
}

// put lays the (damaged) stream out over the files exactly as the group had them. Bytes
// from chLo on differ from the original (up to chHi; chHi < 0: everything from chLo on);
// files that hold the original bytes already are left alone.
func (rd *reader) put(stream []byte, chLo, chHi int) error {
	if rd.dirty == nil {
		rd.dirty = make([]bool, len(rd.names))
		for i := range rd.dirty {
			rd.dirty[i] = true
		}
	}
	off := 0
	for i, nm := range rd.names {
		lo, hi := off, off+rd.rl.FileSize[i]
		off = hi
		orig := chLo >= hi || (chHi >= 0 && chHi <= lo) || chLo < 0
		if orig && !rd.dirty[i] {
			continue
		}
		rd.dirty[i] = !orig
		if lo > len(stream) {
			lo = len(stream)
		}
		if hi > len(stream) {
			hi = len(stream)
		}
		if err := ioutil.WriteFile(filepath.Join(rd.dir, nm), stream[lo:hi], 0600); err != nil {
			return err
		}
	}
	return nil
}

// changed: the byte range in which the damaged stream differs from the original.
func (d dcase) changed() (int, int) {
	switch d.Kind {
	case "cut":
		return d.Off, -1
	case "flip":
		return d.Off, d.Off + 1
	}
	return -1, -1
}

func errKind(err error) string {
	switch {
	case err == io.EOF:
		return "eof"
	case cs.IsDataCorruptionError(err):
		if strings.Contains(err.Error(), "failed to decode") {
			return "corrupt-decode" // pi_shape: the model compares the checksum before it decodes
		}
		return "corrupt"
	case err == io.ErrUnexpectedEOF || (strings.HasPrefix(err.Error(), "failed to read") && strings.HasSuffix(err.Error(), ": EOF")):
		return "torn" // the group ended inside the record
	}
	return "plain"
}

// decodeAll runs the strict reader over r: messages are identified by their payload.
func (rl *realLog) decodeAll(r io.Reader, first int, detail *[]string) (out []outT, maxReq int) {
	mr := &maxReader{r: r}
	dec := cs.NewWALDecoder(mr)
	for i := 0; i <= rl.n()+2; i++ {
		m, err := dec.Decode()
		if err != nil {
			out = append(out, outT{K: errKind(err)})
			return out, mr.max
		}
		id := -1
		if m != nil {
			enc := ser.MustEncodeToBytes(m)
			want := first + i // 0-based record expected here
			if want < rl.n() && bytes.Equal(enc, rl.Payload[want]) {
				id = want
			} else if j, ok := rl.byLoad[string(enc)]; ok {
				id = j
			}
			if id != want && detail != nil {
				*detail = append(*detail, fmt.Sprintf("output %d: %s", i+1, trunc(cs.VerifWALDescribe(m.Msg), 160)))
			}
		}
		out = append(out, outT{K: "msg", R: id + 1})
	}
	return out, mr.max
}

func (rd *reader) observe(d dcase, stream []byte, heights []uint64, measureAlloc bool) (*realObs, error) {
	lo, hi := d.changed()
	if err := rd.put(stream, lo, hi); err != nil {
		return nil, err
	}
	ro := &realObs{}
	gr, err := rd.w.Group().NewReader(0)
	if err != nil {
		return nil, err
	}
	func() {
		defer func() {
			if r := recover(); r != nil {
				ro.Panic = trunc(fmt.Sprint(r), 300)
			}
		}()
		ro.Strict, ro.MaxReq = rd.rl.decodeAll(gr, 0, &ro.Detail)
	}()
	gr.Close()
	var ms runtime.MemStats
	for h, H := range heights {
		for _, ign := range []bool{false, true} {
			rs := realSearch{H: h, Ign: ign}
			func() {
				defer func() {
					if r := recover(); r != nil {
						rs.Panic = trunc(fmt.Sprint(r), 300)
					}
				}()
				var before uint64
				if measureAlloc {
					runtime.ReadMemStats(&ms)
					before = ms.TotalAlloc
				}
				sgr, found, err := rd.w.SearchForEndHeight(H, &cs.WALSearchOptions{IgnoreDataCorruptionErrors: ign})
				if measureAlloc {
					runtime.ReadMemStats(&ms)
					rs.Alloc = ms.TotalAlloc - before
				}
				if sgr != nil {
					defer sgr.Close()
				}
				switch {
				case found:
					rs.Res = "found"
					if sgr == nil {
						rs.Res, rs.Err = "err", "found without a reader"
					} else {
						// consensus/replay.go catchupReplay: decode on from the returned reader
						rs.Tail, _ = rd.rl.decodeTail(sgr)
					}
				case err != nil:
					rs.Res, rs.Err = "err", err.Error()
				default:
					rs.Res = "notfound"
				}
			}()
			ro.Search = append(ro.Search, rs)
		}
	}
	return ro, nil
}

// decodeTail: strict reading after a found marker; the first message tells where we are.
func (rl *realLog) decodeTail(r io.Reader) ([]outT, int) {
	dec := cs.NewWALDecoder(r)
	var out []outT
	first := -1
	for i := 0; i <= rl.n()+2; i++ {
		m, err := dec.Decode()
		if err != nil {
			out = append(out, outT{K: errKind(err)})
			break
		}
		id := -1
		if j, ok := rl.byLoad[string(ser.MustEncodeToBytes(m))]; ok {
			id = j
		}
		if first < 0 {
			first = id
		}
		out = append(out, outT{K: "msg", R: id + 1})
	}
	return out, first
}

// ---- comparison ------------------------------------------------------------------------

type verdict struct {
	Key   string // violation key ("" = none)
	Desc  string
	Drift string // pi_shape mismatch
}

func seqString(s []outT) string {
	var b []string
	for _, o := range s {
		if o.K == "msg" {
			b = append(b, fmt.Sprintf("Msg(%d)", o.R))
		} else {
			b = append(b, o.K)
		}
	}
	return strings.Join(b, " ")
}

func sameSeq(a, b []outT) bool {
	if len(a) != len(b) {
		return false
	}
	for i := range a {
		if a[i] != b[i] {
			return false
		}
	}
	return true
}

// misaligned: some file of the group that holds data starts inside a record.
func (rl *realLog) misaligned() bool {
	for _, b := range rl.Bounds {
		if b%cellsPerRec != 0 && b < cellsPerRec*rl.n() {
			return true
		}
	}
	return false
}

// compare checks the real observation of one damaged log: pi_prop against the
// property (independently recomputed where possible) and against the model's
// expectation, pi_shape against the model's exact prediction.
func (rl *realLog) compare(d dcase, cls dmgT, exp *obsT, ro *realObs, searchAllocBound uint64) verdict {
	n := rl.n()
	// ---- the strict reader: prefix of what was written, then end / error
	k := rl.intactPrefix(d)
	if len(exp.Strict) != k+1 {
		return verdict{Drift: fmt.Sprintf("model expects %d messages, the bytes say %d intact records (%s)", len(exp.Strict)-1, k, d)}
	}
	got := ro.Strict
	if ro.MaxReq > maxMsgSize {
		return verdict{Key: "strict/unbounded-read", Desc: fmt.Sprintf("%s: the decoder asked its reader for %d bytes at once (limit %d)", d, ro.MaxReq, maxMsgSize)}
	}
	if ro.Panic != "" {
		return verdict{Key: "strict/panic", Desc: fmt.Sprintf("%s: reading the log back panics: %s", d, ro.Panic)}
	}
	// every message returned must be the next written one (identified by its bytes) ...
	m := 0
	for i, o := range got {
		if o.K != "msg" {
			break
		}
		if i >= n || o.R != i+1 {
			what := "a message that was not written"
			if o.R >= 1 {
				what = fmt.Sprintf("written record %d out of place", o.R)
			}
			return verdict{Key: "strict/not-a-prefix", Desc: fmt.Sprintf("%s: output %d of the decoder is %s; sequence: %s; %s", d, i+1, what, seqString(got), strings.Join(ro.Detail, "; "))}
		}
		m++
	}
	if len(got) == 0 || got[len(got)-1].K == "msg" {
		return verdict{Key: "strict/no-end", Desc: fmt.Sprintf("%s: the decoder keeps returning messages: %s", d, seqString(got))}
	}
	end := got[len(got)-1].K
	// ... none of the records before the damage may be missing ...
	if m < k {
		key := "strict/lost-messages"
		if end == "eof" {
			key = "strict/silent-end"
		}
		return verdict{Key: key, Desc: fmt.Sprintf("%s: %d intact records precede the damage but the decoder returned %d and then %s", d, k, m, end)}
	}
	// ... and where written records are not replayed, an altered byte must be reported
	// (after a cut the log simply ends: end-of-log and an error are both fine)
	if m < n && end == "eof" && d.Kind != "cut" {
		return verdict{Key: "strict/silent-end", Desc: fmt.Sprintf("%s: the decoder reports a clean end of log after %d of %d messages although no byte is missing", d, m, n)}
	}
	if d.Kind == "none" && end != "eof" {
		return verdict{Key: "strict/undamaged-error", Desc: fmt.Sprintf("undamaged log: the decoder ends with %s after %d messages", end, m)}
	}
	// ---- SearchForEndHeight
	if len(ro.Search) != len(exp.Search) {
		return verdict{Drift: "number of search queries"}
	}
	cause := "damage-" + d.Kind
	switch {
	case rl.misaligned() && hasMidRotation(rl.Hist):
		cause = "rotation-between-group-writes" // = keyBetweenGroupWrites
	case rl.misaligned():
		cause = "rotation-inside-record"
	case d.Kind == "cut" && cls.C%cellsPerRec != 0:
		cause = "torn-tail"
	}
	exq := map[string]searchT{}
	for _, q := range exp.Search {
		exq[fmt.Sprint(q.H, q.Ign)] = q
	}
	var drift string
	for _, rs := range ro.Search {
		q, ok := exq[fmt.Sprint(rs.H, rs.Ign)]
		if !ok {
			return verdict{Drift: "search query missing in the model output"}
		}
		mode := "strict"
		if rs.Ign {
			mode = "ignore-corruption"
		}
		where := fmt.Sprintf("%s, SearchForEndHeight(%d [abstract %d], %s)", d, rl.Inst.height(rs.H), rs.H, mode)
		if rs.Panic != "" {
			return verdict{Key: "search/panic", Desc: fmt.Sprintf("%s panics: %s", where, rs.Panic)}
		}
		if searchAllocBound > 0 && rs.Alloc > searchAllocBound {
			return verdict{Key: "search/alloc", Desc: fmt.Sprintf("%s allocated %d bytes (bound %d)", where, rs.Alloc, searchAllocBound)}
		}
		if rs.Res == "found" {
			// the marker and what follows it must be what was written
			at := -1
			for i, o := range rs.Tail {
				if o.K != "msg" {
					break
				}
				if i == 0 {
					at = o.R - 1 // 1-based index of the marker
				}
				if o.R < 1 || o.R != at+1+i {
					return verdict{Key: "search/tail-not-written", Desc: fmt.Sprintf("%s: the reader returned with the marker yields %s", where, seqString(rs.Tail))}
				}
			}
			if tm := len(rs.Tail) - 1; at >= 1 && tm < k-at {
				return verdict{Key: "search/tail-lost-messages", Desc: fmt.Sprintf("%s: %d intact records follow the marker before the damage, the returned reader yields %s", where, k-at, seqString(rs.Tail))}
			}
			okMarker := false
			for r := 1; r <= n; r++ {
				if rl.Recs[r-1] == rs.H && (at < 0 || at == r) && rl.intactBody(d, r) {
					okMarker = true
				}
			}
			// (an altered checksum field leaves the marker as it was written: finding it is no phantom)
			crcFlip := d.Kind == "flip" && rl.headerDistance(d.Off) < 4
			if !okMarker || (q.Must == "notfound" && !crcFlip) {
				return verdict{Key: "search/phantom-marker", Desc: fmt.Sprintf("%s: found, but no intact marker of that height was written at that place (tail %s)", where, seqString(rs.Tail))}
			}
		} else if q.Must == "found" {
			return verdict{Key: "search/missed-marker/" + cause, Desc: fmt.Sprintf("%s: the marker was completely written and nothing on the way to it is damaged, result %s %s; files %v bytes, record starts %v", where, rs.Res, rs.Err, rl.FileSize, rl.RecStart)}
		}
		// pi_shape: the exact outcome the model computed
		match := false
		for _, e := range q.Res {
			if e.Res != rs.Res {
				continue
			}
			if e.Res != "found" || (e.At >= 1 && e.At <= len(exp.Tails) && sameSeq(exp.Tails[e.At-1], rs.Tail)) {
				match = true
			}
		}
		if !match && drift == "" {
			drift = fmt.Sprintf("%s [%s]: real %s %s tail[%s], model %v", where, cls.key(), rs.Res, rs.Err, seqString(rs.Tail), q.Res)
		}
	}
	if drift == "" && !sameSeq(exp.Strict, got) {
		drift = fmt.Sprintf("%s [%s]: strict reader ends with %s, model %s", d, cls.key(), seqString(got), seqString(exp.Strict))
	}
	return verdict{Drift: drift}
}

// intactBody: record r (1-based) is wholly on disk and its length and payload are unaltered
// under damage d (a reader that returns it returns what was written).
func (rl *realLog) intactBody(d dcase, r int) bool {
	switch d.Kind {
	case "cut":
		return rl.RecStart[r] <= d.Off
	case "flip":
		return d.Off < rl.RecStart[r-1]+4 || d.Off >= rl.RecStart[r]
	}
	return true
}

// apply returns the damaged stream.
func (rl *realLog) apply(d dcase, buf []byte) []byte {
	switch d.Kind {
	case "cut":
		return rl.Stream[:d.Off]
	case "flip":
		buf = append(buf[:0], rl.Stream...)
		buf[d.Off] ^= d.Mask
		return buf
	}
	return rl.Stream
}
