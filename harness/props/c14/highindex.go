package c14

import (
	"fmt"
	"io"
	"io/ioutil"
	"os"
	"path/filepath"
	"time"

	cs "github.com/lianxiangcloud/linkchain/consensus"
	cstypes "github.com/lianxiangcloud/linkchain/consensus/types"

	"verifh/core"
)

// highIndexRestartProbe: "also when the log has rotated across files" has no upper bound on the number
// of rotations. Rolled files are numbered <head>.000, .001, ... ("%03d" only pads): a node that has
// rotated more than 999 times and then RESTARTS rebuilds the group's index range from the directory.
// The directory starts with one empty file wal.996 (the oldest file the size limit has left), so the
// numbering starts at 997 and five rotations cross the fourth digit. Deterministic; the oracle is the
// property: every completely written marker is found after the restart and what follows it is read in order.
func highIndexRestartProbe(c *core.Ctx, base string) {
	dir := filepath.Join(base, "highindex")
	os.MkdirAll(dir, 0700)
	defer os.RemoveAll(dir)
	result := map[string]interface{}{}
	defer func() {
		if r := recover(); r != nil {
			result["panic"] = fmt.Sprint(r)
			c.Drift("high-index restart probe panicked: %v", r)
		}
		c.SetExtra("high_index_restart_probe", result)
	}()
	walFile := filepath.Join(dir, "wal")
	if err := ioutil.WriteFile(walFile+".996", nil, 0600); err != nil {
		result["error"] = err.Error()
		return
	}
	tm := func(h uint64) cs.WALMessage {
		return cs.VerifWALTimeout(cs.VerifTimeout{Duration: time.Second, Height: h, Round: 0, Step: cstypes.RoundStepNewHeight})
	}
	open := func() (cs.WAL, error) {
		w, err := cs.NewWAL(walFile)
		if err != nil {
			return nil, err
		}
		var serr error
		withSharedHook(func() { serr = w.Start() })
		return w, serr
	}
	w, err := open()
	if err != nil {
		result["error"] = err.Error()
		return
	}
	const last = 5
	var written []string // everything after the initial #ENDHEIGHT 0, in order
	withSharedHook(func() {
		for h := uint64(1); h <= last; h++ {
			w.Write(tm(h))
			w.WriteSync(cs.EndHeightMessage{Height: h})
			written = append(written, cs.VerifWALDescribe(tm(h)), cs.VerifWALDescribe(cs.EndHeightMessage{Height: h}))
			w.Group().RotateFile()
		}
		w.Write(tm(last + 1)) // the unfinished height: no marker
		written = append(written, cs.VerifWALDescribe(tm(last+1)))
	})
	w.Stop()
	w.Group().Head.Close()
	names, _ := filepath.Glob(walFile + "*")
	result["files"] = len(names)
	// ---- restart
	w2, err := open()
	if err != nil {
		result["error"] = "reopen: " + err.Error()
		c.Drift("high-index restart probe: cannot reopen the WAL: %v", err)
		return
	}
	defer func() { w2.Stop() }()
	result["max_index_after_restart"] = w2.Group().MaxIndex()
	rec := map[string]interface{}{"kind": "high-index-restart", "calls": "directory holds an empty wal.996; NewWAL, Start, 5 x (Write(timeout h), WriteSync(EndHeight{h}), Group().RotateFile()), Write(timeout 6), Stop; NewWAL, Start; SearchForEndHeight(h) for h = 1..6", "files": names}
	for h := uint64(1); h <= last+1; h++ {
		gr, found, err := w2.SearchForEndHeight(h, &cs.WALSearchOptions{})
		if h == last+1 {
			if found {
				c.Violate("search/phantom-marker/reopen-high-index", fmt.Sprintf("after a restart of a WAL whose files are numbered up to .1001, SearchForEndHeight(%d) finds a marker that was never written", h), rec)
			}
			continue
		}
		if !found || err != nil {
			c.Violate("search/missed-marker/reopen-high-index",
				fmt.Sprintf("after a restart of a WAL whose rolled files are numbered .997 to .1001 (max index rebuilt as %d), SearchForEndHeight(%d) = found %v, err %v: the marker was completely written before the restart", w2.Group().MaxIndex(), h, found, err), rec)
			continue
		}
		// reading on from the marker yields exactly what was written after it, in order
		dec := cs.NewWALDecoder(gr)
		var got []string
		for {
			m, err := dec.Decode()
			if err == io.EOF {
				break
			}
			if err != nil {
				got = append(got, "error: "+err.Error())
				break
			}
			got = append(got, cs.VerifWALDescribe(m.Msg))
		}
		gr.Close()
		want := written[2*h:]
		if fmt.Sprint(got) != fmt.Sprint(want) {
			c.Violate("strict/lost-messages/reopen-high-index",
				fmt.Sprintf("after the restart, reading on from #ENDHEIGHT %d yields %d records, %d were written after it (first difference matters: got %v, want %v)", h, len(got), len(want), got, want), rec)
		}
	}
}
