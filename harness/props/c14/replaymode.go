package c14

// bin/check C14 --replay <file>: re-executes a recorded violation. A case record holds the
// undamaged files, the concrete damage and the model's expectation: the files are laid
// out again, damaged, read back with the real code and compared. The two probe records
// (ticker rotation, embedded look-alike record) are deterministic constructions and are
// simply run again; so is the probe that rotates at every boundary between two Group.Write
// calls of a record. The concurrent rotation probe is run again as well, but its schedule is
// the Go scheduler's.

import (
	"encoding/base64"
	"encoding/json"
	"fmt"
	"io/ioutil"
	"os"
	"path/filepath"

	"verifh/core"
)

func runReplayFile(c *core.Ctx) {
	raw, err := ioutil.ReadFile(c.Replay)
	if err != nil {
		c.Infra("replay file: %v", err)
		return
	}
	var rf struct {
		Key    string `json:"key"`
		Seed   int64  `json:"seed"`
		Record struct {
			Kind   string              `json:"kind"`
			Recs   []int               `json:"abstract_records"`
			Hist   []histAct           `json:"writer_history"`
			Base   uint64              `json:"height_base"`
			Bounds []int               `json:"file_ends_in_cells"`
			D      dcase               `json:"dcase"`
			Expect *obsT               `json:"expect"`
			Files  []map[string]string `json:"files"`
		} `json:"record"`
	}
	if err := json.Unmarshal(raw, &rf); err != nil {
		c.Infra("replay file %s: %v", c.Replay, err)
		return
	}
	c.Seed = rf.Seed
	tmpRoot := ""
	if fi, err := os.Stat("/dev/shm"); err == nil && fi.IsDir() {
		tmpRoot = "/dev/shm"
	}
	base, err := ioutil.TempDir(tmpRoot, "vwalr")
	if err != nil {
		c.Infra("tempdir: %v", err)
		return
	}
	defer os.RemoveAll(base)
	o := c.Out()
	o.Rule = "replay of one recorded behaviour"
	switch rf.Record.Kind {
	case "ticker":
		tickerRotationProbe(c, base)
		o.Traces = 1
		return
	case "lookalike":
		lookAlikeProbe(c, base)
		o.Traces = 1
		return
	case "groupwrite-probe":
		if present, _, err := probeGroupWriteHook(base); err == nil && present {
			gwMode = bindHook
		}
		groupWriteBoundaryProbe(c, base)
		flushPending(c)
		return
	case "concurrent":
		// (a schedule of the Go scheduler: re-running it shows the window again with high probability only)
		concurrentRotationProbe(c, base, 12, 120)
		return
	case "case":
	default:
		c.Infra("replay file %s: unknown record kind %q", c.Replay, rf.Record.Kind)
		return
	}
	rec := rf.Record
	if rec.Expect == nil || len(rec.Files) == 0 {
		c.Infra("replay file %s: no files / expectation recorded", c.Replay)
		return
	}
	if hasMidRotation(rec.Hist) && rec.D.Kind == "none" {
		// the recorded files are the WRITER's doing (the group rotated between two Group.Write calls
		// of a record): write the history again with the code as it is now
		if _, done := replayWriter(c, base, rec.Recs, rec.Hist, rec.Bounds, rec.Expect); done {
			return
		}
	}
	rl := &realLog{Recs: rec.Recs, Hist: rec.Hist, Inst: &instance{Base: rec.Base}}
	for _, f := range rec.Files {
		b, err := base64.StdEncoding.DecodeString(f["b64"])
		if err != nil {
			c.Infra("replay file: %v", err)
			return
		}
		rl.Stream = append(rl.Stream, b...)
		rl.FileSize = append(rl.FileSize, len(b))
		rl.FileName = append(rl.FileName, f["name"])
	}
	if err := rl.parse(); err != nil {
		c.Infra("replay file: the recorded log does not parse: %v", err)
		return
	}
	for range rl.Recs {
		rl.Kind = append(rl.Kind, "recorded")
	}
	rd, err := newReader(filepath.Join(base, "read"), rl)
	if err != nil {
		c.Infra("reader: %v", err)
		return
	}
	defer rd.close()
	heights := make([]uint64, len(rl.Recs)+1)
	for h := range heights {
		heights[h] = rl.Inst.height(h)
	}
	d := rec.D
	cls := rl.classify(d)
	ro, err := rd.observe(d, rl.apply(d, nil), heights, true)
	if err != nil {
		c.Infra("observe: %v", err)
		return
	}
	o.Traces, o.Evaluations = 1, len(ro.Strict)+len(ro.Search)
	bound := uint64(len(rl.FileSize)+1)*maxMsgSize + 512*1024
	v := rl.compare(d, cls, rec.Expect, ro, bound)
	smp := record(rl, d, cls, rec.Expect, ro)
	delete(smp, "files")
	delete(smp, "expect")
	c.Sample(smp)
	if v.Key != "" {
		c.Violate(v.Key, v.Desc, record(rl, d, cls, rec.Expect, ro))
	} else if v.Drift != "" {
		c.Drift("%s", v.Drift)
	}
}

// replayWriter executes a recorded writer history (one with a rotation between two Group.Write
// calls of a record) on the code as it is now and reads the undamaged log back. done = a verdict
// was reached (violation, or: the code no longer writes such a log).
func replayWriter(c *core.Ctx, base string, recs []int, hist []histAct, bounds []int, exp *obsT) (rewritten bool, done bool) {
	variant, err := probeVariant(base)
	if err != nil {
		return false, false
	}
	cuts, _, _, err := probeEncodeCuts()
	if err != nil {
		return false, false
	}
	variant.Cuts = cuts
	gwMode = bindTap
	if present, _, err := probeGroupWriteHook(base); err == nil && present {
		gwMode = bindHook
	}
	l := &layout{Key: layoutKey(recs, bounds), Recs: recs, Bounds: bounds}
	var rl *realLog
	for try := 0; try < 6; try++ {
		in := chooseInstance(l, hist, 0, try*100, c.Seed)
		rl, err = realise(filepath.Join(base, "rewrite"), recs, hist, in, variant)
		if err == nil && !sameInts(rl.Bounds, bounds) {
			err = fmt.Errorf("file layout %v (cells), recorded %v", rl.Bounds, bounds)
		}
		if err == nil {
			break
		}
	}
	o := c.Out()
	o.Traces = 1
	if err != nil {
		// e.g. "no call ends in cell 6": the encoder hands the record to the group in one call now
		c.SetExtra("writer_history", fmt.Sprintf("not realisable on this tree: %v (Encode ends a Group.Write call after cells {%s})", err, cuts))
		fmt.Printf("replay: the recorded writer history is not realisable on this tree: %v\n", err)
		return false, true
	}
	rd, err := newReader(filepath.Join(base, "read"), rl)
	if err != nil {
		c.Infra("reader: %v", err)
		return true, true
	}
	defer rd.close()
	heights := make([]uint64, len(recs)+1)
	for h := range heights {
		heights[h] = rl.Inst.height(h)
	}
	d := dcase{Kind: "none"}
	cls := rl.classify(d)
	ro, err := rd.observe(d, rl.Stream, heights, false)
	if err != nil {
		c.Infra("observe: %v", err)
		return true, true
	}
	o.Evaluations = len(ro.Strict) + len(ro.Search)
	v := rl.compare(d, cls, exp, ro, 0)
	smp := record(rl, d, cls, exp, ro)
	delete(smp, "files")
	delete(smp, "expect")
	smp["binding"] = bindingName()
	c.Sample(smp)
	if v.Key != "" {
		c.Violate(v.Key, v.Desc, record(rl, d, cls, exp, ro))
	} else if v.Drift != "" {
		c.Drift("%s", v.Drift)
	}
	return true, true
}
