package c14

// The serial parts of the check: the allocation bound behind a damaged length field,
// the controls that show the comparison is not vacuous, and the probe with a payload
// that embeds a well-formed record.

import (
	"bytes"
	"encoding/binary"
	"fmt"
	"os"
	"path/filepath"
	"time"

	cs "github.com/lianxiangcloud/linkchain/consensus"
	"github.com/lianxiangcloud/linkchain/types"

	"verifh/core"
)

// allocAndControls returns false when the check cannot go on.
func allocAndControls(c *core.Ctx, base string, variant writerVariant, layouts map[string]*layout, order []string, st *stats, skipHuge *bool) bool {
	// pick up to three layouts: most files first, no filler
	var picks []*layout
	for want := 3; want >= 1 && len(picks) < 3; want-- {
		for _, k := range order {
			l := layouts[k]
			if len(l.Bounds)+1 != want || len(picks) >= 3 {
				continue
			}
			split := false
			for _, a := range l.Hists[0] {
				if a.S != 0 {
					split = true
				}
			}
			if !split {
				picks = append(picks, l)
			}
		}
	}
	if len(picks) == 0 {
		c.Infra("no layout without a split write in the model output")
		return false
	}
	controlsDone := false
	for pi, l := range picks {
		hist := l.Hists[0]
		in := chooseInstance(l, hist, pi, 50, c.Seed)
		rl, err := realise(filepath.Join(base, "serial-w"), l.Recs, hist, in, variant)
		if err != nil || !sameInts(rl.Bounds, l.Bounds) {
			c.Infra("serial pass: layout %s not realised: %v", l.Key, err)
			return false
		}
		os.RemoveAll(filepath.Join(base, "serial-w"))
		rd, err := newReader(filepath.Join(base, "serial-r"), rl)
		if err != nil {
			c.Infra("serial pass: %v", err)
			return false
		}
		heights := make([]uint64, len(l.Recs)+1)
		for h := range heights {
			heights[h] = in.height(h)
		}
		// a search may legitimately read one record of up to maxMsgSize per file it starts from
		bound := uint64(len(rl.FileSize)+1)*maxMsgSize + 512*1024
		var buf []byte
		var maxAlloc uint64
		worst := ""
	alloc:
		for _, mask := range []byte{0x01, 0x10, 0x80, 0xFF} {
			for r := 0; r < rl.n(); r++ {
				for bi := 0; bi < 4; bi++ {
					d := dcase{Kind: "flip", Off: rl.RecStart[r] + 4 + bi, Mask: mask}
					cls := rl.classify(d)
					exp := l.Dmg[cls.key()]
					if exp == nil {
						c.Infra("serial pass: no model class %s", cls.key())
						rd.close()
						return false
					}
					ro, err := rd.observe(d, rl.apply(d, buf), heights, true)
					if err != nil {
						c.Infra("serial pass: %v", err)
						rd.close()
						return false
					}
					for _, s := range ro.Search {
						if s.Alloc > maxAlloc {
							maxAlloc, worst = s.Alloc, d.String()
						}
					}
					st.traces++
					st.evals += len(ro.Strict) + len(ro.Search)
					v := rl.compare(d, cls, exp, ro, bound)
					if v.Key != "" {
						c.Violate(v.Key, v.Desc, record(rl, d, cls, exp, ro))
						if v.Key == "search/alloc" || v.Key == "strict/unbounded-read" {
							*skipHuge = true // do not repeat multi-gigabyte allocations in the parallel phase
							break alloc
						}
					}
				}
			}
		}
		c.SetExtra(fmt.Sprintf("max_alloc_per_search_layout%d", pi), map[string]interface{}{"bytes": maxAlloc, "bound": bound, "damage": worst})
		if !controlsDone {
			controlsDone = true
			if !controls(c, rl, l, rd, heights) {
				rd.close()
				return false
			}
		}
		rd.close()
	}
	return true
}

// controls: the comparison must reject (1) a corrupted expectation, (2) a corrupted
// observation, (3) a corrupted search requirement. Otherwise the binding is vacuous.
func controls(c *core.Ctx, rl *realLog, l *layout, rd *reader, heights []uint64) bool {
	d := dcase{Kind: "none"}
	cls := rl.classify(d)
	exp := l.Dmg[cls.key()]
	ro, err := rd.observe(d, rl.Stream, heights, false)
	if err != nil || exp == nil {
		c.Infra("controls: %v", err)
		return false
	}
	if v := rl.compare(d, cls, exp, ro, 0); v.Key != "" || v.Drift != "" {
		// the undamaged log itself deviates: reported by the main pass, controls cannot run
		c.SetExtra("negative_controls", "not run: the undamaged log already deviates ("+v.Key+v.Drift+")")
		return true
	}
	rejected := 0
	// (1) expectation with one message fewer
	e1 := *exp
	e1.Strict = append([]outT{}, exp.Strict[1:]...)
	if v := rl.compare(d, cls, &e1, ro, 0); v.Key != "" || v.Drift != "" {
		rejected++
	}
	// (2) observation with the first two messages swapped
	if rl.n() >= 2 {
		r2 := *ro
		r2.Strict = append([]outT{}, ro.Strict...)
		r2.Strict[0], r2.Strict[1] = r2.Strict[1], r2.Strict[0]
		if v := rl.compare(d, cls, exp, &r2, 0); v.Key == "strict/not-a-prefix" {
			rejected++
		}
	} else {
		rejected++
	}
	// (3) a found marker declared unwritten / a missing marker declared written
	e3 := *exp
	e3.Search = append([]searchT{}, exp.Search...)
	flipped := false
	for i, q := range e3.Search {
		if q.Must == "found" {
			e3.Search[i].Must = "notfound"
			flipped = true
			break
		}
	}
	if v := rl.compare(d, cls, &e3, ro, 0); flipped && v.Key == "search/phantom-marker" {
		rejected++
	}
	e4 := *exp
	e4.Search = append([]searchT{}, exp.Search...)
	flipped = false
	for i, q := range e4.Search {
		if q.Must == "notfound" {
			e4.Search[i].Must = "found"
			flipped = true
			break
		}
	}
	if v := rl.compare(d, cls, &e4, ro, 0); flipped && len(v.Key) > 20 && v.Key[:21] == "search/missed-marker/" {
		rejected++
	}
	// (4) a damaged log compared with the expectation of the undamaged one
	dc := dcase{Kind: "cut", Off: rl.RecStart[rl.n()-1] + 5}
	if ro2, err := rd.observe(dc, rl.apply(dc, nil), heights, false); err == nil {
		if v := rl.compare(d, cls, exp, ro2, 0); v.Key != "" || v.Drift != "" {
			rejected++
		}
	}
	c.SetExtra("negative_controls", fmt.Sprintf("%d of 5 corrupted expectations / observations rejected", rejected))
	if rejected != 5 {
		c.Infra("vacuous binding: only %d of 5 corrupted expectations / observations were rejected", rejected)
		return false
	}
	return true
}

// lookAlikeProbe: a block part whose bytes contain a complete, well-formed record
// EndHeightMessage{fake}; one altered byte of the length field of the block part record
// makes the next read start exactly at the embedded record. A search that skips
// checksum mismatches must still not report the marker: it was never written.
func lookAlikeProbe(c *core.Ctx, base string) {
	const fake = 7777
	var emb bytes.Buffer
	cs.NewWALEncoder(&emb).Encode(&cs.TimedWALMessage{Time: nominalTime, Msg: cs.EndHeightMessage{Height: fake}})
	dir := filepath.Join(base, "lookalike")
	defer os.RemoveAll(dir)
	result := "not constructed"
	defer func() { c.SetExtra("look_alike_probe", result) }()
	for try := 0; try < 40; try++ {
		// payload layout: [prefix P bytes][embedded record][rest]; wanted: len = P + 256 with bit 8 of P clear
		pad := 10 + try%7
		tailPad := 150 + try*3
		body := append(append(detBytes(pad, int64(try)), emb.Bytes()...), detBytes(tailPad, int64(try)+99)...)
		part := &types.Part{Index: 0, Bytes: body}
		msg := cs.VerifWALMsgInfo(&cs.BlockPartMessage{Height: 3, Round: 0, Part: part}, "byz")
		// adjust tailPad so that payloadLen - offset == 256
		pay := len(encodePayload(msg))
		off := bytes.Index(encodePayload(msg), emb.Bytes())
		if off < 0 {
			continue
		}
		delta := 256 - (pay - off)
		if tailPad+delta < 0 {
			continue
		}
		body = append(append(detBytes(pad, int64(try)), emb.Bytes()...), detBytes(tailPad+delta, int64(try)+99)...)
		part = &types.Part{Index: 0, Bytes: body}
		msg = cs.VerifWALMsgInfo(&cs.BlockPartMessage{Height: 3, Round: 0, Part: part}, "byz")
		os.RemoveAll(dir)
		os.MkdirAll(dir, 0700)
		w, err := cs.NewWAL(filepath.Join(dir, "wal"))
		if err != nil {
			result = err.Error()
			return
		}
		w.Start()
		w.Write(msg)
		w.WriteSync(cs.EndHeightMessage{Height: 1})
		w.Stop()
		w.Group().Head.Close()
		rl := &realLog{Recs: []int{0, -1, 1}, Inst: &instance{}, Kind: []string{"end-height", "block-part-embedding-a-record", "end-height"},
			Written: []string{cs.VerifWALDescribe(cs.EndHeightMessage{Height: 0}), cs.VerifWALDescribe(msg), cs.VerifWALDescribe(cs.EndHeightMessage{Height: 1})}}
		if err := rl.load(dir); err != nil {
			result = err.Error()
			return
		}
		L := len(rl.Payload[1])
		off = bytes.Index(rl.Payload[1], emb.Bytes())
		if off < 0 || L-off != 256 || off&0x100 != 0 || L&0x100 == 0 {
			continue // the time stamp encoded shorter, or a carry: try another padding
		}
		rd, err := newReader(filepath.Join(base, "lookalike-r"), rl)
		if err != nil {
			result = err.Error()
			return
		}
		defer rd.close()
		stream := append([]byte{}, rl.Stream...)
		pos := rl.RecStart[1] + 6
		stream[pos] ^= 0x01
		if int(binary.BigEndian.Uint32(stream[rl.RecStart[1]+4:])) != off {
			continue
		}
		if err := rd.put(stream, 0, -1); err != nil {
			result = err.Error()
			return
		}
		out := map[string]string{}
		for _, ign := range []bool{false, true} {
			gr, found, err := rd.w.SearchForEndHeight(fake, &cs.WALSearchOptions{IgnoreDataCorruptionErrors: ign})
			if gr != nil {
				gr.Close()
			}
			out[fmt.Sprintf("ignore_corruption=%v", ign)] = fmt.Sprintf("found=%v err=%v", found, err)
			if found {
				c.Violate("search/embedded-record-after-length-flip",
					fmt.Sprintf("a block part whose bytes embed a well-formed EndHeightMessage{%d} record at payload offset %d; byte %d of the log (length field of the block part record, %d -> %d) altered: SearchForEndHeight(%d, ignore corruption=%v) reports the marker found although it was never written", fake, off, pos, L, off, fake, ign),
					map[string]interface{}{"kind": "lookalike", "records": rl.Kind, "payload_len": L, "embedded_at": off, "flipped_byte": pos, "mask": 1, "results": out})
			}
		}
		result = fmt.Sprintf("%v", out)
		return
	}
}

func encodePayload(msg cs.WALMessage) []byte {
	var b bytes.Buffer
	cs.NewWALEncoder(&b).Encode(&cs.TimedWALMessage{Time: nominalTime, Msg: msg})
	return b.Bytes()[8:]
}

// tickerRotationProbe lets the group's OWN ticker rotate the head (processTicks ->
// checkHeadSizeLimit -> RotateFile, every 5 s) while headBuf holds the rest of a record
// bufio has split: the production path to a file that starts inside a record, without the
// harness calling RotateFile. Both markers of the undamaged log must be found.
func tickerRotationProbe(c *core.Ctx, base string) {
	dir := filepath.Join(base, "ticker")
	os.MkdirAll(dir, 0700)
	defer os.RemoveAll(dir)
	result := map[string]interface{}{}
	defer func() {
		if r := recover(); r != nil {
			result["panic"] = fmt.Sprint(r)
		}
		c.SetExtra("ticker_rotation_probe", result)
	}()
	w, err := cs.NewWAL(filepath.Join(dir, "wal"))
	if err != nil {
		result["error"] = err.Error()
		return
	}
	var serr error
	withSharedHook(func() { serr = w.Start() })
	if serr != nil {
		result["error"] = serr.Error()
		return
	}
	w.Group().SetHeadSizeLimit(4096)
	in := &instance{Seed: c.Seed}
	x := mkMsg(0, 2, 1, c.Seed) // a vote from a peer
	filler, ok := fillerOfRecSize(headBufSize-40, 1, 1, c.Seed, time.Now())
	if !ok {
		result["error"] = "no filler"
		return
	}
	withSharedHook(func() {
		w.Write(filler) // peer block part: buffered
		w.Write(x)      // buffer runs full after 40 bytes of this record
	})
	rotated := false
	for i := 0; i < 80 && !rotated; i++ { // the group checks its limits every 5 s
		time.Sleep(100 * time.Millisecond)
		rotated = w.Group().MaxIndex() > 0
	}
	withSharedHook(func() {
		w.WriteSync(cs.EndHeightMessage{Height: 1})
		w.Write(mkMsg(4, 4, 2, c.Seed))
	})
	w.Stop()
	w.Group().Head.Close()
	result["rotated_by_ticker"] = rotated
	if !rotated {
		c.Drift("ticker rotation probe: the group did not rotate its head within 8 s")
		return
	}
	rl := &realLog{Recs: []int{0, -1, -1, 1, -1}, Inst: in, Kind: []string{"end-height", "block-part-filler", "vote-prevote", "end-height", "timeout"}}
	for _, m := range []cs.WALMessage{cs.EndHeightMessage{Height: 0}, filler, x, cs.EndHeightMessage{Height: 1}, mkMsg(4, 4, 2, c.Seed)} {
		rl.Written = append(rl.Written, cs.VerifWALDescribe(m))
	}
	if err := rl.load(dir); err != nil {
		result["error"] = err.Error()
		c.Drift("ticker rotation probe: %v", err)
		return
	}
	result["file_sizes"] = rl.FileSize
	result["record_starts"] = rl.RecStart
	result["file_ends_in_cells"] = rl.Bounds
	result["a_file_starts_inside_a_record"] = rl.misaligned()
	rd, err := newReader(filepath.Join(base, "ticker-r"), rl)
	if err != nil {
		result["error"] = err.Error()
		return
	}
	defer rd.close()
	ro, err := rd.observe(dcase{Kind: "none"}, rl.Stream, []uint64{0, 1}, false)
	if err != nil {
		result["error"] = err.Error()
		return
	}
	var out []string
	for _, s := range ro.Search {
		out = append(out, fmt.Sprintf("h=%d ignore_corruption=%v: %s %s", s.H, s.Ign, s.Res, s.Err))
		if s.Res != "found" {
			c.Violate("search/missed-marker/rotation-inside-record",
				fmt.Sprintf("undamaged log rotated by the group's own ticker while headBuf held the rest of a split record: SearchForEndHeight(%d, ignore corruption=%v) = %s %s; files %v bytes, record starts %v", s.H, s.Ign, s.Res, s.Err, rl.FileSize, rl.RecStart),
				map[string]interface{}{"kind": "ticker", "calls": "NewWAL, Start, Group().SetHeadSizeLimit(4096), Write(block part filling headBuf up to 40 bytes before its end), Write(vote), <ticker rotates>, WriteSync(EndHeight{1}), Write(timeout), Stop", "file_sizes": rl.FileSize, "record_starts": rl.RecStart, "search": out})
		}
	}
	result["search"] = out
	result["strict_reader"] = seqString(ro.Strict)
}
