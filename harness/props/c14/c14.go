package c14

// C14 — the consensus write-ahead log replays what was written or reports corruption.
//
// Model: spec/WAL/WAL.tla. The writer half (Open / GroupWrite = ONE Group.Write call, the
// unit the group's mutex makes atomic, with the bufio head buffer running full inside it /
// Flush / Rotate, enabled between any two calls, also between two Group.Write calls of one
// record / Close) produces every log of NRecs records over up to MaxFiles files; then one damage (none, Cut at a cell, Flip of a
// cell, a length flip with its effect) and the reader half: the strict decoder, one
// action per Decode call, and SearchForEndHeight as coded. TLC checks PrefixThenEnd,
// MarkerSound and MarkerComplete and exports, for every damaged log, what reading it
// back yields.
//
// Binding: every exported writer behaviour is executed on the real consensus.NewWAL
// (every record kind the node writes; a rotation between two Group.Write calls of a record
// through the verif hook in (*Group).Write, see groupwrite.go), the files are read back, and EVERY byte offset
// of a small log is cut and EVERY byte is flipped with several masks; each concrete
// damage is mapped to its model class and the real WALDecoder sequence (messages
// identified by their bytes), SearchForEndHeight's result in both modes and what the
// returned reader yields are compared with the property and with the model.

import (
	"bytes"
	"encoding/base64"
	"encoding/json"
	"fmt"
	"io/ioutil"
	"math/rand"
	"os"
	"path/filepath"
	"sort"
	"strings"
	"sync"
	"time"

	cs "github.com/lianxiangcloud/linkchain/consensus"
	cstypes "github.com/lianxiangcloud/linkchain/consensus/types"

	"verifh/core"
	"verifh/tlc"
)

func init() { core.Register("C14", runC14) }

type specLine struct {
	T      string    `json:"t"`
	Recs   []int     `json:"recs"`
	Bounds []int     `json:"bounds"`
	Hist   []histAct `json:"hist"`
	Dmg    dmgT      `json:"dmg"`
	Obs    *obsT     `json:"obs"`
}

type layout struct {
	Key    string
	Recs   []int
	Bounds []int
	Hists  [][]histAct
	Dmg    map[string]*obsT
}

func layoutKey(recs, bounds []int) string { return fmt.Sprint(recs, bounds) }

// ---- which variant of the two switches does the tree implement? (pi_shape probes) -------

func probeVariant(dir string) (v writerVariant, err error) {
	defer func() {
		if r := recover(); r != nil {
			err = fmt.Errorf("panic: %v", r)
		}
	}()
	// (a) does Group.RotateFile flush headBuf?
	d1 := filepath.Join(dir, "probe-a")
	os.MkdirAll(d1, 0700)
	w, err := cs.NewWAL(filepath.Join(d1, "wal"))
	if err != nil {
		return v, err
	}
	if err := w.Start(); err != nil {
		return v, err
	}
	w.Write(cs.VerifWALTimeout(cs.VerifTimeout{Duration: time.Second, Height: 1, Step: cstypes.RoundStepPropose}))
	w.Group().RotateFile()
	b, err := ioutil.ReadFile(filepath.Join(d1, "wal.000"))
	w.Stop()
	w.Group().Head.Close()
	if err != nil {
		return v, err
	}
	nrec := 0
	for p := 0; p+8 <= len(b); nrec++ {
		p += 8 + int(uint32(b[p+4])<<24|uint32(b[p+5])<<16|uint32(b[p+6])<<8|uint32(b[p+7]))
	}
	v.FlushOnRotate = nrec == 2
	// (b) does SearchForEndHeight look at older files when the newest ends inside a record?
	d2 := filepath.Join(dir, "probe-b")
	os.MkdirAll(d2, 0700)
	var old, head bytes.Buffer
	enc := cs.NewWALEncoder(&old)
	enc.Encode(&cs.TimedWALMessage{Time: nominalTime, Msg: cs.EndHeightMessage{Height: 0}})
	enc.Encode(&cs.TimedWALMessage{Time: nominalTime, Msg: cs.EndHeightMessage{Height: 7}})
	cs.NewWALEncoder(&head).Encode(&cs.TimedWALMessage{Time: nominalTime, Msg: cs.VerifWALTimeout(cs.VerifTimeout{Duration: time.Second, Height: 8})})
	ioutil.WriteFile(filepath.Join(d2, "wal.000"), old.Bytes(), 0600)
	ioutil.WriteFile(filepath.Join(d2, "wal"), head.Bytes()[:12], 0600)
	w2, err := cs.NewWAL(filepath.Join(d2, "wal"))
	if err != nil {
		return v, err
	}
	gr, found, _ := w2.SearchForEndHeight(7, &cs.WALSearchOptions{IgnoreDataCorruptionErrors: true})
	if gr != nil {
		gr.Close()
	}
	w2.Group().Head.Close()
	v.TornTailIsEOF = found
	return v, nil
}

func tlaBool(b bool) string {
	if b {
		return "TRUE"
	}
	return "FALSE"
}

// cfgFor derives a configuration from a shipped base configuration.
func cfgFor(base string, v writerVariant, invariants string, export bool) []byte {
	var out []string
	for _, l := range strings.Split(base, "\n") {
		t := strings.TrimSpace(l)
		switch {
		case strings.HasPrefix(t, "FlushOnRotate"):
			l = "  FlushOnRotate = " + tlaBool(v.FlushOnRotate)
		case strings.HasPrefix(t, "TornTailIsEOF"):
			l = "  TornTailIsEOF = " + tlaBool(v.TornTailIsEOF)
		case strings.HasPrefix(t, "EncodeCuts"):
			l = "  EncodeCuts = " + v.tlaCuts()
		case strings.HasPrefix(t, "INVARIANTS"):
			l = "INVARIANTS " + invariants
			if export {
				l += " Export"
			}
		case strings.HasPrefix(t, "ACTION_CONSTRAINT") && !export:
			continue
		}
		out = append(out, l)
	}
	return []byte(strings.Join(out, "\n") + "\n")
}

// ---- instantiation ------------------------------------------------------------------------

func chooseInstance(l *layout, hist []histAct, li, ii int, seed int64) *instance {
	n := len(l.Recs)
	rng := rand.New(rand.NewSource(seed*7919 + int64(li)*31 + int64(ii)))
	in := &instance{Seed: seed*100 + int64(li)*10 + int64(ii), Kinds: make([]int, n), SplitK: make([]int, n), Sync: make([]bool, n)}
	in.Base = heightBases[(li+ii+int(seed))%len(heightBases)]
	for i := range in.Kinds {
		in.Kinds[i] = (li + i*3 + ii*5 + int(seed)) % nKinds
		in.Sync[i] = rng.Intn(2) == 0
	}
	ri := 0
	steps, _ := compileHist(hist) // (a malformed history is reported by realise)
	for _, a := range steps {
		switch a.Op {
		case "open":
			if a.H == 0 {
				ri++
			}
		case "write":
			if a.S != 0 {
				var m cs.WALMessage
				if l.Recs[ri] >= 0 {
					m = cs.EndHeightMessage{Height: in.height(l.Recs[ri])}
				} else {
					m = mkMsg(in.Kinds[ri], ri, in.height(1)+uint64(ri), in.Seed)
				}
				ks := splitBytes(a.S, recSize(m)-8)
				in.SplitK[ri] = ks[(ii+li+int(seed))%len(ks)]
			}
			ri++
		}
	}
	return in
}

// cases enumerates the concrete damages of a realised log.
func (rl *realLog) cases(rng *rand.Rand, nMasks int, smallLimit int, skipHuge bool) []dcase {
	total := len(rl.Stream)
	var offs []int
	if total <= smallLimit {
		for b := 0; b < total; b++ {
			offs = append(offs, b)
		}
	} else {
		seen := map[int]bool{}
		add := func(b int) {
			if b >= 0 && b < total && !seen[b] {
				seen[b] = true
				offs = append(offs, b)
			}
		}
		for r := 0; r < rl.n(); r++ {
			lo, hi := rl.RecStart[r], rl.RecStart[r+1]
			if hi-lo <= 400 {
				for b := lo; b < hi; b++ {
					add(b)
				}
				continue
			}
			for b := lo; b < lo+24; b++ {
				add(b)
			}
			for b := hi - 16; b < hi; b++ {
				add(b)
			}
			for i := 0; i < 48; i++ {
				add(lo + 24 + rng.Intn(hi-lo-40))
			}
		}
		// the bytes around the file boundaries
		off := 0
		for _, fs := range rl.FileSize {
			off += fs
			for b := off - 3; b <= off+3; b++ {
				add(b)
			}
		}
		sort.Ints(offs)
	}
	out := []dcase{{Kind: "none"}}
	for _, b := range offs {
		out = append(out, dcase{Kind: "cut", Off: b})
	}
	fixed := []byte{0x01, 0xFF, 0x80, 0x10, 0x7E}
	for _, b := range offs {
		used := map[byte]bool{}
		for i := 0; i < nMasks-1 && i < len(fixed); i++ {
			used[fixed[i]] = true
			out = append(out, dcase{Kind: "flip", Off: b, Mask: fixed[i], First: i == 0})
		}
		m := byte(1 + rng.Intn(255))
		for used[m] {
			m = byte(1 + rng.Intn(255))
		}
		out = append(out, dcase{Kind: "flip", Off: b, Mask: m})
	}
	// targeted flips of the length field: zero, the exact bound, and values that make the
	// read end exactly at a later record start
	for r := 0; r < rl.n(); r++ {
		L := len(rl.Payload[r])
		dataStart := rl.RecStart[r] + 8
		targets := []int{0, maxMsgSize, maxMsgSize + 1}
		for j := r + 2; j <= rl.n(); j++ {
			targets = append(targets, rl.RecStart[j]-dataStart)
		}
		for _, T := range targets {
			x := uint32(L) ^ uint32(T)
			for bi := 0; bi < 4; bi++ {
				m := byte(x >> uint(8*(3-bi)))
				if m != 0 && x == uint32(m)<<uint(8*(3-bi)) {
					out = append(out, dcase{Kind: "flip", Off: rl.RecStart[r] + 4 + bi, Mask: m})
				}
			}
		}
	}
	if skipHuge {
		kept := out[:0]
		for _, d := range out {
			if d.Kind == "flip" && rl.classify(d).E == "huge" {
				continue
			}
			kept = append(kept, d)
		}
		out = kept
	}
	return out
}

// ---- the check ---------------------------------------------------------------------------------

type job struct {
	li, ii int
	l      *layout
	hist   []histAct
	light  bool // only the layout and the undamaged log
}

type stats struct {
	mu             sync.Mutex
	traces         int
	evals          int
	classes        map[string]bool
	kinds          map[string]int
	byDamage       map[string]int
	lenEffects     map[string]int
	removedVariant int
	realised       int
	midRot         int
	keys           map[string]int // violation keys the replay of model behaviours produced
	retried        int
	unmapped       int
	driftN         int
	maxStream      int
	bytesCut       int
	bytesFlip      int
}

func runC14(c *core.Ctx) {
	if c.Replay != "" {
		runReplayFile(c)
		return
	}
	o := c.Out()
	if os.Getenv("VERIF_C14_DEBUG") != "" { // development aid: the extras of runs that write no evidence file
		defer func() {
			for _, k := range []string{"code_variant", "group_write_hook", "group_write_binding", "group_write_boundary_probe", "concurrent_rotation_probe", "model_leads",
				"model_layouts", "model_damaged_logs", "model_writer_histories", "logs_realised", "records_written_with_a_rotation_between_their_group_writes", "realisations_retried", "wall_s_phases"} {
				b, _ := json.Marshal(o.Extra[k])
				fmt.Fprintf(os.Stderr, "debug %s = %s\n", k, b)
			}
			for _, d := range o.Drift {
				fmt.Fprintln(os.Stderr, "debug drift:", d)
			}
		}()
	}
	defer flushPending(c)
	o.Level = "model_checking"
	o.Rule = "behaviour = one TLC-generated writer history executed on the real WAL + one concrete damage (cut offset / flipped byte and mask / none) + reading the files back (strict decoder, SearchForEndHeight for every height in both modes, decoding on from the returned reader); non-trivial = the damage is not 'none'; distinct = distinct (file layout, model damage class) pairs exercised"
	o.Assumptions = []string{
		"one damage per log (a cut or one altered byte)",
		"logs of NRecs records over at most MaxFiles files; marker heights increase as the node writes them (EndHeight(0) again after a restart on an empty head)",
		"CRC-32C collisions are ignored; payloads that embed a well-formed record are exercised only by the dedicated look-alike probe",
		"large logs (a filler block part makes the 40 KiB head buffer run full at a chosen byte) are damaged at every header / boundary byte and at sampled payload offsets, small logs at every byte",
		"a search in which an altered record lies on the way to the marker may or may not find it (the property only demands it when the way is undamaged)",
		"the group rotates only between two Group.Write calls (the mutex is held for the whole call) and, like its ticker, only when the head file is not empty; OnStart's EndHeight(0) is written before the rotating goroutine exists",
		"one EncodeCuts for every record of the model (the cuts common to all small record kinds); encoders that cut only large records are covered by the boundary probe, not by the model",
	}
	o.Explanation = "TLC enumerates every log of NRecs records (every way the node's writer calls interleave with the head buffer running full and with rotations), every damage class and what the coded readers yield, and checks PrefixThenEnd / MarkerSound / MarkerComplete on the model. The harness writes each log with the real WAL, applies every concrete cut and flip, and compares the real decoder sequence and SearchForEndHeight results with the property (violation) and with the model's exact prediction (drift). The writer is modelled at the grain of one Group.Write call (what the group's mutex makes atomic with respect to RotateFile): how WALEncoder.Encode cuts a record into such calls (EncodeCuts) is probed on the code like the two switches FlushOnRotate / TornTailIsEOF, and the group may rotate between any two calls. The parameters of the model are set to what the code is probed to do; where one is not at its as-designed value (a switch FALSE, a record handed to the group in more than one call) the model itself violates MarkerComplete (a lead) and the replay must reproduce that on the code. Extras next to the replay: the group's own ticker rotating, a rotation at every boundary between two Group.Write calls of every record kind (also block parts far larger than the head buffer), and a real goroutine calling RotateFile while another writes."
	o.Trusted = []string{"TLC", "the byte-to-cell mapping of the harness (cross-checked: intact-prefix length is recomputed from the bytes and compared with the model's for every case)", "libs/ser round trip (every undamaged record must re-encode to its payload)"}

	// the logs are small and rewritten tens of thousands of times: keep them in memory-backed
	// storage where there is one (Group.Flush fsyncs)
	tmpRoot := ""
	if fi, err := os.Stat("/dev/shm"); err == nil && fi.IsDir() {
		tmpRoot = "/dev/shm"
	}
	base, err := ioutil.TempDir(tmpRoot, "vwal")
	if err != nil && tmpRoot != "" {
		base, err = ioutil.TempDir("", "vwal")
	}
	if err != nil {
		c.Infra("tempdir: %v", err)
		return
	}
	defer os.RemoveAll(base)

	variant, err := probeVariant(base)
	if err != nil {
		c.Infra("variant probe: %v", err)
		return
	}
	// how does the code under test hand a record to the group (one Group.Write call, or several)?
	cuts, perKind, nonUniform, err := probeEncodeCuts()
	if err != nil {
		c.Infra("encoder probe: %v", err)
		return
	}
	variant.Cuts = cuts
	hookThere, callsPerWrite, err := probeGroupWriteHook(base)
	if err != nil {
		c.Infra("group write hook probe: %v", err)
		return
	}
	gwMode = bindTap
	if hookThere {
		gwMode = bindHook
		if want := len(perKind[kindNames[0]]); callsPerWrite != want {
			c.Infra("baseWAL.Write makes %d Group.Write calls for a vote, the encoder alone makes %d: the path from the encoder to the group is not the one the binding assumes", callsPerWrite, want)
			return
		}
	}
	c.SetExtra("code_variant", map[string]interface{}{"RotateFile_flushes_headBuf": variant.FlushOnRotate, "search_treats_torn_tail_as_end_of_file": variant.TornTailIsEOF,
		"encode_ends_a_group_write_after_cells": "{" + variant.Cuts + "}", "encode_write_call_sizes": perKind, "encode_cuts_depend_on_the_record": nonUniform})
	hookNote := "present"
	if !hookThere {
		hookNote = "absent (proposed_fixes/hook-c14-group-write.diff): Group.Write calls made through baseWAL.Write cannot be counted or interleaved deterministically"
		if variant.Cuts != "" || nonUniform {
			hookNote += "; rotations between two Group.Write calls of a record are realised with the real WALEncoder writing into the real Group through a writer of the harness (baseWAL.Write by-passed for those records)"
		} else {
			hookNote += "; nothing to interleave: the encoder hands every record to the group in one call"
		}
	}
	c.SetExtra("group_write_hook", hookNote)

	// ---- TLC
	cfgNames := []string{"WAL.cfg"}
	if c.Thorough() {
		cfgNames = []string{"WALBig.cfg", "WALSplits.cfg"}
	}
	designed := writerVariant{FlushOnRotate: true, TornTailIsEOF: true}
	inv := "TypeOK PrefixThenEnd MarkerSound"
	if variant == designed {
		inv += " MarkerComplete"
	}
	layouts := map[string]*layout{}
	var order []string
	nLines := 0
	var parseErr error
	get := func(recs, bounds []int) *layout {
		k := layoutKey(recs, bounds)
		l := layouts[k]
		if l == nil {
			l = &layout{Key: k, Recs: recs, Bounds: bounds, Dmg: map[string]*obsT{}}
			layouts[k] = l
			order = append(order, k)
		}
		return l
	}
	quickCfg, err := ioutil.ReadFile(filepath.Join(c.SpecDir("WAL"), "WAL.cfg"))
	if err != nil {
		c.Infra("read WAL.cfg: %v", err)
		return
	}
	// side runs (concurrently with the exporting run), on the quick instance:
	//  - leads: with a switch at the value probed on the code (FALSE) and the other as designed,
	//    the model itself violates MarkerComplete;
	//  - thorough tier: the design with both repairs satisfies every invariant.
	type side struct {
		name string
		res  *tlc.Result
	}
	var sides []*side
	var swg sync.WaitGroup
	runSide := func(name string, baseCfg []byte, v writerVariant, invs string, timeout time.Duration) {
		sd := &side{name: name}
		sides = append(sides, sd)
		files := map[string][]byte{name + ".cfg": cfgFor(string(baseCfg), v, invs, false)}
		swg.Add(1)
		go func() {
			defer swg.Done()
			sd.res = c.TLC(tlc.Options{SpecDir: c.SpecDir("WAL"), Module: "WAL", Config: name + ".cfg", Workers: 1, Timeout: timeout, Files: files})
		}()
	}
	if !variant.FlushOnRotate {
		runSide("lead-FlushOnRotate", quickCfg, writerVariant{FlushOnRotate: false, TornTailIsEOF: true}, "TypeOK MarkerComplete", c.MinutesT(3, 10))
	}
	if !variant.TornTailIsEOF {
		runSide("lead-TornTailIsEOF", quickCfg, writerVariant{FlushOnRotate: true, TornTailIsEOF: false}, "TypeOK MarkerComplete", c.MinutesT(3, 10))
	}
	if variant.Cuts != "" {
		// the record is not atomic with respect to a rotation: the model itself must lose a marker
		runSide("lead-EncodeCuts", quickCfg, writerVariant{FlushOnRotate: true, TornTailIsEOF: true, Cuts: variant.Cuts}, "TypeOK MarkerComplete", c.MinutesT(3, 10))
	}
	if variant != designed && c.Thorough() {
		// the design is checked on the large instance (the leads stop at the first violation)
		big, err := ioutil.ReadFile(filepath.Join(c.SpecDir("WAL"), cfgNames[0]))
		if err != nil {
			c.Infra("read %s: %v", cfgNames[0], err)
			return
		}
		runSide("designed", big, designed, "TypeOK PrefixThenEnd MarkerSound MarkerComplete", c.MinutesT(4, 20))
	}
	// meanwhile: let the group's own ticker produce a rotation (takes up to 5 s of waiting),
	// rotate at every boundary between two Group.Write calls of every record kind, and let a
	// real goroutine rotate while another writes
	swg.Add(1)
	go func() {
		defer swg.Done()
		tickerRotationProbe(c, base)
		highIndexRestartProbe(c, base)
	}()
	swg.Add(1)
	go func() {
		defer swg.Done()
		groupWriteBoundaryProbe(c, base)
		rounds := 1
		if variant.Cuts != "" || nonUniform {
			rounds = c.Pick(4, 12) // the window exists: try harder to land in it
		}
		concurrentRotationProbe(c, base, rounds, 120)
	}()
	for _, cfgName := range cfgNames {
		baseCfg, err := ioutil.ReadFile(filepath.Join(c.SpecDir("WAL"), cfgName))
		if err != nil {
			c.Infra("read %s: %v", cfgName, err)
			return
		}
		res := c.TLC(tlc.Options{SpecDir: c.SpecDir("WAL"), Module: "WAL", Config: "gen.cfg", Workers: 1, Timeout: c.MinutesT(4, 20),
			Files: map[string][]byte{"gen.cfg": cfgFor(string(baseCfg), variant, inv, true)},
			OnLine: func(s string) {
				var ln specLine
				if err := json.Unmarshal([]byte(s), &ln); err != nil {
					parseErr = err
					return
				}
				nLines++
				l := get(ln.Recs, ln.Bounds)
				switch ln.T {
				case "log":
					l.Hists = append(l.Hists, ln.Hist)
				case "dmg":
					l.Dmg[ln.Dmg.key()] = ln.Obs
				}
			}})
		if res == nil {
			swg.Wait()
			return
		}
		if res.Violated != "" || !res.Finished || parseErr != nil {
			swg.Wait()
			c.Infra("WAL model (%s, variant %+v): %s parse=%v\n%s", cfgName, variant, res.Describe(), parseErr, res.Tail)
			return
		}
		o.CheckerCmd = res.Cmd
	}
	swg.Wait()
	o.Exhaustive = true
	leads := map[string]string{}
	for _, sd := range sides {
		if sd.res == nil {
			return
		}
		if sd.name == "designed" {
			if !sd.res.OK() {
				c.Infra("the as-designed model does not satisfy its invariants: %s\n%s", sd.res.Describe(), sd.res.Tail)
				return
			}
			continue
		}
		sw := strings.TrimPrefix(sd.name, "lead-")
		val := "FALSE"
		if sw == "EncodeCuts" {
			val = variant.tlaCuts()
		}
		if sd.res.Violated != "MarkerComplete" {
			c.Infra("the model with %s = %s does not violate MarkerComplete (%s): the parameter does not describe the probed behaviour", sw, val, sd.res.Describe())
			return
		}
		leads[sw] = "MarkerComplete violated in the model with " + sw + " = " + val + " (a lead; reproduced on the code, see the violations)"
	}
	c.SetExtra("model_leads", leads)
	c.SetExtra("model_lines", nLines)
	nDmg, nHist := 0, 0
	for _, l := range layouts {
		nDmg += len(l.Dmg)
		nHist += len(l.Hists)
	}
	c.SetExtra("model_layouts", len(layouts))
	c.SetExtra("model_damaged_logs", nDmg)
	c.SetExtra("model_writer_histories", nHist)

	// ---- jobs
	sort.Strings(order)
	var jobs []job
	nInst := c.Pick(1, 3)
	for li, k := range order {
		l := layouts[k]
		if len(l.Hists) == 0 || len(l.Dmg) == 0 {
			c.Infra("layout %s: %d histories, %d damage classes exported", k, len(l.Hists), len(l.Dmg))
			return
		}
		// full jobs use the cheapest ways of writing the layout (fewest writes that make the 40 KiB
		// head buffer run full); every other way is checked for the layout and the undamaged log
		splits := func(h []histAct) int {
			n := 0
			for _, a := range h {
				if a.S != 0 {
					n++
				}
			}
			return n
		}
		idx := make([]int, len(l.Hists))
		for i := range idx {
			idx[i] = i
		}
		sort.SliceStable(idx, func(a, b int) bool { return splits(l.Hists[idx[a]]) < splits(l.Hists[idx[b]]) })
		var cheapest []int
		for _, i := range idx {
			if splits(l.Hists[i]) == splits(l.Hists[idx[0]]) {
				cheapest = append(cheapest, i)
			}
		}
		used := map[int]bool{}
		ni := nInst
		if splits(l.Hists[idx[0]]) > 0 && ni > 2 {
			ni = 2 // (40 KiB logs: two instantiations)
		}
		for ii := 0; ii < ni; ii++ {
			hi := cheapest[(ii+int(c.Seed))%len(cheapest)]
			used[hi] = true
			jobs = append(jobs, job{li: li, ii: ii, l: l, hist: l.Hists[hi]})
		}
		for hi := range l.Hists {
			if !used[hi] {
				jobs = append(jobs, job{li: li, ii: nInst + hi, l: l, hist: l.Hists[hi], light: true})
			}
		}
	}
	cost := func(j job) int {
		n := 1
		for _, a := range j.hist {
			if a.S != 0 {
				n += 10
			}
		}
		if j.light {
			n = 0
		}
		return n
	}
	// cheap jobs first: the small logs (every byte damaged) are done within seconds; if the time
	// budget runs out it is the sampled 40 KiB logs that are reported as not run
	sort.SliceStable(jobs, func(a, b int) bool { return cost(jobs[a]) < cost(jobs[b]) })

	st := &stats{classes: map[string]bool{}, kinds: map[string]int{}, byDamage: map[string]int{}, lenEffects: map[string]int{}, keys: map[string]int{}}
	tModel := time.Since(c.Start).Seconds()
	nMasks := c.Pick(3, 5)

	// ---- serial pass: allocation bound of the length field, and the vacuity controls
	skipHuge := false
	if !allocAndControls(c, base, variant, layouts, order, st, &skipHuge) {
		return
	}

	if skipHuge {
		// the length bound is missing: garbage lengths met during the replay would make the code
		// under test allocate gigabytes in every worker. The violation is recorded; stop here.
		c.SetExtra("replay", "not run: the decoder does not bound the length field (see the violation)")
		o.Traces, o.Evaluations = o.Traces+st.traces, st.evals
		return
	}

	// ---- the look-alike probe
	lookAlikeProbe(c, base)

	tSerial := time.Since(c.Start).Seconds()
	// ---- parallel replay
	var wg sync.WaitGroup
	ch := make(chan job)
	// the whole check has to end within its tier's budget (2 / 30 minutes): whatever is not
	// replayed by then is reported as an infrastructure failure, never silently dropped
	deadline := c.Start.Add(26 * time.Minute)
	if !c.Thorough() {
		deadline = c.Start.Add(10 * time.Minute) // (the quick replay takes seconds; this is a safety net)
	}
	var skipped int
	var skipMu sync.Mutex
	for wi := 0; wi < 12; wi++ {
		wg.Add(1)
		go func(wi int) {
			defer wg.Done()
			wdir := filepath.Join(base, fmt.Sprintf("w%d", wi))
			for j := range ch {
				if time.Now().After(deadline) {
					skipMu.Lock()
					skipped++
					skipMu.Unlock()
					continue
				}
				runJob(c, wdir, variant, j, st, nMasks, skipHuge)
			}
		}(wi)
	}
	for _, j := range jobs {
		ch <- j
	}
	close(ch)
	wg.Wait()
	if skipped > 0 {
		c.Infra("%d of %d replay jobs not run within the time budget", skipped, len(jobs))
	}

	c.SetExtra("wall_s_phases", map[string]float64{"model": tModel, "serial_pass": tSerial - tModel, "replay": time.Since(c.Start).Seconds() - tSerial})
	o.Traces += st.traces
	o.Evaluations = st.evals
	o.Distinct = len(st.classes)
	c.SetExtra("logs_realised", st.realised)
	c.SetExtra("replay_cases_by_violation_key", st.keys)
	c.SetExtra("records_written_with_a_rotation_between_their_group_writes", st.midRot)
	if st.midRot > 0 {
		c.SetExtra("group_write_binding", bindingName())
	}
	c.SetExtra("realisations_retried", st.retried)
	c.SetExtra("record_kinds_written", st.kinds)
	c.SetExtra("cases_by_damage", st.byDamage)
	c.SetExtra("largest_log_bytes", st.maxStream)
	c.SetExtra("length_flip_effects", st.lenEffects)
	c.SetExtra("cuts_with_later_files_removed", st.removedVariant)
	c.SetExtra("cut_offsets", st.bytesCut)
	c.SetExtra("flips", st.bytesFlip)
	c.SetExtra("flip_masks_per_byte", nMasks)
	c.SetExtra("bounds", map[string]interface{}{"configs": cfgNames, "instantiations_per_layout": nInst})
	if st.unmapped > 0 {
		c.Infra("%d concrete damages had no class in the model output", st.unmapped)
	}
	if st.traces > 0 && st.driftN*5 > st.traces {
		c.Infra("specification stale: %d of %d behaviours drifted", st.driftN, st.traces)
	}
	// every lead of the model must have been reproduced on the code
	o2 := c.Out()
	for sw := range leads {
		want := "search/missed-marker/rotation-inside-record"
		if sw == "TornTailIsEOF" {
			want = "search/missed-marker/torn-tail"
		}
		if sw == "EncodeCuts" {
			want = keyBetweenGroupWrites
		}
		found := false
		for _, v := range o2.Violations {
			if v.Key == want {
				found = true
			}
		}
		if sw == "EncodeCuts" {
			found = st.keys[want] > 0 // by the replay of the model's behaviours, not by a probe
		}
		if !found {
			c.Infra("model lead (%s) was not reproduced on the code: no %s", sw, want)
		}
	}
}

func runJob(c *core.Ctx, wdir string, variant writerVariant, j job, st *stats, nMasks int, skipHuge bool) {
	l := j.l
	var rl *realLog
	var err error
	var in *instance
	for try := 0; try < 6; try++ {
		in = chooseInstance(l, j.hist, j.li, j.ii+try*100, c.Seed)
		rl, err = realise(filepath.Join(wdir, "write"), l.Recs, j.hist, in, variant)
		if err == nil && sameInts(rl.Bounds, l.Bounds) {
			break
		}
		if err == nil {
			err = fmt.Errorf("file layout %v (cells), the model says %v; file sizes %v record starts %v", rl.Bounds, l.Bounds, rl.FileSize, rl.RecStart)
		}
		st.mu.Lock()
		st.retried++
		st.mu.Unlock()
	}
	os.RemoveAll(filepath.Join(wdir, "write"))
	if err != nil {
		hj, _ := json.Marshal(j.hist)
		c.Drift("history %s not realised: %v", hj, err)
		st.mu.Lock()
		st.driftN++
		st.traces++
		st.mu.Unlock()
		return
	}
	st.mu.Lock()
	st.realised++
	st.midRot += rl.MidRot
	for _, k := range rl.Kind {
		st.kinds[k]++
	}
	if len(rl.Stream) > st.maxStream {
		st.maxStream = len(rl.Stream)
	}
	st.mu.Unlock()
	rd, err := newReader(filepath.Join(wdir, "read"), rl)
	if err != nil {
		c.Infra("reader: %v", err)
		return
	}
	defer rd.close()
	heights := make([]uint64, len(l.Recs)+1)
	for h := range heights {
		heights[h] = in.height(h)
	}
	rng := rand.New(rand.NewSource(c.Seed*1000003 + int64(j.li)*101 + int64(j.ii)))
	var cases []dcase
	if j.light {
		cases = []dcase{{Kind: "none"}}
	} else {
		cases = rl.cases(rng, nMasks, 6000, skipHuge)
	}
	var buf []byte
	sampled := false
	nRemoved := 0
	for _, d := range cases {
		cls := rl.classify(d)
		exp := l.Dmg[cls.key()]
		if exp == nil {
			st.mu.Lock()
			st.unmapped++
			st.mu.Unlock()
			c.Drift("layout %s: no model class %s for %s", l.Key, cls.key(), d)
			continue
		}
		// the mask only matters for the class of a length byte: every mask is searched on
		// header bytes, the first mask of a byte elsewhere (the strict reader sees all of them)
		hs := heights
		if d.Kind == "flip" && !d.First && rl.headerDistance(d.Off) > 8 {
			hs = nil
		}
		ro, err := rd.observe(d, rl.apply(d, buf), hs, false)
		if err != nil {
			c.Infra("observe: %v", err)
			return
		}
		if hs == nil {
			exp = &obsT{Strict: exp.Strict, Tails: exp.Tails}
		}
		v := rl.compare(d, cls, exp, ro, 0)
		st.mu.Lock()
		st.traces++
		st.evals += len(ro.Strict) + len(ro.Search)
		for _, s := range ro.Search {
			st.evals += len(s.Tail)
		}
		st.byDamage[d.Kind]++
		if d.Kind != "none" {
			st.classes[l.Key+"|"+cls.key()] = true
		}
		if d.Kind == "cut" {
			st.bytesCut++
		} else if d.Kind == "flip" {
			st.bytesFlip++
			if cls.E != "-" {
				st.lenEffects[cls.E]++
			}
		}
		if v.Drift != "" {
			st.driftN++
		}
		if v.Key != "" {
			st.keys[v.Key]++
		}
		st.mu.Unlock()
		if v.Key != "" {
			c.Violate(v.Key, v.Desc, record(rl, d, cls, exp, ro))
		} else if v.Drift != "" {
			c.Drift("layout %s: %s", l.Key, v.Drift)
		}
		// a cut that empties whole files: the same with those files removed instead of empty
		// (the group then has fewer files; OpenGroup creates an empty head)
		if d.Kind == "cut" && nRemoved < 6 && len(rl.FileSize) > 1 && d.Off < len(rl.Stream)-rl.FileSize[len(rl.FileSize)-1] && (d.Off+j.li)%5 == 0 {
			nRemoved++
			if v2, ok := removedVariant(filepath.Join(wdir, "removed"), rl, d, cls, exp, heights); ok {
				st.mu.Lock()
				st.removedVariant++
				st.traces++
				st.mu.Unlock()
				if v2.Key != "" {
					c.Violate(v2.Key, "(files after the cut removed) "+v2.Desc, record(rl, d, cls, exp, ro))
				} else if v2.Drift != "" {
					c.Drift("layout %s, files after the cut removed: %s", l.Key, v2.Drift)
				}
			}
		}
		if !sampled && d.Kind == "flip" && (j.li+j.ii)%17 == 0 {
			sampled = true
			smp := record(rl, d, cls, exp, ro)
			delete(smp, "files") // (kept in replay files only)
			delete(smp, "expect")
			c.Sample(smp)
		}
	}
}

func record(rl *realLog, d dcase, cls dmgT, exp *obsT, ro *realObs) map[string]interface{} {
	var sr []string
	for _, s := range ro.Search {
		sr = append(sr, fmt.Sprintf("h=%d ign=%v: %s %s tail[%s]", s.H, s.Ign, s.Res, s.Err, seqString(s.Tail)))
	}
	recs := []string{}
	for i, k := range rl.Kind {
		recs = append(recs, fmt.Sprintf("%d:%s@%d+%d", i+1, k, rl.RecStart[i], rl.RecStart[i+1]-rl.RecStart[i]))
	}
	// the undamaged files themselves: bin/check C14 --replay re-reads exactly these bytes
	// (the time stamps baseWAL.Write takes make a re-written log differ by a byte here and there)
	var files []map[string]string
	off := 0
	for i, nm := range rl.FileName {
		files = append(files, map[string]string{"name": nm, "b64": base64.StdEncoding.EncodeToString(rl.Stream[off : off+rl.FileSize[i]])})
		off += rl.FileSize[i]
	}
	return map[string]interface{}{
		"kind": "case", "writer_history": rl.Hist, "abstract_records": rl.Recs, "records": recs, "file_sizes": rl.FileSize, "file_ends_in_cells": rl.Bounds,
		"height_base": rl.Inst.Base, "damage": d.String(), "model_class": cls, "model_strict": seqString(exp.Strict), "real_strict": seqString(ro.Strict),
		"real_search": sr, "dcase": d, "expect": exp, "files": files,
	}
}

// removedVariant reads a cut log whose files wholly after the cut do not exist.
func removedVariant(dir string, rl *realLog, d dcase, cls dmgT, exp *obsT, heights []uint64) (verdict, bool) {
	os.RemoveAll(dir)
	if os.MkdirAll(dir, 0700) != nil {
		return verdict{}, false
	}
	defer os.RemoveAll(dir)
	// surviving files keep their names; the first file the cut empties becomes the (empty) head
	off, kept := 0, 0
	for i, nm := range rl.FileName {
		lo, hi := off, off+rl.FileSize[i]
		off = hi
		if lo >= d.Off && i > 0 {
			break
		}
		if hi > d.Off {
			hi = d.Off
		}
		if i == len(rl.FileName)-1 {
			nm = "wal"
		}
		if ioutil.WriteFile(filepath.Join(dir, nm), rl.Stream[lo:hi], 0600) != nil {
			return verdict{}, false
		}
		kept++
	}
	if kept == len(rl.FileName) {
		return verdict{}, false
	}
	w, err := cs.NewWAL(filepath.Join(dir, "wal"))
	if err != nil {
		return verdict{}, false
	}
	defer w.Group().Head.Close()
	rd := &reader{dir: dir, rl: rl, w: w, names: nil, dirty: []bool{}}
	ro, err := rd.observe(dcase{Kind: "none"}, nil, heights, false)
	if err != nil {
		return verdict{}, false
	}
	return rl.compare(d, cls, exp, ro, 0), true
}
