package c19

// C19 — all storage backends implement the same ordered map with atomic batches.
//
// Model: spec/KVStore/KVStore.tla (TLC: exhaustive bounded instance, batch atomicity
// and iterator soundness as invariants / action properties; every explored
// transition exported as an edge).  Binding: a transition tour over the exported
// graph plus seeded random walks is replayed on every backend (MemDB, GoLevelDB,
// BoltDB, BadgerDB, prefixed views, the sharded GoLevelDB configuration) for several
// concrete instantiations of the abstract keys; after every step the whole map is
// read back through Get/Has/Load/Exist and through forward, reverse and prefix
// iterators and compared with the model state; the model's own Query edges carry the
// iterator results TLC computed.

import (
	"bufio"
	"bytes"
	"encoding/json"
	"fmt"
	"io/ioutil"
	"math/rand"
	"os"
	"path/filepath"
	"sort"
	"strings"
	"sync"
	"time"

	dbm "github.com/lianxiangcloud/linkchain/libs/db"

	"verifh/core"
	"verifh/mbt"
	"verifh/tlc"
)

func init() { core.Register("C19", runC19) }

type kvAct struct {
	Op  string  `json:"op"`
	K   int     `json:"k"`
	V   int     `json:"v"`
	Lo  int     `json:"lo"`
	Hi  int     `json:"hi"`
	Res [][]int `json:"res"`
}
type kvState struct {
	M []int           `json:"m"`
	B json.RawMessage `json:"b"`
}

// concrete key tables: entry i instantiates abstract key i+1; byte order = numeric order
var kvTables = []struct {
	name string
	keys [][]byte
}{
	{"shared-prefix", [][]byte{[]byte("a"), {'a', 0}, {'a', 0xff}, []byte("b")}},
	{"binary-00-ff", [][]byte{{0}, {0, 0}, {0xff}, {0xff, 0xff}}},
	{"long-prefix", [][]byte{[]byte("key/ab"), []byte("key/ab\x00\x01"), []byte("key/ab\xff"), []byte("key/ab\xff\xff")}},
	{"empty-key", [][]byte{{}, {0}, []byte("m"), {0xff}}},
	{"single-bytes", [][]byte{{0}, {1}, []byte("m"), {0xff}}},
}

type kvBackend struct {
	name    string
	backend dbm.DBBackendType
	counts  uint64
	prefix  []byte // non-nil: test a prefixed view
	persist bool
	ordered bool // iteration order is part of pi_prop (false for the sharded configuration)
}

var kvBackends = []kvBackend{
	{"memdb", dbm.MemDBBackend, 0, nil, false, true},
	{"goleveldb", dbm.GoLevelDBBackend, 0, nil, true, true},
	{"bolt", dbm.BoltBackend, 0, nil, true, true},
	{"badger", dbm.BadgerBackend, 0, nil, true, true},
	{"prefix(memdb,'p')", dbm.MemDBBackend, 0, []byte("p"), false, true},
	{"prefix(goleveldb,0xff)", dbm.GoLevelDBBackend, 0, []byte{0xff}, true, true},
	{"prefix(bolt,'p\\xff')", dbm.BoltBackend, 0, []byte{'p', 0xff}, true, true},
	{"prefix(badger,'p')", dbm.BadgerBackend, 0, []byte("p"), true, true},
	{"goleveldb-sharded3", dbm.GoLevelDBBackend, 3, nil, true, false},
}

type kvInst struct {
	be          kvBackend
	keys        [][]byte
	table       string
	dir         string
	raw         dbm.DB // underlying store
	db          dbm.DB // store under test (raw or prefixed view)
	batch       dbm.Batch
	step        int
	guard       [][2][]byte // neighbour keys outside the prefixed view (must stay untouched)
	skipStatics bool
	allKeys     [][]byte // the whole table (keys beyond the abstract key set seed the statics)
	skip0       bool     // do not touch abstract key 1 in observations (behaviours that avoid the empty key on bolt/badger)
	noIter      bool     // stop comparing iterators (after the sharded-iteration finding was recorded)
}

func (in *kvInst) open() {
	in.raw = dbm.NewDB("kv", in.be.backend, in.dir, in.be.counts)
	in.db = in.raw
	if in.be.prefix != nil {
		// the caller's prefix slice has spare capacity, as one built with append usually has
		p := make([]byte, len(in.be.prefix), len(in.be.prefix)+32)
		copy(p, in.be.prefix)
		in.db = dbm.NewPrefixDB(in.raw, p)
	}
}

// statics are keys outside the abstract key set that every store holds from the start with
// a fixed value: for every table key k ending in 0xFF the key just above the end of k's
// prefix range (succ(k without its last byte) followed by 0x00), and k followed by 0x01.
// They sit where an off-by-one in a range bound would pick them up.
func (in *kvInst) statics() (out []kvPair) {
	seen := map[string]bool{}
	for _, k := range in.keys {
		seen[string(k)] = true
	}
	add := func(k []byte) {
		if !seen[string(k)] && len(k) > 0 {
			seen[string(k)] = true
			out = append(out, kvPair{k, []byte("static")})
		}
	}
	for _, k := range in.allKeys {
		if len(k) > 0 && k[len(k)-1] == 0xff {
			if end := prefixEnd(k); end != nil { // (computed here, not with the code under test)
				add(append(append([]byte{}, end...), 0x00))
			}
			add(append(append([]byte{}, k...), 0x01))
		}
	}
	sort.Slice(out, func(i, j int) bool { return bytes.Compare(out[i].K, out[j].K) < 0 })
	return
}

func (in *kvInst) reset() error {
	if in.raw != nil {
		in.raw.Close()
	}
	os.RemoveAll(in.dir)
	if err := os.MkdirAll(in.dir, 0755); err != nil {
		return err
	}
	in.batch = nil
	in.step = 0
	in.open()
	in.guard = nil
	if p := in.be.prefix; p != nil {
		// neighbours just outside the prefix range
		var below, above []byte
		below = append(append([]byte{}, p[:len(p)-1]...), p[len(p)-1]-1, 0xff, 0xff)
		in.guard = append(in.guard, [2][]byte{below, []byte("below")})
		if end := prefixEnd(p); end != nil {
			above = end
			in.guard = append(in.guard, [2][]byte{above, []byte("above")})
		}
		for _, g := range in.guard {
			in.raw.Set(g[0], g[1])
		}
	}
	if !(in.be.backend == dbm.BoltBackend || in.be.backend == dbm.BadgerBackend) || !in.skipStatics {
		for _, s := range in.statics() {
			in.db.Set(s.K, s.V)
		}
	}
	return nil
}

// prefixEnd is the smallest key greater than every key with the prefix (nil: none).
func prefixEnd(p []byte) []byte {
	for i := len(p) - 1; i >= 0; i-- {
		if p[i] < 0xff {
			e := append([]byte{}, p[:i+1]...)
			e[i]++
			return e
		}
	}
	return nil
}

func kvVal(v int) []byte { return []byte{byte('0' + v), 'v'} }

func (in *kvInst) key(k int) []byte { return in.keys[k-1] }

// bound maps an abstract iterator bound (0 = nil) to a concrete one.
func (in *kvInst) bound(k int) []byte {
	if k == 0 {
		return nil
	}
	return in.key(k)
}

func (in *kvInst) apply(a kvAct) {
	in.step++
	variant := in.step % 3
	switch a.Op {
	case "set":
		k, v := in.key(a.K), kvVal(a.V)
		switch variant {
		case 0:
			in.db.Set(k, v)
		case 1:
			in.db.SetSync(k, v)
		default:
			if err := in.db.Put(k, v); err != nil {
				panic(err)
			}
		}
	case "del":
		k := in.key(a.K)
		switch variant {
		case 0:
			in.db.Delete(k)
		case 1:
			in.db.DeleteSync(k)
		default:
			if err := in.db.Del(k); err != nil {
				panic(err)
			}
		}
	case "bset":
		if in.batch == nil {
			in.batch = in.db.NewBatch()
		}
		in.batch.Set(in.key(a.K), kvVal(a.V))
	case "bdel":
		if in.batch == nil {
			in.batch = in.db.NewBatch()
		}
		in.batch.Delete(in.key(a.K))
	case "bwrite":
		switch variant {
		case 0:
			in.batch.Write()
		case 1:
			in.batch.WriteSync()
		default:
			if err := in.batch.Commit(); err != nil {
				panic(err)
			}
		}
		if in.step%2 == 0 {
			in.batch = nil
		} else {
			in.batch.Reset() // the trie database's pattern: Write, Reset, reuse
		}
	case "breset":
		in.batch.Reset() // the object is kept and reused
	case "babandon":
		in.batch = nil
	case "reopen":
		in.batch = nil // a batch object does not outlive its store
		if in.be.persist {
			in.raw.Close()
			in.open()
		}
	}
}

type kvPair struct{ K, V []byte }

// collect drains the iterator. The stream is recorded twice: copied at once, and as the slices the
// iterator handed out, looked at only after the iteration is over (a caller that gathers the keys of a
// range and then deletes them keeps those slices; the contract says "readonly", not "valid until Next").
// A retained slice that no longer shows what it showed when it was returned replaces the pair by a marker.
func collect(it dbm.Iterator) (out []kvPair) {
	var kept []kvPair
	for ; it.Valid(); it.Next() {
		k, v := it.Key(), it.Value()
		kept = append(kept, kvPair{k, v})
		out = append(out, kvPair{append([]byte{}, k...), append([]byte{}, v...)})
		if len(out) > 64 {
			break
		}
	}
	it.Close()
	for i := range out {
		if !bytes.Equal(kept[i].K, out[i].K) || !bytes.Equal(kept[i].V, out[i].V) {
			out[i] = kvPair{[]byte(fmt.Sprintf("RETAINED-SLICE-CHANGED(key %x now reads %x)", out[i].K, kept[i].K)), out[i].V}
		}
	}
	return
}

func pairsString(ps []kvPair) string {
	var b bytes.Buffer
	for _, p := range ps {
		fmt.Fprintf(&b, "%x=%s ", p.K, p.V)
	}
	return b.String()
}

// refMap is the reference ordered map derived from the model state.
func (in *kvInst) refMap(st kvState) []kvPair {
	var ps []kvPair
	for i, v := range st.M {
		if v != 0 {
			ps = append(ps, kvPair{in.keys[i], kvVal(v)})
		}
	}
	ps = append(ps, in.statics()...)
	sort.Slice(ps, func(i, j int) bool { return bytes.Compare(ps[i].K, ps[j].K) < 0 })
	return ps
}

func refFwd(ps []kvPair, lo, hi []byte) (out []kvPair) {
	for _, p := range ps {
		if bytes.Compare(p.K, lo) >= 0 && (hi == nil || bytes.Compare(p.K, hi) < 0) {
			out = append(out, p)
		}
	}
	return
}
func refRev(ps []kvPair, lo, hi []byte) (out []kvPair) {
	for i := len(ps) - 1; i >= 0; i-- {
		p := ps[i]
		if (lo == nil || bytes.Compare(p.K, lo) <= 0) && (hi == nil || bytes.Compare(p.K, hi) > 0) {
			out = append(out, p)
		}
	}
	return
}
func refPrefix(ps []kvPair, pre []byte) (out []kvPair) {
	for _, p := range ps {
		if bytes.HasPrefix(p.K, pre) {
			out = append(out, p)
		}
	}
	return
}

func samePairs(a, b []kvPair, ordered bool) bool {
	if len(a) != len(b) {
		return false
	}
	if !ordered {
		a = append([]kvPair{}, a...)
		b = append([]kvPair{}, b...)
		less := func(x []kvPair) func(i, j int) bool {
			return func(i, j int) bool { return bytes.Compare(x[i].K, x[j].K) < 0 }
		}
		sort.Slice(a, less(a))
		sort.Slice(b, less(b))
	}
	for i := range a {
		if !bytes.Equal(a[i].K, b[i].K) || !bytes.Equal(a[i].V, b[i].V) {
			return false
		}
	}
	return true
}

// observe compares everything pi_prop names with the model state; returns "" or a mismatch.
func (in *kvInst) observe(st kvState, deep bool) string {
	ref := in.refMap(st)
	for i, v := range st.M {
		k := in.keys[i]
		if in.skip0 && i == 0 {
			continue
		}
		got := in.db.Get(k)
		has := in.db.Has(k)
		lv, lerr := in.db.Load(k)
		ex, eerr := in.db.Exist(k)
		if v == 0 {
			// the error value (and what accompanies it) for a missing key is backend-specific and excluded
			if got != nil || has || (lerr == nil && len(lv) != 0) || (eerr == nil && ex && len(lv) != 0) {
				return fmt.Sprintf("lookup of absent key %x: Get=%q Has=%v Load=%q,%v Exist=%v,%v", k, got, has, lv, lerr, ex, eerr)
			}
		} else {
			w := kvVal(v)
			if !bytes.Equal(got, w) || !has || !bytes.Equal(lv, w) || !ex || lerr != nil || eerr != nil {
				return fmt.Sprintf("lookup of key %x: want %q, Get=%q Has=%v Load=%q,%v Exist=%v,%v", k, w, got, has, lv, lerr, ex, eerr)
			}
		}
	}
	for _, g := range in.guard {
		if v := in.raw.Get(g[0]); !bytes.Equal(v, g[1]) {
			return fmt.Sprintf("key %x outside the prefixed view changed: %q", g[0], v)
		}
	}
	if in.noIter {
		return ""
	}
	if got := collect(in.db.Iterator([]byte{}, nil)); !samePairs(got, ref, in.be.ordered) {
		return fmt.Sprintf("Iterator({},nil): got [%s] want [%s]", pairsString(got), pairsString(ref))
	}
	if got := collect(in.db.ReverseIterator(nil, nil)); !samePairs(got, refRev(ref, nil, nil), in.be.ordered) {
		return fmt.Sprintf("ReverseIterator(nil,nil): got [%s] want [%s]", pairsString(got), pairsString(refRev(ref, nil, nil)))
	}
	if !deep {
		return ""
	}
	// extended bounds: every key, a key just below and just above each key
	var bounds [][]byte
	for i, k := range in.keys {
		if in.skip0 && i == 0 {
			continue
		}
		bounds = append(bounds, k, append(append([]byte{}, k...), 0))
		if len(k) > 0 && k[len(k)-1] > 0 {
			b := append([]byte{}, k...)
			b[len(b)-1]--
			bounds = append(bounds, append(b, 0xff))
		}
	}
	for _, lo := range append(bounds, []byte{}) {
		for _, hi := range append(bounds, nil) {
			if hi != nil && bytes.Compare(lo, hi) >= 0 {
				continue
			}
			if got, want := collect(in.db.Iterator(lo, hi)), refFwd(ref, lo, hi); !samePairs(got, want, in.be.ordered) {
				return fmt.Sprintf("Iterator(%x,%x): got [%s] want [%s]", lo, hi, pairsString(got), pairsString(want))
			}
		}
	}
	for _, lo := range append(bounds, nil) {
		for _, hi := range append(bounds, nil) {
			if lo != nil && hi != nil && bytes.Compare(lo, hi) <= 0 {
				continue
			}
			if got, want := collect(in.db.ReverseIterator(lo, hi)), refRev(ref, lo, hi); !samePairs(got, want, in.be.ordered) {
				return fmt.Sprintf("ReverseIterator(%x,%x): got [%s] want [%s]", lo, hi, pairsString(got), pairsString(want))
			}
		}
	}
	seenP := map[string]bool{}
	for _, k := range in.keys {
		for l := 0; l <= len(k); l++ {
			p := k[:l]
			if seenP[string(p)] {
				continue
			}
			seenP[string(p)] = true
			if got, want := collect(in.db.NewIteratorWithPrefix(p)), refPrefix(ref, p); !samePairs(got, want, in.be.ordered) {
				return fmt.Sprintf("NewIteratorWithPrefix(%x): got [%s] want [%s]", p, pairsString(got), pairsString(want))
			}
		}
	}
	return ""
}

// query executes one of the model's own Query edges and compares with TLC's result.
func (in *kvInst) query(a kvAct) string {
	if in.noIter {
		return ""
	}
	var got []kvPair
	var want []kvPair
	for _, r := range a.Res {
		want = append(want, kvPair{in.key(r[0]), kvVal(r[1])})
	}
	// the statics lie outside the abstract key set: the reference adds those inside the bounds
	if a.Op == "iter" {
		lo := in.bound(a.Lo)
		if lo == nil {
			lo = []byte{}
		}
		got = collect(in.db.Iterator(lo, in.bound(a.Hi)))
		want = append(want, refFwd(in.statics(), lo, in.bound(a.Hi))...)
		sort.Slice(want, func(i, j int) bool { return bytes.Compare(want[i].K, want[j].K) < 0 })
	} else {
		got = collect(in.db.ReverseIterator(in.bound(a.Lo), in.bound(a.Hi)))
		want = append(want, refRev(in.statics(), in.bound(a.Lo), in.bound(a.Hi))...)
		sort.Slice(want, func(i, j int) bool { return bytes.Compare(want[i].K, want[j].K) > 0 })
	}
	if !samePairs(got, want, in.be.ordered) {
		return fmt.Sprintf("%s(%d,%d): got [%s], the specification says [%s]", a.Op, a.Lo, a.Hi, pairsString(got), pairsString(want))
	}
	return ""
}

type kvJob struct {
	Edges   string `json:"edges"` // file with the exported edge lines
	Backend int    `json:"backend"`
	Table   int    `json:"table"`
	Full    bool   `json:"full"`
	NKeys   int    `json:"nkeys"`
	Walks   int    `json:"walks"`
	Dir     string `json:"dir"`
	Idx     int    `json:"idx"`
	Budget  int    `json:"budgetSec"` // stop taking further steps after this long (0: no limit)
	Special string `json:"special"`   // "badger-gc-after-close": the dedicated close/reopen/lifetime scenario
	WaitSec int    `json:"waitSec"`
}

type kvJobResult struct {
	Behaviours int              `json:"behaviours"`
	Steps      int              `json:"steps"`
	Nontrivial int              `json:"nontrivial"`
	Violations []core.Violation `json:"violations"`
	Sample     interface{}      `json:"sample"`
	CutSteps   int              `json:"steps_not_replayed_time_budget"`
}

// gcAfterClose: "also after close and reopen" includes the LIFETIME of the process that closed a store.
// BadgerDB starts a value-log GC goroutine with a 10-minute ticker per handle: the process must still answer
// lookups after a closed handle's ticker has fired.
func gcAfterClose(j kvJob) {
	w := bufio.NewWriter(os.Stdout)
	defer w.Flush()
	fmt.Fprintf(w, "AT %s\n", `["open badger","set k=v (x3)","close","reopen","wait past the GC interval","get k (x3)"]`)
	w.Flush()
	os.RemoveAll(j.Dir)
	os.MkdirAll(j.Dir, 0755)
	db := dbm.NewDB("gc", dbm.BadgerBackend, j.Dir, 1)
	keys := [][]byte{[]byte("a"), []byte("b\xff"), []byte("c")}
	for i, k := range keys {
		db.Set(k, []byte{byte(i + 1)})
	}
	db.Close()
	db2 := dbm.NewDB("gc", dbm.BadgerBackend, j.Dir, 1)
	time.Sleep(time.Duration(j.WaitSec) * time.Second)
	var res kvJobResult
	res.Behaviours, res.Nontrivial = 1, 1
	for i, k := range keys {
		res.Steps++
		if v := db2.Get(k); len(v) != 1 || v[0] != byte(i+1) {
			res.Violations = append(res.Violations, core.Violation{Key: "mismatch/badger/after-reopen", Desc: fmt.Sprintf("key %x reads %x after close, reopen and %d s", k, v, j.WaitSec)})
		}
	}
	db2.Close()
	rj, _ := json.Marshal(res)
	fmt.Fprintf(w, "RESULT %s\nDONE\n", rj)
}

func kvSeqs(g *mbt.Graph, seed int64, nWalks int, full bool, idx int) [][]int {
	// the graph over <<m, batch>> is strongly connected (everything can be deleted
	// again), so one greedy uncovered-edge-first walk covers it; jobs that cannot
	// afford the whole tour take a budgeted prefix of a differently seeded one.
	rng := rand.New(rand.NewSource(seed*1000 + int64(idx)))
	budget := 0
	if !full {
		budget = 3000
	}
	tours := g.Tour(budget, rng)
	if !full && len(tours) > 1 {
		tours = tours[:1]
	}
	return append(tours, g.Walks(nWalks, 12, rng)...)
}

// c19Child replays the behaviours of one (backend, key table) job in this process.
func c19Child(c *core.Ctx) {
	var j kvJob
	if err := json.Unmarshal([]byte(c.Child), &j); err != nil {
		fmt.Fprintln(os.Stderr, "bad job:", err)
		os.Exit(3)
	}
	if j.Special == "badger-gc-after-close" {
		gcAfterClose(j)
		return
	}
	b, err := ioutil.ReadFile(j.Edges)
	if err != nil {
		fmt.Fprintln(os.Stderr, err)
		os.Exit(3)
	}
	g, err := mbt.Load(strings.Split(strings.TrimSpace(string(b)), "\n"))
	if err != nil {
		fmt.Fprintln(os.Stderr, err)
		os.Exit(3)
	}
	started := time.Now()
	be, tb := kvBackends[j.Backend], kvTables[j.Table]
	in := &kvInst{be: be, keys: tb.keys[:j.NKeys], allKeys: tb.keys, table: tb.name, dir: j.Dir}
	emptyKey := tb.name == "empty-key"
	var res kvJobResult
	seqs := kvSeqs(g, c.Seed, j.Walks, j.Full, j.Idx)
	emptyFinding := emptyKey && (be.backend == dbm.BoltBackend || be.backend == dbm.BadgerBackend) && be.prefix == nil
	if emptyFinding {
		// bolt and badger reject the empty key (known finding): replay short behaviours only,
		// each from a fresh store, so every one that avoids the empty key is still compared
		seqs = g.Walks(j.Walks*4, 10, rand.New(rand.NewSource(c.Seed)))
	}
	seen := map[string]bool{}
	w := bufio.NewWriter(os.Stdout)
	defer w.Flush()
	for si, seq := range seqs {
		if j.Budget > 0 && time.Since(started) > time.Duration(j.Budget)*time.Second {
			for _, rest := range seqs[si:] {
				res.CutSteps += len(rest)
			}
			break
		}
		if err := in.reset(); err != nil {
			fmt.Fprintln(os.Stderr, "reset:", err)
			os.Exit(3)
		}
		var trace []string
		for _, ei := range seq {
			trace = append(trace, mbt.Compact(g.Edges[ei].Act))
		}
		in.skip0 = emptyFinding && !kvUsesKey1(trace)
		tj, _ := json.Marshal(trace)
		fmt.Fprintf(w, "AT %s\n", tj)
		w.Flush()
		bad := ""
		changed := false
		done := 0
		func() {
			defer func() {
				if r := recover(); r != nil {
					bad = fmt.Sprintf("panic: %v", r)
				}
			}()
			for pi, ei := range seq {
				if j.Budget > 0 && pi%256 == 0 && time.Since(started) > time.Duration(j.Budget)*time.Second {
					res.CutSteps += len(seq) - pi
					return
				}
				e := g.Edges[ei]
				var a kvAct
				var st kvState
				json.Unmarshal(e.Act, &a)
				json.Unmarshal(e.ToSt, &st)
				res.Steps++
				done = pi + 1
				if a.Op == "iter" || a.Op == "riter" {
					if bad = in.query(a); bad != "" {
						return
					}
					continue
				}
				changed = true
				in.apply(a)
				deep := be.backend == dbm.MemDBBackend || (pi+si)%5 == 0
				if bad = in.observe(st, deep); bad != "" {
					return
				}
			}
		}()
		res.Behaviours++
		if changed {
			res.Nontrivial++
		}
		if res.Sample == nil && len(trace) > 3 {
			n := len(trace)
			if n > 12 {
				n = 12
			}
			res.Sample = map[string]interface{}{"backend": be.name, "table": tb.name, "keys_hex": hexKeys(in.keys), "behaviour_prefix": trace[:n]}
		}
		if bad != "" {
			key := "mismatch/" + be.name
			if !be.ordered && (strings.Contains(bad, "terator(") || strings.HasPrefix(bad, "iter(") || strings.HasPrefix(bad, "riter(")) {
				key = "sharded-iteration/" + string(be.backend)
			}
			if emptyKey && kvUsesKey1(trace) && (be.backend == dbm.BoltBackend || be.backend == dbm.BadgerBackend) && be.prefix == nil {
				key = "empty-key/" + string(be.backend)
			}
			if seen[key] {
				continue
			}
			seen[key] = true
			res.Violations = append(res.Violations, core.Violation{Key: key, Desc: fmt.Sprintf("backend %s, key table %s: %s", be.name, tb.name, bad),
				Record: map[string]interface{}{"backend": be.name, "table": tb.name, "keys_hex": hexKeys(in.keys), "actions": trace[:done], "mismatch": bad}})
			if strings.HasPrefix(key, "sharded-iteration/") {
				in.noIter = true // recorded once; lookups and batches keep being compared
				continue
			}
			if strings.HasPrefix(key, "empty-key/") {
				continue
			}
			break // one violation per job is enough; the other jobs keep comparing
		}
	}
	if in.raw != nil {
		func() { defer func() { recover() }(); in.raw.Close() }()
	}
	rj, _ := json.Marshal(res)
	fmt.Fprintf(w, "RESULT %s\nDONE\n", rj)
}

func kvUsesKey1(trace []string) bool {
	for _, t := range trace {
		var a kvAct
		json.Unmarshal([]byte(t), &a)
		if a.K == 1 || ((a.Op == "iter" || a.Op == "riter") && (a.Lo == 1 || a.Hi == 1)) {
			return true
		}
	}
	return false
}

func runC19(c *core.Ctx) {
	if c.Child != "" {
		c19Child(c)
		return
	}
	o := c.Out()
	o.Level = "model_checking"
	o.Rule = "behaviour = path through the TLC-exported graph of KVStore (tour covering every edge + seeded walks) replayed on one (backend, key table); non-trivial = the behaviour contains at least one state-changing action; distinct = distinct (backend, table, edge sequence)"
	o.Assumptions = []string{"keys drawn from four concrete tables (shared prefixes, 0x00/0xFF-terminated, binary, empty key)", "non-empty values only (empty values are excluded by the property)", "the error value for a missing key is not compared", "the sharded GoLevelDB configuration (db_counts > 1) is compared on lookups, batches and iteration content, not on iteration order"}
	o.Trusted = []string{"TLC", "Go reference of the iterator domains (cross-checked against TLC's results on every Query edge)", "goleveldb / bolt / badger libraries"}
	cfg := "KVStore.cfg"
	if c.Thorough() {
		cfg = "KVStoreBig.cfg"
	}
	res := c.TLC(tlc.Options{SpecDir: c.SpecDir("KVStore"), Module: "KVStore", Config: cfg, Workers: 1, Timeout: c.MinutesT(5, 30)})
	if res == nil {
		return
	}
	if res.Violated != "" || !res.Finished {
		c.Infra("KVStore model: %s\n%s", res.Describe(), res.Tail)
		return
	}
	o.Exhaustive = true
	g, err := mbt.Load(res.Lines)
	if err != nil {
		c.Infra("edge load: %v", err)
		return
	}
	c.SetExtra("model_states", len(g.States))
	c.SetExtra("model_edges", len(g.Edges))
	c.SetExtra("edges_by_action", g.ActionKinds("op"))
	nKeys := 3
	if c.Thorough() {
		nKeys = 4
	}
	base, err := ioutil.TempDir("", "vkv")
	if err != nil {
		c.Infra("tempdir: %v", err)
		return
	}
	defer os.RemoveAll(base)
	edgeFile := filepath.Join(base, "edges.ndjson")
	if err := ioutil.WriteFile(edgeFile, []byte(strings.Join(res.Lines, "\n")), 0644); err != nil {
		c.Infra("write edges: %v", err)
		return
	}
	var jobs []kvJob
	for bi, be := range kvBackends {
		for ti := range kvTables {
			full := be.backend == dbm.MemDBBackend || c.Thorough()
			jobs = append(jobs, kvJob{Edges: edgeFile, Backend: bi, Table: ti, Full: full, NKeys: nKeys, Walks: c.Pick(40, 400),
				Dir: filepath.Join(base, fmt.Sprintf("j%d", len(jobs))), Idx: len(jobs), Budget: c.Pick(0, 240)})
		}
	}
	if c.Thorough() {
		// first in the queue: it mostly sleeps (10.5 minutes) while the other jobs run
		jobs = append([]kvJob{{Special: "badger-gc-after-close", WaitSec: 630, Dir: filepath.Join(base, "gc"), Idx: 9999}}, jobs...)
	}
	cutSteps := 0
	var wg sync.WaitGroup
	var mu sync.Mutex
	sem := make(chan struct{}, 12)
	for _, j := range jobs {
		wg.Add(1)
		go func(j kvJob) {
			defer wg.Done()
			sem <- struct{}{}
			defer func() { <-sem }()
			arg, _ := json.Marshal(j)
			results, at, crash := c.RunChild(string(arg), c.MinutesT(8, 60))
			be, tb := kvBackends[0], kvTables[0]
			if j.Special == "" {
				be, tb = kvBackends[j.Backend], kvTables[j.Table]
			}
			mu.Lock()
			defer mu.Unlock()
			if j.Special != "" && crash != "" && crash != "TIMEOUT" && !(strings.Contains(crash, "/repo/") || strings.Contains(crash, "linkchain")) {
				mu.Unlock()
				c.Infra("the close/reopen/lifetime scenario died outside the code under test: %s", crash)
				mu.Lock()
				return
			}
			if j.Special != "" && crash != "" && crash != "TIMEOUT" {
				mu.Unlock()
				c.Violate("crash/badger/gc-after-close", "a process that closed and reopened a Badger store died while it waited "+fmt.Sprint(j.WaitSec)+" s (the closed handle's value-log GC ticker fires after 10 minutes)",
					map[string]interface{}{"scenario": at, "crash": crash})
				mu.Lock()
				return
			}
			for _, r := range results {
				var jr kvJobResult
				if json.Unmarshal([]byte(r), &jr) != nil {
					continue
				}
				cutSteps += jr.CutSteps
				o.Traces += jr.Behaviours
				o.Evaluations += jr.Steps
				o.Distinct += jr.Nontrivial
				if jr.Sample != nil && (len(o.Samples) == 0 || (len(o.Samples) < 3 && j.Table != 0)) {
					o.Samples = append(o.Samples, jr.Sample)
				}
				for _, v := range jr.Violations {
					mu.Unlock()
					c.Violate(v.Key, v.Desc, v.Record)
					mu.Lock()
				}
			}
			if crash == "TIMEOUT" {
				mu.Unlock()
				c.Infra("job %s/%s timed out", be.name, tb.name)
				mu.Lock()
			} else if crash != "" {
				// the process running the backend died: an unrecoverable failure of the code under test
				var trace []string
				json.Unmarshal([]byte(at), &trace)
				key := "crash/" + be.name
				if tb.name == "empty-key" && kvUsesKey1(trace) && (be.backend == dbm.BoltBackend || be.backend == dbm.BadgerBackend) && be.prefix == nil {
					key = "empty-key/" + string(be.backend)
				}
				if !strings.Contains(crash, "/repo/") && !strings.Contains(crash, "linkchain") {
					mu.Unlock()
					c.Infra("job %s/%s died outside the code under test: %s", be.name, tb.name, crash)
					mu.Lock()
					return
				}
				mu.Unlock()
				c.Violate(key, fmt.Sprintf("backend %s, key table %s: the process died while executing the behaviour", be.name, tb.name),
					map[string]interface{}{"backend": be.name, "table": tb.name, "actions": trace, "crash": crash})
				mu.Lock()
			}
		}(j)
	}
	wg.Wait()
	c.SetExtra("backends", backendNames())
	c.SetExtra("jobs", len(jobs))
	c.SetExtra("steps_not_replayed_time_budget", cutSteps)
	c.SetExtra("bounds", map[string]interface{}{"config": cfg, "keys": nKeys})
}

func backendNames() (n []string) {
	for _, b := range kvBackends {
		n = append(n, b.name)
	}
	return
}

func hexKeys(ks [][]byte) (out []string) {
	for _, k := range ks {
		out = append(out, fmt.Sprintf("%x", k))
	}
	return
}
