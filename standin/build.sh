#!/bin/bash
# Builds the link-time stand-ins for the binaries that are absent from the tree:
#   libxcrypto.a      41 weak aborting stubs (the Go model in harness/xmodel overrides
#                     the ones it implements with strong //export definitions)
#   libboost_*.a      empty archives (named in the #cgo LDFLAGS of libs/cryptonote/xcrypto)
set -e
cd "$(dirname "$0")"
OUT=${1:-lib}
mkdir -p "$OUT"
SYMS="test_tlv_keyV test_tlv_rctsig tlv_addKeyV tlv_get_pre_mlsag_hash tlv_get_subaddress tlv_proveRangeBulletproof tlv_proveRangeBulletproof128 tlv_proveRctMGSimple tlv_verBulletproof tlv_verBulletproof128 tlv_verRctNotSemanticsSimple tlv_verRctSimple x_addKeys x_addKeys2 x_bytes_to_words x_checkKey x_check_ring_signature x_derivation_to_scalar x_derive_public_key x_derive_secret_key x_derive_subaddress_public_key x_ecdh_decode x_ecdh_encode x_genC x_generate_key_derivation x_generate_key_image x_generate_keys x_generate_ring_signature x_get_subaddress_secret_key x_sc_add x_sc_secret_add x_sc_sub x_scalarmult8 x_scalarmultBase x_scalarmultH x_scalarmultKey x_secret_key_to_public_key x_skGen x_skpkGen x_words_to_bytes x_zeroCommit"
T=$(mktemp -d)
trap 'rm -rf "$T"' EXIT
( echo '#include <stdlib.h>'
  for s in $SYMS; do echo "__attribute__((weak)) int $s(){ abort(); return -1; }"; done ) > "$T/stubw.c"
gcc -c -fPIC "$T/stubw.c" -o "$T/stubw.o"
rm -f "$OUT/libxcrypto.a"; ar rcs "$OUT/libxcrypto.a" "$T/stubw.o"
echo 'static int verif_boost_dummy __attribute__((unused));' > "$T/dummy.c"
gcc -c "$T/dummy.c" -o "$T/dummy.o"
for l in boost_system boost_filesystem boost_thread boost_date_time boost_regex boost_chrono; do
  rm -f "$OUT/lib$l.a"; ar rcs "$OUT/lib$l.a" "$T/dummy.o"
done
