#!/usr/bin/env python3
"""Assembles DESIGN.md from notes/part1_head.md, part1_props_a.md, part1_props_b.md, part1_c15.md,
part1_tail.md (with seeded/MATRIX.md spliced in) and notes/part2.md."""
import os, re
R = os.path.join(os.path.dirname(os.path.abspath(__file__)), "..")
rd = lambda p: open(os.path.join(R, p)).read() if os.path.exists(os.path.join(R, p)) else ""
b = rd("notes/part1_props_b.md")
i = b.find("### Table: findings by property")
if i >= 0:
    b = b[:i]
tail = rd("notes/part1_tail.md").replace("@@MATRIX@@", rd("seeded/MATRIX.md").strip() or "(run bin/seeded-run)")
out = "# Verification design for lianxiangcloud/linkchain — model-based, with explicit TLA+ specifications\n\n" + \
      rd("notes/part1_head.md") + rd("notes/part1_props_a.md") + b + rd("notes/part1_c15.md") + tail + "\n" + rd("notes/part2.md")
open(os.path.join(R, "DESIGN.md"), "w").write(out)
print(len(out.splitlines()), "lines")
