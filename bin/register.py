#!/usr/bin/env python3
"""register.py <id> <category> <technique> <text> <note>  — add/replace a check in MANIFEST.json and all.go"""
import json, sys, re
pid, cat, tech, text, note = sys.argv[1:6]
m = json.load(open('/verif/MANIFEST.json'))
c = {"property_id": pid, "quick_cmd": "bin/check %s --tier quick" % pid, "thorough_cmd": "bin/check %s --tier thorough" % pid,
     "evidence_file": "evidence/%s.json" % pid, "replay_cmd_template": "bin/check %s --replay {path}" % pid, "engine": "vcheck",
     "level_claimed": {"category": cat, "text": text, "design_ref": "DESIGN.md Part I §I.4 %s" % pid}, "level_note": note, "technique": tech}
m['checks'] = sorted([x for x in m['checks'] if x['property_id'] != pid] + [c], key=lambda x: x['property_id'])
m['not_applicable'] = [n for n in m['not_applicable'] if n['property_id'] != pid]
m['engines'][0]['serves_properties'] = sorted(x['property_id'] for x in m['checks'])
json.dump(m, open('/verif/MANIFEST.json', 'w'), indent=1)
p = '/verif/harness/cmd/vcheck/all.go'
s = open(p).read()
imp = '\t_ "verifh/props/%s"\n' % pid.lower()
if imp not in s:
    lines = [l for l in s.split('\n') if l.startswith('\t_ "verifh/props/')] + [imp.rstrip('\n')]
    lines = sorted(set(lines))
    s = re.sub(r'import \((.|\n)*?\)', 'import (\n' + '\n'.join(lines) + '\n)', s)
    open(p, 'w').write(s)
print("registered", pid)
