#!/usr/bin/env python3
"""mkseeded.py <id> <property> <src-dir> <confirm.json> [needs-text]
Files a confirmed seeded change under /verif/seeded/<id>/ (patch.diff, demo, NOTES.md, meta.json)."""
import json, os, re, shutil, sys
id_, prop, src, conf = sys.argv[1:5]
needs = sys.argv[5] if len(sys.argv) > 5 else ""
dst = "/verif/seeded/" + id_
os.makedirs(dst, exist_ok=True)
for f in ("patch.diff", "demo_test.go", "NOTES.md"):
    if os.path.exists(os.path.join(src, f)):
        shutil.copy(os.path.join(src, f), os.path.join(dst, f))
if not needs and os.path.exists(os.path.join(src, "NOTES.md")):
    t = open(os.path.join(src, "NOTES.md")).read()
    m = re.search(r"^##[^\n]*(needed|needs)[^\n]*\n(.*?)(?=^## |\Z)", t, re.S | re.M | re.I)
    if m:
        needs = " ".join(m.group(2).split())
r = json.load(open(conf))
files = [l[6:].strip() for l in open(os.path.join(src, "patch.diff")) if l.startswith("+++ b/")]
meta = {
    "id": id_, "property": prop, "files_changed": files,
    "origin": "written by an independent sub-agent that saw only the property text and a scratch worktree of the repository",
    "needs_to_manifest": needs,
    "confirmed": {
        "by": "the main session, in a scratch worktree of /repo at %s (removed afterwards); script: seeded/confirm.py" % r.get("repo_head"),
        "patch_applies": r["apply"]["exit"] == 0, "go_build_all": r["build"]["exit"] == 0,
        "demo": {"file": "demo_test.go", "placed_at": None, "without_change_exit": r["demo_without_change"]["exit"], "with_change_exit": r["demo_with_change"]["exit"],
                 "with_change_tail": r["demo_with_change"]["tail"][-500:]},
        "existing_tests": {"packages": r["pkg_tests"]["packages"], "results_without": r["pkg_tests"]["n_without"], "passing_without": r["pkg_tests"]["pass_without"],
                           "results_with": r["pkg_tests"]["n_with"], "passing_with": r["pkg_tests"]["pass_with"], "outcome_differences": r["pkg_tests"]["differences"]},
        "all_confirmed": r.get("confirmed", False),
    },
}
json.dump(meta, open(os.path.join(dst, "meta.json"), "w"), indent=1)
print(dst, "needs:", needs[:100])
