# sourced by bin/setup and bin/check
export VERIF_ROOT="$(cd "$(dirname "${BASH_SOURCE[0]}")/.." && pwd)"
export GOFLAGS=-mod=mod GOPROXY=off GOSUMDB=off GOTOOLCHAIN=local
export CGO_LDFLAGS="-L$VERIF_ROOT/standin/lib"
export JAVA_TOOL_OPTIONS="-Xss512m"
export TLA_JAR=/opt/veriftools/tla/tla2tools.jar
