\* quick: value universes, round trip, injectivity, mutation classes
CONSTANTS
  Mode = "values"
  Wide = FALSE
  AsCoded = FALSE
  Extra = 0
  Targets = {}
INIT Init
NEXT Next
VIEW View
INVARIANT RoundTrip
INVARIANT Injective
INVARIANT MutInv
ACTION_CONSTRAINT Emit
CHECK_DEADLOCK FALSE
