\* thorough: wider alphabets, one more chunk/byte
CONSTANTS
  Mode = "bytes"
  Wide = TRUE
  AsCoded = FALSE
  Extra = 1
  Targets = {"rec", "recq", "ifct", "ifce", "ifcs", "lifc", "map"}
INIT Init
NEXT Next
VIEW View
INVARIANT BytesInv
INVARIANT SplitInv
ACTION_CONSTRAINT Emit
CHECK_DEADLOCK FALSE
