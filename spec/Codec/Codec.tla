------------------------------- MODULE Codec -------------------------------
(***************************************************************************)
(* The wire / storage codec of libs/ser: go-ethereum RLP extended with     *)
(*   - an amino-style registry (RegisterInterface / RegisterConcrete): an  *)
(*     interface-typed value is written as the 7-byte "disfix" of the      *)
(*     registered concrete type followed by the body, a nil interface as   *)
(*     the single byte 0x00 (cdc.go writeCDCInterface/decodeCDCInterface), *)
(*   - signed integers as hexadecimal ASCII text (writeInt / decodeInt),   *)
(*   - map[[20]byte]*big.Int as [len, k1, v1, ...] sorted by key           *)
(*     (makeMapWriter / makeMapDecoder),                                   *)
(*   - "optional" pointers: an empty string or list decodes as nil         *)
(*     (makeOptionalPtrDecoder), an empty list decodes as the zero struct. *)
(*                                                                         *)
(* The module is implementation shaped: KindAt is Stream.Kind/readKind,    *)
(* BytesAt is Stream.Bytes, UintAt is Stream.uint, RawKind is raw.go's     *)
(* readKind (Split / CountValues), DecT is the type-directed decoder       *)
(* makeDecoder builds, Enc the writer makeWriter builds.  A decoder call   *)
(* is a big step: its result is a value or an error class.                 *)
(*                                                                         *)
(* Every decoder exists in two flavours selected by the parameter st:      *)
(*   st = FALSE  "as coded": the lenient paths of the code are taken;      *)
(*   st = TRUE   "strict":   each lenient path (listed where it occurs,    *)
(*               error classes "nc_...") rejects instead.                  *)
(* TLC checks that the strict decoder is canonical (an accepted input is   *)
(* exactly the encoding of the value it decodes to), that the coded        *)
(* decoder agrees with it wherever the strict one accepts, that the coded  *)
(* decoder has NO leniency at all on the plain grammar (strings, lists,    *)
(* unsigned and big integers, booleans, byte arrays), that encoding is     *)
(* injective and decode(encode(v)) = v, and that no call ends in anything  *)
(* but a value or an error.                                                *)
(*                                                                         *)
(* The system modelled is one process using the codec:                     *)
(*   Mode = "bytes"    a decoder entry point is opened on a target type    *)
(*                     and the input is fed chunk by chunk (Open, Feed);   *)
(*                     after every step the step label carries what        *)
(*                     DecodeBytes / Split / CountValues return on the     *)
(*                     input so far.  All inputs up to MaxChunks chunks    *)
(*                     over a boundary alphabet are enumerated, as long    *)
(*                     as the input so far is short and the decoder has    *)
(*                     not failed on what it has seen; a doomed prefix is  *)
(*                     completed with zeros, an accepted value gets one    *)
(*                     trailing chunk, a definite error ends the input.    *)
(*   Mode = "values"   EncodeToBytes is called on every value of a bounded *)
(*                     universe per target type (NextValue); the label     *)
(*                     carries the encoding, the decoding of it, and the   *)
(*                     decoder's verdict on every structural mutation of   *)
(*                     the encoding (the mutation classes the harness      *)
(*                     also applies to real consensus messages).           *)
(*   Mode = "registry" RegisterInterface / RegisterConcrete calls in any   *)
(*                     order (Register); the label carries, for every      *)
(*                     (interface, concrete type) pair, how a value of the *)
(*                     concrete type encodes through the interface and how *)
(*                     its encoding decodes into the interface.            *)
(*   Mode = "sizes"    a damaged record / crafted proof node is composed    *)
(*                     (SzForm, SzSize, SzRest, SzEmbed): one header of     *)
(*                     every form (short / long with 1..8 size bytes,       *)
(*                     string / list) whose size field runs over the        *)
(*                     boundary lattice of the arithmetic done on it (0, 1, *)
(*                     55, 56, 2^8j-1, 2^8k-10..2^8k-1, 2^(8k-1), ...),     *)
(*                     followed by 0, 1, size-1, size, size+1 bytes, alone  *)
(*                     or as an element of a trie node; the label carries   *)
(*                     what Split / CountValues / trie.decodeNode and the   *)
(*                     Stream decoder return (SizesInv).                    *)
(* Labels are printed as JSON (ACTION_CONSTRAINT Emit) and replayed on the *)
(* real code by harness/props/c11.                                         *)
(*                                                                         *)
(* Deviations of the code from this design, named where they occur:        *)
(*   - AsCoded = TRUE: decodeCDCInterface resolves the prefix among ALL    *)
(*     registered types and rv.Set()s the result: a registered type that   *)
(*     does not implement the target interface is a panic, not an error    *)
(*     (verdict class "panic"; NoCrashV / RegNoPanic fail in that model);  *)
(*   - field ib of a decoder result: the error arose inside the body of an *)
(*     interface value; the code discards that error and carries on (the   *)
(*     harness records, but does not compare, what happens then);          *)
(*   - the map decoder pre-sizes the map with the claimed entry count      *)
(*     (mutation class "map-hugelen": an allocation, not a grammar, issue).*)
(***************************************************************************)
EXTENDS Integers, Sequences, FiniteSets, TLC, Json

CONSTANTS Mode,      \* "bytes" | "values" | "registry" | "sizes"
          Wide,      \* TRUE: the larger alphabets / value universes (thorough tier)
          AsCoded,   \* FALSE: interface decoding as designed; TRUE: as coded (rv.Set without an assignability check)
          Extra,     \* bytes mode: additional chunks allowed beyond the per-target default
          Targets    \* bytes mode: the target types explored by this run (the harness runs several groups in parallel); sizes mode: the header forms ("str", "list")

(* ======================================================================= *)
(* bytes and headers                                                       *)
(* ======================================================================= *)
Cap == 16777216   \* 2^24, "larger than any input of the bounded universe" (TLC integers are 32 bit)
\* PAD stands for "input not fed yet" (bytes mode only: a prefix is padded to the length its first header claims
\* in order to find out whether the decoder fails before it reaches the part that is still missing)
PAD == 256
HasPad(b) == \E i \in 1..Len(b) : b[i] = PAD

RECURSIVE BE(_)
BE(n) == IF n = 0 THEN <<>> ELSE Append(BE(n \div 256), n % 256)      \* putint: minimal big endian

RECURSIVE BEsatAcc(_, _, _)
BEsatAcc(b, i, acc) == IF i > Len(b) THEN acc
                       ELSE BEsatAcc(b, i + 1, IF acc >= 65536 THEN Cap ELSE acc * 256 + b[i])
BEsat(b) == BEsatAcc(b, 1, 0)                                        \* readUint / readSize, saturating at Cap

\* puthead(smalltag, largetag, size): smalltag = 0x80 (string) or 0xC0 (list), largetag = smalltag + 55
Hdr(small, n) == IF n < 56 THEN <<small + n>> ELSE LET l == BE(n) IN <<small + 55 + Len(l)>> \o l
EncStr(b) == IF Len(b) = 1 /\ b[1] < 128 THEN b ELSE Hdr(128, Len(b)) \o b   \* encbuf.encodeString
EncLst(p) == Hdr(192, Len(p)) \o p                                           \* list()/listEnd()

RECURSIVE Cat(_)
Cat(ss) == IF Len(ss) = 0 THEN <<>> ELSE ss[1] \o Cat(Tail(ss))

Fill(n) == [i \in 1..n |-> 160 + (i % 64)]      \* n filler bytes (0xA0..0xDF)
Rep(n, x) == [i \in 1..n |-> x]

RECURSIVE SeqLessAt(_, _, _)
SeqLessAt(a, b, i) == IF i > Len(a) \/ i > Len(b) THEN Len(a) < Len(b)
                      ELSE IF a[i] < b[i] THEN TRUE ELSE IF a[i] > b[i] THEN FALSE ELSE SeqLessAt(a, b, i + 1)
SeqLess(a, b) == SeqLessAt(a, b, 1)              \* bytes.Compare(a, b) < 0

(* ======================================================================= *)
(* values (one record shape, so that any two values can be compared)       *)
(* ======================================================================= *)
Mk(t, b, e) == [t |-> t, b |-> b, e |-> e, c |-> ""]
Str(b)      == Mk("str", b, <<>>)        \* byte string; unsigned / big integers are their minimal big endian bytes, TRUE = <<1>>, FALSE = <<>>
Lst(es)     == Mk("list", <<>>, es)      \* list, slice, struct
NilV        == Mk("nil", <<>>, <<>>)     \* nil pointer / nil interface
Ifc(cn, v)  == Mk("ifc", <<cn>>, <<v>>)  \* interface value holding registered concrete type number cn
IntV(neg, nib) == Mk(IF neg THEN "nint" ELSE "int", nib, <<>>)   \* signed integer: sign and hex nibbles of the magnitude (no leading zero nibble)
MapV(ps)    == Mk("map", <<>>, ps)       \* ps: sequence of Lst(<<Str(key), Str(val)>>) in strictly increasing key order
RawV(b)     == Mk("raw", b, <<>>)
ErrV(cl)    == [t |-> "err", b |-> <<>>, e |-> <<>>, c |-> cl]

(* ---- signed integers are text ------------------------------------------ *)
HexCh(n) == IF n < 10 THEN 48 + n ELSE 87 + n
IntText(v) == (IF v.t = "nint" THEN <<45>> ELSE <<>>)                        \* strconv.FormatInt(i, 16)
              \o (IF Len(v.b) = 0 THEN <<48>> ELSE [i \in 1..Len(v.b) |-> HexCh(v.b[i])])
NibOf(ch) == IF ch >= 48 /\ ch <= 57 THEN ch - 48
             ELSE IF ch >= 97 /\ ch <= 102 THEN ch - 87
             ELSE IF ch >= 65 /\ ch <= 70 THEN ch - 55 ELSE 99
RECURSIVE StripZ(_)
StripZ(n) == IF Len(n) > 0 /\ n[1] = 0 THEN StripZ(Tail(n)) ELSE n
ParseHex(tx) ==                                                              \* strconv.ParseInt(text, 16, 64)
  LET signed == Len(tx) > 0 /\ tx[1] \in {43, 45}
      neg    == signed /\ tx[1] = 45
      dg     == IF signed THEN Tail(tx) ELSE tx
      nibs   == [i \in 1..Len(dg) |-> NibOf(dg[i])]
  IN IF Len(dg) = 0 \/ (\E i \in 1..Len(dg) : nibs[i] = 99) THEN ErrV("int_syntax")
     ELSE LET m == StripZ(nibs) IN
          IF Len(m) > 16 \/ (Len(m) = 16 /\ m[1] >= 8 /\ ~(neg /\ m = <<8>> \o Rep(15, 0))) THEN ErrV("int_range")
          ELSE IntV(neg /\ Len(m) > 0, m)
RECURSIVE NibSatAcc(_, _, _)
NibSatAcc(n, i, acc) == IF i > Len(n) THEN acc ELSE NibSatAcc(n, i + 1, IF acc >= 1048576 THEN Cap ELSE acc * 16 + n[i])
NibSat(n) == NibSatAcc(n, 1, 0)
RECURSIVE NatNib(_)
NatNib(n) == IF n = 0 THEN <<>> ELSE Append(NatNib(n \div 16), n % 16)

(* ======================================================================= *)
(* type descriptors (mirrored by Go types in the harness)                  *)
(* ======================================================================= *)
Ty(k, n, s) == [k |-> k, n |-> n, s |-> s]
TAny      == Ty("any", 0, <<>>)      \* interface{} (not registered): []byte for strings, []interface{} for lists
TBytes    == Ty("bytes", 0, <<>>)    \* []byte, string
TUint(n)  == Ty("uint", n, <<>>)     \* uintN
TBig      == Ty("big", 0, <<>>)      \* *big.Int
TBool     == Ty("bool", 0, <<>>)
TInt      == Ty("int", 64, <<>>)     \* int / int64: hexadecimal text
TArr(n)   == Ty("arr", n, <<>>)      \* [n]byte
TRaw      == Ty("raw", 0, <<>>)      \* ser.RawValue
TMap      == Ty("map", 0, <<>>)      \* map[[20]byte]*big.Int
TList(E)  == Ty("list", 0, <<E>>)    \* []E
TStruct(fs) == Ty("struct", 0, fs)
TPtr(E)   == Ty("ptr", 0, <<E>>)     \* *E (decoded by makeOptionalPtrDecoder)
TIfc(i)   == Ty("ifc", i, <<>>)      \* registered interface number i

(* ---- the registry of the bounded model --------------------------------- *)
\* interfaces: 1 = gI (one method), 2 = gE (empty interface, like ConsensusMessage)
\* concrete types: 1 = gA (*struct{X uint64}, registered as pointer, implements gI)
\*                 2 = gV (struct{B []byte}, registered as value, implements gI)
\*                 3 = gB (*struct{X uint64}, registered as pointer, does NOT implement gI)
CType == << TStruct(<<TUint(64)>>), TStruct(<<TBytes>>), TStruct(<<TUint(64)>>) >>
Implements(cn, i) == i = 2 \/ cn \in {1, 2}
\* sha256-derived disambiguation+prefix bytes of "verif/c11/gA", ".../gV", ".../gB" (NameToDisfix; the harness re-checks them)
Disfix == << <<255, 60, 123, 189, 94, 70, 255>>, <<31, 102, 7, 45, 87, 77, 110>>, <<44, 29, 7, 196, 201, 97, 173>> >>
UnknownDisfix == <<255, 60, 123, 189, 94, 70, 254>>
\* a partly fed prefix can still become a registered one (or the one the model uses as "unknown")
PrefixViable(w) == \E d \in {Disfix[1], Disfix[2], Disfix[3], UnknownDisfix} : \A i \in 1..7 : w[i] = PAD \/ w[i] = d[i]
ConcreteOf(d) == IF d = Disfix[1] THEN 1 ELSE IF d = Disfix[2] THEN 2 ELSE IF d = Disfix[3] THEN 3 ELSE 0

(* ======================================================================= *)
(* encoder (makeWriter)                                                    *)
(* ======================================================================= *)
RECURSIVE ZeroV(_)
ZeroV(T) == CASE T.k \in {"uint", "bytes", "big", "bool"} -> Str(<<>>)
              [] T.k = "arr"    -> Str(Rep(T.n, 0))
              [] T.k = "int"    -> IntV(FALSE, <<>>)
              [] T.k = "list"   -> Lst(<<>>)
              [] T.k = "struct" -> Lst([i \in 1..Len(T.s) |-> ZeroV(T.s[i])])
              [] T.k = "map"    -> MapV(<<>>)
              [] T.k = "raw"    -> RawV(<<>>)
              [] OTHER          -> NilV            \* ptr, ifc, any

RECURSIVE Enc(_, _)
\* makePtrWriter's nilfunc: byte array -> 0x80, struct -> 0xC0, anything else -> the zero value's encoding
NilEnc(E) == IF E.k = "arr" THEN <<128>> ELSE IF E.k = "struct" THEN <<192>> ELSE Enc(E, ZeroV(E))
Enc(T, v) ==
  CASE T.k = "any"    -> IF v.t = "nil" THEN <<192>>                                  \* writeInterface
                         ELSE IF v.t = "list" THEN EncLst(Cat([i \in 1..Len(v.e) |-> Enc(T, v.e[i])]))
                         ELSE EncStr(v.b)
    [] T.k \in {"bytes", "uint", "big", "bool", "arr"} -> EncStr(v.b)                  \* writeBytes, writeUint, writeBigInt, writeBool, writeByteArray
    [] T.k = "int"    -> EncStr(IntText(v))                                           \* writeInt
    [] T.k = "raw"    -> v.b                                                          \* writeRawValue
    [] T.k = "list"   -> EncLst(Cat([i \in 1..Len(v.e) |-> Enc(T.s[1], v.e[i])]))     \* makeSliceWriter
    [] T.k = "struct" -> EncLst(Cat([i \in 1..Len(T.s) |-> Enc(T.s[i], v.e[i])]))     \* makeStructWriter
    [] T.k = "ptr"    -> IF v.t = "nil" THEN NilEnc(T.s[1]) ELSE Enc(T.s[1], v)       \* makePtrWriter
    [] T.k = "ifc"    -> IF v.t = "nil" THEN <<0>>                                    \* writeCDCInterface
                         ELSE Disfix[v.b[1]] \o Enc(CType[v.b[1]], v.e[1])
    [] T.k = "map"    -> EncLst(EncStr(IntText(IntV(FALSE, NatNib(Len(v.e)))))        \* makeMapWriter: len, then pairs in key order
                                \o Cat([i \in 1..Len(v.e) |-> EncStr(v.e[i].e[1].b) \o EncStr(v.e[i].e[2].b)]))

(* ======================================================================= *)
(* decoder (Stream + makeDecoder)                                          *)
(* ======================================================================= *)
Ok(v, p)  == [ok |-> TRUE,  v |-> v,    p |-> p, c |-> "",  ib |-> FALSE]
Fail(cl)  == [ok |-> FALSE, v |-> NilV, p |-> 0, c |-> cl,  ib |-> FALSE]

\* Stream.Kind / readKind at input position p (bytes consumed so far); lim is the end of the
\* innermost open list, or of the input (top = TRUE: the stack of open lists is empty).
KindAt(s, p, lim, top) ==
  LET KF(cl) == [ok |-> FALSE, c |-> cl, kind |-> "", size |-> 0, p |-> p, bv |-> 0]
      K(kind, size, q, bv) == [ok |-> TRUE, c |-> "", kind |-> kind, size |-> size, p |-> q, bv |-> bv]
      over == IF top THEN "value_too_large" ELSE "elem_too_large"
  IN IF p >= lim THEN KF(IF top THEN "eof" ELSE "eol")
     ELSE LET b == s[p + 1]
              Short(kind, size) == IF size > lim - (p + 1) THEN KF(over) ELSE K(kind, size, p + 1, 0)
              Long(kind, n) ==
                IF n > lim - (p + 1) THEN KF(over)                         \* willRead
                ELSE LET sz == SubSeq(s, p + 2, p + 1 + n)
                         v  == BEsat(sz)
                     IN IF HasPad(sz) THEN KF("pad")
                        ELSE IF n > 1 /\ sz[1] = 0 THEN KF("canon_size")   \* leading zero byte in the size
                        ELSE IF v < 56 THEN KF("canon_size")               \* should have used the short form
                        ELSE IF v > lim - (p + 1 + n) THEN KF(over)        \* larger than the input / the containing list
                        ELSE K(kind, v, p + 1 + n, 0)
          IN IF b = PAD THEN KF("pad")
             ELSE IF b < 128 THEN K("byte", 0, p + 1, b)
             ELSE IF b < 184 THEN Short("string", b - 128)
             ELSE IF b < 192 THEN Long("string", b - 183)
             ELSE IF b < 248 THEN Short("list", b - 192)
             ELSE Long("list", b - 247)

BytesAt(s, p, lim, top) ==                                                  \* Stream.Bytes
  LET k == KindAt(s, p, lim, top) IN
  IF ~k.ok THEN Fail(k.c)
  ELSE IF k.kind = "byte" THEN Ok(Str(<<k.bv>>), k.p)
  ELSE IF k.kind = "string" THEN
         LET ct == SubSeq(s, k.p + 1, k.p + k.size) IN
         IF HasPad(ct) THEN Fail("pad")
         ELSE IF k.size = 1 /\ ct[1] < 128 THEN Fail("canon_size")          \* single byte must be its own encoding
         ELSE Ok(Str(ct), k.p + k.size)
  ELSE Fail("expected_string")

UintAt(s, p, lim, top, bits) ==                                             \* Stream.uint
  LET k == KindAt(s, p, lim, top) IN
  IF ~k.ok THEN Fail(k.c)
  ELSE IF k.kind = "byte" THEN IF k.bv = 0 THEN Fail("canon_int") ELSE Ok(Str(<<k.bv>>), k.p)
  ELSE IF k.kind = "string" THEN
         IF k.size > bits \div 8 THEN Fail("uint_overflow")
         ELSE IF k.size = 0 THEN Ok(Str(<<>>), k.p)
         ELSE LET ct == SubSeq(s, k.p + 1, k.p + k.size) IN
              IF HasPad(ct) THEN Fail("pad")
              ELSE IF k.size > 1 /\ ct[1] = 0 THEN Fail("canon_int")        \* leading zero
              ELSE IF k.size = 1 /\ ct[1] < 128 THEN Fail("canon_size")
              ELSE Ok(Str(ct), k.p + k.size)
  ELSE Fail("expected_string")

ArrAt(s, p, lim, top, n) ==                                                 \* decodeByteArray
  LET k == KindAt(s, p, lim, top) IN
  IF ~k.ok THEN Fail(k.c)
  ELSE IF k.kind = "byte" THEN IF n = 0 THEN Fail("string_too_long") ELSE IF n > 1 THEN Fail("string_too_short") ELSE Ok(Str(<<k.bv>>), k.p)
  ELSE IF k.kind = "string" THEN
         IF n < k.size THEN Fail("string_too_long") ELSE IF n > k.size THEN Fail("string_too_short")
         ELSE LET ct == SubSeq(s, k.p + 1, k.p + k.size) IN
              IF HasPad(ct) THEN Fail("pad")
              ELSE IF k.size = 1 /\ ct[1] < 128 THEN Fail("canon_size") ELSE Ok(Str(ct), k.p + k.size)
  ELSE Fail("expected_string")

RawAt(s, p, lim, top) ==                                                    \* Stream.Raw
  LET k == KindAt(s, p, lim, top) IN
  IF ~k.ok THEN Fail(k.c)
  ELSE IF k.kind = "byte" THEN Ok(RawV(<<k.bv>>), k.p)
  ELSE IF HasPad(SubSeq(s, k.p + 1, k.p + k.size)) THEN Fail("pad")
  ELSE Ok(RawV(Hdr(IF k.kind = "string" THEN 128 ELSE 192, k.size) \o SubSeq(s, k.p + 1, k.p + k.size)), k.p + k.size)

Upsert(acc, kv, vv) ==      \* SetMapIndex on a map kept in key order: the last occurrence of a key wins
  SelectSeq(acc, LAMBDA x : SeqLess(x.e[1].b, kv.b)) \o <<Lst(<<kv, vv>>)>> \o SelectSeq(acc, LAMBDA x : SeqLess(kv.b, x.e[1].b))

RECURSIVE DecT(_, _, _, _, _, _), DecElems(_, _, _, _, _, _), DecFields(_, _, _, _, _, _, _), DecPairs(_, _, _, _, _, _)

DecElems(E, s, p, end, acc, st) ==                                          \* decodeSliceElems: until EOL
  IF p = end THEN Ok(Lst(acc), end)
  ELSE LET r == DecT(E, s, p, end, FALSE, st) IN
       IF ~r.ok THEN r ELSE DecElems(E, s, r.p, end, Append(acc, r.v), st)

DecFields(T, s, p, end, i, acc, st) ==                                      \* makeStructDecoder's loop + ListEnd
  IF i > Len(T.s) THEN (IF p # end THEN Fail("too_many") ELSE Ok(Lst(acc), end))
  ELSE LET r == DecT(T.s[i], s, p, end, FALSE, st) IN
       IF ~r.ok THEN (IF r.c = "eol" THEN [r EXCEPT !.c = "too_few"] ELSE r)
       ELSE DecFields(T, s, r.p, end, i + 1, Append(acc, r.v), st)

DecPairs(s, p, end, n, acc, st) ==                                          \* makeMapDecoder's "for len > 0"
  IF n = 0 THEN Ok(Lst(acc), p)
  ELSE LET kr == ArrAt(s, p, end, FALSE, 20) IN
       IF ~kr.ok THEN kr                                                    \* NB: a raw "eol" escapes here when the count lies
       ELSE LET vr == DecT(TBig, s, kr.p, end, FALSE, st) IN
            IF ~vr.ok THEN vr
            ELSE IF st /\ Len(acc) > 0 /\ ~SeqLess(acc[Len(acc)].e[1].b, kr.v.b) THEN Fail("nc_map_order")   \* LENIENT: order / duplicates are not checked
            ELSE DecPairs(s, vr.p, end, n - 1, Upsert(acc, kr.v, vr.v), st)

DecT(T, s, p, lim, top, st) ==
  CASE T.k = "any" ->                                                       \* decodeInterface
         LET k == KindAt(s, p, lim, top) IN
         IF ~k.ok THEN Fail(k.c)
         ELSE IF k.kind = "list" THEN DecElems(T, s, k.p, k.p + k.size, <<>>, st)
         ELSE BytesAt(s, p, lim, top)
    [] T.k = "bytes" -> BytesAt(s, p, lim, top)                             \* decodeByteSlice / decodeString
    [] T.k = "uint"  -> UintAt(s, p, lim, top, T.n)                         \* decodeUint
    [] T.k = "bool"  -> LET r == UintAt(s, p, lim, top, 8) IN               \* Stream.Bool
                        IF ~r.ok THEN r ELSE IF Len(r.v.b) = 0 \/ r.v.b = <<1>> THEN r ELSE Fail("invalid_bool")
    [] T.k = "big"   -> LET r == BytesAt(s, p, lim, top) IN                 \* decodeBigInt
                        IF ~r.ok THEN r ELSE IF Len(r.v.b) > 0 /\ r.v.b[1] = 0 THEN Fail("canon_int") ELSE r
    [] T.k = "int"   -> LET r == BytesAt(s, p, lim, top) IN                 \* decodeInt
                        IF ~r.ok THEN r
                        ELSE LET v == ParseHex(r.v.b) IN
                             IF v.t = "err" THEN Fail(v.c)
                             ELSE IF st /\ IntText(v) # r.v.b THEN Fail("nc_int_text")   \* LENIENT: "+a", "0a", "A", "-0" are accepted
                             ELSE Ok(v, r.p)
    [] T.k = "arr"   -> ArrAt(s, p, lim, top, T.n)
    [] T.k = "raw"   -> RawAt(s, p, lim, top)
    [] T.k = "list"  -> LET k == KindAt(s, p, lim, top) IN                  \* decodeListSlice
                        IF ~k.ok THEN Fail(k.c) ELSE IF k.kind # "list" THEN Fail("expected_list")
                        ELSE DecElems(T.s[1], s, k.p, k.p + k.size, <<>>, st)
    [] T.k = "struct" -> LET k == KindAt(s, p, lim, top) IN                 \* makeStructDecoder
                        IF ~k.ok THEN Fail(k.c) ELSE IF k.kind # "list" THEN Fail("expected_list")
                        ELSE IF k.size = 0 THEN                             \* "struct nil ptr"
                               (IF st /\ Len(T.s) > 0 THEN Fail("nc_empty_struct")       \* LENIENT: 0xC0 is accepted as the zero struct
                                ELSE Ok(ZeroV(T), k.p))
                        ELSE DecFields(T, s, k.p, k.p + k.size, 1, <<>>, st)
    [] T.k = "ptr"   -> LET k == KindAt(s, p, lim, top) IN                  \* makeOptionalPtrDecoder
                        IF ~k.ok THEN Fail(k.c)
                        ELSE IF k.size = 0 /\ k.kind # "byte" THEN
                               (IF st /\ SubSeq(s, p + 1, k.p) # NilEnc(T.s[1]) THEN Fail("nc_nil_ptr")   \* LENIENT: 0x80 and 0xC0 both mean nil
                                ELSE Ok(NilV, k.p))
                        ELSE DecT(T.s[1], s, p, lim, top, st)
    [] T.k = "ifc"   ->                                                     \* decodeCDCInterface
         IF p >= lim THEN Fail(IF top THEN "value_too_large" ELSE "eol")
         ELSE IF s[p + 1] = PAD THEN Fail("pad")
         ELSE IF s[p + 1] = 0 THEN Ok(NilV, p + 1)
         ELSE IF p + 7 > lim THEN Fail(IF top THEN "value_too_large" ELSE "elem_too_large")
         ELSE LET cn == ConcreteOf(SubSeq(s, p + 1, p + 7)) IN
              IF HasPad(SubSeq(s, p + 1, p + 7)) THEN
                   (IF PrefixViable(SubSeq(s, p + 1, p + 7)) THEN Fail("pad") ELSE Fail("unknown_prefix"))
              ELSE IF cn = 0 THEN Fail("unknown_prefix")
              ELSE IF ~Implements(cn, T.n) THEN
                     \* as designed: a registered type that does not implement the target interface is an error;
                     \* as coded: the lookup is global (disfixToTypeInfo) and rv.Set panics
                     Fail(IF AsCoded THEN "panic" ELSE "not_assignable")
              ELSE LET r == DecT(CType[cn], s, p + 7, lim, top, st) IN
                   IF ~r.ok THEN [r EXCEPT !.ib = TRUE]                     \* as coded the inner error is dropped (see harness: observation)
                   ELSE Ok(Ifc(cn, r.v), r.p)
    [] T.k = "map"   ->                                                     \* makeMapDecoder
         LET k == KindAt(s, p, lim, top) IN
         IF ~k.ok THEN Fail(k.c) ELSE IF k.kind # "list" THEN Fail("expected_list")
         ELSE IF k.size = 0 THEN (IF st THEN Fail("nc_empty_map") ELSE Ok(MapV(<<>>), k.p))   \* LENIENT: 0xC0 is accepted as the nil map
         ELSE LET end == k.p + k.size
                  li  == DecT(TInt, s, k.p, end, FALSE, st) IN
              IF ~li.ok THEN li
              ELSE IF st /\ li.v.t = "nint" THEN Fail("nc_map_len")          \* LENIENT: a negative count means zero entries
              ELSE LET n == IF li.v.t = "nint" THEN 0 ELSE NibSat(li.v.b)
                       r == DecPairs(s, li.p, end, n, <<>>, st) IN
                   IF ~r.ok THEN r
                   ELSE IF r.p # end THEN Fail("too_many")
                   ELSE Ok(MapV(r.v.e), end)

Verdict(r) == [ok |-> r.ok, v |-> r.v, c |-> r.c, ib |-> r.ib]
\* ser.DecodeBytes(b, &target)
DecodeBytes(T, s, st) ==
  LET r == DecT(T, s, 0, Len(s), TRUE, st) IN
  IF r.ok /\ r.p < Len(s) THEN Verdict(Fail("more_than_one")) ELSE Verdict(r)
\* ser.DecodeBytesWithType(b, &target) for a registered concrete target: consumeDisfix skips 7 bytes
DecodeBytesWithType(T, df, s, st) ==
  IF Len(s) < 7 THEN Verdict(Fail("value_too_large"))
  ELSE IF st /\ SubSeq(s, 1, 7) # df THEN Verdict(Fail("nc_prefix"))         \* LENIENT: the 7 bytes are not compared with the target's prefix
  ELSE LET r == DecT(T, s, 7, Len(s), TRUE, st) IN
       IF r.ok /\ r.p < Len(s) THEN Verdict(Fail("more_than_one")) ELSE Verdict(r)

(* ---- raw.go: Split / CountValues --------------------------------------- *)
\* readKind(b[p:]): the header at offset p of b (p bytes already consumed by the caller's loop)
RawKindAt(b, p) ==
  LET L == Len(b) - p
      RF(cl) == [ok |-> FALSE, c |-> cl, kind |-> "", ts |-> 0, cs |-> 0]
      Chk(kind, ts, cs) == IF cs > L - ts THEN RF("value_too_large") ELSE [ok |-> TRUE, c |-> "", kind |-> kind, ts |-> ts, cs |-> cs]
      Long(kind, n) == IF n > L - 1 THEN RF("unexpected_eof")
                       ELSE LET sz == SubSeq(b, p + 2, p + n + 1)  v == BEsat(sz) IN        \* v saturates at Cap: larger than any input
                            IF v < 56 \/ sz[1] = 0 THEN RF("canon_size") ELSE Chk(kind, n + 1, v)
  IN IF L <= 0 THEN RF("unexpected_eof")
     ELSE LET h == b[p + 1] IN
          IF h < 128 THEN Chk("byte", 0, 1)
          ELSE IF h < 184 THEN (IF h = 129 /\ L > 1 /\ b[p + 2] < 128 THEN RF("canon_size") ELSE Chk("string", 1, h - 128))
          ELSE IF h < 192 THEN Long("string", h - 183)
          ELSE IF h < 248 THEN Chk("list", 1, h - 192)
          ELSE Long("list", h - 247)
RawKind(b) == RawKindAt(b, 0)
SplitOf(b) == LET k == RawKind(b) IN
              IF ~k.ok THEN [ok |-> FALSE, c |-> k.c, kind |-> "", content |-> <<>>, rest |-> b]
              ELSE [ok |-> TRUE, c |-> "", kind |-> k.kind, content |-> SubSeq(b, k.ts + 1, k.ts + k.cs), rest |-> SubSeq(b, k.ts + k.cs + 1, Len(b))]
\* CountValues: "for ; len(b) > 0; i++ { readKind(b); b = b[tagsize+size:] }"; steps = iterations of the loop
RECURSIVE CountFrom(_, _, _)
CountFrom(b, p, n) == IF p >= Len(b) THEN [ok |-> TRUE, n |-> n, c |-> "", steps |-> n]
                      ELSE LET k == RawKindAt(b, p) IN
                           IF ~k.ok THEN [ok |-> FALSE, n |-> 0, c |-> k.c, steps |-> n + 1] ELSE CountFrom(b, p + k.ts + k.cs, n + 1)
CountFull(b) == CountFrom(b, 0, 0)
CountOf(b) == LET x == CountFull(b) IN [ok |-> x.ok, n |-> x.n, c |-> x.c]
\* what keeps Split's slices inside b and CountValues moving: an accepted header describes a non-empty
\* item that ends inside the input -- at every offset the loop of CountValues can stand at
RawProgressAt(b, p) == LET k == RawKindAt(b, p) IN k.ok => (k.ts + k.cs >= 1 /\ p + k.ts + k.cs <= Len(b))
RawProgress(b) == \A p \in 0..Len(b) : RawProgressAt(b, p)

(* ---- libs/trie/node.go: decodeNode, the storage-side client of raw.go ---- *)
\* decodeNode = SplitList, CountValues of the content (2: short node, 17: full node), then SplitString /
\* Split per element (decodeShort, decodeFull, decodeRef).  The result is "a node" or an error; class
\* "panic": compactToHex slices base[2:] of a one-nibble base when the key of a short node is the empty
\* string (as coded; as designed -- and in go-ethereum -- an empty compact key is an empty key).
NOk == [ok |-> TRUE, c |-> ""]
NErr(cl) == [ok |-> FALSE, c |-> cl]
ValOf(b) == LET v == SplitOf(b) IN                                          \* SplitString(b): a single byte counts as a string
            IF ~v.ok THEN NErr(v.c) ELSE IF v.kind = "list" THEN NErr("expected_string") ELSE NOk
RECURSIVE NodeOf(_, _), RefOf(_, _), FullOf(_, _, _)
ShortOf(e, coded) ==                                                        \* decodeShort
  LET k == SplitOf(e) IN
  IF ~k.ok THEN NErr(k.c) ELSE IF k.kind = "list" THEN NErr("expected_string")
  ELSE IF Len(k.content) = 0 THEN (IF coded THEN NErr("panic") ELSE RefOf(k.rest, coded).r)
  ELSE IF k.content[1] \div 16 >= 2 THEN ValOf(k.rest)                      \* hasTerm(compactToHex(kbuf)): flag nibble 2 or 3
  ELSE RefOf(k.rest, coded).r
RefOf(b, coded) ==                                                          \* decodeRef
  LET sp == SplitOf(b) IN
  IF ~sp.ok THEN [r |-> NErr(sp.c), rest |-> b]
  ELSE IF sp.kind = "list" THEN
         IF Len(b) - Len(sp.rest) > 32 THEN [r |-> NErr("oversized_ref"), rest |-> b]
         ELSE [r |-> NodeOf(b, coded), rest |-> sp.rest]                    \* embedded node
  ELSE IF Len(sp.content) = 0 \/ Len(sp.content) = 32 THEN [r |-> NOk, rest |-> sp.rest]
  ELSE [r |-> NErr("ref_size"), rest |-> b]
FullOf(e, i, coded) == IF i = 0 THEN ValOf(e)                               \* decodeFull: 16 references and a value
                       ELSE LET x == RefOf(e, coded) IN IF ~x.r.ok THEN x.r ELSE FullOf(x.rest, i - 1, coded)
NodeOf(b, coded) ==                                                         \* decodeNode
  IF Len(b) = 0 THEN NErr("unexpected_eof")
  ELSE LET sp == SplitOf(b) IN
       IF ~sp.ok THEN NErr(sp.c) ELSE IF sp.kind # "list" THEN NErr("expected_list")
       ELSE LET cn == CountOf(sp.content)
                n  == IF cn.ok THEN cn.n ELSE 0                             \* the error of CountValues is dropped: "c, _ :="
            IN IF n = 2 THEN ShortOf(sp.content, coded)
               ELSE IF n = 17 THEN FullOf(sp.content, 16, coded)
               ELSE NErr("element_count")

(* ======================================================================= *)
(* targets of the bounded model                                            *)
(* ======================================================================= *)
TInner == TStruct(<<TUint(64)>>)
TRec   == TStruct(<<TUint(64), TPtr(TInner), TList(TUint(64))>>)             \* struct{A uint64; P *inner; L []uint64}
TRecQ  == TStruct(<<TUint(64), TList(TPtr(TInner))>>)                        \* struct{A uint64; Q []*inner}  (Commit.Precommits pattern)
TIfcS  == TStruct(<<TIfc(1), TUint(64)>>)                                    \* struct{I gI; N uint64}
K1 == Rep(19, 0) \o <<1>>
K2 == Rep(19, 0) \o <<2>>
K3 == <<1>> \o Rep(19, 0)
TargetT == [ any |-> TAny, bytes |-> TBytes, u64 |-> TUint(64), u8 |-> TUint(8), big |-> TBig, bool |-> TBool,
             arr1 |-> TArr(1), arr2 |-> TArr(2), arr20 |-> TArr(20), raw |-> TRaw, i64 |-> TInt,
             rec |-> TRec, recq |-> TRecQ, ifcs |-> TIfcS, ifct |-> TIfc(1), ifce |-> TIfc(2),
             lifc |-> TList(TIfc(1)), map |-> TMap, ptru |-> TPtr(TUint(64)),
             wt |-> CType[1] ]          \* wt: DecodeBytesWithType into the registered concrete type gA
Decode(t, s, st) == IF t = "wt" THEN DecodeBytesWithType(TargetT[t], Disfix[1], s, st) ELSE DecodeBytes(TargetT[t], s, st)
Encode(t, v)     == IF t = "wt" THEN Disfix[1] \o Enc(TargetT[t], v) ELSE Enc(TargetT[t], v)

\* targets on which the coded decoder must have no leniency at all (the plain grammar)
StrictTargets == {"any", "bytes", "u64", "u8", "big", "bool", "arr1", "arr2", "arr20", "raw"}

(* ---- bytes mode: alphabets of chunks ----------------------------------- *)
B1(set) == {<<x>> : x \in set}
CommonHdr == {0, 1, 127, 128, 129, 130, 183, 184, 192, 193, 194, 195, 196, 247, 248, 255}
Alphabet(t) ==
  CASE t = "any"   -> IF Extra > 0 /\ ~Wide
                      THEN B1({0, 1, 127, 128, 129, 130, 131, 184, 192, 193, 194, 195, 196, 197, 248, 255})   \* one byte more, fewer symbols
                      ELSE B1(CommonHdr \cup (IF Wide THEN {55, 56, 131, 132, 185, 191, 249} ELSE {}))
    [] t \in {"bytes", "raw"} -> B1({0, 1, 127, 128, 129, 130, 184, 185, 192, 193, 255} \cup (IF Wide THEN {55, 56, 183, 248} ELSE {}))
    [] t \in {"u64", "big"}   -> B1({0, 1, 127, 128, 129, 130, 136, 137, 184, 192, 255}) \cup {Rep(7, 255)} \cup (IF Wide THEN B1({131, 56, 193}) ELSE {})
    [] t \in {"u8", "bool"}   -> B1({0, 1, 2, 127, 128, 129, 130, 184, 192, 193, 255})
    [] t \in {"arr1", "arr2"} -> B1({0, 1, 127, 128, 129, 130, 131, 184, 192, 255})
    [] t = "i64"   -> B1({43, 45, 48, 49, 56, 65, 97, 102, 103, 128, 129, 130, 144, 145, 192} \cup (IF Wide THEN {55, 95, 131, 132, 193} ELSE {}))
                      \cup {Rep(15, 102), Rep(15, 48)}
    [] t = "rec"   -> B1({0, 1, 5, 128, 129, 192, 193, 194, 195, 196, 197, 255} \cup (IF Wide THEN {198, 130} ELSE {}))
    [] t = "recq"  -> B1({0, 1, 128, 192, 193, 194, 195, 196, 255} \cup (IF Wide THEN {129, 197} ELSE {}))
    [] t = "ptru"  -> B1({0, 1, 127, 128, 129, 192, 193, 255})
    [] t \in {"ifct", "ifce"} -> {Disfix[1], Disfix[2], Disfix[3], UnknownDisfix, SubSeq(Disfix[1], 1, 6)}
                                 \cup B1({0, 1, 5, 128, 129, 192, 193, 194, 255})
    [] t = "ifcs"  -> {Disfix[1], Disfix[2], Disfix[3], UnknownDisfix}
                      \cup B1({0, 1, 128, 192, 193, 194, 200, 201, 202, 203, 255} \cup (IF Wide THEN {129, 199, 204} ELSE {}))
    [] t = "lifc"  -> {Disfix[1], Disfix[3], SubSeq(Disfix[1], 1, 6)} \cup B1({0, 1, 128, 192, 193, 200, 201, 202, 208, 209, 255})
    [] t = "wt"    -> {Disfix[1], Disfix[3], UnknownDisfix, SubSeq(Disfix[1], 1, 6)} \cup B1({0, 128, 192, 193, 255} \cup (IF Wide THEN {1, 194} ELSE {}))
    [] t = "map"   -> B1({45, 48, 49, 50, 192, 193, 194, 214, 215, 216, 237, 238, 1, 128, 0})
                      \cup {<<148>> \o K1 \o <<1>>, <<148>> \o K2 \o <<1>>, <<148>> \o K1 \o <<128>>, <<148>> \o K1, <<147>> \o Rep(19, 0)}
BytesTargets == {"any", "bytes", "raw", "u64", "big", "u8", "bool", "arr1", "arr2", "i64", "rec", "recq", "ptru",
                 "ifct", "ifce", "ifcs", "lifc", "wt", "map"}
MaxChunks(t) == Extra + (CASE t \in {"ifcs", "lifc", "map", "rec", "recq"} -> 6
                           [] t \in {"u8", "bool", "arr1", "arr2", "ptru", "u64", "big", "i64"} -> 4
                           [] OTHER -> 5)
MaxBytes(t) == Extra + (CASE t \in {"any", "bytes", "raw", "u8", "bool", "arr1", "arr2", "ptru"} -> 5
                          [] t \in {"rec", "recq"} -> 6
                          [] t \in {"u64", "big"} -> 10
                          [] t = "i64" -> 18
                          [] t \in {"ifct", "ifce", "wt"} -> 11
                          [] t = "ifcs" -> 12
                          [] t = "lifc" -> 18
                          [] t = "map" -> 46)

(* ======================================================================= *)
(* values mode: bounded value universes                                    *)
(* ======================================================================= *)
\* cross product of two value sequences under a constructor
Cross2(A, B, F(_, _)) == [i \in 1..(Len(A) * Len(B)) |-> F(A[((i - 1) \div Len(B)) + 1], B[((i - 1) % Len(B)) + 1])]
Map1(A, F(_)) == [i \in 1..Len(A) |-> F(A[i])]

Leaves == << Str(<<>>), Str(<<0>>), Str(<<1>>), Str(<<127>>), Str(<<128>>), Str(<<255>>), Str(<<0, 1>>), Str(<<1, 0>>),
             Str(Fill(54)), Str(Fill(55)), Str(Fill(56)), Str(Fill(57)), Str(Fill(255)), Str(Fill(256)) >>
           \o (IF Wide THEN << Str(Fill(65535)), Str(Fill(65536)) >> ELSE <<>>)
SmallLeaves == << Str(<<>>), Str(<<0>>), Str(<<127>>), Str(<<128>>), Str(<<1, 0>>) >>
AnyL1 == <<Lst(<<>>)>> \o Map1(Leaves, LAMBDA a : Lst(<<a>>))
         \o Cross2(SmallLeaves, SmallLeaves, LAMBDA a, b : Lst(<<a, b>>))
         \o << Lst(<<Str(Fill(27)), Str(Fill(26))>>),      \* payload 55
               Lst(<<Str(Fill(27)), Str(Fill(27))>>),      \* payload 56
               Lst(<<Str(Fill(126)), Str(Fill(125))>>),    \* payload 255
               Lst(<<Str(Fill(126)), Str(Fill(126))>>) >>  \* payload 256
AnyL2 == Map1(AnyL1, LAMBDA x : Lst(<<x>>)) \o Cross2(SmallLeaves, SubSeq(AnyL1, 1, 8), LAMBDA a, x : Lst(<<a, x, a>>))
AnyL3 == Map1(SubSeq(AnyL2, 1, 24), LAMBDA x : Lst(<<x, Lst(<<>>)>>)) \o Map1(SubSeq(AnyL2, Len(AnyL2) - 11, Len(AnyL2)), LAMBDA x : Lst(<<Lst(<<>>), x>>))
UintVals == << Str(<<>>), Str(<<1>>), Str(<<127>>), Str(<<128>>), Str(<<255>>), Str(<<1, 0>>), Str(<<255, 255>>),
               Str(<<1, 0, 0, 0, 0>>), Str(Rep(7, 255)), Str(<<1>> \o Rep(7, 0)), Str(Rep(8, 255)) >>
BigVals  == UintVals \o << Str(<<1>> \o Rep(8, 0)), Str(Rep(32, 255)), Str(<<1>> \o Rep(32, 0)), Str(<<128>> \o Rep(54, 0)), Str(<<128>> \o Rep(55, 0)) >>
IntVals  == << IntV(FALSE, <<>>), IntV(FALSE, <<1>>), IntV(FALSE, <<9>>), IntV(FALSE, <<10>>), IntV(FALSE, <<15>>), IntV(FALSE, <<1, 0>>),
               IntV(FALSE, <<15, 15>>), IntV(TRUE, <<1>>), IntV(TRUE, <<15, 15>>), IntV(FALSE, <<8>> \o Rep(7, 0)),
               IntV(FALSE, <<7>> \o Rep(15, 15)), IntV(TRUE, <<8>> \o Rep(15, 0)), IntV(TRUE, <<14, 7, 7, 9, 1, 15, 7, 0, 0>>) >>
InnerVals == << NilV, Lst(<<Str(<<>>)>>), Lst(<<Str(<<1, 44>>)>>) >>
RecVals ==
  LET As == << Str(<<>>), Str(<<1>>), Str(<<128>>), Str(Rep(8, 255)) >>
      Ls == << Lst(<<>>), Lst(<<Str(<<1>>)>>), Lst(<<Str(<<>>), Str(<<1, 0>>), Str(Rep(8, 255))>>), Lst(Rep(56, Str(<<7>>))) >>
      PL == Cross2(InnerVals, Ls, LAMBDA q, l : <<q, l>>)
  IN Cross2(As, PL, LAMBDA a, y : Lst(<<a>> \o y))
RecQVals ==
  LET Qs == << Lst(<<>>), Lst(<<NilV>>), Lst(<<Lst(<<Str(<<1>>)>>)>>), Lst(<<Lst(<<Str(<<1>>)>>), NilV, Lst(<<Str(<<>>)>>), NilV>>) >>
  IN Cross2(<< Str(<<>>), Str(<<7>>) >>, Qs, LAMBDA a, q : Lst(<<a, q>>))
IfcVals(withB) == << NilV, Ifc(1, Lst(<<Str(<<>>)>>)), Ifc(1, Lst(<<Str(<<1, 44>>)>>)), Ifc(2, Lst(<<Str(<<>>)>>)), Ifc(2, Lst(<<Str(<<1, 2>>)>>)),
                     Ifc(2, Lst(<<Str(Fill(60))>>)) >>
                  \o (IF withB THEN << Ifc(3, Lst(<<Str(<<5>>)>>)) >> ELSE <<>>)
IfcSVals == Cross2(IfcVals(FALSE), << Str(<<>>), Str(<<7>>) >>, LAMBDA i, n : Lst(<<i, n>>))
LIfcVals == << Lst(<<>>), Lst(<<NilV>>), Lst(<<Ifc(1, Lst(<<Str(<<3>>)>>)), NilV, Ifc(2, Lst(<<Str(<<128>>)>>))>>),
               Lst(<<Ifc(2, Lst(<<Str(<<>>)>>)), Ifc(1, Lst(<<Str(<<>>)>>))>>) >>
Pair(k, v) == Lst(<<Str(k), Str(v)>>)
MapVals == << MapV(<<>>), MapV(<<Pair(K1, <<>>)>>), MapV(<<Pair(K1, <<5>>)>>), MapV(<<Pair(K2, <<1, 0>>)>>),
              MapV(<<Pair(K1, <<1>>), Pair(K2, <<2>>)>>), MapV(<<Pair(K1, <<>>), Pair(K3, <<128>>)>>),
              MapV(<<Pair(K2, <<1>> \o Rep(8, 0)), Pair(K3, <<7>>)>>),
              MapV(<<Pair(K1, <<1>>), Pair(K2, <<2>>), Pair(K3, <<3>>)>>) >>
ValTargets == << "any", "bytes", "u64", "big", "bool", "arr1", "arr2", "arr20", "i64", "rec", "recq", "ifct", "ifce", "ifcs", "lifc", "map", "wt", "raw" >>
ValsOf(t) ==
  CASE t = "any"   -> Leaves \o AnyL1 \o AnyL2 \o AnyL3
    [] t = "bytes" -> Leaves
    [] t = "u64"   -> UintVals
    [] t = "big"   -> BigVals
    [] t = "bool"  -> << Str(<<>>), Str(<<1>>) >>
    [] t = "arr1"  -> << Str(<<0>>), Str(<<127>>), Str(<<128>>), Str(<<255>>) >>
    [] t = "arr2"  -> << Str(<<0, 0>>), Str(<<0, 1>>), Str(<<128, 0>>), Str(<<255, 255>>) >>
    [] t = "arr20" -> << Str(Rep(20, 0)), Str(K1), Str(K3), Str(Fill(20)) >>
    [] t = "i64"   -> IntVals
    [] t = "rec"   -> RecVals
    [] t = "recq"  -> RecQVals
    [] t = "ifct"  -> IfcVals(FALSE)
    [] t = "ifce"  -> IfcVals(TRUE)
    [] t = "ifcs"  -> IfcSVals
    [] t = "lifc"  -> LIfcVals
    [] t = "map"   -> MapVals
    [] t = "wt"    -> << Lst(<<Str(<<>>)>>), Lst(<<Str(<<1, 44>>)>>) >>
    [] t = "raw"   -> << RawV(<<5>>), RawV(<<128>>), RawV(<<130, 1, 2>>), RawV(<<192>>), RawV(<<194, 5, 192>>), RawV(Hdr(128, 56) \o Fill(56)) >>
ValTab == [i \in 1..Len(ValTargets) |-> ValsOf(ValTargets[i])]       \* evaluated once
EncTab == [i \in 1..Len(ValTargets) |-> [j \in 1..Len(ValTab[i]) |-> Encode(ValTargets[i], ValTab[i][j])]]

(* ---- structural mutation classes of an encoding ------------------------ *)
Mu(m, s) == <<[m |-> m, s |-> s]>>
When(cond, x) == IF cond THEN x ELSE <<>>
\* mutations of one complete item `it`
ItemMuts(it) ==
  LET k == RawKind(it)
      ts == k.ts   cs == k.cs
      isb == k.kind = "byte"
      small == IF k.kind = "list" THEN 192 ELSE 128
      ct == SubSeq(it, ts + 1, ts + cs)
  IN IF ~k.ok THEN <<>> ELSE
     Mu("trunc1", SubSeq(it, 1, Len(it) - 1))
     \o When(~isb /\ cs > 0, Mu("trunchdr", SubSeq(it, 1, ts)))
     \o When(cs >= 2, Mu("truncmid", SubSeq(it, 1, ts + cs \div 2)))
     \o Mu("trail0", it \o <<0>>)
     \o Mu("dup", it \o it)
     \o When(~isb, Mu("size+1", Hdr(small, cs + 1) \o ct))
     \o When(~isb /\ cs >= 1, Mu("size-1", Hdr(small, cs - 1) \o ct))
     \o When(~isb /\ cs < 56, Mu("longform", <<small + 56, cs>> \o ct))
     \o When(~isb, Mu("lzsize", IF cs >= 56 THEN LET l == BE(cs) IN <<small + 56 + Len(l), 0>> \o l \o ct ELSE <<small + 57, 0, cs>> \o ct))
     \o When(isb, Mu("byte-as-str", <<129, it[1]>>))
     \o When(k.kind = "string", Mu("lead0", Hdr(128, cs + 1) \o <<0>> \o ct))
     \o When(isb, Mu("lead0", <<130, 0, it[1]>>))
     \o When(~isb, Mu("huge4", <<small + 59, 4, 0, 0, 0>> \o ct))
     \o When(~isb, Mu("huge8", <<small + 63>> \o Rep(8, 255) \o ct))
     \o When(k.kind = "string", Mu("flipkind", Hdr(192, cs) \o ct))
     \o When(k.kind = "list", Mu("flipkind", Hdr(128, cs) \o ct))
     \o When(isb, Mu("flipkind", <<193, it[1]>>))
     \o When(it # <<128>>, Mu("empty-str", <<128>>))
     \o When(it # <<192>>, Mu("empty-list", <<192>>))
     \o Mu("inc-last", SubSeq(it, 1, Len(it) - 1) \o <<(it[Len(it)] + 1) % 256>>)
\* mutations of a prefixed interface encoding (disfix + body)
PfxMuts(enc) ==
  IF enc = <<0>> THEN Mu("nil-as-prefix", <<1>>) \o Mu("nil-trail", <<0, 0>>)
  ELSE LET pf == SubSeq(enc, 1, 7)  body == SubSeq(enc, 8, Len(enc)) IN
       Mu("pfx-unknown", SubSeq(pf, 1, 6) \o <<(pf[7] + 1) % 256>> \o body)
       \o Mu("pfx-foreign", Disfix[3] \o body)
       \o Mu("pfx-short", SubSeq(pf, 1, 6) \o body)
       \o Mu("pfx-nil", <<0>> \o body)
       \o Mu("pfx-only", pf)
       \o [i \in 1..Len(ItemMuts(body)) |-> [m |-> "body/" \o ItemMuts(body)[i].m, s |-> pf \o ItemMuts(body)[i].s]]
\* children encodings of a list-shaped value
Children(T, v) ==
  CASE T.k = "struct" -> [i \in 1..Len(T.s) |-> [enc |-> Enc(T.s[i], v.e[i]), ifc |-> T.s[i].k = "ifc"]]
    [] T.k = "list"   -> [i \in 1..Len(v.e) |-> [enc |-> Enc(T.s[1], v.e[i]), ifc |-> T.s[1].k = "ifc"]]
    [] T.k = "any" /\ v.t = "list" -> [i \in 1..Len(v.e) |-> [enc |-> Enc(T, v.e[i]), ifc |-> FALSE]]
    [] OTHER -> <<>>
ReplaceAt(chs, i, x) == Cat([j \in 1..Len(chs) |-> IF j = i THEN x ELSE chs[j].enc])
ChildMuts(chs, i) ==
  LET ms == IF chs[i].ifc THEN PfxMuts(chs[i].enc) ELSE ItemMuts(chs[i].enc)
      orig == Cat([j \in 1..Len(chs) |-> chs[j].enc])
  IN [j \in 1..Len(ms) |-> [m |-> "child/" \o ms[j].m, s |-> EncLst(ReplaceAt(chs, i, ms[j].s))]]
     \o SelectSeq([j \in 1..Len(ms) |-> [m |-> "lying/" \o ms[j].m, s |-> Hdr(192, Len(orig)) \o ReplaceAt(chs, i, ms[j].s)]],
                  LAMBDA x : Len(x.s) # Len(Hdr(192, Len(orig))) + Len(orig))
MapMuts(v) ==
  LET n == Len(v.e)
      ent(i) == EncStr(v.e[i].e[1].b) \o EncStr(v.e[i].e[2].b)
      body == Cat([i \in 1..n |-> ent(i)])
      rev  == Cat([i \in 1..n |-> ent(n + 1 - i)])
      len(tx) == EncStr(tx)
      ctext == IntText(IntV(FALSE, NatNib(n)))
  IN When(n >= 2, Mu("map-reversed", EncLst(len(ctext) \o rev)))
     \o When(n >= 1, Mu("map-dup", EncLst(len(IntText(IntV(FALSE, NatNib(n + 1)))) \o ent(1) \o body)))
     \o Mu("map-len+1", EncLst(len(IntText(IntV(FALSE, NatNib(n + 1)))) \o body))
     \o When(n >= 1, Mu("map-len-1", EncLst(len(IntText(IntV(FALSE, NatNib(n - 1)))) \o body)))
     \o Mu("map-neglen", EncLst(len(<<45, 49>>) \o body))
     \o Mu("map-len-lead0", EncLst(len(<<48>> \o ctext) \o body))
     \o Mu("map-len-plus", EncLst(len(<<43>> \o ctext) \o body))
     \o Mu("map-hugelen", EncLst(len(<<49, 48, 48, 48, 48, 48>>) \o body))       \* claims 2^20 entries
     \o Mu("map-empty-list", <<192>>)
IntMuts(v) ==
  LET tx == IntText(v)  dg == IF v.t = "nint" THEN Tail(tx) ELSE tx  sg == IF v.t = "nint" THEN <<45>> ELSE <<>> IN
  Mu("int-lead0", EncStr(sg \o <<48>> \o dg))
  \o When(v.t = "int", Mu("int-plus", EncStr(<<43>> \o tx)))
  \o When(Len(v.b) = 0, Mu("int-negzero", EncStr(<<45, 48>>)))
  \o When(\E i \in 1..Len(dg) : dg[i] >= 97, Mu("int-upper", EncStr(sg \o [i \in 1..Len(dg) |-> IF dg[i] >= 97 THEN dg[i] - 32 ELSE dg[i]])))
  \o Mu("int-nonhex", EncStr(tx \o <<103>>))
  \o Mu("int-empty", <<128>>)
MutsOf(t, v) ==
  LET T == TargetT[t]
      enc == Encode(t, v)
      chs == Children(T, v)
      top == IF T.k = "ifc" THEN PfxMuts(enc)
             ELSE IF t = "wt" THEN PfxMuts(enc)
             ELSE ItemMuts(enc)
  IN SelectSeq(top
               \o Cat([i \in 1..Len(chs) |-> ChildMuts(chs, i)])
               \o When(T.k = "map", MapMuts(v))
               \o When(T.k = "int", IntMuts(v)),
               LAMBDA x : x.s # enc)

(* ======================================================================= *)
(* registry mode                                                           *)
(* ======================================================================= *)
RegNames == {"gI", "gE", "gA", "gV", "gB"}
IfaceNo == [gI |-> 1, gE |-> 2]
ConcNo  == [gA |-> 1, gV |-> 2, gB |-> 3]
\* what a process with registry `r` observes for interface i (name) and concrete type c (name):
\*   enc: how a value of type c held in a variable of type i encodes;  dec: how Disfix[c] ++ body decodes into a variable of type i
SampleVal == << Lst(<<Str(<<1, 44>>)>>), Lst(<<Str(<<1, 2>>)>>), Lst(<<Str(<<5>>)>>) >>     \* gA{300}, gV{{1,2}}, gB{5}
SampleEnc(cn) == Disfix[cn] \o Enc(CType[cn], SampleVal[cn])     \* what a fully registered process writes
ObserveOne(r, i, c) ==
  LET assignable == Implements(ConcNo[c], IfaceNo[i]) IN
  [ i |-> i, c |-> c,
    enc |-> IF ~assignable THEN "n/a"                      \* not expressible in Go: the value cannot be held by the interface
            ELSE IF i \notin r THEN "plain"                \* unregistered interface: writeInterface, no prefix
            ELSE IF c \notin r THEN "error"                \* "Cannot encode unregistered concrete type"
            ELSE "prefixed",
    dec |-> IF i \notin r THEN                             \* decodeInterface: only interface{}-like targets, untyped
                 (IF i = "gE" /\ DecodeBytes(TAny, SampleEnc(ConcNo[c]), FALSE).ok THEN "generic" ELSE "error")
            ELSE IF c \notin r THEN "error"                \* unrecognized disambiguation+prefix bytes
            ELSE IF ~assignable THEN (IF AsCoded THEN "panic" ELSE "error")
            ELSE "value" ]
Observe(r) == [i \in {"gI", "gE"}, c \in {"gA", "gV", "gB"} |-> ObserveOne(r, i, c)]
ObserveSeq(r) == << ObserveOne(r, "gI", "gA"), ObserveOne(r, "gI", "gV"), ObserveOne(r, "gI", "gB"),
                    ObserveOne(r, "gE", "gA"), ObserveOne(r, "gE", "gV"), ObserveOne(r, "gE", "gB") >>

(* ======================================================================= *)
(* sizes mode: the arithmetic on size fields                                *)
(* ======================================================================= *)
\* A damaged database record or a crafted proof node: ONE header whose size field is chosen from the
\* boundary lattice of the integer arithmetic a decoder performs on it (tagsize + size, len - tagsize,
\* conversions to narrower or signed integers), followed by some bytes, alone or as an element of an
\* otherwise well-formed trie node.  A size is kept as the byte string of the field, never as an integer
\* (TLC's integers are 32 bit; the lattice reaches 2^64-1): the specification's arithmetic saturates
\* (BEsat) or compares byte strings (LeqBE) and therefore cannot wrap.
\*   form "str" | "list";  k = number of size bytes, 0 = short form (sb = <<size>>, size <= 55)
HdrBytes(form, k, sb) == LET small == IF form = "list" THEN 192 ELSE 128 IN
                         IF k = 0 THEN <<small + sb[1]>> ELSE <<small + 55 + k>> \o sb
PadTo(k, b)  == Rep(k - Len(b), 0) \o b                       \* the value b as a k-byte field (leading zeros: not canonical)
TopOf(k, d)  == Rep(k - 1, 255) \o <<255 - d>>                \* 2^(8k) - 1 - d
SignOf(k)    == <<128>> \o Rep(k - 1, 0)                      \* 2^(8k-1): negative as a signed k-byte integer
SignM1(k)    == <<127>> \o Rep(k - 1, 255)                    \* 2^(8k-1) - 1
SmallSizes   == {0, 1, 2, 32, 33, 55, 56, 57, 255, 256}
SizeLattice(k) ==
  IF k = 0 THEN {<<n>> : n \in {0, 1, 2, 32, 33, 54, 55}}
  ELSE {PadTo(k, BE(n)) : n \in {m \in SmallSizes : Len(BE(m)) <= k}}     \* 0, 1, 55, 56, the 1/2 byte boundary
       \cup {PadTo(k, Rep(j, 255)) : j \in 1..k}                          \* 2^8j - 1 for every narrower width
       \cup {TopOf(k, d) : d \in 0..9}                                    \* 2^8k - 10 .. 2^8k - 1: + tagsize wraps at this width
       \cup {SignOf(k), SignM1(k)}
ClaimSat(sb)   == BEsat(sb)
\* sizes that an input of the bounded universe can actually hold (everything else only ever meets shorter inputs):
\* up to 57, 255 and 256 (Wide: every canonical size up to 257, i.e. also 2^8-10 .. 2^8-2)
HugeClaim(sb) == ~(ClaimSat(sb) <= 57 \/ (sb[1] # 0 /\ (ClaimSat(sb) \in {255, 256} \/ (Wide /\ ClaimSat(sb) <= 257))))
\* how many bytes follow the header: around the claimed size where that is feasible, a few fixed lengths otherwise
\* (a long-form size field with a leading zero is refused whatever follows: fewer lengths)
RestLattice(k, sb) == IF k > 0 /\ sb[1] = 0 /\ ~Wide THEN {0, 1, 9}
                      ELSE IF HugeClaim(sb) THEN {0, 1, 8, 9, 40}
                      ELSE LET v == ClaimSat(sb) IN {n \in {0, 1, v - 1, v, v + 1} : n >= 0}
FillBytes == {1, 128} \cup (IF Wide THEN {192} ELSE {})       \* what follows: single-byte items, empty strings, empty lists
Contexts  == {"top", "elem", "leaf", "ext", "full0", "full16"}
Embed(ctx, x) ==
  CASE ctx = "top"    -> x                                    \* a stored value (state_object.go: ser.Split(enc)) or a whole record
    [] ctx = "elem"   -> EncLst(x)                            \* the content of a well-formed list
    [] ctx = "leaf"   -> EncLst(<<32>> \o x)                  \* trie short node with a terminated key: x is the value
    [] ctx = "ext"    -> EncLst(<<0>> \o x)                   \* trie short node without terminator: x is the child reference
    [] ctx = "full0"  -> EncLst(x \o Rep(16, 128))            \* trie full node: x is child 0 ...
    [] ctx = "full16" -> EncLst(Rep(16, 128) \o x)            \* ... or the value slot
\* exact comparison "size field <= n" on byte strings
LeqBE(sb, n) == LET x == StripZ(sb)  y == BE(n) IN Len(x) < Len(y) \/ (Len(x) = Len(y) /\ ~SeqLess(y, x))
\* THE specification of a header followed by `rest` bytes: an error unless the size is written canonically and fits
SzFits(h) == IF h.k = 0 THEN h.sb[1] <= h.rest /\ ~(h.form = "str" /\ h.sb[1] = 1 /\ h.fill < 128)
             ELSE h.sb[1] # 0 /\ ~LeqBE(h.sb, 55) /\ LeqBE(h.sb, h.rest)
HdNone == [st |-> "none", form |-> "", k |-> 0, sb |-> <<>>, rest |-> 0, fill |-> 0, ctx |-> ""]
SzLabel(h) ==
  LET hb   == HdrBytes(h.form, h.k, h.sb)
      item == hb \o Rep(h.rest, h.fill)
      s    == Embed(h.ctx, item)
      sp   == SplitOf(s)
      cf   == CountFull(s)
      ccf  == CountFull(sp.content)
  IN [ op |-> "sz", form |-> h.form, k |-> h.k, sb |-> h.sb, rest |-> h.rest, fill |-> h.fill, ctx |-> h.ctx,
       s |-> s, item |-> item,
       fits   |-> SzFits(h),                  \* stated on the construction, independently of RawKind
       isplit |-> SplitOf(item),              \* Split on the item alone
       split  |-> sp,                         \* Split / SplitList / SplitString on the whole input
       count  |-> [ok |-> cf.ok, n |-> cf.n, c |-> cf.c], steps |-> cf.steps,              \* CountValues(s)
       ccount |-> IF sp.ok THEN [ok |-> ccf.ok, n |-> ccf.n, c |-> ccf.c] ELSE [ok |-> FALSE, n |-> 0, c |-> "n/a"],   \* CountValues(content)
       csteps |-> IF sp.ok THEN ccf.steps ELSE 0,
       node   |-> NodeOf(s, AsCoded),         \* trie.decodeNode(s) (VerifyProof with s as the proof node)
       r  |-> Decode("any", s, FALSE), st |-> Decode("any", s, TRUE),                      \* the Stream decoder's twin checks
       rr |-> Decode("raw", s, FALSE) ]

(* ======================================================================= *)
(* the state machine                                                       *)
(* ======================================================================= *)
VARIABLES tgt,   \* bytes mode: the target type the entry point was opened on ("" before Open)
          buf,   \* bytes mode: the input fed so far (sequence of chunks)
          ph,    \* bytes mode: "feeding" (input incomplete so far), "trailing" (a complete value was accepted), "done"
          cur,   \* values mode: <<target index, value index>>
          reg,   \* registry mode: names registered so far
          hd,    \* sizes mode: the damaged record / proof node being composed (header form, size field, what follows, where it sits)
          last   \* label of the last step: the call, its arguments and everything it returned (output; hidden by the VIEW)
vars == <<tgt, buf, ph, cur, reg, hd, last>>
View == <<tgt, buf, ph, cur, reg, hd>>

Init == /\ tgt = "" /\ buf = <<>> /\ ph = "feeding" /\ cur = <<1, 0>> /\ reg = {} /\ hd = HdNone /\ last = [op |-> "init", s |-> <<>>]

DecLabel(t, chunks) ==
  LET s == Cat(chunks) IN
  [ op |-> "dec", tgt |-> t, s |-> s, n |-> Len(chunks),
    r  |-> Decode(t, s, FALSE),          \* as coded
    st |-> Decode(t, s, TRUE),           \* strict
    split |-> IF t = "any" THEN SplitOf(s) ELSE [ok |-> FALSE, c |-> "n/a", kind |-> "", content |-> <<>>, rest |-> <<>>],
    count |-> IF t = "any" THEN CountOf(s) ELSE [ok |-> FALSE, n |-> 0, c |-> "n/a"] ]

\* the input so far may still become a value when more bytes arrive: the decoder says the input is
\* short, and the total length the first header claims (0: header itself unfinished) is within MaxBytes
TopClaim(b) ==
  IF Len(b) = 0 THEN 0
  ELSE LET h == b[1]
           Long(n) == IF n > Len(b) - 1 THEN 0 ELSE LET v == BEsat(SubSeq(b, 2, n + 1)) IN IF v >= Cap THEN Cap ELSE n + 1 + v
       IN IF h < 128 THEN 1 ELSE IF h < 184 THEN 1 + (h - 128) ELSE IF h < 192 THEN Long(h - 183)
          ELSE IF h < 248 THEN 1 + (h - 192) ELSE Long(h - 247)
TopOff(t) == IF t \in {"ifct", "ifce", "wt"} THEN 7 ELSE 0
ClaimOf(t, s) == IF Len(s) <= TopOff(t) THEN 0 ELSE TopClaim(SubSeq(s, TopOff(t) + 1, Len(s)))
IsShort(lbl) == ~lbl.r.ok /\ lbl.r.c \in {"eof", "value_too_large"}
\* "feeding": the input is short and the decoder has not failed on what it has seen;
\* "doomed": the input is short but the decoder fails before it reaches the missing part, whatever that will be;
\* "trailing": a value was accepted; "done": a definite error, or a claim beyond the bounded universe
LongN(h) == IF h >= 184 /\ h < 192 THEN h - 183 ELSE IF h >= 248 /\ h < 256 THEN h - 247 ELSE 0   \* number of size bytes of a long header
PhaseAfter(t, lbl) ==
  IF lbl.r.ok THEN "trailing"
  ELSE IF ~IsShort(lbl) THEN "done"
  ELSE LET cl == ClaimOf(t, lbl.s)
           b  == SubSeq(lbl.s, TopOff(t) + 1, Len(lbl.s)) IN
       IF cl = 0 THEN      \* the first header (or the type prefix) is itself unfinished
            IF Len(b) >= 3 /\ LongN(b[1]) >= 3 THEN "done"        \* a size of three or more bytes is beyond the universe anyway
            ELSE IF Decode(t, lbl.s \o Rep(9, PAD), FALSE).c = "pad" THEN "feeding" ELSE "doomed"
       ELSE IF TopOff(t) + cl > MaxBytes(t) THEN "done"
       ELSE IF Decode(t, lbl.s \o Rep(TopOff(t) + cl - Len(lbl.s), PAD), FALSE).c = "pad" THEN "feeding"
       ELSE "doomed"
CompletionLen(t, s) == IF ClaimOf(t, s) > 0 THEN TopOff(t) + ClaimOf(t, s) ELSE Len(s) + 8
Open(t) == /\ Mode = "bytes" /\ tgt = "" /\ tgt' = t /\ UNCHANGED <<buf, cur, reg, hd>>
           /\ last' = DecLabel(t, <<>>) /\ ph' = PhaseAfter(t, last')
Feed(ch) == /\ Mode = "bytes" /\ tgt # "" /\ ph = "feeding" /\ Len(buf) < MaxChunks(tgt)
            /\ Len(last.s) + Len(ch) <= MaxBytes(tgt)
            /\ buf' = Append(buf, ch) /\ UNCHANGED <<tgt, cur, reg, hd>>
            /\ last' = DecLabel(tgt, buf') /\ ph' = PhaseAfter(tgt, last')
\* a doomed prefix is completed with zero bytes to the length its header claims (8 more bytes if there
\* is no complete header yet): the error must then show
Complete == /\ Mode = "bytes" /\ tgt # "" /\ ph = "doomed"
            /\ buf' = Append(buf, Rep(CompletionLen(tgt, last.s) - Len(last.s), 0)) /\ UNCHANGED <<tgt, cur, reg, hd>>
            /\ last' = DecLabel(tgt, buf') /\ ph' = "done"
Trail(ch) == /\ Mode = "bytes" /\ tgt # "" /\ ph = "trailing"
             /\ buf' = Append(buf, ch) /\ UNCHANGED <<tgt, cur, reg, hd>>
             /\ last' = DecLabel(tgt, buf') /\ ph' = "done"

ValLabel(i, j) ==
  LET t == ValTargets[i]  v == ValTab[i][j]  enc == EncTab[i][j]  ms == MutsOf(t, v) IN
  [ op |-> "val", tgt |-> t, idx |-> j, v |-> v, s |-> enc,
    r |-> Decode(t, enc, FALSE), st |-> Decode(t, enc, TRUE),
    muts |-> [x \in 1..Len(ms) |-> [m |-> ms[x].m, s |-> ms[x].s, r |-> Decode(t, ms[x].s, FALSE), st |-> Decode(t, ms[x].s, TRUE)]] ]
NextValue ==
  /\ Mode = "values" /\ UNCHANGED <<tgt, buf, ph, reg, hd>>
  /\ LET i == cur[1]  j == cur[2] IN
     \/ /\ j < Len(ValTab[i]) /\ cur' = <<i, j + 1>> /\ last' = ValLabel(i, j + 1)
     \/ /\ j = Len(ValTab[i]) /\ i < Len(ValTargets) /\ cur' = <<i + 1, 1>> /\ last' = ValLabel(i + 1, 1)

Register(x) == /\ Mode = "registry" /\ x \notin reg /\ reg' = reg \cup {x} /\ UNCHANGED <<tgt, buf, ph, cur, hd>>
               /\ last' = [op |-> "register", x |-> x, obs |-> ObserveSeq(reg')]

\* sizes mode: the writer of the damaged record picks a header form, a size field, what follows and where
\* the item sits; the reader then calls every raw entry point on the result (label of the last step)
SzStep == [op |-> "szstep", s |-> <<>>]
SzForm(f, k) == /\ Mode = "sizes" /\ hd.st = "none" /\ UNCHANGED <<tgt, buf, ph, cur, reg>>
                /\ hd' = [HdNone EXCEPT !.st = "form", !.form = f, !.k = k] /\ last' = SzStep
SzSize(sb)   == /\ Mode = "sizes" /\ hd.st = "form" /\ UNCHANGED <<tgt, buf, ph, cur, reg>>
                /\ hd' = [hd EXCEPT !.st = "size", !.sb = sb] /\ last' = SzStep
SzRest(n, f) == /\ Mode = "sizes" /\ hd.st = "size" /\ UNCHANGED <<tgt, buf, ph, cur, reg>>
                /\ hd' = [hd EXCEPT !.st = "rest", !.rest = n, !.fill = f] /\ last' = SzStep
SzEmbed(ctx) == /\ Mode = "sizes" /\ hd.st = "rest" /\ UNCHANGED <<tgt, buf, ph, cur, reg>>
                /\ hd' = [hd EXCEPT !.st = "done", !.ctx = ctx] /\ last' = SzLabel(hd')
SzNext == \/ \E f \in {"str", "list"} \cap Targets, k \in 0..8 : SzForm(f, k)       \* Targets: the header forms explored by this run
          \/ (hd.st = "form" /\ \E sb \in SizeLattice(hd.k) : SzSize(sb))
          \/ (hd.st = "size" /\ \E n \in RestLattice(hd.k, hd.sb), f \in FillBytes : SzRest(n, f))
          \/ \E ctx \in Contexts : SzEmbed(ctx)

Next == \/ /\ Mode = "bytes"
           /\ \/ \E t \in Targets : Open(t)
              \/ (tgt # "" /\ \E ch \in Alphabet(tgt) : Feed(ch))
              \/ Complete
              \/ \E ch \in ({<<0>>} \cup (IF Len(last.s) <= 2 THEN {<<128>>} ELSE {})) : Trail(ch)
        \/ /\ Mode = "values" /\ NextValue
        \/ /\ Mode = "registry" /\ \E x \in RegNames : Register(x)
        \/ /\ Mode = "sizes" /\ SzNext
Spec == Init /\ [][Next]_vars

(* ======================================================================= *)
(* what TLC checks                                                         *)
(* ======================================================================= *)
\* a call returns a value or an error -- nothing else
NoCrashV(vd) == vd.c # "panic"
\* the strict decoder is canonical: an accepted input is the encoding of the value it decodes to
CanonV(t, s, vd) == vd.ok => Encode(t, vd.v) = s
\* where the strict decoder accepts, the coded decoder returns the same value
AgreeV(st, r) == st.ok => (r.ok /\ r.v = st.v)
\* on the plain grammar the coded decoder has no leniency
PlainStrictV(t, st, r) == (t \in StrictTargets /\ r.ok) => st.ok

BytesInv ==
  last.op = "dec" =>
     /\ NoCrashV(last.r) /\ NoCrashV(last.st)
     /\ CanonV(last.tgt, last.s, last.st)
     /\ AgreeV(last.st, last.r)
     /\ PlainStrictV(last.tgt, last.st, last.r)
\* Split / CountValues agree with the decoder on inputs the decoder accepts
SplitInv ==
  (last.op = "dec" /\ last.tgt = "any" /\ last.r.ok) =>
     /\ last.split.ok /\ last.split.rest = <<>>
     /\ (last.r.v.t = "list") = (last.split.kind = "list")
     /\ last.count.ok /\ last.count.n = 1
     /\ last.r.v.t = "list" => LET cc == CountOf(last.split.content) IN cc.ok /\ cc.n = Len(last.r.v.e)
     /\ last.r.v.t = "str" => last.split.content = last.r.v.b

\* sizes mode: whatever the size field says, every raw entry point returns a value or an error whose
\* slices lie inside the input, CountValues ends after at most one iteration per input byte, and the
\* verdict is "error unless the size is canonical and fits what follows"
SizesInv ==
  last.op = "sz" =>
     /\ last.isplit.ok = last.fits
     /\ last.isplit.ok => /\ LeqBE(last.sb, Len(last.isplit.content)) /\ Len(last.isplit.content) <= last.rest
                          /\ SubSeq(last.item, 1, Len(last.item) - last.rest) \o last.isplit.content \o last.isplit.rest = last.item
     /\ last.split.ok => LET hl == Len(last.s) - Len(last.split.content) - Len(last.split.rest) IN
                         hl >= 0 /\ SubSeq(last.s, 1, hl) \o last.split.content \o last.split.rest = last.s
     /\ RawProgress(last.s)
     /\ last.steps <= Len(last.s) /\ last.csteps <= Len(last.s)
     /\ last.count.ok => last.count.n >= 1
     /\ last.node.c # "panic"
     /\ last.node.ok => (last.split.ok /\ last.split.kind = "list" /\ last.ccount.ok /\ last.ccount.n \in {2, 17})
     /\ NoCrashV(last.r) /\ NoCrashV(last.st) /\ NoCrashV(last.rr)
     /\ CanonV("any", last.s, last.st) /\ AgreeV(last.st, last.r) /\ PlainStrictV("any", last.st, last.r)
     /\ last.r.ok => (last.split.ok /\ last.split.rest = <<>> /\ last.count.ok /\ last.count.n = 1)

\* decode(encode(v)) = v, by both decoders; encodings are pairwise different; every mutation obeys the bytes invariants
RoundTrip == last.op = "val" => /\ last.r.ok /\ last.r.v = last.v
                                /\ last.st.ok /\ last.st.v = last.v
Injective == last.op = "val" => \A j \in 1..(cur[2] - 1) : EncTab[cur[1]][j] # last.s
MutInv ==
  last.op = "val" =>
    \A x \in 1..Len(last.muts) :
      LET m == last.muts[x] IN
      /\ NoCrashV(m.r) /\ NoCrashV(m.st)
      /\ CanonV(last.tgt, m.s, m.st)
      /\ AgreeV(m.st, m.r)
      /\ PlainStrictV(last.tgt, m.st, m.r)
      /\ m.st.ok => m.st.v # last.v            \* a changed encoding never decodes (strictly) to the original value

\* registry: the observation depends on the set of registered names only, and nothing panics
RegNoPanic == last.op = "register" => \A x \in 1..Len(last.obs) : last.obs[x].dec # "panic"
RegMonotone == last.op = "register" =>
  \A x \in 1..Len(last.obs) :
     (last.obs[x].i \in reg /\ last.obs[x].c \in reg /\ Implements(ConcNo[last.obs[x].c], IfaceNo[last.obs[x].i]))
        => (last.obs[x].enc = "prefixed" /\ last.obs[x].dec = "value")

(* ---- export for the replay harness ------------------------------------- *)
CV(v) == [t |-> v.t, b |-> v.b, e |-> v.e]      \* nested values keep their full shape
CVd(vd) == IF vd.ok THEN [ok |-> TRUE, v |-> vd.v] ELSE [ok |-> FALSE, c |-> vd.c, ib |-> vd.ib]
CSt(vd) == IF vd.ok THEN [ok |-> TRUE] ELSE [ok |-> FALSE, c |-> vd.c]
Compact(l) ==
  IF l.op = "dec" THEN
       IF l.tgt = "any" THEN [op |-> "dec", tgt |-> l.tgt, s |-> l.s, r |-> CVd(l.r), st |-> CSt(l.st), split |-> l.split, count |-> l.count]
       ELSE [op |-> "dec", tgt |-> l.tgt, s |-> l.s, r |-> CVd(l.r), st |-> CSt(l.st)]
  ELSE IF l.op = "val" THEN
       [op |-> "val", tgt |-> l.tgt, idx |-> l.idx, v |-> l.v, s |-> l.s, r |-> CVd(l.r), st |-> CSt(l.st),
        muts |-> [x \in 1..Len(l.muts) |-> [m |-> l.muts[x].m, s |-> l.muts[x].s, r |-> CVd(l.muts[x].r), st |-> CSt(l.muts[x].st)]]]
  ELSE IF l.op = "sz" THEN
       [op |-> "sz", form |-> l.form, k |-> l.k, sb |-> l.sb, rest |-> l.rest, fill |-> l.fill, ctx |-> l.ctx, s |-> l.s,
        split |-> l.split, count |-> l.count, steps |-> l.steps, ccount |-> l.ccount, node |-> l.node,
        r |-> CVd(l.r), st |-> CSt(l.st), rr |-> CVd(l.rr)]
  ELSE l
Emit == PrintT(ToJson(Compact(last')))
RegEdge == PrintT(ToJson([from |-> [reg |-> reg], act |-> last', to |-> [reg |-> reg']]))
=============================================================================
