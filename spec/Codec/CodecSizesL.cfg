\* quick (list headers): size-field arithmetic — every header form x the boundary lattice of sizes x what follows x where it sits
CONSTANTS
  Mode = "sizes"
  Wide = FALSE
  AsCoded = FALSE
  Extra = 0
  Targets = {"list"}
INIT Init
NEXT Next
VIEW View
INVARIANT SizesInv
ACTION_CONSTRAINT Emit
CHECK_DEADLOCK FALSE
