\* quick: scalar targets (strings, unsigned/big/signed integers, booleans, byte arrays, RawValue, WithType prefix)
CONSTANTS
  Mode = "bytes"
  Wide = FALSE
  AsCoded = FALSE
  Extra = 0
  Targets = {"bytes", "raw", "u64", "big", "u8", "bool", "arr1", "arr2", "ptru", "i64", "wt"}
INIT Init
NEXT Next
VIEW View
INVARIANT BytesInv
INVARIANT SplitInv
ACTION_CONSTRAINT Emit
CHECK_DEADLOCK FALSE
