\* thorough: adds 65535/65536-byte strings (2- to 3-byte size boundary)
CONSTANTS
  Mode = "values"
  Wide = TRUE
  AsCoded = FALSE
  Extra = 0
  Targets = {}
INIT Init
NEXT Next
VIEW View
INVARIANT RoundTrip
INVARIANT Injective
INVARIANT MutInv
ACTION_CONSTRAINT Emit
CHECK_DEADLOCK FALSE
