\* registry as designed: every registration order; exported as a graph
CONSTANTS
  Mode = "registry"
  Wide = FALSE
  AsCoded = FALSE
  Extra = 0
  Targets = {}
INIT Init
NEXT Next
VIEW View
INVARIANT RegNoPanic
INVARIANT RegMonotone
ACTION_CONSTRAINT RegEdge
CHECK_DEADLOCK FALSE
