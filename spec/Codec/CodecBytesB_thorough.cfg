\* thorough: wider alphabets, one more chunk/byte
CONSTANTS
  Mode = "bytes"
  Wide = TRUE
  AsCoded = FALSE
  Extra = 1
  Targets = {"bytes", "raw", "u64", "big", "u8", "bool", "arr1", "arr2", "ptru", "i64", "wt"}
INIT Init
NEXT Next
VIEW View
INVARIANT BytesInv
INVARIANT SplitInv
ACTION_CONSTRAINT Emit
CHECK_DEADLOCK FALSE
