\* thorough: wider alphabet
CONSTANTS
  Mode = "bytes"
  Wide = TRUE
  AsCoded = FALSE
  Extra = 0
  Targets = {"any"}
INIT Init
NEXT Next
VIEW View
INVARIANT BytesInv
INVARIANT SplitInv
ACTION_CONSTRAINT Emit
CHECK_DEADLOCK FALSE
