\* thorough: the quick alphabet, one more byte (inputs of up to 6 bytes)
CONSTANTS
  Mode = "bytes"
  Wide = FALSE
  AsCoded = FALSE
  Extra = 1
  Targets = {"any"}
INIT Init
NEXT Next
VIEW View
INVARIANT BytesInv
INVARIANT SplitInv
ACTION_CONSTRAINT Emit
CHECK_DEADLOCK FALSE
