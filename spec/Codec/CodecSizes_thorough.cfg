\* thorough: relative lengths for every canonical size up to 257 and for non-canonical fields, empty lists as filler
CONSTANTS
  Mode = "sizes"
  Wide = TRUE
  AsCoded = FALSE
  Extra = 0
  Targets = {"str", "list"}
INIT Init
NEXT Next
VIEW View
INVARIANT SizesInv
ACTION_CONSTRAINT Emit
CHECK_DEADLOCK FALSE
