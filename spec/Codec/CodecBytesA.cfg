\* quick: every short input of the untyped grammar (interface{} target, Split, CountValues)
CONSTANTS
  Mode = "bytes"
  Wide = FALSE
  AsCoded = FALSE
  Extra = 0
  Targets = {"any"}
INIT Init
NEXT Next
VIEW View
INVARIANT BytesInv
INVARIANT SplitInv
ACTION_CONSTRAINT Emit
CHECK_DEADLOCK FALSE
