\* as coded: TLC is expected to report SizesInv violated (node.c = "panic": compactToHex on the empty key of a short node)
CONSTANTS
  Mode = "sizes"
  Wide = FALSE
  AsCoded = TRUE
  Extra = 0
  Targets = {"str", "list"}
INIT Init
NEXT Next
VIEW View
INVARIANT SizesInv
ACTION_CONSTRAINT Emit
CHECK_DEADLOCK FALSE
