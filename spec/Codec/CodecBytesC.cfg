\* quick: structured targets (structs, optional pointers, registered interfaces, maps)
CONSTANTS
  Mode = "bytes"
  Wide = FALSE
  AsCoded = FALSE
  Extra = 0
  Targets = {"rec", "recq", "ifct", "ifce", "ifcs", "lifc", "map"}
INIT Init
NEXT Next
VIEW View
INVARIANT BytesInv
INVARIANT SplitInv
ACTION_CONSTRAINT Emit
CHECK_DEADLOCK FALSE
