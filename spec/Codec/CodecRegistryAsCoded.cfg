\* registry as coded: TLC is expected to report RegNoPanic violated (the lead the harness reproduces)
CONSTANTS
  Mode = "registry"
  Wide = FALSE
  AsCoded = TRUE
  Extra = 0
  Targets = {}
INIT Init
NEXT Next
VIEW View
INVARIANT RegNoPanic
INVARIANT RegMonotone
ACTION_CONSTRAINT RegEdge
CHECK_DEADLOCK FALSE
