-------------------------------- MODULE WAL --------------------------------
(***************************************************************************)
(* The consensus write-ahead log of linkchain: consensus/wal.go (baseWAL,  *)
(* WALEncoder, WALDecoder, SearchForEndHeight), consensus/replay.go        *)
(* (catchupReplay reads on from the reader the search returns) and         *)
(* libs/autofile (Group with its bufio head buffer, RotateFile,            *)
(* GroupReader.Read spanning the files of the group).                      *)
(*                                                                         *)
(* A record is  crc32c(4) | length(4) | payload.  The model works on       *)
(* CELLS, nine per record: the first / middle / last byte(s) of each of    *)
(* the three fields                                                        *)
(*      1 2 3 = crc  byte 0 | bytes 1..2 | byte 3                          *)
(*      4 5 6 = len  byte 4 | bytes 5..6 | byte 7   (big endian)           *)
(*      7 8 9 = payload  first byte | middle bytes | last byte             *)
(* so that every byte offset of a real log belongs to exactly one cell and *)
(* the log on disk is the cell sequence 1..9n laid out over the files of   *)
(* the group.  The harness maps every concrete byte offset of a real log   *)
(* to its cell and compares the real outcome with the one computed here.   *)
(*                                                                         *)
(* Writer (one action per call of the code that takes the group's mutex):  *)
(*   Open    = NewWAL + Start  (OnStart writes EndHeight(0) into an empty  *)
(*             head file)                                                  *)
(*   GroupWrite = ONE call of Group.Write (mutex; bufio.Write on headBuf). *)
(*             baseWAL.Write -> WALEncoder.Encode hands a record to the    *)
(*             group in one or more such calls (EncodeCuts: the cells      *)
(*             after which Encode ends one call and starts the next); the  *)
(*             group's mutex is held per CALL, so the unit that is atomic  *)
(*             with respect to a rotation is the call, not the record.     *)
(*             bufio may run full inside the call and write everything up  *)
(*             to that point to the head file (parameter s = cells of the  *)
(*             record that reach the file)                                 *)
(*   Flush   = Group.Flush  (WriteSync = Write ; Flush)                    *)
(*   Rotate  = Group.RotateFile, what the group's ticker goroutine         *)
(*             (processTicks -> checkHeadSizeLimit) does when the head     *)
(*             exceeds its size limit: enabled between ANY two calls of    *)
(*             the writer, also between two Group.Write calls of one       *)
(*             Encode                                                      *)
(*   Close   = baseWAL.Stop                                                *)
(* Damage: none, Cut(c) (the log ends after c cells) or Flip(c) (one byte  *)
(* of cell c altered; for a length cell the effect on the length value is  *)
(* a parameter).                                                           *)
(* Reader: Decode (one call of WALDecoder.Decode by the strict reader that *)
(* stops at the first error) and Search (one call of SearchForEndHeight).  *)
(*                                                                         *)
(* Three facts about the code are parameters the harness probes on it; the *)
(* first two were deviations of the code at the pinned commit:             *)
(*   FlushOnRotate = FALSE: RotateFile renames the head without flushing   *)
(*       headBuf, so the tail of a record bufio has split ends up at the   *)
(*       start of the next file;                                           *)
(*   TornTailIsEOF = FALSE: a record cut short by the end of the group     *)
(*       makes SearchForEndHeight return an error before it has looked at  *)
(*       the older files.                                                  *)
(*   EncodeCuts = {}: Encode assembles crc|len|payload and hands it to the *)
(*       group in ONE Group.Write (as found).  {6} = the header in one     *)
(*       call and the payload in the next: a rotation between the two      *)
(*       ends a file after the header, the next file starts with a         *)
(*       headless payload, and SearchForEndHeight - which starts a decoder *)
(*       at the beginning of every file - misses every marker in that file *)
(*       and in all older ones although nothing is damaged.                *)
(* With TRUE, TRUE, {} ("as designed") every invariant below holds.        *)
(***************************************************************************)
EXTENDS Integers, Sequences, FiniteSets, TLC, Json

CONSTANTS NRecs,          \* every log holds exactly NRecs records (shorter logs are its cuts)
          MaxFiles,       \* files of the group, head included
          SplitCells,     \* subset of 1..8: where the head buffer may run full inside a record
          MaxRestarts,    \* Close + Open again
          FlushOnRotate,  \* see above
          TornTailIsEOF,  \* see above
          EncodeCuts      \* subset of 1..8, see above: c \in EncodeCuts = Encode ends a Group.Write call after cell c of the record

C    == 9      \* cells per record
Lost == -1     \* reader position after a record whose length field was wrong: somewhere inside a record

VARIABLES phase,     \* "new" | "open" | "closed" | "damaged"
          recs,      \* what was handed to baseWAL.Write, in order: -1 = a consensus message, h >= 0 = EndHeightMessage{h}
          disk,      \* cells that have left headBuf (they are in the files)
          bounds,    \* cell offsets at which the rotated files end (the head file follows the last one)
          restarts,
          dmg,       \* the damage applied after the log was closed
          rd,        \* the strict reader: [pos, out, done]
          pend,      \* 0, or c \in EncodeCuts: the writer is inside WALEncoder.Encode between two Group.Write calls,
                     \* the first c cells of the last record of recs have been handed to the group
          hist,      \* writer actions so far (output only, hidden by the VIEW)
          last       \* label of the last action (output only, hidden by the VIEW)
vars == <<phase, recs, disk, bounds, restarts, dmg, rd, pend, hist, last>>

Total     == C * Len(recs)
Handed    == IF pend = 0 THEN Total ELSE Total - C + pend   \* cells Group.Write has been given so far (in the files or in headBuf)
HeadStart == IF bounds = <<>> THEN 0 ELSE bounds[Len(bounds)]
HeadSize  == disk - HeadStart              \* Group.Head.Size(): what is in the file, not in headBuf
Heights   == {recs[i] : i \in 1..Len(recs)} \ {-1}
NextH     == IF Heights = {} THEN 0 ELSE 1 + (CHOOSE h \in Heights : \A g \in Heights : g <= h)

NoDmg == [k |-> "-", c |-> 0, e |-> "-", j |-> 0]
NoRd  == [pos |-> 0, out |-> <<>>, done |-> FALSE]

Init == /\ phase = "new" /\ recs = <<>> /\ disk = 0 /\ bounds = <<>> /\ restarts = 0
        /\ dmg = NoDmg /\ rd = NoRd /\ pend = 0 /\ hist = <<>> /\ last = [op |-> "init"]

(* ------------------------------ the writer ------------------------------ *)
Log(a) == /\ hist' = Append(hist, a) /\ last' = a

\* NewWAL + Start.  baseWAL.OnStart: `size, _ := wal.group.Head.Size(); if size == 0 { wal.WriteSync(EndHeightMessage{0}) }`
\* (one step whatever EncodeCuts: the head file is empty and group.Start(), which starts the goroutine that
\* rotates, is called after the WriteSync, so nothing can come between the Group.Write calls of this record)
Open ==
  /\ phase \in {"new", "closed"}
  /\ phase = "closed" => restarts < MaxRestarts
  /\ restarts' = IF phase = "closed" THEN restarts + 1 ELSE restarts
  /\ IF HeadSize = 0
       THEN /\ Len(recs) < NRecs
            /\ recs' = Append(recs, 0)
            /\ disk' = Total + C
       ELSE UNCHANGED <<recs, disk>>
  /\ phase' = "open"
  /\ Log([op |-> "open", s |-> 0, h |-> IF HeadSize = 0 THEN 0 ELSE -1])   \* h = 0: EndHeight(0) was written
  /\ UNCHANGED <<bounds, dmg, rd, pend>>

\* One call of Group.Write (`g.mtx.Lock(); defer g.mtx.Unlock(); return g.headBuf.Write(p)`) made by
\* WALEncoder.Encode on behalf of baseWAL.Write(msg).  pend = 0: the first call of a new record h;
\* pend = a > 0: the next call of the Encode in progress.  The call hands the cells a+1 .. b of the
\* record to bufio, b = the next cut of the encoder after a (the end of the record when there is none):
\* with EncodeCuts = {} ONE byte slice crc|len|payload, a = 0 and b = 9.
\* s = 0: the bytes fit, nothing reaches the file.
\* s > 0: the buffer runs full after s cells of this record (a <= s < b; s = a: it was exactly full
\* when the call began); bufio writes the buffered bytes (everything before + these s cells) to the
\* head file and keeps the rest.  bufio takes that path only when something is already buffered; the
\* harness realises it by sizing the previous record (a block part, still wholly in the buffer)
\* accordingly.
ChunkEnd(a) == LET later == {c \in EncodeCuts : c > a}
               IN  IF later = {} THEN C ELSE CHOOSE c \in later : \A d \in later : c <= d
GroupWrite(h, s) ==
  /\ phase = "open"
  /\ IF pend = 0
       THEN /\ Len(recs) < NRecs
            /\ h = -1 \/ h = NextH
            /\ recs' = Append(recs, h)
       ELSE /\ h = recs[Len(recs)]
            /\ UNCHANGED recs
  /\ LET n     == IF pend = 0 THEN Len(recs) + 1 ELSE Len(recs)    \* the record this call belongs to
         start == C * (n - 1)
         b     == ChunkEnd(pend)
     IN  /\ pend' = IF b = C THEN 0 ELSE b
         /\ \/ s = 0 /\ UNCHANGED disk
            \/ /\ s \in SplitCells /\ pend <= s /\ s < b
               /\ n > 1 /\ recs[n - 1] = -1 /\ disk <= start - C
               /\ disk' = start + s
  /\ Log([op |-> IF pend = 0 THEN "write" ELSE "more", s |-> s, h |-> h])
  /\ UNCHANGED <<phase, bounds, restarts, dmg, rd>>

\* Group.Flush (second half of baseWAL.WriteSync)
Flush ==
  /\ phase = "open" /\ pend = 0 /\ disk < Total      \* (the writer's own goroutine: not inside an Encode)
  /\ disk' = Total
  /\ Log([op |-> "flush", s |-> 0, h |-> 0])
  /\ UNCHANGED <<phase, recs, bounds, restarts, dmg, rd, pend>>

\* Group.RotateFile: close the head, rename it to <head>.NNN, maxIndex++.  The ticker calls it
\* when the head FILE has reached the size limit, so the head file is not empty.  It runs on the
\* group's own goroutine and only needs the group's mutex: pend is not looked at (s = pend in the
\* label: 0 = at a record boundary, c = between two Group.Write calls, after cell c of the record).
Rotate ==
  /\ phase = "open" /\ HeadSize > 0 /\ Len(bounds) < MaxFiles - 1
  /\ IF FlushOnRotate
       THEN /\ disk' = Handed /\ bounds' = Append(bounds, Handed)
       ELSE /\ bounds' = Append(bounds, disk) /\ UNCHANGED disk
  /\ Log([op |-> "rotate", s |-> pend, h |-> 0])
  /\ UNCHANGED <<phase, recs, restarts, dmg, rd, pend>>

\* baseWAL.Stop: group.Stop (flush) + group.Close
Close ==
  /\ phase = "open" /\ pend = 0
  /\ disk' = Total /\ phase' = "closed"
  /\ Log([op |-> "close", s |-> 0, h |-> 0])
  /\ UNCHANGED <<recs, bounds, restarts, dmg, rd, pend>>

(* ------------------------------ the damage ------------------------------ *)
RecOf(c)  == ((c - 1) \div C) + 1
CellNo(c) == ((c - 1) % C) + 1
Field(c)  == IF CellNo(c) <= 3 THEN "crc" ELSE IF CellNo(c) <= 6 THEN "len" ELSE "pay"

\* What an altered byte of the length field does to the decoder:
\*   huge    the value exceeds maxMsgSizeBytes
\*   zero    the value is 0
\*   beyond  the value exceeds what is left of the log
\*   resync  the value is larger and the read ends exactly at the start of record j (j = NRecs+1: at the end)
\*   lost    the value is smaller, or larger and the read ends inside a later record
LenEffects(c) ==
  IF CellNo(c) = 4 THEN {<<"huge", 0>>}      \* most significant byte: >= 2^24 > 1 MiB
  ELSE {<<"huge", 0>>, <<"zero", 0>>, <<"beyond", 0>>, <<"lost", 0>>}
       \cup {<<"resync", j>> : j \in RecOf(c) + 2 .. NRecs + 1}

\* Cut(c): the last byte that reached the disk belongs to cell c (c = 0: nothing did); a cut
\* inside a multi-byte cell counts that cell, which is why one and two cells of a checksum
\* both mean "1..3 of its 4 bytes".  Files that lie wholly behind the cut are empty (the
\* harness also removes them).  Flip(c): one byte of cell c has another value.
Damages ==
  {[k |-> "none", c |-> 0, e |-> "-", j |-> 0]}
  \cup {[k |-> "cut", c |-> c, e |-> "-", j |-> 0] : c \in 0..Total - 1}
  \cup {[k |-> "flip", c |-> c, e |-> "-", j |-> 0] : c \in {x \in 1..Total : Field(x) # "len"}}
  \cup UNION {{[k |-> "flip", c |-> c, e |-> ej[1], j |-> ej[2]] : ej \in LenEffects(c)} :
                 c \in {x \in 1..Total : Field(x) = "len"}}

Damage(d) ==
  /\ phase = "closed" /\ Len(recs) = NRecs
  /\ d \in Damages
  /\ dmg' = d /\ phase' = "damaged" /\ rd' = NoRd
  /\ last' = [op |-> "damage", s |-> 0, h |-> 0]
  /\ UNCHANGED <<recs, disk, bounds, restarts, pend, hist>>

(* ------------------------------ the reader ------------------------------ *)
N      == IF dmg.k = "cut" THEN dmg.c ELSE Total      \* cells on disk
NFiles == Len(bounds) + 1
FileStart(i) == IF i = 1 THEN 0 ELSE bounds[i - 1]
FileEnd(i)   == LET e == IF i = NFiles THEN Total ELSE bounds[i] IN IF e < N THEN e ELSE N
FileOf(p)    == CHOOSE i \in 1..NFiles : FileStart(i) <= p /\ (i = NFiles \/ p < FileStart(i + 1))

\* GroupReader.Read(p): fill the buffer from the current file; at its end open the next
\* file of the group and go on; when there is no next file return what was read and io.EOF.
RECURSIVE ReadFrom(_, _, _)
ReadFrom(i, p, n) ==
  LET have == IF FileEnd(i) > p THEN FileEnd(i) - p ELSE 0
      take == IF have < n THEN have ELSE n
  IN  IF take = n THEN n
      ELSE IF i = NFiles THEN take                       \* openFile(curIndex+1): index > maxIndex -> io.EOF
      ELSE take + ReadFrom(i + 1, p + take, n - take)
Read(p, n) == ReadFrom(FileOf(p), p, n)

FlipIn(r, f) == dmg.k = "flip" /\ RecOf(dmg.c) = r /\ Field(dmg.c) = f

\* WALDecoder.Decode with the reader at the start of a record (p = C*(r-1)).
DecodeAt(p) ==
  LET r   == (p \div C) + 1
      out(k, rr, nx) == [k |-> k, r |-> rr, next |-> nx]
  IN
  IF Read(p, 3) < 3
    THEN out("eof", 0, p)        \* `_, err := dec.rd.Read(b); if err == io.EOF { return nil, err }` -- the group
                                 \* reader reports io.EOF whenever the group ends before the 4 bytes are there,
                                 \* so 1..3 stray bytes at the end read as a clean end of log
  ELSE IF Read(p + 3, 3) < 3
    THEN out("torn", 0, p)       \* "failed to read length: EOF"
  ELSE IF FlipIn(r, "len") /\ dmg.e = "huge"
    THEN out("plain", 0, p)      \* length > maxMsgSizeBytes: refused before anything is allocated
  ELSE IF FlipIn(r, "len") /\ dmg.e = "zero"
    THEN out("plain", 0, p)      \* GroupReader.Read(empty slice): "given empty slice"
  ELSE IF FlipIn(r, "len") /\ dmg.e = "beyond"
    THEN out("torn", 0, p)       \* "failed to read data: EOF"
  ELSE IF FlipIn(r, "len") /\ dmg.e = "resync"
    THEN out("corrupt", 0, C * (dmg.j - 1))   \* checksums do not match; the reader stands at a later record start
  ELSE IF FlipIn(r, "len") /\ dmg.e = "lost"
    THEN out("corrupt", 0, Lost)              \* checksums do not match; the reader stands inside a record
  ELSE IF Read(p + 6, 3) < 3
    THEN out("torn", 0, p)       \* "failed to read data: EOF"
  ELSE IF FlipIn(r, "crc") \/ FlipIn(r, "pay")
    THEN out("corrupt", 0, p + C)             \* checksum compared BEFORE the payload is decoded
  ELSE out("msg", r, p + C)

\* the strict reader (NewWALDecoder over Group.NewReader(0), stop at the first EOF / error)
Decode ==
  /\ phase = "damaged" /\ ~rd.done
  /\ LET d == DecodeAt(rd.pos) IN
       /\ rd' = [pos |-> d.next, out |-> Append(rd.out, <<d.k, d.r>>), done |-> d.k # "msg"]
       /\ last' = [op |-> "decode", s |-> 0, h |-> 0]
  /\ UNCHANGED <<phase, recs, disk, bounds, restarts, dmg, pend, hist>>

\* everything the strict reader yields when started at the record start p
DecodeAll(p0) ==
  LET all[p \in 0..Total] ==
        LET d == DecodeAt(p) IN
          IF d.k = "msg" THEN <<[k |-> "msg", r |-> d.r]>> \o all[d.next]
          ELSE <<[k |-> d.k, r |-> 0]>>
  IN all[p0]

\* What decoding yields from a position that is not a record start depends on payload
\* bytes the model does not have: it ends in an error that is not a checksum mismatch
\* (absurd length, ...), or runs to the end of the group through checksum mismatches
\* (skipped only when data-corruption errors are ignored), or gets back in step at the
\* start of a later record j.  A valid record is never decoded from such a position
\* (CRC collisions and payloads that embed a well-formed record are excluded).
NoFate == [k |-> "-", j |-> 0]
Fates  == {[k |-> "err", j |-> 0], [k |-> "eof", j |-> 0]} \cup {[k |-> "resync", j |-> j] : j \in 2..NRecs}
NeedFate  == (dmg.k = "flip" /\ dmg.e = "lost") \/ \E i \in 2..NFiles : FileStart(i) % C # 0 /\ FileStart(i) < N
FatesHere == IF NeedFate THEN Fates ELSE {NoFate}

NotFound == [res |-> "notfound", at |-> 0]
Failed   == [res |-> "err", at |-> 0]

\* SearchForEndHeight(h, {IgnoreDataCorruptionErrors: ign}):
\*   for index := max; index >= min; index-- { gr := group.NewReader(index); dec := NewWALDecoder(gr); for { dec.Decode() ... } }
\* scan is the inner loop with the reader at p; i is the index of the outer loop; lastH is
\* lastHeightFound (NOT reset between files); each reader runs to the end of the GROUP.
\* (a recursive FUNCTION of the loop state <<p, lastH, i>>: TLC applies functions to values)
SearchRes(h, ign, fate) ==
  LET scan[st \in (-1..Total) \X (0..NRecs) \X (1..MaxFiles)] ==
        LET p     == st[1]
            lastH == st[2]
            i     == st[3]
            AtEOF == IF lastH > 0 /\ lastH < h THEN NotFound        \* OPTIMISATION: seen a smaller height, older files cannot hold h
                     ELSE IF i = 1 THEN NotFound
                     ELSE scan[<<FileStart(i - 1), lastH, i - 1>>]
            floor == IF p = Lost THEN C * RecOf(dmg.c) ELSE p + 1
        IN
        IF p # Lost /\ p >= N THEN AtEOF
        ELSE IF p = Lost \/ p % C # 0 THEN
           CASE fate.k = "eof"    -> AtEOF
             [] fate.k = "resync" -> IF ign /\ C * (fate.j - 1) >= floor /\ C * (fate.j - 1) < N
                                       THEN scan[<<C * (fate.j - 1), lastH, i>>] ELSE Failed
             [] OTHER             -> Failed
        ELSE LET d == DecodeAt(p) IN
           CASE d.k = "eof"     -> AtEOF
             [] d.k = "torn"    -> IF TornTailIsEOF THEN AtEOF ELSE Failed
             [] d.k = "plain"   -> Failed
             [] d.k = "corrupt" -> IF ign THEN scan[<<d.next, lastH, i>>] ELSE Failed
             [] d.k = "msg"     -> IF recs[d.r] = h THEN [res |-> "found", at |-> d.r]
                                   ELSE scan[<<d.next, IF recs[d.r] >= 0 THEN recs[d.r] ELSE lastH, i>>]
  IN scan[<<FileStart(NFiles), 0, NFiles>>]
SearchHeights == 0..NRecs

Search(h, ign) ==
  /\ phase = "damaged" /\ rd.out = <<>>
  /\ last' = [op |-> "search", s |-> 0, h |-> h]   \* the result is {SearchRes(h, ign, f) : f \in FatesHere}: a
                                                    \* query, it changes nothing; exported with Obs below
  /\ UNCHANGED <<phase, recs, disk, bounds, restarts, dmg, rd, pend, hist>>

Next == \/ Open \/ Flush \/ Rotate \/ Close
        \/ \E h \in {-1} \cup 0..NRecs, s \in {0} \cup SplitCells : GroupWrite(h, s)
        \/ \E d \in Damages : Damage(d)
        \/ Decode
        \/ \E h \in SearchHeights, ign \in BOOLEAN : Search(h, ign)

Spec == Init /\ [][Next]_vars

(* ------------------------- what TLC checks ------------------------------ *)
TypeOK == /\ phase \in {"new", "open", "closed", "damaged"}
          /\ recs \in Seq({-1} \cup 0..NRecs) /\ Len(recs) <= NRecs
          /\ pend \in {0} \cup EncodeCuts /\ EncodeCuts \subseteq 1..(C - 1)
          /\ pend # 0 => phase = "open" /\ Len(recs) > 0
          /\ disk \in 0..Handed
          /\ Len(bounds) <= MaxFiles - 1
          /\ \A i \in 1..Len(bounds) : bounds[i] <= disk /\ (i > 1 => bounds[i - 1] <= bounds[i])

\* records that are wholly on disk and undamaged
Intact(r) == C * r <= N /\ ~(dmg.k = "flip" /\ RecOf(dmg.c) = r)
IntactPrefix == CASE dmg.k = "none" -> NRecs
                  [] dmg.k = "cut"  -> dmg.c \div C
                  [] dmg.k = "flip" -> RecOf(dmg.c) - 1

\* The strict reader yields the written messages 1..k in order, k = the number of records
\* before the damage, then end-of-log or an error: never anything else, never end-of-log
\* where a record was altered, and the whole log when nothing was damaged.
PrefixThenEnd ==
  phase = "damaged" =>
    LET n == Len(rd.out) IN
    /\ \A i \in 1..n : (i < n \/ ~rd.done) => rd.out[i] = <<"msg", i>>
    /\ rd.done => /\ rd.out[n][1] # "msg"
                  /\ n - 1 = IntactPrefix
                  /\ dmg.k = "none" => rd.out[n][1] = "eof"
                  /\ dmg.k = "flip" => rd.out[n][1] # "eof"
                  /\ rd.out = [i \in 1..n |-> <<DecodeAll(0)[i].k, DecodeAll(0)[i].r>>]

\* A marker that is reported found was written, is wholly on disk and undamaged.
MarkerSound ==
  phase = "damaged" /\ rd.out = <<>> =>
    \A h \in SearchHeights, ign \in BOOLEAN, f \in FatesHere :
      LET s == SearchRes(h, ign, f) IN
        s.res = "found" => s.at \in 1..NRecs /\ recs[s.at] = h /\ Intact(s.at)

\* The records the search reads before it reaches record r: everything in the files
\* after r's file, and what precedes r in its own file.
FileOfRec(r) == FileOf(C * (r - 1))
Traversed(d, r) == /\ d # r
                   /\ \/ FileOfRec(r) < NFiles /\ C * (d - 1) >= FileStart(FileOfRec(r) + 1)
                      \/ C * (d - 1) >= FileStart(FileOfRec(r)) /\ d < r
CleanTraversal(r) == dmg.k # "flip" \/ ~Traversed(RecOf(dmg.c), r)
MustFind(h) == \E r \in 1..NRecs : recs[r] = h /\ Intact(r) /\ CleanTraversal(r)
MustNotFind(h) == ~\E r \in 1..NRecs : recs[r] = h /\ Intact(r)

\* A marker that was completely written (lies wholly before a cut, was not altered) is
\* found, whatever the rotation, unless an altered record lies on the way to it.
MarkerComplete ==
  phase = "damaged" /\ rd.out = <<>> =>
    \A h \in SearchHeights, ign \in BOOLEAN, f \in FatesHere :
      MustFind(h) => SearchRes(h, ign, f).res = "found"

(* ------------------ export for the replay harness ----------------------- *)
Must(h) == IF MustFind(h) THEN "found" ELSE IF MustNotFind(h) THEN "notfound" ELSE "any"
Obs == [strict |-> DecodeAll(0),
        search |-> {[h |-> h, ign |-> ign, must |-> Must(h),
                     res |-> {SearchRes(h, ign, f) : f \in FatesHere}] : h \in SearchHeights, ign \in BOOLEAN},
        tails  |-> [r \in 1..NRecs |-> IF recs[r] >= 0 /\ C * r <= N THEN DecodeAll(C * r) ELSE <<>>]]

\* every way of writing a complete log (an ACTION_CONSTRAINT: evaluated for every generated step)
Edge ==
  IF last'.op = "close" /\ Len(recs') = NRecs
    THEN PrintT(ToJson([t |-> "log", recs |-> recs', bounds |-> bounds', hist |-> hist']))
    ELSE TRUE
\* every damaged log with what reading it back yields (listed as an INVARIANT: evaluated once
\* for every distinct state, in the unprimed context where TLC caches LET definitions)
Export ==
  IF phase = "damaged" /\ rd.out = <<>>
    THEN PrintT(ToJson([t |-> "dmg", recs |-> recs, bounds |-> bounds, dmg |-> dmg, obs |-> Obs]))
    ELSE TRUE

View == <<phase, recs, disk, bounds, restarts, dmg, rd, pend>>
=============================================================================
