\* quick tier, "as coded" at the pinned commit (for runs by hand): RotateFile does not flush,
\* a torn tail makes the search fail. Add MarkerComplete to INVARIANTS to see TLC's counterexample.
SPECIFICATION Spec
CONSTANTS
  NRecs = 3
  MaxFiles = 3
  SplitCells = {2, 5, 8}
  MaxRestarts = 1
  FlushOnRotate = FALSE
  TornTailIsEOF = FALSE
  EncodeCuts = {}
INVARIANTS TypeOK PrefixThenEnd MarkerSound Export
ACTION_CONSTRAINT Edge
VIEW View
CHECK_DEADLOCK FALSE
