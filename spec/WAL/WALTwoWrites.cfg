\* quick tier, for runs by hand: WALEncoder.Encode hands the 8-byte header and the payload to the
\* group in TWO Group.Write calls (EncodeCuts = {6}: a call ends after cell 6, the last byte of the
\* length field); the group can rotate between the two. Add MarkerComplete to INVARIANTS to see
\* TLC's counterexample (open, write, rotate between the calls, more, ..., close: an undamaged log
\* whose newest file starts with a payload).
SPECIFICATION Spec
CONSTANTS
  NRecs = 3
  MaxFiles = 3
  SplitCells = {2, 5, 8}
  MaxRestarts = 1
  FlushOnRotate = TRUE
  TornTailIsEOF = TRUE
  EncodeCuts = {6}
INVARIANTS TypeOK PrefixThenEnd MarkerSound Export
ACTION_CONSTRAINT Edge
VIEW View
CHECK_DEADLOCK FALSE
