\* quick tier, "as designed": RotateFile flushes headBuf, a record cut short by the end of the
\* group ends the search of that file. The harness derives the configuration it runs from this
\* file: it sets the two switches and EncodeCuts to what it probed on the code and drops
\* MarkerComplete when a switch is FALSE or EncodeCuts is not empty (the model then violates it: see
\* WALCoded.cfg, WALTwoWrites.cfg / the "lead" runs).
SPECIFICATION Spec
CONSTANTS
  NRecs = 3
  MaxFiles = 3
  SplitCells = {2, 5, 8}
  MaxRestarts = 1
  FlushOnRotate = TRUE
  TornTailIsEOF = TRUE
  EncodeCuts = {}
INVARIANTS TypeOK PrefixThenEnd MarkerSound MarkerComplete Export
ACTION_CONSTRAINT Edge
VIEW View
CHECK_DEADLOCK FALSE
