\* thorough tier: every cell at which the head buffer can run full (switches and invariants are set by the harness, see WAL.cfg)
SPECIFICATION Spec
CONSTANTS
  NRecs = 3
  MaxFiles = 3
  SplitCells = {1, 2, 3, 4, 5, 6, 7, 8}
  MaxRestarts = 1
  FlushOnRotate = TRUE
  TornTailIsEOF = TRUE
  EncodeCuts = {}
INVARIANTS TypeOK PrefixThenEnd MarkerSound MarkerComplete Export
ACTION_CONSTRAINT Edge
VIEW View
CHECK_DEADLOCK FALSE
