\* thorough tier: logs of four records (switches and invariants are set by the harness, see WAL.cfg)
SPECIFICATION Spec
CONSTANTS
  NRecs = 4
  MaxFiles = 3
  SplitCells = {2, 5, 8}
  MaxRestarts = 1
  FlushOnRotate = TRUE
  TornTailIsEOF = TRUE
  EncodeCuts = {}
INVARIANTS TypeOK PrefixThenEnd MarkerSound MarkerComplete Export
ACTION_CONSTRAINT Edge
VIEW View
CHECK_DEADLOCK FALSE
