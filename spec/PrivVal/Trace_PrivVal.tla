--------------------------- MODULE Trace_PrivVal ---------------------------
(***************************************************************************)
(* Trace validation for PrivVal: events recorded from the real             *)
(* types.FilePV (one per crash point passed, per return of SignVote /      *)
(* SignProposal, per simulated crash, per LoadFilePV, per UpdatePrikey)    *)
(* are matched one to one with the actions of PrivVal; every event carries *)
(* what the harness observed (the decoded key file, the Last* fields of    *)
(* the object, result / timestamp / signer of the signature in the         *)
(* caller's struct, the number of payloads released so far), and the       *)
(* matched step must produce exactly these values.                         *)
(* Values are abstracted order-preservingly by the harness (index into the *)
(* ascending pools of the run).  "reset" starts a new validator, so many   *)
(* runs are validated in one TLC run; acceptance = every line consumed.    *)
(***************************************************************************)
EXTENDS PrivVal

TraceLog == TLCEval(ndJsonDeserialize("trace.ndjson"))

VARIABLE l
tvars == <<vars, l>>

Ev == TraceLog[l]
R(a) == [h |-> a[1], r |-> a[2], s |-> a[3], b |-> a[4], t |-> a[5]]

TraceInit == Init /\ l = 1

ResetStep == /\ up' = TRUE /\ key' = FileKey /\ mem' = NoRec
             /\ disk' = File(FileKey, NoRec) /\ tmp' = NoFile /\ pc' = "idle" /\ req' = NoReq
             /\ released' = {} /\ n' = 0 /\ last' = [op |-> "init"]

\* what every event reports about the durable record and the released payloads
Obs   == F(disk') = Ev.disk /\ Cardinality(released') = Ev.nrel
\* at a crash point: also the object, and no signature in the caller's struct yet
ObsPt == Obs /\ T(mem') = Ev.mem /\ ~Ev.sig /\ req' = R(Ev.p)

Step ==
  /\ l <= Len(TraceLog) /\ l' = l + 1
  /\ \/ Ev.e = "reset" /\ ResetStep
     \/ Ev.e = "pt" /\ Ev.name = "pv:signed"        /\ Begin(R(Ev.p)) /\ ObsPt
     \/ Ev.e = "pt" /\ Ev.name = "wfa:before-temp"  /\ MemSet   /\ ObsPt
     \/ Ev.e = "pt" /\ Ev.name = "wfa:temp-written" /\ TmpWrite /\ ObsPt
                    /\ Ev.ntmp = 1 /\ F(tmp') = Ev.tmp
     \/ Ev.e = "pt" /\ Ev.name = "pv:saved"         /\ Rename   /\ ObsPt
     \* a call that passed no crash point: refused, or answered with the stored signature
     \/ Ev.e = "ret" /\ Ev.pts = 0 /\ ~Ev.ok /\ Refuse(R(Ev.p))
                     /\ Ev.k = 0 /\ Ev.rt = Ev.p[5] /\ Obs /\ T(mem') = Ev.mem
     \/ Ev.e = "ret" /\ Ev.pts = 0 /\ Ev.ok /\ Replay(R(Ev.p))
                     /\ last'.t = Ev.t /\ last'.t = Ev.rt /\ last'.k = Ev.k /\ Obs /\ T(mem') = Ev.mem
     \* the return of a fresh signing call: the signature reaches the caller
     \/ Ev.e = "ret" /\ Ev.pts = 4 /\ Ev.ok /\ req = R(Ev.p) /\ Release
                     /\ last'.k = Ev.k /\ Ev.t = Ev.p[5] /\ Ev.rt = Ev.p[5] /\ Obs /\ T(mem') = Ev.mem
     \/ Ev.e = "crash"  /\ Crash /\ last'.at = Ev.at /\ ~Ev.sig /\ Obs
     \/ Ev.e = "reload" /\ Reload /\ T(mem') = Ev.mem /\ key' = Ev.key /\ Obs
     \/ Ev.e = "updatekey" /\ UpdateKey(Ev.k) /\ Obs

TraceSpec == TraceInit /\ [][Step]_tvars

\* high-water mark of consumed lines (-workers 1)
Consumed == TLCSet(1, IF TLCGet(1) < l THEN l ELSE TLCGet(1))
Accepted == TLCGet(1) = Len(TraceLog) + 1
ASSUME TLCSet(1, 0)
=============================================================================
