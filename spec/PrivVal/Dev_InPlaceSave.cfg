\* named deviation: the key file is rewritten in place -- TLC must report DurableBeforeRelease
SPECIFICATION Spec
CONSTANTS
  Heights = {1}
  Rounds = {0, 1}
  Blocks = {1}
  Times = {1}
  Keys = {1}
  FileKey = 1
  MaxSigned = 2
  WithoutSave = FALSE
  InPlaceSave = TRUE
INVARIANTS DurableBeforeRelease
VIEW View
CHECK_DEADLOCK FALSE
