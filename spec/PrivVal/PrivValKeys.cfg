\* the outer key is swapped by UpdatePrikey (two keys), smaller payload space; exported
SPECIFICATION Spec
CONSTANTS
  Heights = {1}
  Rounds = {0, 1}
  Blocks = {1, 2}
  Times = {1}
  Keys = {1, 2}
  FileKey = 1
  MaxSigned = 2
  WithoutSave = FALSE
  InPlaceSave = FALSE
INVARIANTS TypeOK AtMostOnePayloadPerHRS DurableBeforeRelease FileKeyUnchanged MemMatchesDisk
PROPERTIES NoRegression PersistFirst DiskMonotone
ACTION_CONSTRAINT Edge
VIEW View
CHECK_DEADLOCK FALSE
