\* thorough: three fresh signing calls per behaviour, one timestamp; exhaustive, exported (about 1.4e5 edges)
SPECIFICATION Spec
CONSTANTS
  Heights = {1, 2}
  Rounds = {0, 1}
  Blocks = {1, 2}
  Times = {1}
  Keys = {1}
  FileKey = 1
  MaxSigned = 3
  WithoutSave = FALSE
  InPlaceSave = FALSE
INVARIANTS TypeOK AtMostOnePayloadPerHRS DurableBeforeRelease FileKeyUnchanged MemMatchesDisk
PROPERTIES NoRegression PersistFirst DiskMonotone
ACTION_CONSTRAINT Edge
VIEW View
CHECK_DEADLOCK FALSE
