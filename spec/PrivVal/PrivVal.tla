------------------------------ MODULE PrivVal ------------------------------
(***************************************************************************)
(* The double-sign protection of types.FilePV (types/priv_validator.go)    *)
(* together with the durable write it relies on (libs/common/os.go         *)
(* WriteFileAtomic), including process crashes at every step of a signing  *)
(* call and the reload of the key file (LoadFilePV).                       *)
(*                                                                         *)
(* A payload is what SignVote / SignProposal are asked to sign:            *)
(*   h, r    height and round                                              *)
(*   s       step: 1 = proposal (SignProposal), 2 = prevote, 3 = precommit *)
(*           (SignVote; voteToStep)                                        *)
(*   b       everything else that enters the sign-bytes except the time    *)
(*           (block id / parts header / POL round / POL block id / chain)  *)
(*   t       the timestamp                                                 *)
(* The harness instantiates h, r, b, t with several tables of concrete     *)
(* values (boundary heights and rounds, block ids that differ in a single  *)
(* field, the nil block id, timestamps one millisecond apart).             *)
(*                                                                         *)
(* The FilePV object is an outer object (whose PrivKey signs and can be    *)
(* swapped by UpdatePrikey) plus an inner copy pv.pv that keeps the key    *)
(* the file was loaded with; the inner copy is what is saved.  Last* of    *)
(* both are written together (saveSigned), so one record `mem` stands for  *)
(* them; `key` is the outer key, FileKey the inner one.                    *)
(*                                                                         *)
(* A fresh signing call is split at the code's steps (the names in quotes  *)
(* are the crash points of the verif build, cmn.VerifPoint):               *)
(*   Begin     checkHRS passed, PrivKey.Sign done          "pv:signed"     *)
(*   MemSet    saveSigned assigned Last* (outer and inner) "wfa:before-temp"*)
(*   TmpWrite  WriteFileAtomic wrote and closed the temp   "wfa:temp-written"*)
(*   Rename    os.Rename(temp, key file); save returned    "pv:saved"      *)
(*   Release   vote.Signature = sig ; return nil                           *)
(* A refused request and a same-HRS replay have no side effect on the      *)
(* object or the file and are single steps.                                *)
(* Crash is enabled in every state (it loses the object and the result of  *)
(* the call in progress, keeps the directory as it is); Reload is          *)
(* LoadFilePV on the directory.                                            *)
(*                                                                         *)
(* Named deviations (constant switches, FALSE in the checked configs; the  *)
(* Dev_*.cfg files switch one on and TLC reports the broken invariant):    *)
(*   WithoutSave  FilePV.SignVoteWithoutSave: signs without recording      *)
(*                (no non-test caller in the tree; the harness watches it) *)
(*   InPlaceSave  the file is overwritten in place instead of temp+rename  *)
(***************************************************************************)
EXTENDS Integers, Sequences, FiniteSets, TLC, Json

CONSTANTS Heights,      \* abstract heights, positive naturals
          Rounds,       \* abstract rounds, naturals
          Blocks,       \* abstract "rest of the payload", positive naturals
          Times,        \* abstract timestamps, positive naturals
          Keys,         \* abstract private keys; FileKey \in Keys
          FileKey,      \* the key stored in the key file
          MaxSigned,    \* bound: fresh signing calls started per behaviour
          WithoutSave,  \* deviation switch
          InPlaceSave   \* deviation switch

Steps == 1..3
Payload == [h : Heights, r : Rounds, s : Steps, b : Blocks, t : Times]

\* Last* record: the payload signed last and the key that produced LastSignature.
\* NoRec is the record of a generated key: LastHeight 0, LastRound 0, stepNone, no sign-bytes.
NoRec == [h |-> 0, r |-> 0, s |-> 0, b |-> 0, t |-> 0, k |-> 0]
Rec(p, k) == [h |-> p.h, r |-> p.r, s |-> p.s, b |-> p.b, t |-> p.t, k |-> k]
PayloadOf(m) == [h |-> m.h, r |-> m.r, s |-> m.s, b |-> m.b, t |-> m.t]
Records == {NoRec} \cup {Rec(p, k) : p \in Payload, k \in Keys}

\* file contents: the key and the record; NoFile = no such file; Torn = an interrupted in-place write
File(k, m) == [key |-> k, rec |-> m]
NoFile == [key |-> 0, rec |-> NoRec]
Torn   == [key |-> -1, rec |-> NoRec]

NoReq == [h |-> 0, r |-> 0, s |-> 0, b |-> 0, t |-> 0]

VARIABLES up,        \* the process runs and holds a FilePV object
          key,       \* outer PrivKey (0 while down)
          mem,       \* Last* of the object (NoRec while down)
          disk,      \* the key file
          tmp,       \* the temp file of the write in progress / left over by a crash
          pc,        \* "idle" | "signed" | "memset" | "tmp" | "renamed"
          req,       \* the payload of the call in progress (NoReq when idle)
          released,  \* records whose signature was stored in a caller's vote / proposal
          n,         \* fresh signing calls started so far (bound only)
          last       \* label of the last step (output; hidden by the VIEW)
vars == <<up, key, mem, disk, tmp, pc, req, released, n, last>>

HRS(x) == <<x.h, x.r, x.s>>
\* lexicographic order on (height, round, step)
Below(x, y) == \/ x.h < y.h
               \/ x.h = y.h /\ x.r < y.r
               \/ x.h = y.h /\ x.r = y.r /\ x.s < y.s
AtOrBelow(x, y) == Below(x, y) \/ HRS(x) = HRS(y)

TypeOK == /\ up \in BOOLEAN
          /\ key \in Keys \cup {0}
          /\ mem \in Records
          /\ disk \in {File(FileKey, m) : m \in Records} \cup {Torn}
          /\ tmp \in {File(FileKey, m) : m \in Records} \cup {NoFile}
          /\ pc \in {"idle", "signed", "memset", "tmp", "renamed"}
          /\ req \in Payload \cup {NoReq}
          /\ released \subseteq Records
          /\ n \in 0..MaxSigned

Init == /\ up = TRUE /\ key = FileKey /\ mem = NoRec
        /\ disk = File(FileKey, NoRec)      \* GenFilePV + Save, as LoadOrGenFilePV does
        /\ tmp = NoFile /\ pc = "idle" /\ req = NoReq
        /\ released = {} /\ n = 0
        /\ last = [op |-> "init"]

(* ---- FilePV.checkHRS, clause by clause -------------------------------- *)
CheckHRS(m, p) ==
  IF m.h > p.h THEN "height"
  ELSE IF m.h = p.h /\ m.r > p.r THEN "round"
  ELSE IF m.h = p.h /\ m.r = p.r /\ m.s > p.s THEN "step"
  ELSE IF m.h = p.h /\ m.r = p.r /\ m.s = p.s
       THEN (IF m.b # 0 THEN "same" ELSE "nosig")   \* "nosig" needs a step-0 request: unreachable
  ELSE "fresh"

\* checkVotesOnlyDifferByTimestamp / checkProposalsOnlyDifferByTimestamp
OnlyTimeDiffers(m, p) == m.h = p.h /\ m.r = p.r /\ m.s = p.s /\ m.b = p.b /\ m.t # p.t

Idle == up /\ pc = "idle"

(* ---- SignVote / SignProposal: the single-step outcomes ----------------- *)
\* regression or conflicting payload at the same HRS: an error, nothing changes
Refuse(p) ==
  /\ Idle
  /\ LET c == CheckHRS(mem, p) IN
       /\ \/ c \in {"height", "round", "step", "nosig"}
          \/ c = "same" /\ PayloadOf(mem) # p /\ ~OnlyTimeDiffers(mem, p)
       /\ last' = [op |-> "sign", p |-> p, res |-> "refused",
                   why |-> IF c = "same" THEN "conflict" ELSE c]
  /\ UNCHANGED <<up, key, mem, disk, tmp, pc, req, released, n>>

\* same HRS, same payload up to the timestamp: LastSignature (and the original
\* timestamp) are stored in the caller's struct; no new signature is made
Replay(p) ==
  /\ Idle
  /\ CheckHRS(mem, p) = "same"
  /\ PayloadOf(mem) = p \/ OnlyTimeDiffers(mem, p)
  /\ released' = released \cup {mem}
  /\ last' = [op |-> "sign", p |-> p, res |-> "replay", t |-> mem.t, k |-> mem.k]
  /\ UNCHANGED <<up, key, mem, disk, tmp, pc, req, n>>

(* ---- a fresh signing call, step by step -------------------------------- *)
Begin(p) ==
  /\ Idle /\ n < MaxSigned
  /\ CheckHRS(mem, p) = "fresh"
  /\ pc' = "signed" /\ req' = p /\ n' = n + 1
  /\ last' = [op |-> "begin", p |-> p]
  /\ UNCHANGED <<up, key, mem, disk, tmp, released>>

MemSet ==
  /\ up /\ pc = "signed"
  /\ mem' = Rec(req, key)
  /\ pc' = "memset"
  /\ last' = [op |-> "memset"]
  /\ UNCHANGED <<up, key, disk, tmp, req, released, n>>

\* pv.pv.save(): the inner copy (FileKey, not the outer key) is marshalled and written
TmpWrite ==
  /\ up /\ pc = "memset" /\ ~InPlaceSave
  /\ tmp' = File(FileKey, mem)
  /\ pc' = "tmp"
  /\ last' = [op |-> "tmpwrite"]
  /\ UNCHANGED <<up, key, mem, disk, req, released, n>>

Rename ==
  /\ up /\ pc = "tmp"
  /\ disk' = tmp /\ tmp' = NoFile
  /\ pc' = "renamed"
  /\ last' = [op |-> "rename"]
  /\ UNCHANGED <<up, key, mem, req, released, n>>

Release ==
  /\ up /\ pc = "renamed"
  /\ released' = released \cup {mem}
  /\ pc' = "idle" /\ req' = NoReq
  /\ last' = [op |-> "release", p |-> req, k |-> mem.k]
  /\ UNCHANGED <<up, key, mem, disk, tmp, n>>

(* ---- UpdatePrikey, crash, reload --------------------------------------- *)
UpdateKey(k) ==
  /\ Idle /\ k # key
  /\ key' = k
  /\ last' = [op |-> "updatekey", k |-> k]
  /\ UNCHANGED <<up, mem, disk, tmp, pc, req, released, n>>

\* the process dies: the object and the call in progress are lost, the directory stays
Crash ==
  /\ up
  /\ up' = FALSE /\ key' = 0 /\ mem' = NoRec /\ pc' = "idle" /\ req' = NoReq
  /\ last' = [op |-> "crash", at |-> pc]
  /\ UNCHANGED <<disk, tmp, released, n>>

\* LoadFilePV: reads the key file only; a left-over temp file is never looked at again
Reload ==
  /\ ~up /\ disk # Torn
  /\ up' = TRUE /\ key' = disk.key /\ mem' = disk.rec
  /\ tmp' = NoFile
  /\ last' = [op |-> "reload"]
  /\ UNCHANGED <<disk, pc, req, released, n>>

(* ---- named deviations --------------------------------------------------- *)
\* FilePV.SignVoteWithoutSave(vote): same checks, signs, records nothing
SignVoteWithoutSave(p) ==
  /\ WithoutSave /\ Idle /\ n < MaxSigned /\ p.s \in {2, 3}
  /\ CheckHRS(mem, p) = "fresh"
  /\ released' = released \cup {Rec(p, key)}
  /\ n' = n + 1
  /\ last' = [op |-> "nosave", p |-> p]
  /\ UNCHANGED <<up, key, mem, disk, tmp, pc, req>>

\* a save that truncates and rewrites the key file in place
TruncateInPlace ==
  /\ InPlaceSave /\ up /\ pc = "memset"
  /\ disk' = Torn /\ pc' = "tmp"
  /\ last' = [op |-> "truncate"]
  /\ UNCHANGED <<up, key, mem, tmp, req, released, n>>
WriteInPlace ==
  /\ InPlaceSave /\ up /\ pc = "tmp" /\ disk = Torn
  /\ disk' = File(FileKey, mem) /\ pc' = "renamed"
  /\ last' = [op |-> "writeinplace"]
  /\ UNCHANGED <<up, key, mem, tmp, req, released, n>>

Next == \/ \E p \in Payload : Refuse(p) \/ Replay(p) \/ Begin(p) \/ SignVoteWithoutSave(p)
        \/ MemSet \/ TmpWrite \/ (Rename /\ ~InPlaceSave) \/ Release
        \/ TruncateInPlace \/ WriteInPlace
        \/ \E k \in Keys : UpdateKey(k)
        \/ Crash \/ Reload

Spec == Init /\ [][Next]_vars

(* ---- the property -------------------------------------------------------- *)
\* at most one distinct signed payload per (height, round, step), over the whole behaviour
AtMostOnePayloadPerHRS == \A x, y \in released : HRS(x) = HRS(y) => x = y

\* whatever was released is covered by the durable record: the file records an HRS at or
\* above it, and at the same HRS exactly that payload and signature
DurableBeforeRelease ==
  \A x \in released : /\ disk # Torn
                      /\ AtOrBelow(x, disk.rec)
                      /\ HRS(x) = HRS(disk.rec) => x = disk.rec

\* a newly released payload is never below (nor beside) an earlier released one
NoRegression ==
  [][\A x \in released' \ released : \A y \in released : Below(y, x)]_vars

\* the signature reaches the caller only after the record that covers it is in the file
PersistFirst ==
  [][\A x \in released' \ released : disk.rec = x]_vars

\* the durable HRS never decreases, and at an unchanged HRS the record does not change
DiskMonotone ==
  [][disk' # disk => (disk' # Torn /\ disk # Torn /\ Below(disk.rec, disk'.rec))]_vars

\* signing never replaces the key stored in the file (the inner copy is what is saved)
FileKeyUnchanged == disk = Torn \/ disk.key = FileKey

\* between calls the object and the file agree
MemMatchesDisk == (up /\ pc = "idle") => mem = disk.rec

(* ---- export for the replay harness --------------------------------------- *)
T(m) == <<m.h, m.r, m.s, m.b, m.t, m.k>>
P(p) == <<p.h, p.r, p.s, p.b, p.t>>
F(f) == <<f.key>> \o T(f.rec)
Proj(u, ky, m, d, tm, c, rq, rel, cnt) ==
  [up |-> u, key |-> ky, mem |-> T(m), disk |-> F(d), tmp |-> F(tm), pc |-> c, req |-> P(rq),
   rel |-> {T(x) : x \in rel}, n |-> cnt]
Edge == PrintT(ToJson([from |-> Proj(up, key, mem, disk, tmp, pc, req, released, n),
                       act  |-> last',
                       to   |-> Proj(up', key', mem', disk', tmp', pc', req', released', n')]))
View == <<up, key, mem, disk, tmp, pc, req, released, n>>
=============================================================================
