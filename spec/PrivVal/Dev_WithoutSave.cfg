\* named deviation: SignVoteWithoutSave enabled -- TLC must report AtMostOnePayloadPerHRS
SPECIFICATION Spec
CONSTANTS
  Heights = {1}
  Rounds = {0}
  Blocks = {1, 2}
  Times = {1}
  Keys = {1}
  FileKey = 1
  MaxSigned = 2
  WithoutSave = TRUE
  InPlaceSave = FALSE
INVARIANTS AtMostOnePayloadPerHRS
VIEW View
CHECK_DEADLOCK FALSE
