\* not run by the check (about 2.2e7 transitions, 1.8e6 states, 2 min on 4 idle cores): the product of PrivValBig and PrivValBigKeys, for manual runs
SPECIFICATION Spec
CONSTANTS
  Heights = {1, 2}
  Rounds = {0, 1}
  Blocks = {1, 2}
  Times = {1, 2}
  Keys = {1, 2}
  FileKey = 1
  MaxSigned = 3
  WithoutSave = FALSE
  InPlaceSave = FALSE
INVARIANTS TypeOK AtMostOnePayloadPerHRS DurableBeforeRelease FileKeyUnchanged MemMatchesDisk
PROPERTIES NoRegression PersistFirst DiskMonotone
VIEW View
CHECK_DEADLOCK FALSE
