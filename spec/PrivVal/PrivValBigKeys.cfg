\* thorough: three fresh signing calls, two keys (UpdatePrikey), one timestamp; checked exhaustively, not exported (about 1.7e6 transitions)
SPECIFICATION Spec
CONSTANTS
  Heights = {1, 2}
  Rounds = {0, 1}
  Blocks = {1, 2}
  Times = {1}
  Keys = {1, 2}
  FileKey = 1
  MaxSigned = 3
  WithoutSave = FALSE
  InPlaceSave = FALSE
INVARIANTS TypeOK AtMostOnePayloadPerHRS DurableBeforeRelease FileKeyUnchanged MemMatchesDisk
PROPERTIES NoRegression PersistFirst DiskMonotone
VIEW View
CHECK_DEADLOCK FALSE
