\* quick: heights x rounds x steps x blocks, one timestamp; exhaustive, every transition exported (about 1.7e4 edges)
SPECIFICATION Spec
CONSTANTS
  Heights = {1, 2}
  Rounds = {0, 1}
  Blocks = {1, 2}
  Times = {1}
  Keys = {1}
  FileKey = 1
  MaxSigned = 2
  WithoutSave = FALSE
  InPlaceSave = FALSE
INVARIANTS TypeOK AtMostOnePayloadPerHRS DurableBeforeRelease FileKeyUnchanged MemMatchesDisk
PROPERTIES NoRegression PersistFirst DiskMonotone
ACTION_CONSTRAINT Edge
VIEW View
CHECK_DEADLOCK FALSE
