SPECIFICATION Spec
CONSTANTS
  Hon = {"T", "H"}
  AttEph = {"eM", "eN"}
  OldSess = {{"T", "H"}}
INVARIANTS TypeOK Authenticated Agreement EstOnlyOk PeerIdentity
ACTION_CONSTRAINT Edge
VIEW View
CHECK_DEADLOCK FALSE
