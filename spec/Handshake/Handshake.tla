----------------------------- MODULE Handshake ------------------------------
(***************************************************************************)
(* The station-to-station handshake of libs/p2p/conn.MakeSecretConnection  *)
(* run by honest parties over a network that an active attacker controls.  *)
(*                                                                         *)
(* MakeSecretConnection(conn, locPrivKey), for an honest party X:          *)
(*   1. genEphKeys; shareEphPubKey: write E[X], read an ephemeral key r    *)
(*      (both in parallel; what X writes does not depend on what it reads) *)
(*   2. challenge = hash32(lo || hi) of the SORTED pair (E[X], r)          *)
(*      -> an unordered pair: modelled as the set {E[X], r}                *)
(*   3. shareAuthSignature: write [Key = X, Sig = sign_X(challenge)],      *)
(*      read an authSigMessage [Key = P, Sig = S]                          *)
(*   4. `if remPubKey == nil` -> error;                                    *)
(*      `if !remPubKey.VerifyBytes(challenge, remSignature)` -> error;     *)
(*      otherwise the connection is established and RemotePubKey() = P.    *)
(*   5. libs/p2p (Switch.addPeer, handshake.go): over the established      *)
(*      connection the two sides exchange NodeInfo; the peer is registered *)
(*      under the public key Q its NodeInfo presents (NodeInfo.PubKey, from *)
(*      which the peer id is derived).  The peer has proved possession of  *)
(*      P only, so Q must be P; a NodeInfo presenting our own key is       *)
(*      refused ("connect to self").                                       *)
(* (The compiled-in frame mode compresses, it does not encrypt: the        *)
(* attacker reads and writes every message.)                               *)
(*                                                                         *)
(* Symbolic cryptography: a signature is the record [k, c] of the signing  *)
(* key and the signed challenge; it verifies under key P for challenge c   *)
(* iff k = P and the challenges are equal.  The attacker owns the key "M"  *)
(* and ephemeral keys, sees everything the honest parties write, and may   *)
(* deliver to every party any ephemeral key and any authSigMessage it can  *)
(* build: any public key (or none) together with a signature it has seen,  *)
(* a signature by its own key over any challenge, or garbage; it may also  *)
(* deliver malformed bytes or cut the connection.  It cannot produce a     *)
(* signature of an honest key it has not seen.  It has recorded earlier    *)
(* sessions between honest parties (OldSess) and can replay their          *)
(* ephemeral keys and authSigMessages.                                     *)
(***************************************************************************)
EXTENDS Integers, Sequences, FiniteSets, TLC, Json

CONSTANTS Hon,      \* honest parties (each runs MakeSecretConnection once); their names are their public keys
          AttEph,   \* ephemeral keys owned by the attacker
          OldSess   \* sets {x, y} of two honest parties whose earlier, completed session the attacker recorded

Att      == "M"                          \* the attacker's long-term key
NilKey   == "nil"                        \* no key (nil interface in authSigMessage.Key)
E        == [x \in Hon |-> "e" \o x]     \* the ephemeral key party x generates
Peer(x, s) == CHOOSE y \in s : y # x
OldE(x, s) == "o" \o x \o Peer(x, s)      \* the ephemeral key x used in its recorded session s
OldChal(s) == {OldE(x, s) : x \in s}
OldEph   == UNION {OldChal(s) : s \in OldSess}
EphNames == {E[x] : x \in Hon} \cup AttEph \cup OldEph
Keys     == Hon \cup {Att, NilKey}
NoEph    == "none"
Garbage  == [k |-> "garbage", c |-> {}]  \* bytes that are no valid signature of anything

VARIABLES pc,    \* pc[x]: "eph" (waiting for the remote ephemeral key), "auth" (waiting for the authSigMessage),
                 \*        "ok" (connection established, waiting for NodeInfo), "fail" (handshake error),
                 \*        "peer" (peer registered), "refused" (NodeInfo refused, connection dropped)
          rem,   \* rem[x]: the ephemeral key x received
          est,   \* est[x]: RemotePubKey() of the established connection
          ident, \* ident[x]: the public key under which x registered its peer
          seen,  \* signatures written by honest parties so far (known to the attacker)
          last   \* label of the last action (output only; hidden by the VIEW)
vars == <<pc, rem, est, ident, seen, last>>

Chal(x)       == {E[x], rem[x]}
Sig(k, c)     == [k |-> k, c |-> c]
Verify(p, c, s) == s.k = p /\ s.c = c
\* signatures the attacker can make itself: its own key over any challenge built from known ephemeral keys
OwnSigs  == {Sig(Att, {a, b}) : a \in EphNames, b \in EphNames}

\* what the attacker recorded: both authSigMessages of every old session
OldSigs  == UNION {{Sig(x, OldChal(s)) : x \in s} : s \in OldSess}

Init == /\ pc = [x \in Hon |-> "eph"]
        /\ rem = [x \in Hon |-> NoEph]
        /\ est = [x \in Hon |-> NilKey]
        /\ ident = [x \in Hon |-> NilKey]
        /\ seen = OldSigs
        /\ last = [op |-> "init"]

\* x reads the ephemeral key r, derives the challenge, signs it and writes its authSigMessage
DeliverEph(x, r) ==
  /\ pc[x] = "eph"
  /\ rem' = [rem EXCEPT ![x] = r]
  /\ pc' = [pc EXCEPT ![x] = "auth"]
  /\ seen' = seen \cup {Sig(x, {E[x], r})}
  /\ UNCHANGED <<est, ident>>
  /\ last' = [op |-> "eph", x |-> x, r |-> r, res |-> "continue"]

\* x reads the authSigMessage [p, s]
DeliverAuth(x, p, s) ==
  /\ pc[x] = "auth"
  /\ IF p # NilKey /\ Verify(p, Chal(x), s)
     THEN /\ pc' = [pc EXCEPT ![x] = "ok"] /\ est' = [est EXCEPT ![x] = p]
          /\ last' = [op |-> "auth", x |-> x, key |-> p, sk |-> s.k, sc |-> s.c, res |-> "ok"]
     ELSE /\ pc' = [pc EXCEPT ![x] = "fail"] /\ UNCHANGED est
          /\ last' = [op |-> "auth", x |-> x, key |-> p, sk |-> s.k, sc |-> s.c, res |-> "fail"]
  /\ UNCHANGED <<rem, seen, ident>>

\* x reads a NodeInfo presenting the public key q (the frames are not encrypted: whoever sits on
\* the connection chooses q, also when the authenticated peer is honest)
DeliverNodeInfo(x, q) ==
  /\ pc[x] = "ok"
  /\ IF q = est[x] /\ q # x
     THEN /\ pc' = [pc EXCEPT ![x] = "peer"] /\ ident' = [ident EXCEPT ![x] = q]
          /\ last' = [op |-> "nodeinfo", x |-> x, key |-> q, res |-> "peer"]
     ELSE /\ pc' = [pc EXCEPT ![x] = "refused"] /\ UNCHANGED ident
          /\ last' = [op |-> "nodeinfo", x |-> x, key |-> q, res |-> "refused"]
  /\ UNCHANGED <<rem, est, seen>>

\* malformed bytes instead of the expected message, or the connection is cut
Break(x) ==
  /\ pc[x] \in {"eph", "auth"}
  /\ pc' = [pc EXCEPT ![x] = "fail"]
  /\ UNCHANGED <<rem, est, ident, seen>>
  /\ last' = [op |-> "break", x |-> x, at |-> pc[x], res |-> "fail"]

Next == \E x \in Hon :
          \/ \E r \in EphNames : DeliverEph(x, r)
          \/ \E p \in Keys, s \in seen \cup OwnSigs \cup {Garbage} : DeliverAuth(x, p, s)
          \/ \E q \in Keys \ {NilKey} : DeliverNodeInfo(x, q)
          \/ Break(x)

Spec == Init /\ [][Next]_vars

(* ---- what TLC checks on the model ------------------------------------- *)
TypeOK == /\ pc \in [Hon -> {"eph", "auth", "ok", "fail", "peer", "refused"}]
          /\ rem \in [Hon -> EphNames \cup {NoEph}]
          /\ est \in [Hon -> Keys]
          /\ ident \in [Hon -> Keys]

\* signatures that exist: those honest parties made (each only over its own session's challenge)
\* and whatever the attacker signs with its own key
Exists == seen \cup OwnSigs

\* a connection is established only with a key whose owner signed the challenge derived from
\* THESE two ephemeral keys
Established(x) == pc[x] \in {"ok", "peer", "refused"}
Authenticated ==
  \A x \in Hon : Established(x) => est[x] # NilKey /\ Sig(est[x], Chal(x)) \in Exists

\* consequently: established with an honest key y # x means y ran a session with exactly the
\* same pair of ephemeral keys (nobody sits between them with keys of its own)
Agreement ==
  \A x \in Hon : Established(x) /\ est[x] \in Hon \ {x} =>
     LET y == est[x] IN pc[y] # "eph" /\ rem[y] = E[x] /\ rem[x] = E[y]

\* RemotePubKey() is set exactly when the handshake succeeds
EstOnlyOk == \A x \in Hon : est[x] # NilKey <=> Established(x)

\* a peer is registered only under the key whose possession it proved, and never under our own key
PeerIdentity ==
  \A x \in Hon :
     /\ (ident[x] # NilKey) <=> (pc[x] = "peer")
     /\ (pc[x] = "peer") => (ident[x] = est[x] /\ ident[x] # x)

(* ---- export for the replay harness ------------------------------------ *)
St(p, r, e, i, s) == [pc |-> p, rem |-> r, est |-> e, ident |-> i, seen |-> s]
Edge == PrintT(ToJson([from |-> St(pc, rem, est, ident, seen), act |-> last', to |-> St(pc', rem', est', ident', seen')]))
View == <<pc, rem, est, ident, seen>>
=============================================================================
