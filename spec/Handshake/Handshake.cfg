SPECIFICATION Spec
CONSTANTS
  Hon = {"T", "H"}
  AttEph = {"eM"}
  OldSess = {}
INVARIANTS TypeOK Authenticated Agreement EstOnlyOk PeerIdentity
ACTION_CONSTRAINT Edge
VIEW View
CHECK_DEADLOCK FALSE
