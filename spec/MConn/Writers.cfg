SPECIFICATION Spec
CONSTANTS
  Chans = {1}
  MsgPkts = {1, 2}
  MaxMsgs = 2
  PL = 2
  BufCap = 4
  MaxPings = 2
  OwnPings = 0
  MaxHolds = 1
  KCl = {"none", "one", "most"}
  PongBy = "send"
INVARIANTS TypeOK WireWhole InOrderWhole NoTeardown NoLoss SingleWriter
ACTION_CONSTRAINT Edge
VIEW View
CHECK_DEADLOCK FALSE
