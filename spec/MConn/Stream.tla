------------------------------- MODULE Stream -------------------------------
(***************************************************************************)
(* One direction of libs/p2p/conn.SecretConnection after the handshake:    *)
(* Write cuts its argument into frames of at most F = dataMaxSize bytes    *)
(* and hands every frame to the underlying connection; the underlying      *)
(* connection is a FIFO of frames; Read returns what is left of the last   *)
(* frame (recvBuffer) or, when nothing is left, takes the next frame off   *)
(* the connection, copies as much as fits into the caller's buffer and     *)
(* keeps the remainder in recvBuffer.                                      *)
(*                                                                         *)
(* Bytes are represented by their offset in the stream of everything ever  *)
(* written (the harness gives byte i a content that depends on i), so a    *)
(* piece of data is an interval <<lo, hi>> = offsets lo .. hi-1.  This     *)
(* keeps the state small for the real frame size: the model is run with    *)
(* F = 32768 and with write / read sizes around the frame boundaries.      *)
(*                                                                         *)
(*   Write(n) = SecretConnection.Write(data), len(data) = n                *)
(*              (the `for 0 < len(data)` loop = Chunk)                     *)
(*   Read(k)  = SecretConnection.Read(buf),   len(buf)  = k ; the action   *)
(*              label carries the number of bytes returned and the         *)
(*              interval they must come from.  Read blocks (is disabled)   *)
(*              while neither recvBuffer nor the connection has data.      *)
(***************************************************************************)
EXTENDS Integers, Sequences, TLC, Json

CONSTANTS F,       \* dataMaxSize of the code (32768)
          WSizes,  \* argument lengths of Write
          RSizes,  \* buffer lengths of Read
          MaxW,    \* number of Write calls in a behaviour
          MaxR     \* number of Read calls in a behaviour

VARIABLES sent,  \* bytes accepted by Write so far
          wire,  \* frames written to the underlying connection and not yet read
          rbuf,  \* recvBuffer: unread remainder of the frame read last
          rcvd,  \* bytes returned by Read so far
          nw, nr,
          last   \* label of the last action (output only; hidden by the VIEW)
vars == <<sent, wire, rbuf, rcvd, nw, nr, last>>

Iv(lo, hi)  == <<lo, hi>>
Size(iv)    == iv[2] - iv[1]
Empty(iv)   == iv[2] <= iv[1]
Min(a, b)   == IF a < b THEN a ELSE b

\* the loop of Write: `if dataMaxSize < len(data) { chunk = data[:dataMaxSize] ... } else { chunk = data }`
RECURSIVE Chunk(_, _)
Chunk(lo, hi) == IF hi <= lo THEN <<>>
                 ELSE IF F < hi - lo THEN <<Iv(lo, lo + F)>> \o Chunk(lo + F, hi)
                 ELSE <<Iv(lo, hi)>>

TypeOK == /\ sent \in Nat /\ rcvd \in Nat /\ nw \in 0..MaxW /\ nr \in 0..MaxR
          /\ \A i \in 1..Len(wire) : wire[i][1] \in Nat /\ wire[i][2] \in Nat
          /\ rbuf[1] \in Nat /\ rbuf[2] \in Nat

Init == /\ sent = 0 /\ wire = <<>> /\ rbuf = Iv(0, 0) /\ rcvd = 0 /\ nw = 0 /\ nr = 0
        /\ last = [op |-> "init"]

Write(n) == /\ nw < MaxW
            /\ wire' = wire \o Chunk(sent, sent + n)
            /\ sent' = sent + n
            /\ nw' = nw + 1
            /\ UNCHANGED <<rbuf, rcvd, nr>>
            /\ last' = [op |-> "write", n |-> n, res |-> n, frames |-> Len(Chunk(sent, sent + n))]

\* `if 0 < len(sc.recvBuffer) { n = copy(data, sc.recvBuffer); sc.recvBuffer = sc.recvBuffer[n:]; return }`
ReadBuffered(k) == /\ ~Empty(rbuf)
                   /\ LET n == Min(k, Size(rbuf)) IN
                        /\ rbuf' = Iv(rbuf[1] + n, rbuf[2])
                        /\ rcvd' = rcvd + n
                        /\ last' = [op |-> "read", k |-> k, res |-> n, lo |-> rbuf[1], hi |-> rbuf[1] + n, src |-> "buffer"]
                   /\ UNCHANGED wire

\* header + payload of exactly one frame are read; `n = copy(data, chunk); sc.recvBuffer = chunk[n:]`
ReadFrame(k) == /\ Empty(rbuf) /\ wire # <<>>
                /\ LET fr == Head(wire)  n == Min(k, Size(fr)) IN
                     /\ rbuf' = Iv(fr[1] + n, fr[2])
                     /\ rcvd' = rcvd + n
                     /\ last' = [op |-> "read", k |-> k, res |-> n, lo |-> fr[1], hi |-> fr[1] + n, src |-> "frame"]
                /\ wire' = Tail(wire)

Read(k) == /\ nr < MaxR /\ nr' = nr + 1
           /\ (ReadBuffered(k) \/ ReadFrame(k))
           /\ UNCHANGED <<sent, nw>>

Next == (\E n \in WSizes : Write(n)) \/ (\E k \in RSizes : Read(k))

Spec == Init /\ [][Next]_vars

(* ---- what TLC checks on the model ------------------------------------- *)
\* every frame carries between 1 and F bytes
FrameBound == \A i \in 1..Len(wire) : Size(wire[i]) >= 1 /\ Size(wire[i]) <= F

\* received \o recvBuffer \o frames in flight = sent: nothing lost, duplicated or reordered
Pieces == (IF Empty(rbuf) THEN <<>> ELSE <<rbuf>>) \o wire
Conservation ==
  /\ rcvd <= sent
  /\ IF Pieces = <<>> THEN rcvd = sent
     ELSE /\ Pieces[1][1] = rcvd
          /\ Pieces[Len(Pieces)][2] = sent
          /\ \A i \in 1..Len(Pieces) - 1 : Pieces[i][2] = Pieces[i + 1][1]

\* every Read returns exactly the next bytes of the stream: the bytes received are always a
\* prefix of the bytes sent
PrefixDelivery ==
  [][ last'.op = "read" => /\ last'.lo = rcvd /\ last'.hi = rcvd' /\ rcvd' <= sent
                           /\ last'.res = last'.hi - last'.lo /\ last'.res <= last'.k ]_vars
\* a Write accepts all of its argument
WriteAll == [][ last'.op = "write" => sent' = sent + last'.n /\ last'.res = last'.n ]_vars

(* ---- export for the replay harness ------------------------------------ *)
Proj(s, w, b, r) == [sent |-> s, rcvd |-> r, inflight |-> Len(w), rbuf |-> Size(b)]
Edge == PrintT(ToJson([from |-> [s |-> Proj(sent, wire, rbuf, rcvd), w |-> wire, i |-> <<nw, nr>>],
                       act  |-> last',
                       to   |-> [s |-> Proj(sent', wire', rbuf', rcvd'), w |-> wire', i |-> <<nw', nr'>>]]))
View == <<sent, wire, rbuf, rcvd, nw, nr>>
=============================================================================
