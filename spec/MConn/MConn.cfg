SPECIFICATION Spec
CONSTANTS
  Chans = {1, 2}
  P = 3
  MsgLens = {1, 3, 4}
  MaxMsgs = 2
  MaxTotal = 3
  QCap = 1
  WireCap = 1
  CutBetween = TRUE
  Cuts = {1}
INVARIANTS TypeOK InOrderWhole Assembly NoLoss
PROPERTIES DeliverStep
ACTION_CONSTRAINT Edge
VIEW View
CHECK_DEADLOCK FALSE
