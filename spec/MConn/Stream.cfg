SPECIFICATION Spec
CONSTANTS
  F = 32768
  WSizes = {1, 32767, 32768, 32769, 65536, 100001}
  RSizes = {1, 32767, 32768, 32769, 100001}
  MaxW = 2
  MaxR = 4
INVARIANTS TypeOK FrameBound Conservation
PROPERTIES PrefixDelivery WriteAll
ACTION_CONSTRAINT Edge
VIEW View
CHECK_DEADLOCK FALSE
