SPECIFICATION TraceSpec
CONSTANTS
  Chans = {1, 2, 3, 4}
  P = 1024
  MsgLens = {}
  MaxMsgs = 1000000
  MaxTotal = 1000000
  QCap = 1000000
  WireCap = 1
  CutBetween = FALSE
  Cuts = {}
INVARIANTS InOrderWhole Assembly
CONSTRAINT Consumed
POSTCONDITION Accepted
VIEW TraceView
CHECK_DEADLOCK FALSE
