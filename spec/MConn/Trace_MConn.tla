---------------------------- MODULE Trace_MConn -----------------------------
(***************************************************************************)
(* Trace validation for module MConn.  A trace is what the harness         *)
(* recorded on two real MConnections joined by a real SecretConnection     *)
(* while one goroutine per channel was sending:                            *)
(*   send  ch id n h ok   MConnection.Send / TrySend called with message   *)
(*                        id of channel ch (n bytes, hash h); ok = what    *)
(*                        the call returned.  (The event is placed where   *)
(*                        the call started; per channel there is one       *)
(*                        sender, so this is the order of the calls.)      *)
(*   recv  ch id n h      onReceive(ch, payload) on the far side: n and h  *)
(*                        are length and hash of a copy of the payload     *)
(*                        taken inside the callback, id is read from the   *)
(*                        payload (0: too short to carry one)              *)
(*   end                  everything accepted has been received            *)
(*   reset                a new connection starts                          *)
(* The packets are not observed: SendPacket / RecvPacket steps of MConn    *)
(* are silent steps taken between two lines of the trace (only the ones    *)
(* the next line needs, which makes the search linear).  A trace is        *)
(* accepted when TLC can consume every line; InOrderWhole is checked in    *)
(* every state on the way.                                                 *)
(***************************************************************************)
EXTENDS MConn

TraceLog == ndJsonDeserialize("trace.ndjson")

VARIABLES l,    \* next line of the trace
          hs    \* hs[c]: hashes of the messages accepted on channel c, in order
tvars == <<vars, l, hs>>

Ev == TraceLog[l]

TraceInit == Init /\ l = 1 /\ hs = [c \in Chans |-> <<>>]

Consume == l' = l + 1

Reset == /\ Ev.e = "reset" /\ Consume
         /\ enq' = [c \in Chans |-> <<>>] /\ queue' = [c \in Chans |-> <<>>]
         /\ sending' = [c \in Chans |-> NoPiece] /\ wire' = <<>>
         /\ recving' = [c \in Chans |-> <<>>] /\ dlv' = [c \in Chans |-> <<>>]
         /\ cut' = FALSE /\ last' = [op |-> "init"]
         /\ hs' = [c \in Chans |-> <<>>]

SendOk == /\ Ev.e = "send" /\ Ev.ok /\ Consume
          /\ SendMsg(Ev.ch, Ev.id, Ev.n)
          /\ hs' = [hs EXCEPT ![Ev.ch] = Append(@, Ev.h)]

\* a call that returned false must not have queued anything
SendRefused == /\ Ev.e = "send" /\ ~Ev.ok /\ Consume
               /\ UNCHANGED <<vars, hs>>

\* onReceive: the eof packet of the next message of this channel is read, and what is handed
\* over is that message: same length, same hash, same id
Deliver == /\ Ev.e = "recv" /\ Consume
           /\ wire # <<>> /\ Head(wire).eof /\ Head(wire).ch = Ev.ch
           /\ RecvPacket
           /\ LET k == Len(dlv'[Ev.ch])
                  m == dlv'[Ev.ch][k]
              IN /\ Len(m) = 1 /\ m[1].lo = 0 /\ m[1].hi = Ev.n
                 /\ (Ev.id # 0 => m[1].id = Ev.id)
                 /\ k <= Len(hs[Ev.ch]) /\ hs[Ev.ch][k] = Ev.h
           /\ UNCHANGED hs

\* silent steps: the packets of the message the next recv line needs
Silent == /\ Ev.e = "recv" /\ UNCHANGED <<l, hs>>
          /\ \/ wire = <<>> /\ SendPacket(Ev.ch)
             \/ wire # <<>> /\ ~Head(wire).eof /\ RecvPacket

End == /\ Ev.e = "end" /\ Consume
       /\ Quiescent /\ \A c \in Chans : Len(dlv[c]) = Len(enq[c])
       /\ UNCHANGED <<vars, hs>>

TraceNext == l <= Len(TraceLog) /\ (Reset \/ SendOk \/ SendRefused \/ Deliver \/ Silent \/ End)

TraceSpec == TraceInit /\ [][TraceNext]_tvars

\* high-water mark of consumed lines
Consumed == TLCSet(1, IF TLCGet(1) < l THEN l ELSE TLCGet(1))
Accepted == /\ PrintT(ToJson([consumed |-> TLCGet(1) - 1, lines |-> Len(TraceLog)]))
            /\ TLCGet(1) = Len(TraceLog) + 1
ASSUME TLCSet(1, 0)

TraceView == <<enq, queue, sending, wire, recving, dlv, cut, l, hs>>
=============================================================================
