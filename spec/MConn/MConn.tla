------------------------------- MODULE MConn --------------------------------
(***************************************************************************)
(* One direction of libs/p2p/conn.MConnection: several channels share one  *)
(* ordered byte stream (the SecretConnection of module Stream).            *)
(*                                                                         *)
(* Sender (Send / TrySend, sendRoutine -> sendSomePacketMsgs ->            *)
(* sendPacketMsg -> Channel.isSendPending / nextPacketMsg):                *)
(*   queue[c]    Channel.sendQueue   (a Go channel of capacity QCap)       *)
(*   sending[c]  Channel.sending     (the not yet packetised rest of the   *)
(*                                    message taken from the queue)        *)
(* Every packet is [ch, eof, bytes] with at most P =                       *)
(* MaxPacketMsgPayloadSize bytes; eof marks the last packet of a message.  *)
(* sendPacketMsg picks the pending channel with the least                  *)
(* recentlySent/priority; the ratio depends on history and on a timer      *)
(* (updateStats), so the choice is abstracted to ANY pending channel.      *)
(*                                                                         *)
(* Receiver (recvRoutine -> Channel.recvPacketMsg):                        *)
(*   recving[c]  Channel.recving     (bytes of the message in assembly)    *)
(*   dlv[c]      the messages handed to onReceive, in order                *)
(*                                                                         *)
(* The stream can end at ANY byte (the peer disappears, the transport      *)
(* breaks): action Cut.  What has been read stays read, everything behind  *)
(* the cut is lost, including the rest of a packet that was cut in the     *)
(* middle; the receiver must not hand over anything it has not received    *)
(* completely.                                                             *)
(*                                                                         *)
(* A message is [id, len] (id = per-channel sequence number given by the   *)
(* caller); a piece of a message is [id, lo, hi] = its bytes lo .. hi-1.   *)
(* The code always cuts packets of the maximal size min(P, rest); with a   *)
(* non-empty set Cuts the sender may also cut a smaller packet of one of   *)
(* these sizes (the receiver must work "regardless of how messages are cut *)
(* into packets": this is the sender the replay harness plays against the  *)
(* real receiver).  All sizes scale: the harness replays a behaviour with  *)
(* every size multiplied by a factor and the real connection configured    *)
(* with MaxPacketMsgPayloadSize = factor * P.                              *)
(***************************************************************************)
EXTENDS Integers, Sequences, FiniteSets, TLC, Json

CONSTANTS Chans,    \* channel ids
          P,        \* maximal payload of a packet
          MsgLens,  \* message lengths
          MaxMsgs,  \* messages sent per channel in a behaviour
          MaxTotal, \* messages sent in a behaviour
          QCap,     \* capacity of a send queue
          WireCap,  \* packets in flight (the receiver's behaviour depends only on the ORDER of the
                    \* packets on the stream, which this bound does not restrict)
          CutBetween, \* TRUE: the stream may also end between two packets (not only inside one)
          Cuts      \* packet sizes below the maximal one the sender may also choose ({}: the code's sender)

VARIABLES enq,      \* enq[c]: messages accepted by Send on channel c, in order (history)
          queue,    \* queue[c]: sendQueue
          sending,  \* sending[c]: piece still to be packetised (lo = hi: nothing)
          wire,     \* packets written to the stream and not yet read by the receiver
          recving,  \* recving[c]: pieces appended since the last complete message
          dlv,      \* dlv[c]: what onReceive got, message by message (each a sequence of pieces)
          cut,      \* TRUE once the stream has ended
          last      \* label of the last action (output only; hidden by the VIEW)
vars == <<enq, queue, sending, wire, recving, dlv, cut, last>>

Min(a, b) == IF a < b THEN a ELSE b
RECURSIVE SumLen(_, _)
SumLen(f, S) == IF S = {} THEN 0 ELSE LET c == CHOOSE c \in S : TRUE IN Len(f[c]) + SumLen(f, S \ {c})
Total == SumLen(enq, Chans)
NoPiece   == [id |-> 0, lo |-> 0, hi |-> 0]
Idle(c)   == sending[c].hi <= sending[c].lo
Whole(m)  == [id |-> m.id, lo |-> 0, hi |-> m.len]

\* append a piece to a buffer; adjacent bytes of the same message merge (the buffer is a byte string)
AddPiece(buf, pc) ==
  IF buf # <<>> /\ buf[Len(buf)].id = pc.id /\ buf[Len(buf)].hi = pc.lo
  THEN [buf EXCEPT ![Len(buf)].hi = pc.hi]
  ELSE Append(buf, pc)

Init == /\ enq = [c \in Chans |-> <<>>]
        /\ queue = [c \in Chans |-> <<>>]
        /\ sending = [c \in Chans |-> NoPiece]
        /\ wire = <<>>
        /\ recving = [c \in Chans |-> <<>>]
        /\ dlv = [c \in Chans |-> <<>>]
        /\ cut = FALSE
        /\ last = [op |-> "init"]

\* MConnection.Send / TrySend with room in the queue: `ch.sendQueue <- bytes`
\* (id is the caller's name for the message: its sequence number on the channel)
SendMsg(c, id, n) ==
  /\ ~cut /\ Len(queue[c]) < QCap
  /\ LET m == [id |-> id, len |-> n] IN
       /\ enq' = [enq EXCEPT ![c] = Append(@, m)]
       /\ queue' = [queue EXCEPT ![c] = Append(@, m)]
       /\ last' = [op |-> "send", ch |-> c, id |-> id, n |-> n, res |-> TRUE]
  /\ UNCHANGED <<sending, wire, recving, dlv, cut>>

Send(c, n) == /\ Len(enq[c]) < MaxMsgs /\ Total < MaxTotal
              /\ SendMsg(c, Len(enq[c]) + 1, n)

\* TrySend on a full queue returns false and the message is dropped by the caller
TrySendFull(c, n) ==
  /\ ~cut /\ Len(enq[c]) < MaxMsgs /\ Total < MaxTotal /\ Len(queue[c]) = QCap
  /\ last' = [op |-> "trysend", ch |-> c, id |-> 0, n |-> n, res |-> FALSE]
  /\ UNCHANGED <<enq, queue, sending, wire, recving, dlv, cut>>

\* one iteration of sendPacketMsg for the chosen channel c:
\*   isSendPending: `if len(ch.sending) == 0 { if len(ch.sendQueue) == 0 {return false}; ch.sending = <-ch.sendQueue }`
\*   nextPacketMsg: bytes = sending[:min(P, len)], `if len(ch.sending) <= maxSize { EOF = 1; sending = nil } else { EOF = 0; sending = sending[min..:] }`
SendPacket(c) ==
  /\ ~cut
  /\ ~Idle(c) \/ queue[c] # <<>>
  /\ Len(wire) < WireCap
  /\ LET cur  == IF Idle(c) THEN Whole(Head(queue[c])) ELSE sending[c]
         rest == cur.hi - cur.lo
     IN \E k \in {x \in Cuts : x < Min(P, rest)} \cup {Min(P, rest)} :
          LET eof == (k = rest)
              pkt == [ch |-> c, eof |-> eof, id |-> cur.id, lo |-> cur.lo, hi |-> cur.lo + k]
          IN /\ queue' = IF Idle(c) THEN [queue EXCEPT ![c] = Tail(@)] ELSE queue
             /\ sending' = [sending EXCEPT ![c] = IF eof THEN NoPiece ELSE [cur EXCEPT !.lo = cur.lo + k]]
             /\ wire' = Append(wire, pkt)
             /\ last' = [op |-> "packet", ch |-> c, eof |-> eof, id |-> cur.id, lo |-> cur.lo, hi |-> cur.lo + k]
  /\ UNCHANGED <<enq, recving, dlv, cut>>

\* recvRoutine reads the next packet: `ch.recving = append(ch.recving, packet.Bytes...)`;
\* `if packet.EOF == 1 { msgBytes := ch.recving; ch.recving = ch.recving[:0]; return msgBytes }` -> onReceive
RecvPacket ==
  /\ ~cut /\ wire # <<>>
  /\ LET pkt == Head(wire)
         c   == pkt.ch
         buf == AddPiece(recving[c], [id |-> pkt.id, lo |-> pkt.lo, hi |-> pkt.hi])
     IN /\ wire' = Tail(wire)
        /\ IF pkt.eof
           THEN /\ dlv' = [dlv EXCEPT ![c] = Append(@, buf)]
                /\ recving' = [recving EXCEPT ![c] = <<>>]
           ELSE /\ recving' = [recving EXCEPT ![c] = buf]
                /\ UNCHANGED dlv
        /\ last' = [op |-> "recv", ch |-> c, deliver |-> pkt.eof, id |-> pkt.id, lo |-> pkt.lo, hi |-> pkt.hi]
  /\ UNCHANGED <<enq, queue, sending, cut>>

\* the stream ends: in the middle of the packet at the head of the stream (the label names it;
\* the harness delivers a proper beginning of its bytes) or, with nothing in flight, between
\* two packets.  The receiver's error path runs (recvRoutine stops); nothing is handed over.
NoPacket == [ch |-> 0, eof |-> FALSE, id |-> 0, lo |-> 0, hi |-> 0]
Cut ==
  /\ ~cut /\ cut' = TRUE
  /\ CutBetween \/ wire # <<>>
  /\ wire' = <<>>
  /\ last' = [op |-> "cut", partial |-> IF wire = <<>> THEN NoPacket ELSE Head(wire)]
  /\ UNCHANGED <<enq, queue, sending, recving, dlv>>

Next == \/ \E c \in Chans, n \in MsgLens : Send(c, n) \/ TrySendFull(c, n)
        \/ \E c \in Chans : SendPacket(c)
        \/ RecvPacket
        \/ Cut

Spec == Init /\ [][Next]_vars

(* ---- what TLC checks on the model ------------------------------------- *)
TypeOK == /\ \A c \in Chans : Len(queue[c]) <= QCap /\ Len(enq[c]) <= MaxMsgs
          /\ \A i \in 1..Len(wire) : wire[i].hi - wire[i].lo >= 1 /\ wire[i].hi - wire[i].lo <= P

\* every channel delivers whole messages, each exactly once, in the order they were sent:
\* what onReceive got on channel c is a prefix of what Send accepted on channel c
InOrderWhole ==
  \A c \in Chans :
     /\ Len(dlv[c]) <= Len(enq[c])
     /\ \A i \in 1..Len(dlv[c]) : dlv[c][i] = <<Whole(enq[c][i])>>

\* the message in assembly is a proper beginning of the next undelivered message of its channel
Assembly ==
  \A c \in Chans :
     recving[c] # <<>> =>
        /\ Len(dlv[c]) < Len(enq[c]) /\ Len(recving[c]) = 1
        /\ LET m == enq[c][Len(dlv[c]) + 1] IN
             recving[c][1].id = m.id /\ recving[c][1].lo = 0 /\ recving[c][1].hi < m.len

\* nothing is lost on a live connection: when the sender has nothing pending and the stream is
\* drained, everything accepted has been delivered
Quiescent == wire = <<>> /\ \A c \in Chans : Idle(c) /\ queue[c] = <<>>
NoLoss == (~cut /\ Quiescent) => \A c \in Chans : Len(dlv[c]) = Len(enq[c]) /\ recving[c] = <<>>

\* a delivery happens only on an eof packet and hands over one message of that packet's channel
DeliverStep ==
  [][ \A c \in Chans : dlv'[c] # dlv[c] =>
         /\ last'.op = "recv" /\ last'.deliver /\ last'.ch = c
         /\ Len(dlv'[c]) = Len(dlv[c]) + 1
         /\ \A i \in 1..Len(dlv[c]) : dlv'[c][i] = dlv[c][i] ]_vars

(* ---- export for the replay harness ------------------------------------ *)
St(e, q, s, w, r, d, x) == [e |-> e, q |-> q, s |-> s, w |-> w, r |-> r, d |-> [c \in Chans |-> Len(d[c])], x |-> x]
Edge == PrintT(ToJson([from |-> St(enq, queue, sending, wire, recving, dlv, cut),
                       act  |-> last',
                       to   |-> St(enq', queue', sending', wire', recving', dlv', cut')]))
View == <<enq, queue, sending, wire, recving, dlv, cut>>
=============================================================================
