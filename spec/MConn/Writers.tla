------------------------------ MODULE Writers -------------------------------
(***************************************************************************)
(* Who writes the byte stream of ONE libs/p2p/conn.MConnection, at the     *)
(* grain of one conn.Write call, on a connection that can STALL a write    *)
(* (a slow peer, a full socket buffer: the connection accepts a beginning  *)
(* of the bytes and blocks).                                               *)
(*                                                                         *)
(* MConn.tla has one process writing the wire.  The code has two           *)
(* goroutines per connection:                                              *)
(*   S  sendRoutine   data packets (sendSomePacketMsgs -> sendPacketMsg -> *)
(*                    Channel.writePacketMsgTo(c.bufConnWriter)), its own  *)
(*                    pings (pingTimer), the pongs handed to it through    *)
(*                    the channel c.pong (capacity 1), and every           *)
(*                    c.flush() = c.bufConnWriter.Flush()                  *)
(*   R  recvRoutine   reads the peer's packets; for a PacketPing it does   *)
(*                    `select { case c.pong <- struct{}{}: default: }`     *)
(* c.bufConnWriter is a bufio.Writer (NOT goroutine-safe):                 *)
(*   mem, bn, berr    b.buf (the memory, stale bytes stay behind b.n),     *)
(*                    b.n, b.err (sticky)                                  *)
(*   Flush:  `if b.err != nil {return b.err}; if b.n == 0 {return nil};    *)
(*            n, err := b.wr.Write(b.buf[0:b.n])`          (FlushCall)     *)
(*           `if n < b.n && err == nil { err = io.ErrShortWrite }          *)
(*            if err != nil { if n > 0 && n < b.n { copy(b.buf[0:b.n-n],   *)
(*            b.buf[n:b.n]) }; b.n -= n; b.err = err; return err }         *)
(*            b.n = 0`                                     (Return)        *)
(* The connection (a socket, net.Pipe) lets ONE Write through at a time    *)
(* (lock); it copies the bytes out of the caller's slice WHEN it accepts   *)
(* them - a slice of b.buf is shared memory.                               *)
(*                                                                         *)
(* PongBy = "send" is the code.  PongBy = "recv" is the what-if the        *)
(* binding probes the code for (a second goroutine inside conn.Write):     *)
(* recvRoutine encodes the pong into c.bufConnWriter and flushes itself.   *)
(* TLC checks the invariants for "send" (Writers.cfg / WritersBig.cfg: they *)
(* hold, SingleWriter included) and for "recv" (the harness derives the    *)
(* configuration from the same file: WireWhole / InOrderWhole and          *)
(* NoTeardown must FAIL, otherwise the model does not discriminate and the *)
(* run is an infrastructure failure).                                      *)
(*                                                                         *)
(* Environment = what the harness controls: Send, the peer's pings, and    *)
(* the gate of the connection: Arm(k) on a quiet sender (the next Write    *)
(* accepts Pre(len, k) bytes and blocks), Release.  These labels are       *)
(* exported; the other steps are the code's own.                           *)
(*                                                                         *)
(* Bytes: every encoded packet has PL bytes; a byte is a record naming the *)
(* packet instance (serial p), its index i in the packet, the goroutine w  *)
(* that encoded it and what the packet is.  The far side decodes the wire  *)
(* strictly in order (recvRoutine of the peer): what it is handed is a     *)
(* function of `wire`.                                                     *)
(***************************************************************************)
EXTENDS Integers, Sequences, FiniteSets, TLC, Json

CONSTANTS Chans,     \* channel ids
          MsgPkts,   \* message lengths (in packets)
          MaxMsgs,   \* messages per behaviour
          PL,        \* bytes of an encoded packet
          BufCap,    \* size of the bufio.Writer
          MaxPings,  \* pings sent by the peer
          OwnPings,  \* pings sent by sendRoutine itself (pingTimer)
          MaxHolds,  \* stalled writes per behaviour
          KCl,       \* where a stalled write is cut: subset of {"none", "one", "half", "most"}
          PongBy     \* "send" | "recv"

VARIABLES enq, queue, sending,        \* as in MConn.tla (sending[c] = [id, k, n]: next packet k of n; k = 0 idle)
          mem, bn, berr,              \* the bufio.Writer
          ft,                         \* flushTimer set
          pc, wr,                     \* per goroutine: "idle" | "wlock" | "writing"; the Write call [len, off]
          lock,                       \* goroutine inside the connection's Write ("none")
          gate,                       \* [mode |-> "open" | "armed" | "held", k]
          pongReq,                    \* len(c.pong)
          pingsIn, npings, nown, nholds, serial,
          down,                       \* stopForError ran: the connection is torn down
          second,                     \* a second goroutine has been inside conn.Write while another one was (probe)
          wire,                       \* the bytes accepted by the connection, in order
          last
vars == <<enq, queue, sending, mem, bn, berr, ft, pc, wr, lock, gate, pongReq, pingsIn, npings, nown, nholds, serial, down, second, wire, last>>

G == {"S", "R"}
NilB == [p |-> 0, i |-> 0, w |-> "-", kind |-> "-", ch |-> 0, id |-> 0, k |-> 0, eof |-> FALSE]
Pkt(w, kind, c, id, k, eof) == [p |-> serial, i |-> 0, w |-> w, kind |-> kind, ch |-> c, id |-> id, k |-> k, eof |-> eof]
Pre(len, k) == CASE k = "none" -> 0 [] k = "one" -> 1 [] k = "half" -> len \div 2 [] OTHER -> len - 1
RECURSIVE SumLen(_, _)
SumLen(f, S) == IF S = {} THEN 0 ELSE LET c == CHOOSE c \in S : TRUE IN Len(f[c]) + SumLen(f, S \ {c})
Total == SumLen(enq, Chans)
Idle(c) == sending[c].k = 0
Pending(c) == ~Idle(c) \/ queue[c] # <<>>
Room == bn + PL <= BufCap
\* bytes lo+1 .. hi of the buffer memory, as they are NOW
Slice(lo, hi) == [j \in 1..(hi - lo) |-> mem[lo + j]]
\* bufio.Writer.Write of one encoded packet with room: copy(b.buf[b.n:], p); b.n += len(p)
Put(pk) == [j \in 1..BufCap |-> IF j > bn /\ j <= bn + PL THEN [pk EXCEPT !.i = j - bn] ELSE mem[j]]

Init == /\ enq = [c \in Chans |-> <<>>] /\ queue = [c \in Chans |-> <<>>]
        /\ sending = [c \in Chans |-> [id |-> 0, k |-> 0, n |-> 0]]
        /\ mem = [j \in 1..BufCap |-> NilB] /\ bn = 0 /\ berr = FALSE /\ ft = FALSE
        /\ pc = [g \in G |-> "idle"] /\ wr = [g \in G |-> [len |-> 0, off |-> 0]]
        /\ lock = "none" /\ gate = [mode |-> "open", k |-> "none"]
        /\ pongReq = 0 /\ pingsIn = 0 /\ npings = 0 /\ nown = 0 /\ nholds = 0 /\ serial = 1
        /\ down = FALSE /\ second = FALSE /\ wire = <<>>
        /\ last = [op |-> "init"]

(* ---- environment ------------------------------------------------------- *)
Send(c, n) ==
  /\ ~down /\ Total < MaxMsgs
  /\ LET m == [id |-> Len(enq[c]) + 1, n |-> n] IN
       /\ enq' = [enq EXCEPT ![c] = Append(@, m)]
       /\ queue' = [queue EXCEPT ![c] = Append(@, m)]
       /\ last' = [op |-> "send", ch |-> c, id |-> m.id, n |-> n]
  /\ UNCHANGED <<sending, mem, bn, berr, ft, pc, wr, lock, gate, pongReq, pingsIn, npings, nown, nholds, serial, down, wire>>

PeerPing ==
  /\ ~down /\ npings < MaxPings
  /\ pingsIn' = pingsIn + 1 /\ npings' = npings + 1
  /\ last' = [op |-> "ping"]
  /\ UNCHANGED <<enq, queue, sending, mem, bn, berr, ft, pc, wr, lock, gate, pongReq, nown, nholds, serial, down, wire>>

SenderQuiet == /\ bn = 0 /\ lock = "none" /\ \A g \in G : pc[g] = "idle"
               /\ \A c \in Chans : ~Pending(c)
               /\ pongReq = 0 /\ pingsIn = 0
Arm(k) ==
  /\ ~down /\ gate.mode = "open" /\ nholds < MaxHolds /\ SenderQuiet
  /\ gate' = [mode |-> "armed", k |-> k] /\ nholds' = nholds + 1
  /\ last' = [op |-> "arm", k |-> k]
  /\ UNCHANGED <<enq, queue, sending, mem, bn, berr, ft, pc, wr, lock, pongReq, pingsIn, npings, nown, serial, down, wire>>

\* the link is free again: the stalled Write's remaining bytes are accepted (read from the memory as it is now)
Release ==
  /\ gate.mode = "held" /\ lock \in G
  /\ gate' = [mode |-> "open", k |-> "none"]
  /\ wire' = wire \o Slice(wr[lock].off, wr[lock].len)
  /\ wr' = [wr EXCEPT ![lock].off = wr[lock].len]
  /\ last' = [op |-> "release"]
  /\ UNCHANGED <<enq, queue, sending, mem, bn, berr, ft, pc, lock, pongReq, pingsIn, npings, nown, nholds, serial, down>>

(* ---- the bufio.Writer / the connection, for goroutine g ---------------- *)
\* Flush up to the call of conn.Write: returns at once on b.err / an empty buffer
FlushCall(g) ==
  IF berr \/ bn = 0
  THEN /\ UNCHANGED <<pc, wr>>
  ELSE /\ pc' = [pc EXCEPT ![g] = "wlock"]
       /\ wr' = [wr EXCEPT ![g] = [len |-> bn, off |-> 0]]

\* conn.Write lets g in; the bytes the connection takes now
Acquire(g) ==
  /\ pc[g] = "wlock" /\ lock = "none"
  /\ lock' = g /\ pc' = [pc EXCEPT ![g] = "writing"]
  /\ LET take == IF gate.mode = "armed" THEN Pre(wr[g].len, gate.k) ELSE wr[g].len IN
       /\ wire' = wire \o Slice(0, take)
       /\ wr' = [wr EXCEPT ![g].off = take]
       /\ gate' = IF gate.mode = "armed" THEN [gate EXCEPT !.mode = "held"] ELSE gate
       /\ last' = [op |-> "write", g |-> g, len |-> wr[g].len, took |-> take, held |-> gate.mode = "armed"]
  /\ UNCHANGED <<enq, queue, sending, mem, bn, berr, ft, pongReq, pingsIn, npings, nown, nholds, serial, down>>

\* conn.Write returns n = len, nil; the rest of Flush
Return(g) ==
  /\ pc[g] = "writing" /\ lock = g /\ wr[g].off = wr[g].len /\ gate.mode # "held"
  /\ lock' = "none" /\ pc' = [pc EXCEPT ![g] = "idle"]
  /\ LET n == wr[g].len IN
       IF n < bn
       THEN /\ mem' = [j \in 1..BufCap |-> IF j <= bn - n THEN mem[j + n] ELSE mem[j]]
            /\ bn' = bn - n /\ berr' = TRUE
            /\ last' = [op |-> "return", g |-> g, short |-> TRUE]
       ELSE /\ bn' = 0 /\ UNCHANGED <<mem, berr>>
            /\ last' = [op |-> "return", g |-> g, short |-> FALSE]
  /\ UNCHANGED <<enq, queue, sending, ft, wr, gate, pongReq, pingsIn, npings, nown, nholds, serial, down, wire>>

(* ---- sendRoutine -------------------------------------------------------- *)
\* sendPacketMsg for the chosen channel: nextPacketMsg + bufio.Writer.Write + flushTimer.Set()
SPacket(c) ==
  /\ ~down /\ pc["S"] = "idle" /\ Pending(c)
  /\ LET cur == IF Idle(c) THEN [id |-> Head(queue[c]).id, k |-> 1, n |-> Head(queue[c]).n] ELSE sending[c]
         eof == cur.k = cur.n
     IN IF berr
        THEN \* `Failed to write PacketMsg` -> stopForError: everything still queued is lost
             /\ down' = TRUE /\ last' = [op |-> "teardown", g |-> "S"]
             /\ UNCHANGED <<queue, sending, mem, bn, ft, pc, wr, serial>>
        ELSE IF Room
        THEN /\ queue' = IF Idle(c) THEN [queue EXCEPT ![c] = Tail(@)] ELSE queue
             /\ sending' = [sending EXCEPT ![c] = IF eof THEN [id |-> 0, k |-> 0, n |-> 0] ELSE [cur EXCEPT !.k = cur.k + 1]]
             /\ mem' = Put(Pkt("S", "msg", c, cur.id, cur.k, eof)) /\ bn' = bn + PL /\ serial' = serial + 1
             /\ ft' = TRUE
             /\ last' = [op |-> "packet", ch |-> c, id |-> cur.id, k |-> cur.k, eof |-> eof]
             /\ UNCHANGED <<pc, wr, down>>
        ELSE \* the buffer is full: bufio.Writer.Write flushes from inside sendPacketMsg, then goes on
             /\ FlushCall("S") /\ last' = [op |-> "autoflush", g |-> "S"]
             /\ UNCHANGED <<queue, sending, mem, bn, ft, serial, down>>
  /\ UNCHANGED <<enq, berr, lock, gate, pongReq, pingsIn, npings, nown, nholds, wire>>

\* `case <-c.flushTimer.Ch: c.flush()`
SFlushTimer ==
  /\ ~down /\ pc["S"] = "idle" /\ ft
  /\ ft' = FALSE /\ FlushCall("S")
  /\ last' = [op |-> "flush", g |-> "S"]
  /\ UNCHANGED <<enq, queue, sending, mem, bn, berr, lock, gate, pongReq, pingsIn, npings, nown, nholds, serial, down, wire>>

\* `case <-c.pong:` / `case <-c.pingTimer.Chan():` encode the packet, c.flush()
SControl(kind) ==
  /\ ~down /\ pc["S"] = "idle"
  /\ \/ kind = "pong" /\ PongBy = "send" /\ pongReq = 1 /\ pongReq' = 0 /\ nown' = nown
     \/ kind = "ping" /\ nown < OwnPings /\ nown' = nown + 1 /\ pongReq' = pongReq
  /\ IF berr
     THEN /\ down' = TRUE /\ last' = [op |-> "teardown", g |-> "S"]
          /\ UNCHANGED <<mem, bn, pc, wr, serial>>
     ELSE IF Room
     THEN /\ mem' = Put(Pkt("S", kind, 0, 0, 0, FALSE)) /\ serial' = serial + 1
          /\ bn' = bn + PL
          /\ pc' = [pc EXCEPT !["S"] = "wlock"] /\ wr' = [wr EXCEPT !["S"] = [len |-> bn + PL, off |-> 0]]
          /\ last' = [op |-> "control", g |-> "S", kind |-> kind]
          /\ UNCHANGED down
     ELSE \* no room: flush first (the request stays), then again
          /\ FlushCall("S") /\ last' = [op |-> "autoflush", g |-> "S"]
          /\ pongReq' = pongReq /\ nown' = nown
          /\ UNCHANGED <<mem, bn, serial, down>>
  /\ UNCHANGED <<enq, queue, sending, berr, ft, lock, gate, pingsIn, npings, nholds, wire>>

(* ---- recvRoutine --------------------------------------------------------- *)
RPing ==
  /\ ~down /\ pc["R"] = "idle" /\ pingsIn > 0
  /\ IF PongBy = "send"
     THEN \* the code: hand the pong over, never block
          /\ pingsIn' = pingsIn - 1 /\ pongReq' = 1
          /\ last' = [op |-> "rping", by |-> "send"]
          /\ UNCHANGED <<mem, bn, pc, wr, serial, down>>
     ELSE \* what-if: answer from here, into the same bufio.Writer
          /\ pongReq' = pongReq
          /\ IF berr
             THEN /\ down' = TRUE /\ last' = [op |-> "teardown", g |-> "R"] /\ pingsIn' = pingsIn - 1
                  /\ UNCHANGED <<mem, bn, pc, wr, serial>>
             ELSE IF Room
             THEN /\ pingsIn' = pingsIn - 1
                  /\ mem' = Put(Pkt("R", "pong", 0, 0, 0, FALSE)) /\ serial' = serial + 1
                  /\ bn' = bn + PL
                  /\ pc' = [pc EXCEPT !["R"] = "wlock"] /\ wr' = [wr EXCEPT !["R"] = [len |-> bn + PL, off |-> 0]]
                  /\ last' = [op |-> "rping", by |-> "recv"]
                  /\ UNCHANGED down
             ELSE /\ FlushCall("R") /\ last' = [op |-> "autoflush", g |-> "R"]
                  /\ UNCHANGED <<pingsIn, mem, bn, serial, down>>
  /\ UNCHANGED <<enq, queue, sending, berr, ft, lock, gate, npings, nown, nholds, wire>>

Step == \/ \E c \in Chans, n \in MsgPkts : Send(c, n)
        \/ PeerPing
        \/ \E k \in KCl : Arm(k)
        \/ Release
        \/ \E g \in G : Acquire(g) \/ Return(g)
        \/ \E c \in Chans : SPacket(c)
        \/ SFlushTimer
        \/ SControl("pong") \/ SControl("ping")
        \/ RPing
\* `second` is a history variable computed on the new state
Next == Step /\ second' = (second \/ \E g \in G : pc'[g] = "wlock" /\ lock' \in G \ {g})

Spec == Init /\ [][Next]_vars

(* ---- the far side: what the peer's recvRoutine decodes ------------------ *)
NGroups == Len(wire) \div PL
First(gi) == wire[(gi - 1) * PL + 1]
\* the data packets of channel c among the first n whole packets of the wire
RECURSIVE Got(_, _)
Got(c, n) == IF n = 0 THEN <<>>
             ELSE LET b == First(n) IN
                  IF b.kind = "msg" /\ b.ch = c THEN Append(Got(c, n - 1), [id |-> b.id, k |-> b.k, eof |-> b.eof])
                  ELSE Got(c, n - 1)
\* the packets the messages accepted on channel c are cut into
RECURSIVE Flat(_)
Flat(ms) == IF ms = <<>> THEN <<>>
            ELSE Flat(SubSeq(ms, 1, Len(ms) - 1)) \o [k \in 1..ms[Len(ms)].n |-> [id |-> ms[Len(ms)].id, k |-> k, eof |-> k = ms[Len(ms)].n]]
IsPrefix(s, t) == Len(s) <= Len(t) /\ \A i \in 1..Len(s) : s[i] = t[i]
Dlv(c) == Cardinality({i \in 1..Len(Got(c, NGroups)) : Got(c, NGroups)[i].eof})

(* ---- what TLC checks ------------------------------------------------------ *)
TypeOK == /\ bn \in 0..BufCap /\ pongReq \in 0..1 /\ lock \in G \cup {"none"}
          /\ \A g \in G : wr[g].off <= wr[g].len /\ wr[g].len <= BufCap

\* the byte stream is a concatenation of whole packets, every packet instance once,
\* each written by exactly one routine (no interleaving inside a packet, nothing stale)
WireWhole ==
  /\ \A j \in 1..Len(wire) :
        /\ wire[j].p # 0
        /\ wire[j].i = ((j - 1) % PL) + 1
        /\ wire[j].i > 1 => wire[j].p = wire[j - 1].p /\ wire[j].w = wire[j - 1].w
  /\ \A j1, j2 \in 1..Len(wire) : (j1 < j2 /\ wire[j1].i = 1 /\ wire[j2].i = 1) => wire[j1].p # wire[j2].p

\* every channel: the packets the far side decodes are a beginning of the packets of the
\* messages accepted by Send, in order (=> whole messages, each once, in order; the
\* message in assembly is a beginning of the next one: InOrderWhole and Assembly of MConn.tla)
InOrderWhole == \A c \in Chans : IsPrefix(Got(c, NGroups), Flat(enq[c]))

\* no teardown without a wire fault (there is none in this model)
NoTeardown == ~down /\ ~berr

Quiescent == /\ bn = 0 /\ lock = "none" /\ \A g \in G : pc[g] = "idle"
             /\ \A c \in Chans : ~Pending(c)
NoLoss == (Quiescent /\ ~down) => \A c \in Chans : Got(c, NGroups) = Flat(enq[c])

\* the code never has two goroutines at conn.Write
SingleWriter == ~second

(* ---- export ---------------------------------------------------------------- *)
\* the exported state: what the harness compares (sent, d, held, quiet) and the full state (x: state
\* identity for the graph loader)
B(b) == <<b.p, b.i, b.w, b.kind, b.ch, b.id, b.k>>
St == [sent |-> [c \in Chans |-> Len(enq[c])], d |-> [c \in Chans |-> Dlv(c)],
       held |-> gate.mode = "held", quiet |-> Quiescent /\ gate.mode = "open",
       x |-> <<enq, queue, sending, [j \in 1..BufCap |-> B(mem[j])], bn, berr, ft, pc, wr, lock, gate, pongReq, pingsIn, npings, nown, nholds, down, second,
               [j \in 1..Len(wire) |-> B(wire[j])]>>]
Edge == PrintT(ToJson([from |-> St, act |-> last', to |-> St']))
View == <<enq, queue, sending, mem, bn, berr, ft, pc, wr, lock, gate, pongReq, pingsIn, npings, nown, nholds, serial, down, second, wire>>
=============================================================================
