SPECIFICATION Spec
CONSTANTS
  Chans = {1, 2}
  P = 3
  MsgLens = {1, 3, 4, 6}
  MaxMsgs = 2
  MaxTotal = 4
  QCap = 2
  WireCap = 1
  CutBetween = FALSE
  Cuts = {1}
INVARIANTS TypeOK InOrderWhole Assembly NoLoss
PROPERTIES DeliverStep
ACTION_CONSTRAINT Edge
VIEW View
CHECK_DEADLOCK FALSE
