------------------------------ MODULE KVStore ------------------------------
(***************************************************************************)
(* The contract of libs/db.DB: an ordered map from byte-string keys to     *)
(* non-empty values, with write batches and forward / reverse / prefix     *)
(* iteration, as every backend (MemDB, GoLevelDB, BoltDB, BadgerDB and     *)
(* prefixed views of them) must implement it.                              *)
(*                                                                         *)
(* Keys are 1..NKeys; the harness instantiates key i with the i-th entry   *)
(* of several tables of concrete byte strings whose byte order equals the  *)
(* numeric order (shared prefixes, 0x00 / 0xFF terminated, binary).        *)
(* Value 0 is "absent".  One action per public call of the code:           *)
(*   Set  = Set | SetSync | Put          Del = Delete | DeleteSync | Del   *)
(*   BSet/BDel = Batch.Set / Batch.Delete (a batch is created on demand)   *)
(*   BWrite = Batch.Write | Commit | WriteSync     BReset = Batch.Reset    *)
(*   BAbandon = the batch object is dropped without being written          *)
(*   Reopen = Close + NewDB on the same directory                          *)
(*   Query  = Iterator | ReverseIterator | NewIteratorWithPrefix           *)
(*            (a stuttering step whose result is part of the action label) *)
(***************************************************************************)
EXTENDS Integers, Sequences, FiniteSets, TLC, Json

CONSTANTS NKeys,      \* number of abstract keys
          Vals,       \* non-empty values (positive naturals)
          MaxBatch,   \* bound on pending batch length
          QueryBatch  \* queries are issued in states whose pending batch is at most this long

Keys   == 1..NKeys
Absent == 0
Nil    == 0          \* "nil" bound of an iterator (open end)

VARIABLES m,      \* the map: Keys -> Vals \cup {Absent}
          batch,  \* pending operations of the (single) open batch
          last    \* label of the last action (output only; hidden by the VIEW)
vars == <<m, batch, last>>

TypeOK == /\ m \in [Keys -> Vals \cup {Absent}]
          /\ batch \in Seq([k : Keys, v : Vals \cup {Absent}])

Init == /\ m = [k \in Keys |-> Absent]
        /\ batch = <<>>
        /\ last = [op |-> "init"]

Tick == TRUE   \* the graph over <<m, batch>> is finite; no step bound is needed

Set(k, v) == /\ Tick /\ m' = [m EXCEPT ![k] = v] /\ UNCHANGED batch
             /\ last' = [op |-> "set", k |-> k, v |-> v]
Del(k)    == /\ Tick /\ m' = [m EXCEPT ![k] = Absent] /\ UNCHANGED batch
             /\ last' = [op |-> "del", k |-> k]
BSet(k, v) == /\ Tick /\ Len(batch) < MaxBatch
              /\ batch' = Append(batch, [k |-> k, v |-> v]) /\ UNCHANGED m
              /\ last' = [op |-> "bset", k |-> k, v |-> v]
BDel(k)    == /\ Tick /\ Len(batch) < MaxBatch
              /\ batch' = Append(batch, [k |-> k, v |-> Absent]) /\ UNCHANGED m
              /\ last' = [op |-> "bdel", k |-> k]

RECURSIVE Apply(_, _)
Apply(mm, b) == IF b = <<>> THEN mm
                ELSE Apply([mm EXCEPT ![Head(b).k] = Head(b).v], Tail(b))

BWrite   == /\ Tick /\ batch # <<>> /\ m' = Apply(m, batch) /\ batch' = <<>>
            /\ last' = [op |-> "bwrite"]
BReset   == /\ Tick /\ batch # <<>> /\ batch' = <<>> /\ UNCHANGED m
            /\ last' = [op |-> "breset"]
BAbandon == /\ Tick /\ batch # <<>> /\ batch' = <<>> /\ UNCHANGED m
            /\ last' = [op |-> "babandon"]
Reopen   == /\ Tick /\ batch = <<>> /\ UNCHANGED <<m, batch>>
            /\ last' = [op |-> "reopen"]

(* ---- iteration ------------------------------------------------------- *)
Present(mm) == {k \in Keys : mm[k] # Absent}

\* forward domain: lo <= k < hi ; Nil hi = open end ; Nil lo = from the first key
Fwd(mm, lo, hi) == {k \in Present(mm) : k >= lo /\ (hi = Nil \/ k < hi)}
\* reverse domain: hi < k <= lo ; Nil lo = from the last key ; Nil hi = down to the first
Rev(mm, lo, hi) == {k \in Present(mm) : (lo = Nil \/ k <= lo) /\ (hi = Nil \/ k > hi)}

RECURSIVE Asc(_)
Asc(S) == IF S = {} THEN <<>>
          ELSE LET x == CHOOSE x \in S : \A y \in S : x <= y IN <<x>> \o Asc(S \ {x})
RECURSIVE Desc(_)
Desc(S) == IF S = {} THEN <<>>
           ELSE LET x == CHOOSE x \in S : \A y \in S : x >= y IN <<x>> \o Desc(S \ {x})

Pairs(mm, ks) == [i \in 1..Len(ks) |-> <<ks[i], mm[ks[i]]>>]

Query == /\ Len(batch) <= QueryBatch /\ UNCHANGED <<m, batch>>
         /\ \E lo \in Keys \cup {Nil}, hi \in Keys \cup {Nil} :
              \/ last' = [op |-> "iter", lo |-> lo, hi |-> hi, res |-> Pairs(m, Asc(Fwd(m, lo, hi)))]
              \/ last' = [op |-> "riter", lo |-> lo, hi |-> hi, res |-> Pairs(m, Desc(Rev(m, lo, hi)))]

Next == \/ \E k \in Keys : Del(k) \/ BDel(k) \/ \E v \in Vals : Set(k, v) \/ BSet(k, v)
        \/ BWrite \/ BReset \/ BAbandon \/ Reopen
        \/ Query

Spec == Init /\ [][Next]_vars

(* ---- what TLC checks on the model ------------------------------------ *)
\* A pending batch is invisible: the map changes only through Set, Del and BWrite,
\* and a written batch is applied entirely and in its own order (last write wins).
BatchAtomic ==
  [][ m' # m => \/ last'.op \in {"set", "del"}
                \/ (last'.op = "bwrite" /\ m' = Apply(m, batch)) ]_vars
\* Abandoning or resetting a batch never changes the map; reopening preserves it.
NoLeak == [][ last'.op \in {"breset", "babandon", "reopen", "bset", "bdel"} => m' = m ]_vars
\* Iteration enumerates exactly the domain, each key once, in order.
IterSound ==
  \A lo \in Keys \cup {Nil}, hi \in Keys \cup {Nil} :
     LET f == Asc(Fwd(m, lo, hi))  r == Desc(Rev(m, lo, hi)) IN
       /\ \A i \in 1..Len(f) - 1 : f[i] < f[i + 1]
       /\ \A i \in 1..Len(r) - 1 : r[i] > r[i + 1]
       /\ {f[i] : i \in 1..Len(f)} = Fwd(m, lo, hi)
       /\ {r[i] : i \in 1..Len(r)} = Rev(m, lo, hi)
       /\ (lo = Nil /\ hi = Nil) => Len(f) = Cardinality(Present(m)) /\ Len(r) = Len(f)

(* ---- export for the replay harness ----------------------------------- *)
Proj(mm, bb) == [m |-> mm, b |-> bb]
Edge == PrintT(ToJson([from |-> Proj(m, batch), act |-> last', to |-> Proj(m', batch')]))
View == <<m, batch>>
=============================================================================
