SPECIFICATION Spec
CONSTANTS
  NKeys = 3
  Vals = {1, 2}
  MaxBatch = 2
  QueryBatch = 1
INVARIANTS TypeOK IterSound
PROPERTIES BatchAtomic NoLeak
ACTION_CONSTRAINT Edge
VIEW View
CHECK_DEADLOCK FALSE
