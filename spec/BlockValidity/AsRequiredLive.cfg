\* liveness under the synchronous schedule: every correct node applies a block at this height
SPECIFICATION FairSpec
CONSTANTS
  Guard = "AsRequired"
  Cmp = "id"
  Setups <- SetsOne
  Blocks <- BlocksUpTo1
  Seconds <- NoSeconds
  MaxRound = 1
  MaxRestarts = 2
  Sched = "fixed"
  ByzVotes = "support"
  Loss = "none"
  Serve = "prefix"
  Equiv = TRUE
INVARIANTS TypeOK
PROPERTIES ChainContinues
VIEW View
CHECK_DEADLOCK FALSE
