-------------------------- MODULE MC_BlockValidity --------------------------
(* Bounded instances of BlockValidity: validator sets, the blocks the        *)
(* Byzantine proposer draws from, its second blocks.                         *)
EXTENDS BlockValidity

(* ---- validator sets ------------------------------------------------------ *)
(* id = "<Byzantine power>|<power of n1>,<powers of n2.. ascending>"; n1 is    *)
(* the proposer of round 1 (the harness names the real nodes accordingly and   *)
(* looks the id up).  The Byzantine power is below a third of the total.       *)
VS(bp, pw)    == [id |-> "-", bp |-> bp, pw |-> pw, prop |-> <<Byz, "n1">>]
\* four validators of power 1: round-robin, the Byzantine validator proposes rounds 0 and 4
U4 == [id |-> "1|1,1,1", bp |-> 1, pw |-> <<1, 1, 1>>, prop |-> <<Byz, "n1", "n2", "n3", Byz, "n1", "n2">>]
U5 == [VS(1, <<1, 1, 1, 1>>)          EXCEPT !.id = "1|1,1,1,1"]           \* total 5 = 2 mod 3
U6 == [VS(1, <<1, 1, 1, 1, 1>>)       EXCEPT !.id = "1|1,1,1,1,1"]         \* total 6 = 0 mod 3
U7 == [VS(1, <<1, 1, 1, 1, 1, 1>>)    EXCEPT !.id = "1|1,1,1,1,1,1"]       \* total 7 = 1 mod 3
U8 == [VS(1, <<1, 1, 1, 1, 1, 1, 1>>) EXCEPT !.id = "1|1,1,1,1,1,1,1"]     \* total 8 = 2 mod 3
\* four validators of unequal power
W5a == [VS(1, <<1, 1, 2>>) EXCEPT !.id = "1|1,1,2"]     \* {1,1,1,2}: total 5
W5b == [VS(1, <<2, 1, 1>>) EXCEPT !.id = "1|2,1,1"]
W6a == [VS(1, <<1, 2, 2>>) EXCEPT !.id = "1|1,2,2"]     \* {1,1,2,2}: total 6
W6b == [VS(1, <<2, 1, 2>>) EXCEPT !.id = "1|2,1,2"]
W7a == [VS(1, <<2, 2, 2>>) EXCEPT !.id = "1|2,2,2"]     \* {1,2,2,2}: total 7
W7b == [VS(2, <<1, 2, 2>>) EXCEPT !.id = "2|1,2,2"]
W7c == [VS(2, <<2, 1, 2>>) EXCEPT !.id = "2|2,1,2"]
W8a == [VS(2, <<2, 2, 2>>) EXCEPT !.id = "2|2,2,2"]     \* {2,2,2,2}: total 8
W8b == [VS(1, <<1, 3, 3>>) EXCEPT !.id = "1|1,3,3"]     \* {1,1,3,3}: total 8
W8c == [VS(1, <<3, 1, 3>>) EXCEPT !.id = "1|3,1,3"]
W11a == [VS(3, <<2, 3, 3>>) EXCEPT !.id = "3|2,3,3"]    \* {2,3,3,3}: total 11 = 2 mod 3
W11b == [VS(3, <<3, 2, 3>>) EXCEPT !.id = "3|3,2,3"]
W11c == [VS(2, <<3, 3, 3>>) EXCEPT !.id = "2|3,3,3"]
\* five validators of unequal power
X8a == [VS(1, <<1, 2, 2, 2>>) EXCEPT !.id = "1|1,2,2,2"]   \* {1,1,2,2,2}: total 8
X8b == [VS(1, <<2, 1, 2, 2>>) EXCEPT !.id = "1|2,1,2,2"]
X8c == [VS(2, <<1, 1, 2, 2>>) EXCEPT !.id = "2|1,1,2,2"]
X8d == [VS(2, <<2, 1, 1, 2>>) EXCEPT !.id = "2|2,1,1,2"]

SetsOne    == {U4}
SetsQuick  == {U4, U5, U6, W5a, W5b, W6a, W6b, W7a, W7b, W7c}
SetsBig    == SetsQuick \cup {U7, U8, W8a, W8b, W8c, W11a, W11b, W11c, X8a, X8b, X8c, X8d}

Tot(s) == s.bp + SumSeq(s.pw)
\* powers a set of precommits can add up to
RECURSIVE SubSums(_)
SubSums(seq) == IF seq = <<>> THEN {0}
                ELSE LET R == SubSums(Tail(seq)) IN R \cup {Head(seq) + x : x \in R}
Sums(s) == SubSums(<<s.bp>> \o s.pw)
\* the previous commit exactly on the boundary: the largest power a set of precommits can
\* carry that is not more than two thirds of the total (floor(2T/3) when the powers allow
\* it) and the smallest that is (floor(2T/3)+1 when they do)
Below(s) == CHOOSE x \in Sums(s) : 3 * x <= 2 * Tot(s) /\ \A y \in Sums(s) : 3 * y <= 2 * Tot(s) => y <= x
Above(s) == CHOOSE x \in Sums(s) : 3 * x > 2 * Tot(s) /\ \A y \in Sums(s) : 3 * y > 2 * Tot(s) => x <= y
Boundary(s) == {Below(s), Above(s)}

(* ---- block classes --------------------------------------------------------- *)
UpTo1 == {{c} : c \in Clauses} \cup {{}}                             \* the control and every clause alone
UpTo2 == {{c, d} : c \in Clauses, d \in Clauses} \cup {{}}           \* ... and every pair
UpTo3 == {{c, d, e} : c \in Clauses, d \in Clauses, e \in Clauses} \cup {{}}
\* the quick instance: pairs plus the two triples the harness' catalogue of concrete
\* corruptions needs (a neighbouring height at height 1; a previous commit without votes)
Quick == UpTo2 \cup {{"app", "basic", "height"}, {"ev", "evFull", "lastCommit"}}

Full(s, C)  == {[c |-> c, lcp |-> Tot(s)] : c \in C}
\* on the boundary: otherwise untouched, or with one more clause violated
Edgy(s)     == {[c |-> c, lcp |-> p] : c \in {{}, {"chain"}}, p \in Boundary(s)}
BlocksOf(C, s) == IF s = U4 THEN Full(s, C) \cup Edgy(s) ELSE Full(s, {{}, {"chain"}}) \cup Edgy(s)

BlocksUpTo1(s) == BlocksOf(UpTo1, s)
BlocksUpTo2(s) == BlocksOf(UpTo2, s)
BlocksUpTo3(s) == BlocksOf(UpTo3, s)
BlocksQuick(s) == BlocksOf(Quick, s)

NoSeconds(s, b) == {}

(* ---- two blocks of one Byzantine proposer ----------------------------------- *)
\* first blocks of the two-block instances
BlocksTwoQ(s) == Full(s, {{}, {"basic"}})
BlocksTwo(s) == Full(s, {{}, {"basic"}, {"chain"}})
BlocksTwoBig(s) == Full(s, {{}, {"basic"}, {"chain"}, {"app"}, {"ev", "evFull"}})
\* the rounds in which the Byzantine validator is the proposer
ByzRounds(s) == {r \in 0..MaxRound : s.prop[r + 1] = Byz}
\* a twin keeps the header: the clauses about header fields stay, and of two bodies for one
\* header at most one matches the header's hashes ("basic")
HeaderClauses == {"chain", "height", "lastId", "consHash", "valHash"}
TwinsOf(b, More) ==
  IF "basic" \in b.c THEN {b.c \ {"basic"}}                 \* B had the foreign body: B2 is the genuine block
  ELSE {(b.c \cap HeaderClauses) \cup {"basic"} \cup m : m \in More}
SecondsOf(s, b, More, Fresh, In) ==
  {[rel |-> "twin", c |-> c, lcp |-> Tot(s), r |-> r] : c \in TwinsOf(b, More), r \in ByzRounds(s) \cap In}
  \cup {[rel |-> "fresh", c |-> c, lcp |-> Tot(s), r |-> r] : c \in Fresh, r \in ByzRounds(s) \cap In}
FreshFor(b) == IF b.c = {} THEN {{"chain"}} ELSE {{}}
\* the second block is built in the round of the first / in a later round / in either
SecondsSame(s, b)   == SecondsOf(s, b, {{}}, FreshFor(b), {0})
SecondsLater(s, b)  == SecondsOf(s, b, {{}}, FreshFor(b), 1..MaxRound)
SecondsTwo(s, b)    == SecondsOf(s, b, {{}}, FreshFor(b), 0..MaxRound)
SecondsTwoBig(s, b) == SecondsOf(s, b, {{}, {"lastCommit"}, {"ev", "evFull"}, {"app"}}, {{}, {"chain"}}, 0..MaxRound)
=============================================================================
