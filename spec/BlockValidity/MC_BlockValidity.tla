-------------------------- MODULE MC_BlockValidity --------------------------
(* Bounded instances of BlockValidity: the block classes the Byzantine      *)
(* proposer draws from.                                                      *)
EXTENDS BlockValidity

UpTo1 == {{c} : c \in Clauses} \cup {{}}                             \* the control and every clause alone
UpTo2 == {{c, d} : c \in Clauses, d \in Clauses} \cup {{}}           \* ... and every pair
UpTo3 == {{c, d, e} : c \in Clauses, d \in Clauses, e \in Clauses} \cup {{}}
\* the quick instance: pairs plus the two triples the harness' catalogue of concrete
\* corruptions needs (a neighbouring height at height 1; a previous commit without votes)
Quick == UpTo2 \cup {{"app", "basic", "height"}, {"ev", "evFull", "lastCommit"}}
=============================================================================
