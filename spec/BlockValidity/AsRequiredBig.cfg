\* thorough: every class of up to three violated clauses, more validator sets; every explored transition is exported
SPECIFICATION Spec
CONSTANTS
  Guard = "AsRequired"
  Cmp = "id"
  Setups <- SetsBig
  Blocks <- BlocksUpTo3
  Seconds <- NoSeconds
  MaxRound = 1
  MaxRestarts = 2
  Sched = "fixed"
  ByzVotes = "support"
  Loss = "none"
  Serve = "prefix"
  Equiv = TRUE
INVARIANTS TypeOK VotesOnlyFullyValid PersistOnlyApplicable NoWedge
ACTION_CONSTRAINT Edge
VIEW View
CHECK_DEADLOCK FALSE
