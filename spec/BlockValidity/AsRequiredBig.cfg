\* thorough: every class of up to three violated clauses; every explored transition is exported
SPECIFICATION Spec
CONSTANTS
  Guard = "AsRequired"
  Classes <- UpTo3
  MaxRound = 1
  MaxRestarts = 2
  Sched = "fixed"
INVARIANTS TypeOK VotesOnlyFullyValid PersistOnlyApplicable NoWedge
ACTION_CONSTRAINT Edge
VIEW View
CHECK_DEADLOCK FALSE
