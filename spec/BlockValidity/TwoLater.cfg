\* quick: the second block is built in a later round in which the Byzantine validator is the proposer again (round 4), the rounds of the correct proposers in between; in one round it shows one block only (TwoSame covers the other case); first blocks: the valid one and a foreign body under the valid header; every explored transition is exported
SPECIFICATION Spec
CONSTANTS
  Guard = "AsRequired"
  Cmp = "id"
  Setups <- SetsOne
  Blocks <- BlocksTwoQ
  Seconds <- SecondsLater
  MaxRound = 4
  MaxRestarts = 2
  Sched = "fixed"
  ByzVotes = "free"
  Loss = "all"
  Serve = "any"
  Equiv = FALSE
INVARIANTS TypeOK VotesOnlyFullyValid PersistOnlyApplicable NoWedge
ACTION_CONSTRAINT Edge
VIEW View
CHECK_DEADLOCK FALSE
