\* the tree before ef885bb: TLC must find a vote for a block that is not fully valid (a lead for the harness)
SPECIFICATION Spec
CONSTANTS
  Guard = "AsCoded"
  Cmp = "hash"
  Setups <- SetsOne
  Blocks <- BlocksUpTo2
  Seconds <- NoSeconds
  MaxRound = 1
  MaxRestarts = 2
  Sched = "fixed"
  ByzVotes = "support"
  Loss = "none"
  Serve = "prefix"
  Equiv = TRUE
INVARIANTS TypeOK VotesOnlyFullyValid
VIEW View
CHECK_DEADLOCK FALSE
