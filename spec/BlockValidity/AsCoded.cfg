\* the tree as it is: TLC must find a vote for a block that is not fully valid (a lead for the harness)
SPECIFICATION Spec
CONSTANTS
  Guard = "AsCoded"
  Classes <- UpTo2
  MaxRound = 1
  MaxRestarts = 2
  Sched = "fixed"
INVARIANTS TypeOK VotesOnlyFullyValid
VIEW View
CHECK_DEADLOCK FALSE
