\* the tree as it is, explored completely (no safety invariant): the wedge is permanent; edges exported
SPECIFICATION Spec
CONSTANTS
  Guard = "AsCoded"
  Classes <- UpTo2
  MaxRound = 1
  MaxRestarts = 2
  Sched = "fixed"
INVARIANTS TypeOK
PROPERTIES WedgeIsPermanent
ACTION_CONSTRAINT Edge
VIEW View
CHECK_DEADLOCK FALSE
