\* quick: the tree before ef885bb, explored completely for every class of one violated clause (no safety invariant): the wedge is permanent; edges exported (pi_shape reference for behaviours that leave the required model)
SPECIFICATION Spec
CONSTANTS
  Guard = "AsCoded"
  Cmp = "hash"
  Setups <- SetsOne
  Blocks <- BlocksUpTo1
  Seconds <- NoSeconds
  MaxRound = 1
  MaxRestarts = 2
  Sched = "fixed"
  ByzVotes = "support"
  Loss = "none"
  Serve = "prefix"
  Equiv = TRUE
INVARIANTS TypeOK
PROPERTIES WedgeIsPermanent
ACTION_CONSTRAINT Edge
VIEW View
CHECK_DEADLOCK FALSE
