\* blocks compared by Block.Hash() alone (the header): TLC must find a correct node that fails on a twin (a lead for the harness)
SPECIFICATION Spec
CONSTANTS
  Guard = "AsRequired"
  Cmp = "hash"
  Setups <- SetsOne
  Blocks <- BlocksTwo
  Seconds <- SecondsTwo
  MaxRound = 4
  MaxRestarts = 2
  Sched = "fixed"
  ByzVotes = "free"
  Loss = "all"
  Serve = "any"
  Equiv = TRUE
INVARIANTS TypeOK NoWedge
VIEW View
CHECK_DEADLOCK FALSE
