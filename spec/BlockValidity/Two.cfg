\* quick: two blocks of one Byzantine proposer (in one round, or in rounds 0 and 4 with the rounds of the correct proposers in between), the second one unrelated or the twin of the first (same header, other body); the Byzantine validator votes as it likes; proposals of correct proposers reach everybody or nobody; every explored transition is exported
SPECIFICATION Spec
CONSTANTS
  Guard = "AsRequired"
  Cmp = "id"
  Setups <- SetsOne
  Blocks <- BlocksTwo
  Seconds <- SecondsTwo
  MaxRound = 4
  MaxRestarts = 2
  Sched = "fixed"
  ByzVotes = "free"
  Loss = "all"
  Serve = "any"
INVARIANTS TypeOK VotesOnlyFullyValid PersistOnlyApplicable NoWedge
ACTION_CONSTRAINT Edge
VIEW View
CHECK_DEADLOCK FALSE
