\* thorough: two blocks of one Byzantine proposer - built in one round (it shows B to some and B2 to others) or in rounds 0 and 4 with the rounds of the correct proposers in between - the second one unrelated to the first or its twin (same header, other body); the Byzantine validator votes as it likes; a proposal of a correct proposer reaches everybody or nobody; every explored transition is exported
SPECIFICATION Spec
CONSTANTS
  Guard = "AsRequired"
  Cmp = "id"
  Setups <- SetsOne
  Blocks <- BlocksTwo
  Seconds <- SecondsTwo
  MaxRound = 4
  MaxRestarts = 2
  Sched = "fixed"
  ByzVotes = "free"
  Loss = "all"
  Serve = "any"
  Equiv = TRUE
INVARIANTS TypeOK VotesOnlyFullyValid PersistOnlyApplicable NoWedge
ACTION_CONSTRAINT Edge
VIEW View
CHECK_DEADLOCK FALSE
