--------------------------- MODULE BlockValidity ---------------------------
(***************************************************************************)
(* The VALIDITY layer of linkchain's consensus (property C02): what a      *)
(* correct validator checks about a proposed block before it votes for it, *)
(* and what happens to a block that gathered a commit.                     *)
(*                                                                         *)
(* Code:  consensus/state.go   defaultDoPrevote, enterPrecommit (the       *)
(*                             "lock" branch), finalizeCommit              *)
(*        consensus/validation.go  validateBlock (reached only through     *)
(*                             consensus/execution.go ApplyBlock)          *)
(*        app/app.go           CheckBlock, CommitBlock                     *)
(*        node/node.go         NewNode, "rebuild status" (restart)         *)
(*                                                                         *)
(* One height, four validators of equal power: a Byzantine proposer of     *)
(* round 0 and three correct validators n1..n3.  The voting rounds are the *)
(* algorithm of spec/Consensus/ConsensusNode.tla reduced to what matters   *)
(* here (DoPrevote, EnterPrecommit, EnterCommit); this module adds what    *)
(* that one abstracts away: blocks have CONTENT, namely the set of clauses *)
(* of full validity they violate.                                          *)
(*                                                                         *)
(*   app         what LinkApplication.CheckBlock checks (height, time,     *)
(*               DataHash, ParentHash, special-tx signatures, the          *)
(*               execution result hashes StateHash/ReceiptHash/GasUsed)    *)
(*   ev          ConsensusState.checkBlockEvidence                         *)
(*   basic ..fve one per clause of validateBlock, in the order of the code *)
(*     basic       Block.ValidateBasic: NumTxs, LastCommitHash, shape of   *)
(*                 LastCommit, DataHash, EvidenceHash                      *)
(*     chain       Header.ChainID = status.ChainID                         *)
(*     height      Header.Height  = status.LastBlockHeight + 1             *)
(*     lastId      Header.LastBlockID = status.LastBlockID                 *)
(*     totalTxs    Header.TotalTxs = status.LastBlockTotalTx + len(txs)    *)
(*     consHash    Header.ConsensusHash = hash(status.ConsensusParams)     *)
(*     valHash     Header.ValidatorsHash = hash(status.Validators)         *)
(*     lastCommit  size of LastCommit and LastValidators.VerifyCommit      *)
(*     evFull      VerifyEvidence / VerifyFaultValEvidence of every item   *)
(*     fve         FaultValidatorsEvidence present exactly once (h > 1)    *)
(*                                                                         *)
(* The block "B" is the one the Byzantine proposer built (its class, the   *)
(* set of violated clauses, is `blk`); "G" is any block built by a correct *)
(* proposer (fully valid).  The Byzantine validator supports B with its    *)
(* prevote and precommit in every round (the strongest thing it can do     *)
(* with one key).                                                          *)
(*                                                                         *)
(* The guard evaluated before prevoting is a CONSTANT:                     *)
(*   AsCoded     checkBlockEvidence /\ CheckBlock       (the tree as it is) *)
(*   AsRequired  ValidateBlock /\ checkBlockEvidence /\ CheckBlock         *)
(* finalizeCommit is split as in the code:  CommitBlock (persist) .        *)
(* ApplyBlock (validateBlock; failure => cmn.Kill()) ; Restart re-runs     *)
(* ApplyBlock on the persisted block (node.NewNode).                       *)
(***************************************************************************)
EXTENDS Integers, Sequences, FiniteSets, TLC, Json

CONSTANTS Guard,        \* "AsCoded" | "AsRequired"
          Classes,      \* block classes the Byzantine proposer may build (sets of violated clauses)
          MaxRound,     \* rounds 0..MaxRound (round 0: Byzantine proposer, later rounds: correct proposers)
          MaxRestarts,  \* bound on restarts of a killed node
          Sched         \* "fixed": the driver's schedule n1 < n2 < n3 inside a phase | "free": any order

Clauses == {"app", "ev", "basic", "chain", "height", "lastId", "totalTxs",
            "consHash", "valHash", "lastCommit", "evFull", "fve"}
\* the clauses of validateBlock, in the order the code evaluates them
ValidateOrder == <<"basic", "chain", "height", "lastId", "totalTxs",
                   "consHash", "valHash", "lastCommit", "evFull", "fve">>
ValidateClauses == {ValidateOrder[i] : i \in 1..Len(ValidateOrder)}

Order  == <<"n1", "n2", "n3">>
N      == {Order[i] : i \in 1..3}
Idx(n) == CHOOSE i \in 1..3 : Order[i] = n
HonestProposer == "n1"            \* proposer of the rounds above 0 (the rotation is C17's business)
Rounds == 0..MaxRound

None  == "none"
Nil   == "nil"
NoBlk == {"-"}                    \* no Byzantine proposal yet (same shape as a class)

VARIABLES blk,    \* class of B
          node,   \* per correct validator: RoundState, application and status as far as C02 needs them
          last    \* label of the last action (output only; hidden by the VIEW)
vars == <<blk, node, last>>

Values == {None, Nil, "B", "G"}
Steps  == {"propose", "prevote", "precommit", "commit", "done", "failed"}

TypeOK ==
  /\ blk = NoBlk \/ blk \in Classes
  /\ \A n \in N :
       /\ node[n].round \in Rounds
       /\ node[n].step \in Steps
       /\ node[n].pb \in {None, "B", "G"} /\ node[n].lb \in {None, "B", "G"}
       /\ node[n].pv \in [Rounds -> Values] /\ node[n].pc \in [Rounds -> Values]
       /\ node[n].stored \in {None, "B", "G"}
       /\ node[n].applied \in BOOLEAN /\ node[n].killed \in BOOLEAN
       /\ node[n].restarts \in 0..MaxRestarts

InitNode == [round |-> 0, step |-> "propose",
             pb |-> None,                    \* complete ProposalBlock
             lb |-> None,                    \* LockedBlock
             pv |-> [r \in Rounds |-> None], \* own prevote / precommit per round
             pc |-> [r \in Rounds |-> None],
             stored |-> None,                \* block persisted by CommitBlock (block store, state, UTXO store)
             applied |-> FALSE,              \* ApplyBlock succeeded: the consensus status is at this height
             killed |-> FALSE,               \* the node called cmn.Kill()
             restarts |-> 0]

Init == /\ blk = NoBlk
        /\ node = [n \in N |-> InitNode]
        /\ last = [op |-> "init"]

(* ---- block validity ---------------------------------------------------- *)
Bad(v) == IF v = "B" THEN blk ELSE {}          \* clauses violated by value v

CheckBlockEvidence(v) == "ev" \notin Bad(v)     \* state.go checkBlockEvidence
CheckBlock(v)         == "app" \notin Bad(v)    \* app.go CheckBlock
ValidateBlock(v)      == Bad(v) \cap ValidateClauses = {}   \* validation.go validateBlock
FullyValid(v)         == Bad(v) = {}

\* the clause validateBlock reports (first failing one, in code order); "ok" if none
ValidateErr(c) ==
  LET F == {i \in 1..Len(ValidateOrder) : ValidateOrder[i] \in c}
  IN IF F = {} THEN "ok" ELSE ValidateOrder[CHOOSE i \in F : \A j \in F : i <= j]

\* what is evaluated before a block is prevoted (defaultDoPrevote) and before it is
\* locked and precommitted (enterPrecommit)
VoteGuard(v) ==
  CASE Guard = "AsCoded"    -> CheckBlockEvidence(v) /\ CheckBlock(v)
    [] Guard = "AsRequired" -> ValidateBlock(v) /\ CheckBlockEvidence(v) /\ CheckBlock(v)

(* ---- vote counting: 4 validators of power 1, +2/3 = 3 votes ------------ *)
Count(kind, v, r) ==
  Cardinality({n \in N : node[n][kind][r] = v}) + (IF v = "B" /\ blk # NoBlk THEN 1 ELSE 0)
Maj(kind, r) ==
  IF \E v \in {Nil, "B", "G"} : Count(kind, v, r) >= 3
  THEN CHOOSE v \in {Nil, "B", "G"} : Count(kind, v, r) >= 3
  ELSE None
AllVoted(kind, r) == \A n \in N : node[n][kind][r] # None

\* the driver's schedule inside a phase
Turn(n, Done(_)) == Sched = "free" \/ \A m \in N : Idx(m) < Idx(n) => Done(m)

(* ---- defaultDoPrevote -------------------------------------------------- *)
PrevoteOf(s) ==
  IF s.lb # None THEN s.lb                      \* locked: prevote the locked block
  ELSE IF s.pb = None THEN Nil                  \* no complete proposal block
  ELSE IF VoteGuard(s.pb) THEN s.pb ELSE Nil    \* the guard

DoPrevote(s) == [s EXCEPT !.pv[s.round] = PrevoteOf(s), !.step = "prevote"]

(* ---- finalizeCommit = assertions . CommitBlock . ApplyBlock ------------- *)
ApplyBlock(s) ==            \* execution.go ApplyBlock: validateBlock, then the status moves on
  IF ValidateBlock(s.stored)
  THEN [s EXCEPT !.applied = TRUE, !.step = "done"]
  ELSE [s EXCEPT !.killed = TRUE]               \* "Error on ApplyBlock": cmn.Kill(), still in RoundStepCommit

CommitBlock(s, v) == [s EXCEPT !.stored = v]    \* app.CommitBlock: block store, state, UTXO store

FinalizeCommit(s, v) ==
  IF ~(CheckBlockEvidence(v) /\ CheckBlock(v))
  THEN [s EXCEPT !.step = "failed"]             \* PanicConsensus("+2/3 committed an invalid block")
  ELSE ApplyBlock(CommitBlock(s, v))

(* ---- actions ----------------------------------------------------------- *)
\* The Byzantine proposer of round 0 builds B of class c (and signs a proposal for it).
ByzPropose(c) ==
  /\ blk = NoBlk
  /\ blk' = c
  /\ UNCHANGED node
  /\ last' = [op |-> "byzPropose", cls |-> c, verr |-> ValidateErr(c), n |-> "-", r |-> 0]

\* n receives the proposal and every part of B while in Propose: enterPrevote
RecvByz(n) ==
  /\ blk # NoBlk
  /\ node[n].round = 0 /\ node[n].step = "propose"
  /\ Turn(n, LAMBDA m : node[m].step # "propose")
  /\ node' = [node EXCEPT ![n] = DoPrevote([@ EXCEPT !.pb = "B"])]
  /\ UNCHANGED blk
  /\ last' = [op |-> "recvByz", cls |-> blk, verr |-> "-", n |-> n, r |-> 0]

\* n's propose timeout fires before B arrives (the proposer may serve any subset): prevote nil
TimeoutPropose(n) ==
  /\ blk # NoBlk
  /\ node[n].round = 0 /\ node[n].step = "propose"
  /\ Turn(n, LAMBDA m : node[m].step # "propose")
  /\ node' = [node EXCEPT ![n] = DoPrevote(@)]
  /\ UNCHANGED blk
  /\ last' = [op |-> "timeoutPropose", cls |-> blk, verr |-> "-", n |-> n, r |-> 0]

\* rounds above 0: the correct proposer's block (its locked block, else a new one) reaches n
HonestValue == IF node[HonestProposer].lb # None THEN node[HonestProposer].lb ELSE "G"
RecvHonest(n, r) ==
  /\ r > 0 /\ node[n].round = r /\ node[n].step = "propose"
  /\ \A m \in N : node[m].round = r \/ node[m].step \in {"done", "failed"} \/ node[m].killed
  /\ Turn(n, LAMBDA m : ~(node[m].round = r /\ node[m].step = "propose"))
  /\ node' = [node EXCEPT ![n] = DoPrevote([@ EXCEPT !.pb = HonestValue])]
  /\ UNCHANGED blk
  /\ last' = [op |-> "recvHonest", cls |-> blk, verr |-> "-", n |-> n, r |-> r]

\* every prevote of round r (the Byzantine one included) reaches n: enterPrecommit
RecvPrevotes(n, r) ==
  /\ node[n].round = r /\ node[n].step = "prevote"
  /\ AllVoted("pv", r)
  /\ Turn(n, LAMBDA m : node[m].pc[r] # None)
  /\ LET s == node[n]
         polka == Maj("pv", r)
         PC(x, v) == [x EXCEPT !.pc[r] = v, !.step = "precommit"]
         s2 == IF polka = None THEN PC(s, Nil)                         \* no polka (after PrevoteWait)
               ELSE IF polka = Nil THEN PC([s EXCEPT !.lb = None], Nil) \* +2/3 nil: unlock
               ELSE IF s.lb = polka THEN PC(s, polka)                  \* relock
               ELSE IF s.pb = polka
                    THEN IF VoteGuard(polka)
                         THEN PC([s EXCEPT !.lb = polka], polka)       \* lock and precommit
                         ELSE [s EXCEPT !.step = "failed"]             \* PanicConsensus("+2/3 prevoted for an invalid block")
               ELSE PC([s EXCEPT !.lb = None, !.pb = None], Nil)       \* polka for a block n lacks: fetch it
     IN node' = [node EXCEPT ![n] = s2]
  /\ UNCHANGED blk
  /\ last' = [op |-> "recvPrevotes", cls |-> blk, verr |-> "-", n |-> n, r |-> r]

\* every precommit of round r reaches n: enterCommit (+ finalizeCommit when n holds the block),
\* or the next round
RecvPrecommits(n, r) ==
  /\ node[n].round = r /\ node[n].step = "precommit"
  /\ \A m \in N : node[m].pc[r] # None \/ node[m].step = "failed"
  /\ Turn(n, LAMBDA m : ~(node[m].round = r /\ node[m].step = "precommit"))
  /\ LET s == node[n]
         maj == Maj("pc", r)
         s2 == IF maj \in {"B", "G"}
               THEN LET s1 == IF s.lb = maj THEN [s EXCEPT !.pb = s.lb] ELSE s     \* enterCommit
                    IN IF s1.pb = maj THEN FinalizeCommit([s1 EXCEPT !.step = "commit"], maj)
                       ELSE [s1 EXCEPT !.step = "commit", !.pb = None]             \* wait for the block
               ELSE IF r < MaxRound
                    THEN [s EXCEPT !.round = r + 1, !.step = "propose", !.pb = None]  \* enterNewRound
                    ELSE s
     IN /\ s2 # s
        /\ node' = [node EXCEPT ![n] = s2]
  /\ UNCHANGED blk
  /\ last' = [op |-> "recvPrecommits", cls |-> blk, verr |-> "-", n |-> n, r |-> r]

\* n is in Commit without the block: the parts arrive, tryFinalizeCommit
FetchBlock(n) ==
  /\ node[n].step = "commit" /\ node[n].pb = None /\ node[n].stored = None
  /\ LET maj == Maj("pc", node[n].round)
     IN /\ maj \in {"B", "G"}
        /\ node' = [node EXCEPT ![n] = FinalizeCommit([@ EXCEPT !.pb = maj], maj)]
  /\ UNCHANGED blk
  /\ last' = [op |-> "fetchBlock", cls |-> blk, verr |-> "-", n |-> n, r |-> node[n].round]

\* a killed node is started again: NewNode finds the application one block ahead of the
\* consensus status and re-runs ApplyBlock on the stored block
Restart(n) ==
  /\ node[n].killed /\ node[n].restarts < MaxRestarts
  /\ node' = [node EXCEPT ![n] = ApplyBlock([@ EXCEPT !.restarts = @ + 1])]
  /\ UNCHANGED blk
  /\ last' = [op |-> "restart", cls |-> blk, verr |-> "-", n |-> n, r |-> node[n].round]

Next ==
  \/ \E c \in Classes : ByzPropose(c)
  \/ \E n \in N : \/ RecvByz(n)
                  \/ TimeoutPropose(n)
                  \/ FetchBlock(n)
                  \/ Restart(n)
                  \/ \E r \in Rounds : \/ RecvHonest(n, r)
                                       \/ RecvPrevotes(n, r)
                                       \/ RecvPrecommits(n, r)

Spec     == Init /\ [][Next]_vars
FairSpec == Spec /\ WF_vars(Next)

(* ---- the property ------------------------------------------------------ *)
\* a correct validator never prevotes or precommits a block that is not fully valid
VotesOnlyFullyValid ==
  \A n \in N : \A r \in Rounds :
    /\ node[n].pv[r] \in {"B", "G"} => FullyValid(node[n].pv[r])
    /\ node[n].pc[r] \in {"B", "G"} => FullyValid(node[n].pc[r])

\* no correct node persists a block it cannot apply
PersistOnlyApplicable == \A n \in N : node[n].stored # None => ValidateBlock(node[n].stored)

\* no correct node asks to be killed or fails
NoWedge == \A n \in N : ~node[n].killed /\ node[n].step # "failed"

\* every correct node ends the height with a block applied (under the synchronous schedule)
ChainContinues == <>(\A n \in N : node[n].applied)

\* (AsCoded only) a restart does not help: once killed, always killed
WedgeIsPermanent == [][\A n \in N : node[n].killed => node'[n].killed]_vars

(* ---- export -------------------------------------------------------------- *)
Proj == [blk |-> blk, node |-> node]
View == <<blk, node>>
Edge == PrintT(ToJson([from |-> Proj, act |-> last', to |-> Proj']))
=============================================================================
