--------------------------- MODULE BlockValidity ---------------------------
(***************************************************************************)
(* The VALIDITY layer of linkchain's consensus (property C02): what a      *)
(* correct validator checks about a proposed block before it votes for it, *)
(* and what happens to a block that gathered a commit.                     *)
(*                                                                         *)
(* Code:  consensus/state.go   defaultDoPrevote, enterPrecommit (the       *)
(*                             "lock" branch), enterCommit, finalizeCommit, *)
(*                             addVote (valid block), defaultDecideProposal *)
(*        consensus/validation.go  validateBlock                           *)
(*        types/validator_set.go   VerifyCommit (the +2/3 of a LastCommit) *)
(*        types/vote_set.go        the +2/3 of the votes of a round        *)
(*        app/app.go           CheckBlock, CommitBlock                     *)
(*        node/node.go         NewNode, "rebuild status" (restart)         *)
(*                                                                         *)
(* One height.  The validator set is chosen by the first action (Genesis): *)
(* one Byzantine validator of power bp (< 1/3 of the total) and correct    *)
(* validators n1..nk of powers pw[1..k]; prop[r+1] is the proposer of      *)
(* round r.  "More than two thirds" is the exact comparison                *)
(* 3 * power > 2 * total, for the votes of a round and for the precommits  *)
(* carried in a block's LastCommit alike.                                  *)
(*                                                                         *)
(* Blocks have CONTENT:                                                    *)
(*   c     the set of clauses of full validity they violate by             *)
(*         construction (see Clauses below),                               *)
(*   lcp   the voting power of the previous validators whose precommits    *)
(*         their LastCommit carries (the proposer may drop precommits of   *)
(*         the commit it saw): the clause "lastCommit" is DERIVED from it, *)
(*   and an identity: the Byzantine proposer builds a first block "B" and  *)
(*   possibly a second one "B2", in the same round or in a later round in  *)
(*   which it is the proposer again; B2 is either unrelated to B ("fresh") *)
(*   or B's "twin": the SAME HEADER (so the same Block.Hash()) with        *)
(*   another body (so another part-set header and another BlockID).        *)
(*   "G<r>" is the block a correct proposer builds in round r.             *)
(*                                                                         *)
(*   app         what LinkApplication.CheckBlock checks (height, time,     *)
(*               DataHash, ParentHash, special-tx signatures, the          *)
(*               execution result hashes StateHash/ReceiptHash/GasUsed)    *)
(*   ev          ConsensusState.checkBlockEvidence                         *)
(*   basic ..fve one per clause of validateBlock, in the order of the code *)
(*     basic       Block.ValidateBasic: NumTxs, LastCommitHash, shape of   *)
(*                 LastCommit, DataHash, EvidenceHash (the body belongs to *)
(*                 the header)                                             *)
(*     chain       Header.ChainID = status.ChainID                         *)
(*     height      Header.Height  = status.LastBlockHeight + 1             *)
(*     lastId      Header.LastBlockID = status.LastBlockID                 *)
(*     totalTxs    Header.TotalTxs = status.LastBlockTotalTx + len(txs)    *)
(*     consHash    Header.ConsensusHash = hash(status.ConsensusParams)     *)
(*     valHash     Header.ValidatorsHash = hash(status.Validators)         *)
(*     lastCommit  size of LastCommit and LastValidators.VerifyCommit      *)
(*     evFull      VerifyEvidence / VerifyFaultValEvidence of every item   *)
(*     fve         FaultValidatorsEvidence present exactly once (h > 1)    *)
(*                                                                         *)
(* Two things are CONSTANTS so that the tree as it is and the tree as      *)
(* the property requires it are instances of one module:                   *)
(*   Guard  what is evaluated before a block is prevoted / locked          *)
(*     AsCoded     checkBlockEvidence /\ CheckBlock  (before ef885bb)      *)
(*     AsRequired  ValidateBlock /\ checkBlockEvidence /\ CheckBlock       *)
(*   Cmp    how "the block I hold is the block that was voted" is decided  *)
(*     hash        Block.HashesTo(blockID.Hash): the header only           *)
(*     id          the whole BlockID (header hash and part-set header)     *)
(* finalizeCommit is split as in the code:  CommitBlock (persist) .        *)
(* ApplyBlock (validateBlock; failure => cmn.Kill()) ; Restart re-runs     *)
(* ApplyBlock on the persisted block (node.NewNode).                       *)
(***************************************************************************)
EXTENDS Integers, Sequences, FiniteSets, TLC, Json

CONSTANTS Guard,         \* "AsCoded" | "AsRequired"
          Cmp,           \* "hash" | "id"
          Setups,        \* validator sets: [id, bp, pw, prop]
          Blocks(_),     \* setup -> the first blocks the Byzantine proposer may build there: [c, lcp]
          Seconds(_, _), \* (setup, first block) -> second blocks: [rel, c, lcp, r] (r: the round it is built in)
          MaxRound,      \* rounds 0..MaxRound
          MaxRestarts,   \* bound on restarts of a killed node
          Sched,         \* "fixed": the driver's schedule inside a phase | "free": any order
          ByzVotes,      \* "support": the Byzantine validator votes for B in every round | "free": it chooses
          Loss,          \* proposals of correct proposers: "none" is lost | "all" (each reaches everybody or nobody) |
                         \* "every" one is lost (only the proposer itself has it) | "any"
          Serve,         \* whom the Byzantine proposer serves: "any" subset | "prefix" (of more than three
                         \* correct validators: n1..nj for some j)
          Equiv          \* TRUE: in one round the Byzantine proposer may show B to some and B2 to others

Clauses == {"app", "ev", "basic", "chain", "height", "lastId", "totalTxs",
            "consHash", "valHash", "lastCommit", "evFull", "fve"}
\* the clauses of validateBlock, in the order the code evaluates them
ValidateOrder == <<"basic", "chain", "height", "lastId", "totalTxs",
                   "consHash", "valHash", "lastCommit", "evFull", "fve">>
ValidateClauses == {ValidateOrder[i] : i \in 1..Len(ValidateOrder)}

Names  == <<"n1", "n2", "n3", "n4", "n5", "n6", "n7">>
GNames == <<"G1", "G2", "G3", "G4", "G5", "G6">>
Rounds == 0..MaxRound
Byz    == "byz"

None  == "none"
Nil   == "nil"
ByzVals == {"B", "B2"}
GVals   == {GNames[r] : r \in 1..MaxRound}
BlockVals == ByzVals \cup GVals
Values == {None, Nil} \cup BlockVals

NoSetup == [id |-> "-", bp |-> 0, pw |-> <<>>, prop |-> <<>>]
NoBlk   == [c |-> {"-"}, lcp |-> -1, rel |-> "-", r |-> -1]   \* not built (same shape as a block)

VARIABLES vs,     \* the validator set (a member of Setups; NoSetup before Genesis)
          blk,    \* B
          blk2,   \* B2
          byz,    \* the Byzantine validator's prevote / precommit per round (ByzVotes = "free")
          hp,     \* what the correct proposer of round r proposed
          node,   \* per correct validator: RoundState, application and status as far as C02 needs them
          last    \* label of the last action (output only; hidden by the VIEW)
vars == <<vs, blk, blk2, byz, hp, node, last>>

(* ---- the validator set --------------------------------------------------- *)
K      == Len(vs.pw)
N      == {Names[i] : i \in 1..K}
Idx(n) == CHOOSE i \in 1..K : Names[i] = n
Pw(n)  == vs.pw[Idx(n)]
RECURSIVE SumSeq(_)
SumSeq(s) == IF s = <<>> THEN 0 ELSE Head(s) + SumSeq(Tail(s))
Total  == vs.bp + SumSeq(vs.pw)
\* "more than two thirds of the voting power" - vote sets and commits alike
TwoThirds(p) == 3 * p > 2 * Total
Prop(r) == vs.prop[r + 1]          \* Byz or a correct validator

Steps  == {"propose", "prevote", "precommit", "commit", "done", "failed"}

InitNode == [round |-> 0, step |-> "propose",
             pb |-> None,                    \* complete ProposalBlock
             lb |-> None,                    \* LockedBlock
             vb |-> None,                    \* ValidBlock
             pv |-> [r \in Rounds |-> None], \* own prevote / precommit per round
             pc |-> [r \in Rounds |-> None],
             stored |-> None,                \* block persisted by CommitBlock (block store, state, UTXO store)
             applied |-> FALSE,              \* ApplyBlock succeeded: the consensus status is at this height
             killed |-> FALSE,               \* the node called cmn.Kill()
             restarts |-> 0]

NoVotes == [pv |-> [r \in Rounds |-> None], pc |-> [r \in Rounds |-> None]]

TypeOK ==
  /\ vs = NoSetup \/ vs \in Setups
  /\ blk = NoBlk \/ (blk.c \subseteq Clauses /\ blk.lcp \in 0..Total)
  /\ blk2 = NoBlk \/ (blk2.c \subseteq Clauses /\ blk2.lcp \in 0..Total /\ blk2.rel \in {"twin", "fresh"} /\ blk2.r \in Rounds)
  /\ \A k \in {"pv", "pc"} : byz[k] \in [Rounds -> {None, Nil} \cup ByzVals]
  /\ hp \in [Rounds -> {None} \cup BlockVals]
  /\ DOMAIN node = N
  /\ \A n \in N :
       /\ node[n].round \in Rounds
       /\ node[n].step \in Steps
       /\ node[n].pb \in {None} \cup BlockVals /\ node[n].lb \in {None} \cup BlockVals
       /\ node[n].vb \in {None} \cup BlockVals
       /\ node[n].pv \in [Rounds -> Values] /\ node[n].pc \in [Rounds -> Values]
       /\ node[n].stored \in {None} \cup BlockVals
       /\ node[n].applied \in BOOLEAN /\ node[n].killed \in BOOLEAN
       /\ node[n].restarts \in 0..MaxRestarts

Lbl(op, n, r, v) == [op |-> op, n |-> n, r |-> r, v |-> v, cls |-> {"-"}, verr |-> "-", lcp |-> -1, rel |-> "-", setup |-> "-"]

Init == /\ vs = NoSetup
        /\ blk = NoBlk /\ blk2 = NoBlk
        /\ byz = NoVotes
        /\ hp = [r \in Rounds |-> None]
        /\ node = <<>>
        /\ last = Lbl("init", "-", 0, None)

(* ---- block content -------------------------------------------------------- *)
Block(v) == IF v = "B" THEN blk ELSE blk2
Built(v) == v \in ByzVals /\ Block(v) # NoBlk

\* clauses violated by a block of content b: the declared ones, and the previous commit's power
BadOf(b) == b.c \cup (IF TwoThirds(b.lcp) THEN {} ELSE {"lastCommit"})
Bad(v)   == IF v \in ByzVals THEN BadOf(Block(v)) ELSE {}       \* correct proposers build valid blocks

CheckBlockEvidence(v) == "ev" \notin Bad(v)     \* state.go checkBlockEvidence
CheckBlock(v)         == "app" \notin Bad(v)    \* app.go CheckBlock
ValidateBlock(v)      == Bad(v) \cap ValidateClauses = {}   \* validation.go validateBlock
FullyValid(v)         == Bad(v) = {}

\* the clause validateBlock reports (first failing one, in code order); "ok" if none
ValidateErr(c) ==
  LET F == {i \in 1..Len(ValidateOrder) : ValidateOrder[i] \in c}
  IN IF F = {} THEN "ok" ELSE ValidateOrder[CHOOSE i \in F : \A j \in F : i <= j]

\* what is evaluated before a block is prevoted (defaultDoPrevote) and before it is
\* locked and precommitted (enterPrecommit)
VoteGuard(v) ==
  CASE Guard = "AsCoded"    -> CheckBlockEvidence(v) /\ CheckBlock(v)
    [] Guard = "AsRequired" -> ValidateBlock(v) /\ CheckBlockEvidence(v) /\ CheckBlock(v)

\* Block.Hash() is the hash of the header: a twin shares it with B
HashOf(v) == IF v = "B2" /\ blk2.rel = "twin" THEN "B" ELSE v
\* "the block v I hold is the block w that gathered the votes"
Matches(v, w) ==
  /\ v # None /\ w \notin {None, Nil}
  /\ CASE Cmp = "id"   -> v = w
       [] Cmp = "hash" -> HashOf(v) = HashOf(w)

(* ---- vote counting --------------------------------------------------------- *)
Active(n) == node[n].step \notin {"done", "failed"} /\ ~node[n].killed

ByzVoteOf(kind, r) ==
  IF ByzVotes = "support" THEN (IF blk # NoBlk THEN "B" ELSE None)
  ELSE IF Prop(r) # Byz THEN Nil           \* rounds of correct proposers: it stays out
  ELSE byz[kind][r]
ByzDecided(kind, r) == ByzVotes = "support" \/ ByzVoteOf(kind, r) # None

RECURSIVE PowerOf(_)
PowerOf(S) == IF S = {} THEN 0 ELSE LET n == CHOOSE m \in S : TRUE IN Pw(n) + PowerOf(S \ {n})
Count(kind, v, r) ==
  PowerOf({n \in N : node[n][kind][r] = v}) + (IF ByzVoteOf(kind, r) = v THEN vs.bp ELSE 0)
\* VoteSet.TwoThirdsMajority: votes are counted per BlockID (a twin is another BlockID)
Maj(kind, r) ==
  LET W == {v \in {Nil} \cup BlockVals : TwoThirds(Count(kind, v, r))}
  IN IF W = {} THEN None ELSE CHOOSE v \in W : TRUE
AllVoted(kind, r) == \A n \in N : node[n][kind][r] # None \/ node[n].step = "failed"

\* the driver's schedule inside a phase: the proposer of the round first, then n1 < n2 < ...
Ord(n, r) == IF n = Prop(r) THEN 0 ELSE Idx(n)
Turn(n, r, Done(_)) == Sched = "free" \/ \A m \in N : Ord(m, r) < Ord(n, r) => Done(m)
\* everybody has reached round r (or has left the height)
AllAt(r) == \A m \in N : node[m].round = r \/ ~Active(m)
InPropose(n, r) == Active(n) /\ node[n].round = r /\ node[n].step = "propose"
LeftPropose(m, r) == ~InPropose(m, r)

(* ---- defaultDoPrevote -------------------------------------------------- *)
PrevoteOf(s) ==
  IF s.lb # None THEN s.lb                      \* locked: prevote the locked block
  ELSE IF s.pb = None THEN Nil                  \* no complete proposal block
  ELSE IF VoteGuard(s.pb) THEN s.pb ELSE Nil    \* the guard

DoPrevote(s) == [s EXCEPT !.pv[s.round] = PrevoteOf(s), !.step = "prevote"]

(* ---- finalizeCommit = assertions . CommitBlock . ApplyBlock ------------- *)
ApplyBlock(s) ==            \* execution.go ApplyBlock: validateBlock, then the status moves on
  IF ValidateBlock(s.stored)
  THEN [s EXCEPT !.applied = TRUE, !.step = "done"]
  ELSE [s EXCEPT !.killed = TRUE]               \* "Error on ApplyBlock": cmn.Kill(), still in RoundStepCommit

CommitBlock(s, v) == [s EXCEPT !.stored = v]    \* app.CommitBlock: block store, state, UTXO store

\* s.pb is the block held, id the BlockID that gathered +2/3 precommits
FinalizeCommit(s, id) ==
  IF s.pb # id
  THEN [s EXCEPT !.step = "failed"]             \* PanicSanity("Expected ProposalBlockParts header to be commit header")
  ELSE IF ~(CheckBlockEvidence(s.pb) /\ CheckBlock(s.pb))
  THEN [s EXCEPT !.step = "failed"]             \* PanicConsensus("+2/3 committed an invalid block")
  ELSE ApplyBlock(CommitBlock(s, s.pb))

(* ---- actions ----------------------------------------------------------- *)
\* the chain is set up with validator set s
Genesis(s) ==
  /\ vs = NoSetup
  /\ vs' = s
  /\ node' = [n \in {Names[i] : i \in 1..Len(s.pw)} |-> InitNode]
  /\ UNCHANGED <<blk, blk2, byz, hp>>
  /\ last' = [Lbl("genesis", "-", 0, None) EXCEPT !.setup = s.id]

\* The Byzantine proposer of round 0 builds B (and signs a proposal for it).
ByzPropose(b) ==
  /\ vs # NoSetup /\ blk = NoBlk
  /\ blk' = [c |-> b.c, lcp |-> b.lcp, rel |-> "first", r |-> 0]
  /\ UNCHANGED <<vs, blk2, byz, hp, node>>
  /\ last' = [Lbl("byzPropose", "-", 0, "B") EXCEPT !.cls = b.c, !.lcp = b.lcp,
                                                   !.verr = ValidateErr(BadOf(b)), !.rel = "first"]

\* In a round r in which it is the proposer (again), before it serves anybody, the Byzantine
\* validator builds a second block: unrelated to B, or B's header with another body.
ByzBuild2(b) ==
  /\ blk # NoBlk /\ blk2 = NoBlk
  /\ b.r \in Rounds /\ Prop(b.r) = Byz
  /\ \E n \in N : Active(n)
  /\ \A n \in N : Active(n) => InPropose(n, b.r)
  /\ blk2' = [c |-> b.c, lcp |-> b.lcp, rel |-> b.rel, r |-> b.r]
  /\ UNCHANGED <<vs, blk, byz, hp, node>>
  /\ last' = [Lbl("byzBuild2", "-", b.r, "B2") EXCEPT !.cls = b.c, !.lcp = b.lcp,
                                                     !.verr = ValidateErr(BadOf(b)), !.rel = b.rel]

\* n receives the Byzantine proposer's proposal for block v and every part of it while in
\* Propose: enterPrevote.  (In one round the proposer may show B to some and B2 to others.)
RecvByz(n, v) ==
  /\ Built(v)
  /\ LET r == node[n].round
     IN /\ Prop(r) = Byz /\ InPropose(n, r) /\ AllAt(r)
        /\ Turn(n, r, LAMBDA m : LeftPropose(m, r))
        /\ (Serve = "prefix" /\ K > 3) => \A m \in N : (Idx(m) < Idx(n) /\ Active(m)) => node[m].pb # None
        /\ ~Equiv => \A m \in N : (Active(m) /\ node[m].round = r /\ node[m].pb \in ByzVals) => node[m].pb = v
        /\ node' = [node EXCEPT ![n] = DoPrevote([@ EXCEPT !.pb = v])]
        /\ last' = [Lbl("recvByz", n, r, v) EXCEPT !.cls = Block(v).c]
  /\ UNCHANGED <<vs, blk, blk2, byz, hp>>

\* n's propose timeout fires before anything arrives (the proposer may serve any subset): prevote nil / the locked block
TimeoutPropose(n) ==
  /\ blk # NoBlk
  /\ LET r == node[n].round
     IN /\ Prop(r) = Byz /\ InPropose(n, r) /\ AllAt(r)
        /\ Turn(n, r, LAMBDA m : LeftPropose(m, r))
        /\ node' = [node EXCEPT ![n] = DoPrevote(@)]
        /\ last' = [Lbl("timeoutPropose", n, r, None) EXCEPT !.cls = blk.c]
  /\ UNCHANGED <<vs, blk, blk2, byz, hp>>

\* rounds of a correct proposer p: defaultDecideProposal - its locked block, else its valid
\* block, else a new one; it handles its own proposal: enterPrevote
OwnProposal(p, r) ==
  /\ Prop(r) = p /\ p \in N /\ InPropose(p, r) /\ AllAt(r)
  /\ hp[r] = None
  /\ LET s == node[p]
         v == IF s.lb # None THEN s.lb ELSE IF s.vb # None THEN s.vb ELSE GNames[r]
     IN /\ hp' = [hp EXCEPT ![r] = v]
        /\ node' = [node EXCEPT ![p] = DoPrevote([s EXCEPT !.pb = v])]
        /\ last' = Lbl("ownProposal", p, r, v)
  /\ UNCHANGED <<vs, blk, blk2, byz>>

\* the non-proposers of round r that have been dealt with in the propose phase
Dealt(r) == {m \in N : m # Prop(r) /\ node[m].round = r /\ node[m].step # "propose"}

\* ... the correct proposer's proposal and block reach n
RecvHonest(n, r) ==
  /\ Prop(r) \in N /\ n # Prop(r) /\ InPropose(n, r) /\ AllAt(r)
  /\ hp[r] # None /\ Loss # "every"
  /\ Turn(n, r, LAMBDA m : LeftPropose(m, r))
  /\ Loss = "all" => \A m \in Dealt(r) : node[m].pb # None
  /\ node' = [node EXCEPT ![n] = DoPrevote([@ EXCEPT !.pb = hp[r]])]
  /\ UNCHANGED <<vs, blk, blk2, byz, hp>>
  /\ last' = Lbl("recvHonest", n, r, hp[r])

\* ... or they are lost and n's propose timeout fires
TimeoutHonest(n, r) ==
  /\ Prop(r) \in N /\ n # Prop(r) /\ InPropose(n, r) /\ AllAt(r)
  /\ \/ hp[r] # None /\ Loss # "none"
     \/ ~Active(Prop(r))
  /\ Turn(n, r, LAMBDA m : LeftPropose(m, r))
  /\ Loss = "all" => \A m \in Dealt(r) : node[m].pb = None
  /\ node' = [node EXCEPT ![n] = DoPrevote(@)]
  /\ UNCHANGED <<vs, blk, blk2, byz, hp>>
  /\ last' = Lbl("timeoutHonest", n, r, None)

\* the Byzantine validator's vote of a round in which it is the proposer, sent to everybody
\* once the correct validators have voted: nil or one of its blocks
ByzVote(kind, r, v) ==
  /\ ByzVotes = "free" /\ vs # NoSetup /\ Prop(r) = Byz /\ byz[kind][r] = None
  /\ v = Nil \/ Built(v)
  /\ \E n \in N : Active(n) /\ node[n].round = r
  /\ AllAt(r) /\ AllVoted(kind, r)
  /\ kind = "pc" => byz["pv"][r] # None /\ v \in {Nil, byz["pv"][r]}
  /\ byz' = [byz EXCEPT ![kind][r] = v]
  /\ UNCHANGED <<vs, blk, blk2, hp, node>>
  /\ last' = Lbl(IF kind = "pv" THEN "byzPrevote" ELSE "byzPrecommit", "-", r, v)

\* every prevote of round r (the Byzantine one included) reaches n: addVote, enterPrecommit
RecvPrevotes(n, r) ==
  /\ Active(n) /\ node[n].round = r /\ node[n].step = "prevote"
  /\ AllVoted("pv", r) /\ ByzDecided("pv", r)
  /\ Turn(n, r, LAMBDA m : node[m].pc[r] # None \/ ~Active(m))
  /\ LET s == node[n]
         polka == Maj("pv", r)
         \* addVote: a polka for the proposal block makes it the valid block (ValidRound starts at 0: not in round 0)
         s0 == IF r > 0 /\ Matches(s.pb, polka) THEN [s EXCEPT !.vb = s.pb] ELSE s
         PC(x, v) == [x EXCEPT !.pc[r] = v, !.step = "precommit"]
         s2 == IF polka = None THEN PC(s0, Nil)                          \* no polka (after PrevoteWait)
               ELSE IF polka = Nil THEN PC([s0 EXCEPT !.lb = None], Nil) \* +2/3 nil: unlock
               ELSE IF Matches(s0.lb, polka) THEN PC(s0, polka)          \* relock
               ELSE IF Matches(s0.pb, polka)
                    THEN IF VoteGuard(s0.pb)
                         THEN PC([s0 EXCEPT !.lb = s0.pb], polka)        \* lock and precommit
                         ELSE [s0 EXCEPT !.step = "failed"]              \* PanicConsensus("+2/3 prevoted for an invalid block")
               ELSE PC([s0 EXCEPT !.lb = None, !.pb = None], Nil)        \* polka for a block n lacks: fetch it
     IN node' = [node EXCEPT ![n] = s2]
  /\ UNCHANGED <<vs, blk, blk2, byz, hp>>
  /\ last' = Lbl("recvPrevotes", n, r, Maj("pv", r))

\* every precommit of round r reaches n: enterCommit (+ finalizeCommit when n holds the block),
\* or the next round
RecvPrecommits(n, r) ==
  /\ Active(n) /\ node[n].round = r /\ node[n].step = "precommit"
  /\ AllVoted("pc", r) /\ ByzDecided("pc", r)
  /\ Turn(n, r, LAMBDA m : ~(Active(m) /\ node[m].round = r /\ node[m].step = "precommit"))
  /\ LET s == node[n]
         maj == Maj("pc", r)
         s2 == IF maj \in BlockVals
               THEN LET s1 == IF Matches(s.lb, maj) THEN [s EXCEPT !.pb = s.lb] ELSE s     \* enterCommit
                    IN IF Matches(s1.pb, maj) THEN FinalizeCommit([s1 EXCEPT !.step = "commit"], maj)
                       ELSE [s1 EXCEPT !.step = "commit", !.pb = None]                     \* wait for the block
               ELSE IF r < MaxRound
                    THEN [s EXCEPT !.round = r + 1, !.step = "propose", !.pb = None]       \* enterNewRound
                    ELSE s
     IN /\ s2 # s
        /\ node' = [node EXCEPT ![n] = s2]
  /\ UNCHANGED <<vs, blk, blk2, byz, hp>>
  /\ last' = Lbl("recvPrecommits", n, r, Maj("pc", r))

\* n is in Commit without the block: the parts arrive, tryFinalizeCommit
FetchBlock(n) ==
  /\ Active(n) /\ node[n].step = "commit" /\ node[n].pb = None /\ node[n].stored = None
  /\ LET maj == Maj("pc", node[n].round)
     IN /\ maj \in BlockVals
        /\ node' = [node EXCEPT ![n] = FinalizeCommit([@ EXCEPT !.pb = maj], maj)]
        /\ last' = Lbl("fetchBlock", n, node[n].round, maj)
  /\ UNCHANGED <<vs, blk, blk2, byz, hp>>

\* a killed node is started again: NewNode finds the application one block ahead of the
\* consensus status and re-runs ApplyBlock on the stored block
Restart(n) ==
  /\ node[n].killed /\ node[n].restarts < MaxRestarts
  /\ node' = [node EXCEPT ![n] = ApplyBlock([@ EXCEPT !.restarts = @ + 1])]
  /\ UNCHANGED <<vs, blk, blk2, byz, hp>>
  /\ last' = Lbl("restart", n, node[n].round, None)

Next ==
  \/ \E s \in Setups : Genesis(s)
  \/ vs # NoSetup /\ \E b \in Blocks(vs) : ByzPropose(b)
  \/ blk # NoBlk /\ \E b \in Seconds(vs, [c |-> blk.c, lcp |-> blk.lcp]) : ByzBuild2(b)
  \/ \E kind \in {"pv", "pc"} : \E r \in Rounds : \E v \in {Nil} \cup ByzVals : ByzVote(kind, r, v)
  \/ \E n \in N : \/ \E v \in ByzVals : RecvByz(n, v)
                  \/ TimeoutPropose(n)
                  \/ FetchBlock(n)
                  \/ Restart(n)
                  \/ \E r \in Rounds : \/ OwnProposal(n, r)
                                       \/ RecvHonest(n, r)
                                       \/ TimeoutHonest(n, r)
                                       \/ RecvPrevotes(n, r)
                                       \/ RecvPrecommits(n, r)

Spec     == Init /\ [][Next]_vars
FairSpec == Spec /\ WF_vars(Next)

(* ---- the property ------------------------------------------------------ *)
\* a correct validator never prevotes or precommits a block that is not fully valid
VotesOnlyFullyValid ==
  \A n \in N : \A r \in Rounds :
    /\ node[n].pv[r] \in BlockVals => FullyValid(node[n].pv[r])
    /\ node[n].pc[r] \in BlockVals => FullyValid(node[n].pc[r])

\* no correct node persists a block it cannot apply
PersistOnlyApplicable == \A n \in N : node[n].stored # None => ValidateBlock(node[n].stored)

\* no correct node asks to be killed or fails
NoWedge == \A n \in N : ~node[n].killed /\ node[n].step # "failed"

\* every correct node ends the height with a block applied (under the synchronous schedule)
ChainContinues == <>(vs # NoSetup /\ \A n \in N : node[n].applied)

\* (AsCoded only) a restart does not help: once killed, always killed
WedgeIsPermanent == [][\A n \in N : (vs # NoSetup /\ node[n].killed) => node'[n].killed]_vars

(* ---- export -------------------------------------------------------------- *)
Proj == [setup |-> vs.id, blk |-> blk, blk2 |-> blk2, byz |-> byz, hp |-> hp, node |-> node]
View == <<vs, blk, blk2, byz, hp, node>>
Edge == PrintT(ToJson([from |-> Proj, act |-> last', to |-> Proj']))
=============================================================================
