\* the property holds when full validation guards the vote; every explored transition is exported
SPECIFICATION Spec
CONSTANTS
  Guard = "AsRequired"
  Classes <- Quick
  MaxRound = 1
  MaxRestarts = 2
  Sched = "fixed"
INVARIANTS TypeOK VotesOnlyFullyValid PersistOnlyApplicable NoWedge
ACTION_CONSTRAINT Edge
VIEW View
CHECK_DEADLOCK FALSE
