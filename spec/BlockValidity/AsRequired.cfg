\* quick: the property holds when full validation guards the vote - every block class of up to two violated clauses on four equal validators, and previous commits exactly on the two-thirds boundary for validator sets in every residue class of the total power mod 3; every explored transition is exported
SPECIFICATION Spec
CONSTANTS
  Guard = "AsRequired"
  Cmp = "id"
  Setups <- SetsQuick
  Blocks <- BlocksQuick
  Seconds <- NoSeconds
  MaxRound = 1
  MaxRestarts = 2
  Sched = "fixed"
  ByzVotes = "support"
  Loss = "none"
  Serve = "prefix"
  Equiv = TRUE
INVARIANTS TypeOK VotesOnlyFullyValid PersistOnlyApplicable NoWedge
ACTION_CONSTRAINT Edge
VIEW View
CHECK_DEADLOCK FALSE
