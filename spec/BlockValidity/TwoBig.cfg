\* thorough: as Two.cfg with more classes of first and second blocks (not exported)
SPECIFICATION Spec
CONSTANTS
  Guard = "AsRequired"
  Cmp = "id"
  Setups <- SetsOne
  Blocks <- BlocksTwoBig
  Seconds <- SecondsTwoBig
  MaxRound = 4
  MaxRestarts = 2
  Sched = "fixed"
  ByzVotes = "free"
  Loss = "all"
  Serve = "any"
  Equiv = TRUE
INVARIANTS TypeOK VotesOnlyFullyValid PersistOnlyApplicable NoWedge
VIEW View
CHECK_DEADLOCK FALSE
