\* thorough: as Two.cfg with more classes of first and second blocks
SPECIFICATION Spec
CONSTANTS
  Guard = "AsRequired"
  Cmp = "id"
  Setups <- SetsOne
  Blocks <- BlocksTwoBig
  Seconds <- SecondsTwoBig
  MaxRound = 4
  MaxRestarts = 2
  Sched = "fixed"
  ByzVotes = "free"
  Loss = "all"
  Serve = "any"
INVARIANTS TypeOK VotesOnlyFullyValid PersistOnlyApplicable NoWedge
ACTION_CONSTRAINT Edge
VIEW View
CHECK_DEADLOCK FALSE
