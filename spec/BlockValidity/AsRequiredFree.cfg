\* thorough: classes of up to three violated clauses, any delivery order inside a phase
SPECIFICATION Spec
CONSTANTS
  Guard = "AsRequired"
  Classes <- UpTo3
  MaxRound = 1
  MaxRestarts = 2
  Sched = "free"
INVARIANTS TypeOK VotesOnlyFullyValid PersistOnlyApplicable NoWedge
VIEW View
CHECK_DEADLOCK FALSE
