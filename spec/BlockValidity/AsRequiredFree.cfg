\* thorough: classes of up to three violated clauses, any delivery order inside a phase, any served subset
SPECIFICATION Spec
CONSTANTS
  Guard = "AsRequired"
  Cmp = "id"
  Setups <- SetsQuick
  Blocks <- BlocksUpTo3
  Seconds <- NoSeconds
  MaxRound = 1
  MaxRestarts = 2
  Sched = "free"
  ByzVotes = "support"
  Loss = "none"
  Serve = "any"
  Equiv = TRUE
INVARIANTS TypeOK VotesOnlyFullyValid PersistOnlyApplicable NoWedge
VIEW View
CHECK_DEADLOCK FALSE
