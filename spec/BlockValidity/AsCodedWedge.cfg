\* the tree before ef885bb: a correct node persists a block it cannot apply and asks to be killed
SPECIFICATION Spec
CONSTANTS
  Guard = "AsCoded"
  Cmp = "hash"
  Setups <- SetsOne
  Blocks <- BlocksUpTo2
  Seconds <- NoSeconds
  MaxRound = 1
  MaxRestarts = 2
  Sched = "fixed"
  ByzVotes = "support"
  Loss = "none"
  Serve = "prefix"
  Equiv = TRUE
INVARIANTS TypeOK NoWedge
VIEW View
CHECK_DEADLOCK FALSE
