\* the tree as it is: a correct node persists a block it cannot apply and asks to be killed
SPECIFICATION Spec
CONSTANTS
  Guard = "AsCoded"
  Classes <- UpTo2
  MaxRound = 1
  MaxRestarts = 2
  Sched = "fixed"
INVARIANTS TypeOK NoWedge
VIEW View
CHECK_DEADLOCK FALSE
