\* liveness under the synchronous schedule: every correct node applies a block at this height
SPECIFICATION FairSpec
CONSTANTS
  Guard = "AsRequired"
  Classes <- UpTo2
  MaxRound = 1
  MaxRestarts = 2
  Sched = "fixed"
INVARIANTS TypeOK
PROPERTIES ChainContinues
VIEW View
CHECK_DEADLOCK FALSE
