\* thorough: the tree before ef885bb, explored completely for every class of up to two violated clauses (no safety invariant): the wedge is permanent; edges exported
SPECIFICATION Spec
CONSTANTS
  Guard = "AsCoded"
  Cmp = "hash"
  Setups <- SetsOne
  Blocks <- BlocksUpTo2
  Seconds <- NoSeconds
  MaxRound = 1
  MaxRestarts = 2
  Sched = "fixed"
  ByzVotes = "support"
  Loss = "none"
  Serve = "prefix"
  Equiv = TRUE
INVARIANTS TypeOK
PROPERTIES WedgeIsPermanent
ACTION_CONSTRAINT Edge
VIEW View
CHECK_DEADLOCK FALSE
