\* quick: the Byzantine proposer builds both blocks in round 0 and shows B to some correct validators and B2 to others; rounds 0 and 1; every explored transition is exported
SPECIFICATION Spec
CONSTANTS
  Guard = "AsRequired"
  Cmp = "id"
  Setups <- SetsOne
  Blocks <- BlocksTwo
  Seconds <- SecondsSame
  MaxRound = 1
  MaxRestarts = 2
  Sched = "fixed"
  ByzVotes = "free"
  Loss = "all"
  Serve = "any"
  Equiv = TRUE
INVARIANTS TypeOK VotesOnlyFullyValid PersistOnlyApplicable NoWedge
ACTION_CONSTRAINT Edge
VIEW View
CHECK_DEADLOCK FALSE
