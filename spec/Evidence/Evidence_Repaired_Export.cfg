SPECIFICATION Spec
CONSTANTS
  Ev = {"e1", "e2", "e3", "bad"}
  HeightOf <- HeightXY
  PowerOf <- PowerXY
  Valid = {"e1", "e2", "e3"}
  MaxAge = 2
  MaxH = 6
  StartH = 3
  UnseenCommitCrashes = FALSE
  AgeUnderflows = TRUE
VIEW View
INVARIANTS TypeOK NotProposedTwice OnlyVerified OutqIsPending
PROPERTIES CommittedStays
CHECK_DEADLOCK FALSE
ACTION_CONSTRAINT Edge
