---------------------------- MODULE EvidencePool ----------------------------
(***************************************************************************)
(* The evidence pool and its store (evidence/pool.go, evidence/store.go):  *)
(*   store : three key families in one DB - lookup (everything ever seen,  *)
(*           with the Committed flag), pending (what a proposer puts into  *)
(*           blocks), outqueue (ordered by priority)                       *)
(*   pool  : the store + an in-memory list that the reactor gossips from   *)
(* One action per public call.  Switches select what the code does where   *)
(* it deviates from what a reader expects; the harness PROBES them on the  *)
(* code under test and runs the model at the probed values, so the replay  *)
(* stays on track; the properties below are checked at both values.        *)
(***************************************************************************)
EXTENDS Integers, Sequences, FiniteSets, TLC, Json

CONSTANTS Ev,          \* evidence ids
          HeightOf,    \* [Ev -> Nat]   height the misbehaviour happened at
          PowerOf,     \* [Ev -> Nat]   voting power of the validator (= priority)
          Valid,       \* subset of Ev whose signatures / validator membership verify
          MaxAge, MaxH, StartH,
          UnseenCommitCrashes, \* TRUE: committing evidence the store never saw kills the caller (as found)
          AgeUnderflows        \* TRUE: `height - maxAge` wraps below zero: every list entry is "too old" (as found)

VARIABLES h,       \* height of the last block the pool was updated with
          info,    \* [Ev -> {"none","pending","committed"}]   lookup family
          outq,    \* set of Ev in the outqueue family
          list,    \* sequence of Ev: the gossip list
          crashed, \* the caller of Update died
          last
vars == <<h, info, outq, list, crashed, last>>
View == <<h, info, outq, list, crashed>>

Range(s) == {s[i] : i \in 1..Len(s)}
TooOld(e, at) == at - HeightOf[e] > MaxAge          \* VerifyEvidence
Acceptable(e) == e \in Valid /\ ~TooOld(e, h) /\ HeightOf[e] <= h

Init == /\ h = StartH /\ info = [e \in Ev |-> "none"] /\ outq = {} /\ list = <<>> /\ crashed = FALSE
        /\ last = [op |-> "init"]

Add(e) ==
  /\ ~crashed
  /\ IF ~Acceptable(e)
       THEN UNCHANGED <<info, outq, list>> /\ last' = [op |-> "add", e |-> e, res |-> "rejected"]
       ELSE IF info[e] # "none"
         THEN UNCHANGED <<info, outq, list>> /\ last' = [op |-> "add", e |-> e, res |-> "known"]
         ELSE /\ info' = [info EXCEPT ![e] = "pending"]
              /\ outq' = outq \cup {e}
              /\ list' = Append(list, e)
              /\ last' = [op |-> "add", e |-> e, res |-> "added"]
  /\ UNCHANGED <<h, crashed>>

\* Update(block, status): the block at height h+1 carries the evidence set S (any valid evidence, seen or not)
ListAfter(S, nh) ==
  SelectSeq(list, LAMBDA e : ~(e \in S) /\ ~(IF AgeUnderflows /\ nh < MaxAge THEN TRUE ELSE HeightOf[e] < nh - MaxAge))

Commit(S) ==
  /\ ~crashed /\ h < MaxH
  /\ \A e \in S : e \in Valid /\ HeightOf[e] <= h /\ ~TooOld(e, h)    \* what validateBlock lets through
  /\ IF UnseenCommitCrashes /\ \E e \in S : info[e] = "none"
       THEN /\ crashed' = TRUE /\ h' = h + 1
            /\ UNCHANGED <<info, outq, list>>      \* (what was written before the failing item is not observed: the caller is dead)
            /\ last' = [op |-> "commit", s |-> S, res |-> "crash"]
       ELSE /\ h' = h + 1
            /\ info' = [e \in Ev |-> IF e \in S THEN "committed" ELSE info[e]]
            /\ outq' = outq \ S
            /\ list' = ListAfter(S, h + 1)
            /\ crashed' = FALSE
            /\ last' = [op |-> "commit", s |-> S, res |-> "ok"]

\* process restart: NewEvidencePool on the same store starts with an empty gossip list
Restart ==
  /\ list' = <<>> /\ crashed' = FALSE
  /\ last' = [op |-> "restart"]
  /\ UNCHANGED <<h, info, outq>>

Next == (\E e \in Ev : Add(e)) \/ (\E S \in SUBSET Ev : Cardinality(S) <= 2 /\ Commit(S)) \/ Restart
Spec == Init /\ [][Next]_vars

(* ---- observables of the real pool, as functions of the state ---------- *)
Pending  == {e \in Ev : info[e] = "pending"}          \* PendingEvidence(): what the next proposer includes
Priority == outq                                       \* PriorityEvidence(), highest power first

(* ---- properties -------------------------------------------------------- *)
TypeOK == /\ h \in StartH..MaxH /\ outq \subseteq Ev /\ Range(list) \subseteq Ev
          /\ \A i, j \in 1..Len(list) : i # j => list[i] # list[j]
\* committed evidence is never offered to a proposer again and never comes back
CommittedStays == [][\A e \in Ev : info[e] = "committed" => info'[e] = "committed"]_vars
NotProposedTwice == \A e \in Ev : info[e] = "committed" => e \notin Pending /\ e \notin outq /\ e \notin Range(list)
OnlyVerified == \A e \in Ev : info[e] # "none" => e \in Valid
OutqIsPending == outq \subseteq Pending
\* a block that passed validation never kills the node that applies it (holds iff ~UnseenCommitCrashes)
CommitNeverCrashes == ~crashed
\* what is pending and not expired is gossiped (holds iff ~AgeUnderflows, and only until a restart)
GossipComplete == \A e \in Pending : ~(HeightOf[e] < h - MaxAge) => e \in Range(list)

Edge == PrintT(ToJson([from |-> [h |-> h, info |-> info, outq |-> outq, list |-> list, crashed |-> crashed],
                       act |-> last',
                       to |-> [h |-> h', info |-> info', outq |-> outq', list |-> list', crashed |-> crashed']]))
=============================================================================
