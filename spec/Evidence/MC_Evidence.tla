---- MODULE MC_Evidence ----
EXTENDS EvidencePool
\* e1: height 1, power 3;  e2: height 2, power 1;  e3: height 2, power 2;  bad: does not verify
HeightXY == [e \in {"e1", "e2", "e3", "bad"} |-> IF e = "e1" THEN 1 ELSE 2]
PowerXY  == [e \in {"e1", "e2", "e3", "bad"} |-> CASE e = "e1" -> 3 [] e = "e2" -> 1 [] e = "e3" -> 2 [] OTHER -> 1]
====
