SPECIFICATION Spec
CONSTANTS
  NS = 2
  NCoins = 2
  TX <- Table
  Use <- UseAll
  Boots <- BootsAll
  ReapCaps = {1, 2, 3}
  OwnCuts = {0, 1, 2, 1000}
  ExpireCuts = {0, 2}
  MaxForeign = 2
  MaxSteps = 4
  FeeBug = FALSE
INVARIANTS TypeOK ReapExecutable Distinct NotCommitted NoSharedKeyImage GapFreeFromCommittedNonce CoveredByBalance WellSorted CacheIsPool NoStrandedExecutable CheckIsLedgerPlusGood KeyCacheIsUtxoq CommittedRemoved
PROPERTIES RejectedLeavesCheckStateUnchanged RejectedLeavesPoolUnchanged
ACTION_CONSTRAINT Edge
VIEW View
CHECK_DEADLOCK FALSE
