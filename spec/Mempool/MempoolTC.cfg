SPECIFICATION Spec
CONSTANTS
  NS = 2
  NCoins = 2
  TX <- Table
  Use <- UseTC
  Boots <- BootsTC
  ReapCaps = {1, 3}
  OwnCuts = {0, 1, 1000}
  ExpireCuts = {0}
  MaxForeign = 3
  MaxSteps = 7
  FeeBug = FALSE
INVARIANTS TypeOK ReapExecutable Distinct NotCommitted NoSharedKeyImage GapFreeFromCommittedNonce CoveredByBalance WellSorted CacheIsPool NoStrandedExecutable CheckIsLedgerPlusGood KeyCacheIsUtxoq CommittedRemoved
PROPERTIES RejectedLeavesCheckStateUnchanged RejectedLeavesPoolUnchanged
ACTION_CONSTRAINT Edge
VIEW View
CHECK_DEADLOCK FALSE
