SPECIFICATION Spec
CONSTANTS
  NS = 2
  NCoins = 2
  TX <- Table
  Use <- UseQB
  Boots <- BootsQB
  ReapCaps = {1, 2}
  OwnCuts = {0, 1, 1000}
  ExpireCuts = {1}
  MaxForeign = 2
  MaxSteps = 5
  FeeBug = TRUE
INVARIANTS TypeOK ReapExecutable Distinct NotCommitted NoSharedKeyImage GapFreeFromCommittedNonce CoveredByBalance WellSorted CacheIsPool NoStrandedExecutable CheckIsLedgerPlusGood KeyCacheIsUtxoq CommittedRemoved
PROPERTIES RejectedLeavesCheckStateUnchanged RejectedLeavesPoolUnchanged
VIEW View
CHECK_DEADLOCK FALSE
