---------------------------- MODULE MC_Mempool ----------------------------
(* Bounded instances of Mempool: the transaction table and the pool /      *)
(* genesis configurations.  Costs are in units U = amount + fee of the     *)
(* standard transfer (the harness instantiates U with several amounts).    *)
EXTENDS Mempool

X(k, s, n, c, fee, bad, ki, r) ==
  [k |-> k, s |-> s, n |-> n, c |-> c, fee |-> fee, basic |-> (bad = ""), bad |-> bad, ki |-> ki, r |-> r]

Table == <<
  X("xfer",  1, 0, 1, TRUE,  "",     0, 1),   \*  1 a0
  X("xfer",  1, 1, 1, TRUE,  "",     0, 1),   \*  2 a1
  X("xfer",  1, 2, 1, TRUE,  "",     0, 1),   \*  3 a2
  X("xfer",  1, 3, 1, TRUE,  "",     0, 1),   \*  4 a3
  X("xfer",  1, 0, 1, TRUE,  "",     0, 2),   \*  5 a0x  same nonce as a0, other recipient
  X("xfer",  1, 0, 3, TRUE,  "",     0, 2),   \*  6 a0D  nonce 0, costs 3 units (drains a balance of 3)
  X("dep",   1, 0, 1, FALSE, "",     0, 1),   \*  7 dL0  account->confidential, fee too low
  X("dep",   1, 1, 1, TRUE,  "",     0, 1),   \*  8 d1   account->confidential
  X("dep",   1, 1, 1, FALSE, "",     0, 1),   \*  9 dL1  account->confidential at nonce 1, fee too low
  X("xfer",  2, 0, 1, TRUE,  "",     0, 1),   \* 10 b0
  X("xfer",  2, 1, 1, TRUE,  "",     0, 1),   \* 11 b1
  X("xfer",  2, 2, 1, TRUE,  "",     0, 1),   \* 12 b2
  X("xfer",  2, 0, 1, TRUE,  "size", 0, 2),   \* 13 bS   oversized payload (basic check refuses)
  X("xfer",  2, 1, 1, TRUE,  "gas",  0, 2),   \* 14 bG   gas limit below the fee (basic check refuses)
  X("spend", 0, 0, 0, TRUE,  "",     1, 1),   \* 15 u1   spends coin 1
  X("spend", 0, 0, 0, TRUE,  "",     1, 2),   \* 16 u1x  spends coin 1 again (same key image)
  X("spend", 0, 0, 0, TRUE,  "",     2, 1),   \* 17 u2   spends coin 2
  X("dep",   2, 0, 1, TRUE,  "",     0, 1),   \* 18 e0   account->confidential of sender 2
  X("spend", 0, 0, 0, FALSE, "",     2, 2)    \* 19 u2L  spends coin 2, fee too low
>>

B(size, fsize, usize, b1, b2) == [size |-> size, fsize |-> fsize, usize |-> usize, bal |-> <<b1, b2>>]

\* quick A: account transactions of one exact-balance sender and one ample sender
UseQA   == {1, 2, 3, 5, 7, 8, 10, 11}
BootsQA == {B(2, 1, 9, 2, 9), B(4, 3, 9, 2, 9)}
\* quick B: confidential spends, deposits, refused submissions, small pool
UseQB   == {1, 9, 15, 16, 17, 18}
BootsQB == {B(2, 3, 2, 2, 1)}
\* quick C: draining foreign transaction, nonce-too-high on recheck
UseQC   == {1, 2, 3, 5, 6, 13}
BootsQC == {B(4, 3, 9, 3, 2), B(1, 1, 9, 3, 2)}

\* thorough A: account transactions, two senders, conflicting and low-fee variants
UseTA   == {1, 2, 3, 4, 5, 7, 8, 10, 11}
BootsTA == {B(2, 1, 9, 3, 9), B(4, 3, 9, 2, 9)}
\* thorough B: confidential spends (conflicting, low fee), deposits, tiny pools, UTXOSize 1 and 2
UseTB   == {1, 2, 7, 9, 15, 16, 17, 18, 19}
BootsTB == {B(1, 1, 9, 2, 1), B(2, 3, 1, 2, 1), B(2, 1, 2, 2, 9)}
\* thorough C: draining foreign transactions, recheck moving transactions back, refused submissions
UseTC   == {1, 2, 3, 4, 5, 6, 10, 13, 14}
BootsTC == {B(4, 3, 9, 3, 2), B(2, 1, 9, 3, 2), B(4, 1, 9, 3, 0)}
\* thorough D: the whole table, every configuration, short behaviours
UseAll   == 1..19
BootsAll == {B(1, 1, 9, 2, 9), B(2, 1, 9, 3, 1), B(2, 3, 1, 2, 9), B(4, 3, 9, 3, 9), B(4, 1, 2, 0, 2)}

ASSUME Meta
=============================================================================
