------------------------------ MODULE Mempool ------------------------------
(***************************************************************************)
(* The transaction pool of a linkchain node together with the part of the  *)
(* application it talks to (mempool/mempool.go, mempool/tx_list.go,        *)
(* app/app.go CheckTx/CommitBlock, types/transaction.go CheckState,        *)
(* types/tx_utxo.go checkState).                                           *)
(*                                                                         *)
(*   ledger   the committed state: per sender nonce and balance, the set   *)
(*            of spent key images, the set of committed transactions       *)
(*   pool.cn / pool.cb / pool.kc                                           *)
(*            the SPECULATIVE state app.CheckTx(tx, StateCheck) works on   *)
(*            (app.checkTxState and the pool's key-image cache): nonce and *)
(*            balance advance with every accepted transaction; CommitBlock *)
(*            replaces it by a copy of the new committed state             *)
(*   pool.good    goodTxs  (ordered list of executable account txs)        *)
(*   pool.utxoq   utxoTxs  (ordered list of pure confidential spends)      *)
(*   pool.fut[s]  futureTxs[s] (nonce-indexed queue, one tx per nonce)     *)
(*   pool.cache   the dedup cache (hash -> tx); entries of committed txs   *)
(*            linger (DelayDelete, 30 s)                                   *)
(*   cfg      Size / FutureSize / UTXOSize of the pool                     *)
(*                                                                         *)
(* One action per linearisation point of the code:                         *)
(*   AddTx(t)   Mempool.AddTx: cache.Put - BasicCheck - (proxyMtx) pool    *)
(*              full? - addLocalTx | addUTXOTx: StateCheck against the     *)
(*              speculative state - nonce too high => future queue -       *)
(*              accepted => goodTxs + promoteExecutables(sender)           *)
(*   Reap(m)    Mempool.Reap(m) (a stuttering step; the result is part of  *)
(*              the action label)                                          *)
(*   Commit(b)  LinkApplication.CommitBlock(b): b is ANY valid block - a   *)
(*              prefix of the node's own Reap or a foreign proposer's      *)
(*              block with transactions the pool has never seen:           *)
(*              checkTxState := committed state, KeyImageReset, then       *)
(*              Mempool.Update = filterTxs (with GoodTxDropTime expiry) -  *)
(*              recheckTxs (nonce too high => back to the future queue) -  *)
(*              recheckUtxoTxs - promoteExecutables(all senders, in the    *)
(*              order of a Go map iteration, i.e. ANY order)               *)
(*                                                                         *)
(* Transactions are drawn from a finite table TX (kind, sender, nonce,     *)
(* cost in units, fee adequate?, passes the basic check?, key image,       *)
(* recipient); the harness instantiates every entry with real signed       *)
(* transactions for several unit amounts / nonce bases / storage modes.    *)
(*                                                                         *)
(* FeeBug = TRUE models types/tx_utxo.go checkState as it was found: the   *)
(* account input is debited and the nonce bumped BEFORE the fee verdict    *)
(* (Mempool_AsCoded.cfg shows TLC refuting the invariants then).           *)
(***************************************************************************)
EXTENDS Integers, Sequences, FiniteSets, TLC, Json

CONSTANTS NS,          \* number of senders
          NCoins,      \* number of confidential coins (key images)
          TX,          \* the transaction table: 1..N -> record
          Use,         \* ids that may be submitted / appear in foreign blocks
          Boots,       \* pool/genesis configurations [size, fsize, usize, bal]
          ReapCaps,    \* arguments of explicit Reap calls
          OwnCuts,     \* the node commits its own Reap(k), k in OwnCuts (0 = empty block)
          ExpireCuts,  \* ... of these, the k also committed after GoodTxDropTime has elapsed
          MaxForeign,  \* maximal length of a foreign proposer's block
          MaxSteps,    \* bound on the length of behaviours
          FeeBug       \* TRUE: UTXO checkState mutates before the fee verdict (as found)

Senders == 1..NS
Coins   == 1..NCoins
Ids     == DOMAIN TX
Big     == 1000          \* "no cap"

VARIABLES cfg,     \* [size, fsize, usize, bal]; size = 0: not booted yet
          ledger,  \* [nonce, bal, spent, done]
          pool,    \* [good, utxoq, fut, cn, cb, kc, cache]
          steps,   \* number of actions so far (bounded; hidden by the VIEW)
          last     \* label of the last action (output only; hidden by the VIEW)
vars == <<cfg, ledger, pool, steps, last>>

Range(f)      == {f[i] : i \in DOMAIN f}
Min(a, b)     == IF a < b THEN a ELSE b
Without(q, S) == SelectSeq(q, LAMBDA t : t \notin S)
FromSender(q, s) == SelectSeq(q, LAMBDA t : TX[t].k # "spend" /\ TX[t].s = s)
Perms == {p \in [Senders -> Senders] : \A i, j \in Senders : i # j => p[i] # p[j]}

NoCfg == [size |-> 0, fsize |-> 0, usize |-> 0, bal |-> [s \in Senders |-> 0]]

Init == /\ cfg = NoCfg
        /\ ledger = [nonce |-> [s \in Senders |-> 0], bal |-> [s \in Senders |-> 0], spent |-> {}, done |-> {}]
        /\ pool = [good |-> <<>>, utxoq |-> <<>>, fut |-> [s \in Senders |-> {}],
                   cn |-> [s \in Senders |-> 0], cb |-> [s \in Senders |-> 0], kc |-> {}, cache |-> {}]
        /\ steps = 0
        /\ last = [op |-> "init"]

(* ---- the committed ledger: what executing a block does ---------------- *)
\* app/state_processor.go: per tx CheckBasicWithState / CheckStoreState (nonce, balance,
\* fee, key image not spent and not repeated in the block), then the state transition
RECURSIVE ExecSeq(_, _)
ExecSeq(L, b) ==
  IF b = <<>> THEN [ok |-> TRUE, L |-> L]
  ELSE LET t == Head(b)
           x == TX[t]
       IN IF ~x.basic \/ ~x.fee THEN [ok |-> FALSE, L |-> L]
          ELSE IF x.k = "spend"
               THEN IF x.ki \in L.spent THEN [ok |-> FALSE, L |-> L]
                    ELSE ExecSeq([L EXCEPT !.spent = @ \cup {x.ki}, !.done = @ \cup {t}], Tail(b))
               ELSE IF x.n # L.nonce[x.s] \/ L.bal[x.s] < x.c THEN [ok |-> FALSE, L |-> L]
                    ELSE ExecSeq([L EXCEPT !.nonce[x.s] = @ + 1, !.bal[x.s] = @ - x.c, !.done = @ \cup {t}], Tail(b))

(* ---- app.CheckTx(tx, StateCheck) -------------------------------------- *)
\* Transaction.CheckState / UTXOTransaction.checkState against the speculative state.
\* Returns the verdict and the (possibly advanced) pool record.
StateCheck(p, sp, t) ==
  LET x == TX[t] IN
  IF x.k = "spend"
  THEN IF x.ki \in sp \/ x.ki \in p.kc THEN [v |-> "dblspend", p |-> p]
       ELSE IF ~x.fee THEN [v |-> "fee", p |-> p]
       ELSE [v |-> "ok", p |-> [p EXCEPT !.kc = @ \cup {x.ki}]]
  ELSE LET s   == x.s
           adv == [p EXCEPT !.cn[s] = @ + 1, !.cb[s] = @ - x.c]
       IN IF x.n < p.cn[s] THEN [v |-> "stale", p |-> p]
          ELSE IF x.n > p.cn[s] THEN [v |-> "high", p |-> p]
          ELSE IF p.cb[s] < x.c THEN [v |-> "funds", p |-> p]
          ELSE IF x.k = "dep" /\ ~x.fee THEN [v |-> "fee", p |-> IF FeeBug THEN adv ELSE p]
          ELSE [v |-> "ok", p |-> adv]

(* ---- the future queue -------------------------------------------------- *)
FCount(p) == Cardinality(UNION {p.fut[s] : s \in Senders})     \* futureTxsCount

\* addFutureTx / addTofutureTxs
AddFuture(p, t) ==
  LET s == TX[t].s IN
  IF FCount(p) >= cfg.fsize THEN [v |-> "full", p |-> p]
  ELSE IF \E u \in p.fut[s] : TX[u].n = TX[t].n THEN [v |-> "dupnonce", p |-> p]
  ELSE [v |-> "queued", p |-> [p EXCEPT !.fut[s] = @ \cup {t}]]

\* txSortedMap.Ready(start, start + need): the run of consecutive nonces from start
RECURSIVE ReadyRun(_, _, _)
ReadyRun(F, start, need) ==
  IF need <= 0 \/ ~(\E u \in F : TX[u].n = start) THEN <<>>
  ELSE <<CHOOSE u \in F : TX[u].n = start>> \o ReadyRun(F, start + 1, need - 1)

\* the loop over `promoting`: every candidate is state-checked again; a failing one is dropped
RECURSIVE PromoteFold(_, _, _)
PromoteFold(p, sp, run) ==
  IF run = <<>> THEN p
  ELSE LET t == Head(run)
           r == StateCheck(p, sp, t)
       IN IF r.v = "ok" THEN PromoteFold([r.p EXCEPT !.good = Append(@, t)], sp, Tail(run))
          ELSE PromoteFold([r.p EXCEPT !.cache = @ \ {t}], sp, Tail(run))

\* promoteExecutables for one sender: Forward(speculative nonce) - Ready - re-check - goodTxs
PromoteOne(p, sp, s) ==
  LET stale == {u \in p.fut[s] : TX[u].n < p.cn[s]}
      p1    == [p EXCEPT !.fut[s] = @ \ stale, !.cache = @ \ stale]
      need  == cfg.size - Len(p1.good)
      run   == ReadyRun(p1.fut[s], p1.cn[s], need)
      p2    == [p1 EXCEPT !.fut[s] = @ \ Range(run)]
  IN PromoteFold(p2, sp, run)

RECURSIVE PromoteAll(_, _, _, _)
PromoteAll(p, sp, ord, i) ==
  IF i > NS THEN p ELSE PromoteAll(PromoteOne(p, sp, ord[i]), sp, ord, i + 1)

(* ---- AddTx -------------------------------------------------------------- *)
\* addLocalTx, and addUTXOTx for a transaction with an account input
Accept(p, sp, t) ==
  LET r == StateCheck(p, sp, t) IN
  IF r.v = "ok"
  THEN IF Len(r.p.good) < cfg.size
       THEN [v |-> "good", p |-> PromoteOne([r.p EXCEPT !.good = Append(@, t)], sp, TX[t].s)]
       ELSE AddFuture(r.p, t)      \* goodTxs full: queued, although the speculative state has advanced
  ELSE IF r.v = "high" THEN AddFuture(r.p, t)
  ELSE r

\* addUTXOTx for a pure confidential spend
AcceptSpend(p, sp, t) ==
  IF Len(p.utxoq) >= cfg.size THEN [v |-> "full", p |-> p]
  ELSE LET r == StateCheck(p, sp, t) IN
       IF r.v = "ok" THEN [v |-> "utxo", p |-> [r.p EXCEPT !.utxoq = Append(@, t)]] ELSE r

AddResult(p, sp, t) ==
  IF t \in p.cache THEN [v |-> "dup", p |-> p]
  ELSE IF ~TX[t].basic THEN [v |-> "basic", p |-> p]
  ELSE IF FCount(p) >= cfg.fsize /\ Len(p.good) >= cfg.size THEN [v |-> "full", p |-> p]
  ELSE IF TX[t].k = "spend" THEN AcceptSpend(p, sp, t)
  ELSE Accept(p, sp, t)

Accepted(v) == v \in {"good", "queued", "utxo"}

Booted == cfg.size > 0
Tick   == steps < MaxSteps /\ steps' = steps + 1

AddTx(t) ==
  /\ Booted /\ Tick
  /\ LET r == AddResult(pool, ledger.spent, t) IN
       /\ pool' = IF Accepted(r.v) THEN [r.p EXCEPT !.cache = @ \cup {t}] ELSE r.p
       /\ last' = [op |-> "add", t |-> t, v |-> r.v]
  /\ UNCHANGED <<cfg, ledger>>

(* ---- Reap --------------------------------------------------------------- *)
\* collectTxs(goodTxs, room): stops after UTXOSize transactions of type UTXO were taken
RECURSIVE GoodTake(_, _, _)
GoodTake(g, room, ucount) ==
  IF g = <<>> \/ room <= 0 THEN <<>>
  ELSE LET t  == Head(g)
           uc == IF TX[t].k = "dep" THEN ucount + 1 ELSE ucount
       IN IF uc >= cfg.usize THEN <<t>> ELSE <<t>> \o GoodTake(Tail(g), room - 1, uc)

\* Reap(max): all pure confidential spends (up to UTXOSize) first, the rest of max from goodTxs;
\* returned as goodTxs-part ++ utxoTxs-part
ReapOf(p, max) ==
  IF max <= 0 THEN <<>>
  ELSE LET u == SubSeq(p.utxoq, 1, Min(Len(p.utxoq), cfg.usize))
       IN GoodTake(p.good, max - Len(u), 0) \o u

Reap(m) ==
  /\ Booted /\ Tick
  /\ last' = [op |-> "reap", max |-> m, res |-> ReapOf(pool, m)]
  /\ UNCHANGED <<cfg, ledger, pool>>

(* ---- CommitBlock + Update ---------------------------------------------- *)
\* recheckTxs: goodTxs in list order against the new speculative state
RECURSIVE RecheckFold(_, _, _)
RecheckFold(p, sp, rest) ==
  IF rest = <<>> THEN p
  ELSE LET t == Head(rest)
           r == StateCheck(p, sp, t)
       IN IF r.v = "ok" THEN RecheckFold([r.p EXCEPT !.good = Append(@, t)], sp, Tail(rest))
          ELSE IF r.v = "high"
               THEN LET a == AddFuture(r.p, t) IN       \* nonce too high: back to the future queue
                    IF a.v = "queued" THEN RecheckFold(a.p, sp, Tail(rest))
                    ELSE RecheckFold([r.p EXCEPT !.cache = @ \ {t}], sp, Tail(rest))
               ELSE RecheckFold([r.p EXCEPT !.cache = @ \ {t}], sp, Tail(rest))

\* recheckUtxoTxs
RECURSIVE RecheckUtxoFold(_, _, _)
RecheckUtxoFold(p, sp, rest) ==
  IF rest = <<>> THEN p
  ELSE LET t == Head(rest)
           r == StateCheck(p, sp, t)
       IN IF r.v = "ok" THEN RecheckUtxoFold([r.p EXCEPT !.utxoq = Append(@, t)], sp, Tail(rest))
          ELSE RecheckUtxoFold([r.p EXCEPT !.cache = @ \ {t}], sp, Tail(rest))

\* exp: every pooled transaction is older than GoodTxDropTime (filterTxs drops it)
AfterCommit(p, L, b, exp, ord) ==
  LET B        == Range(b)
      keepG    == IF exp THEN <<>> ELSE Without(p.good, B)
      keepU    == IF exp THEN <<>> ELSE Without(p.utxoq, B)
      timedout == IF exp THEN (Range(p.good) \cup Range(p.utxoq)) \ B ELSE {}
      p1 == [p EXCEPT !.cn = L.nonce, !.cb = L.bal, !.kc = {},           \* checkTxState := committed; KeyImageReset
                      !.good = <<>>, !.utxoq = <<>>, !.cache = @ \ timedout]
      p2 == RecheckFold(p1, L.spent, keepG)
      p3 == RecheckUtxoFold(p2, L.spent, keepU)
  IN PromoteAll(p3, L.spent, ord, 1)

Commit(src, k, b, exp) ==
  /\ Booted /\ Tick
  /\ LET e == ExecSeq(ledger, b) IN
       /\ e.ok
       /\ ledger' = e.L
       /\ pool' \in {AfterCommit(pool, e.L, b, exp, ord) : ord \in Perms}   \* Go map iteration order
  /\ last' = [op |-> "commit", src |-> src, k |-> k, blk |-> b, exp |-> exp]
  /\ UNCHANGED cfg

CommitOwn == \E k \in OwnCuts, exp \in BOOLEAN :
               /\ exp => k \in ExpireCuts
               /\ Commit("own", k, ReapOf(pool, k), exp)

\* every non-empty block of at most n transactions of Use that executes from ledger state L
Valid1(L) == {t \in Use : ExecSeq(L, <<t>>).ok}
RECURSIVE BlocksFrom(_, _)
BlocksFrom(L, n) ==
  IF n = 0 THEN {<<>>}
  ELSE {<<>>} \cup UNION {{<<t>> \o b : b \in BlocksFrom(ExecSeq(L, <<t>>).L, n - 1)} : t \in Valid1(L)}
ForeignBlocks == BlocksFrom(ledger, MaxForeign) \ {<<>>}
CommitForeign == \E b \in ForeignBlocks : Commit("foreign", Len(b), b, FALSE)

Boot(c) ==
  /\ ~Booted /\ Tick
  /\ cfg' = c
  /\ ledger' = [ledger EXCEPT !.bal = c.bal]
  /\ pool' = [pool EXCEPT !.cb = c.bal]
  /\ last' = [op |-> "boot", cfg |-> c]

Next == \/ \E c \in Boots : Boot(c)
        \/ \E t \in Use : AddTx(t)
        \/ \E m \in ReapCaps : Reap(m)
        \/ CommitOwn
        \/ CommitForeign

Spec == Init /\ [][Next]_vars

(* ---- what TLC checks on the model ------------------------------------ *)
Offered == pool.good \o pool.utxoq       \* every Reap is made of prefixes of these two lists
Pooled  == Range(pool.good) \cup Range(pool.utxoq) \cup UNION {pool.fut[s] : s \in Senders}

TypeOK == /\ Range(pool.good) \subseteq Ids /\ Range(pool.utxoq) \subseteq Ids
          /\ \A s \in Senders : pool.fut[s] \subseteq Ids
          /\ \A s \in Senders : pool.cn[s] >= ledger.nonce[s] /\ pool.cb[s] >= 0 /\ pool.cb[s] <= ledger.bal[s]
          /\ Len(pool.good) <= cfg.size /\ Len(pool.utxoq) <= cfg.size /\ FCount(pool) <= cfg.fsize

\* a block built from any Reap executes
ReapExecutable == \A m \in ReapCaps \cup OwnCuts \cup {Big} : ExecSeq(ledger, ReapOf(pool, m)).ok
Distinct       == \A i, j \in 1..Len(Offered) : i # j => Offered[i] # Offered[j]
NotCommitted   == Range(Offered) \cap ledger.done = {}
NoSharedKeyImage ==
  /\ \A i, j \in 1..Len(pool.utxoq) : i # j => TX[pool.utxoq[i]].ki # TX[pool.utxoq[j]].ki
  /\ \A i \in 1..Len(pool.utxoq) : TX[pool.utxoq[i]].ki \notin ledger.spent
GapFreeFromCommittedNonce ==
  \A s \in Senders : LET q == FromSender(pool.good, s) IN
     \A i \in 1..Len(q) : TX[q[i]].n = ledger.nonce[s] + i - 1
RECURSIVE SumCost(_)
SumCost(q) == IF q = <<>> THEN 0 ELSE TX[Head(q)].c + SumCost(Tail(q))
CoveredByBalance == \A s \in Senders : SumCost(FromSender(pool.good, s)) <= ledger.bal[s]
\* goodTxs holds account transactions, utxoTxs pure spends, the three containers are disjoint
WellSorted == /\ \A i \in 1..Len(pool.good) : TX[pool.good[i]].k # "spend"
              /\ \A i \in 1..Len(pool.utxoq) : TX[pool.utxoq[i]].k = "spend"
              /\ \A s \in Senders : \A t \in pool.fut[s] : TX[t].k # "spend" /\ TX[t].s = s /\ t \notin Range(pool.good)
              /\ \A s \in Senders : \A t, u \in pool.fut[s] : t # u => TX[t].n # TX[u].n
\* the dedup cache is the pool plus lingering committed entries
CacheIsPool == Pooled \subseteq pool.cache /\ (pool.cache \ Pooled) \subseteq ledger.done
\* a queued transaction whose turn has come is promoted, unless goodTxs is full
NoStrandedExecutable ==
  Len(pool.good) < cfg.size => \A s \in Senders : \A t \in pool.fut[s] : TX[t].n # pool.cn[s]
\* while goodTxs is not full, the speculative state is the committed state advanced by goodTxs
CheckIsLedgerPlusGood ==
  Len(pool.good) < cfg.size =>
     \A s \in Senders : LET q == FromSender(pool.good, s) IN
        pool.cn[s] = ledger.nonce[s] + Len(q) /\ pool.cb[s] = ledger.bal[s] - SumCost(q)
KeyCacheIsUtxoq == pool.kc = {TX[pool.utxoq[i]].ki : i \in 1..Len(pool.utxoq)}

\* A refused submission leaves the speculative state alone.  (Exception, harmless and kept
\* as coded: when goodTxs is full a transaction that passed the state check is parked in the
\* future queue and may still be refused there as a same-nonce duplicate; until the next
\* commit - which rebuilds the speculative state - nothing can enter goodTxs.)
RejectedLeavesCheckStateUnchanged ==
  [][ (last'.op = "add" /\ ~Accepted(last'.v) /\ Len(pool.good) < cfg.size)
        => (pool'.cn = pool.cn /\ pool'.cb = pool.cb /\ pool'.kc = pool.kc) ]_vars
\* ... and never changes what is pooled
RejectedLeavesPoolUnchanged ==
  [][ (last'.op = "add" /\ ~Accepted(last'.v))
        => (pool'.good = pool.good /\ pool'.utxoq = pool.utxoq /\ pool'.fut = pool.fut /\ pool'.cache = pool.cache) ]_vars
\* committed transactions leave the pool, whoever proposed the block
CommittedRemoved == Pooled \cap ledger.done = {}

(* ---- export for the replay harness ----------------------------------- *)
RECURSIVE ByNonce(_)
ByNonce(F) == IF F = {} THEN <<>>
              ELSE LET t == CHOOSE t \in F : \A u \in F : TX[t].n <= TX[u].n IN <<t>> \o ByNonce(F \ {t})
ProjS == [cfg |-> cfg, ln |-> ledger.nonce, lb |-> ledger.bal, spent |-> ledger.spent, done |-> ledger.done,
          good |-> pool.good, utxoq |-> pool.utxoq, fut |-> [s \in Senders |-> ByNonce(pool.fut[s])],
          cn |-> pool.cn, cb |-> pool.cb, kc |-> pool.kc, cache |-> pool.cache,
          reap |-> ReapOf(pool, Big)]
Edge == PrintT(ToJson([from |-> ProjS, act |-> last', to |-> ProjS']))
View == <<cfg, ledger, pool>>
Meta == PrintT(ToJson([meta |-> "Mempool", txs |-> TX, ns |-> NS, ncoins |-> NCoins, use |-> Use]))
=============================================================================
