--------------------------- MODULE Trace_Mempool ---------------------------
(***************************************************************************)
(* Trace validation for module Mempool.  A trace is what hook H3           *)
(* (mempool.VerifTraceHook, build tag verif) recorded on a real mempool    *)
(* wired to the real application while several client goroutines were      *)
(* submitting and a committer goroutine was proposing / committing blocks. *)
(* Every event is emitted UNDER proxyMtx at the linearisation point of the *)
(* call, so the order of the lines is the order in which the calls took    *)
(* effect:                                                                 *)
(*   meta    first line of the file: the transaction table                 *)
(*   boot    a new trace starts: pool configuration and genesis balances   *)
(*   add     AddTx reached addLocalTx/addUTXOTx: transaction, verdict      *)
(*           (ok / refused), and - read inside the hook - len(goodTxs),    *)
(*           len(utxoTxs), the sender's speculative nonce                  *)
(*   reap    Reap(max) returned res                                        *)
(*   update  Update(height, blk) at the end of CommitBlock (the new        *)
(*           speculative state and KeyImageReset happen under the same     *)
(*           lock just before), with len(goodTxs), len(utxoTxs)            *)
(* (One more point of the commit is visible to submissions: see            *)
(* TAddDuringCommit.)                                                      *)
(* Submissions refused before the lock is taken (dedup cache, basic check, *)
(* pool full) change nothing and are not part of the trace.                *)
(* A trace is accepted when TLC can consume every line: each add must get  *)
(* the verdict class the specification computes and leave the sizes and    *)
(* speculative nonce it computes, each Reap must return exactly what the   *)
(* specification's Reap returns, each committed block must be executable   *)
(* from the specification's ledger.  All invariants of Mempool are checked *)
(* in every state on the way.                                              *)
(***************************************************************************)
EXTENDS Mempool

TraceLog == ndJsonDeserialize("trace.ndjson")
TraceTX  == TraceLog[1].txs

VARIABLE l     \* next line of the trace
tvars == <<vars, l>>

Ev == TraceLog[l]

TraceInit == Init /\ l = 2
Consume   == l' = l + 1

TBoot == /\ Ev.e = "boot" /\ Consume
         /\ cfg' = [size |-> Ev.size, fsize |-> Ev.fsize, usize |-> Ev.usize, bal |-> Ev.bal]
         /\ ledger' = [nonce |-> [s \in Senders |-> 0], bal |-> Ev.bal, spent |-> {}, done |-> {}]
         /\ pool' = [good |-> <<>>, utxoq |-> <<>>, fut |-> [s \in Senders |-> {}],
                     cn |-> [s \in Senders |-> 0], cb |-> Ev.bal, kc |-> {}, cache |-> {}]
         /\ steps' = 0
         /\ last' = [op |-> "boot"]

TAdd == /\ Ev.e = "add" /\ Consume
        /\ AddTx(Ev.t)
        /\ Accepted(last'.v) = Ev.ok
        /\ Len(pool'.good) = Ev.g /\ Len(pool'.utxoq) = Ev.u
        /\ (Ev.cn >= 0 => pool'.cn[TX[Ev.t].s] = Ev.cn)

\* CommitBlock saves the key images of the block it commits (utxoStore.SaveUtxo) just BEFORE it
\* takes the pool's lock: a spend of such a key image that is state-checked in that window is
\* already refused as a double spend although the Update event comes later.  Nothing changes.
RECURSIVE NextUpdateBlk(_)
NextUpdateBlk(i) == IF i > Len(TraceLog) \/ TraceLog[i].e = "boot" THEN <<>>
                    ELSE IF TraceLog[i].e = "update" THEN TraceLog[i].blk
                    ELSE NextUpdateBlk(i + 1)
TAddDuringCommit ==
  /\ Ev.e = "add" /\ ~Ev.ok /\ Ev.v = "dblspend" /\ Consume
  /\ TX[Ev.t].k = "spend"
  /\ LET b == NextUpdateBlk(l + 1) IN
       \E j \in 1..Len(b) : TX[b[j]].k = "spend" /\ TX[b[j]].ki = TX[Ev.t].ki
  /\ Len(pool.good) = Ev.g /\ Len(pool.utxoq) = Ev.u
  /\ steps' = steps + 1 /\ last' = [op |-> "add", t |-> Ev.t, v |-> "dblspend"]
  /\ UNCHANGED <<cfg, ledger, pool>>

TReap == /\ Ev.e = "reap" /\ Consume
         /\ Reap(Ev.max)
         /\ last'.res = Ev.res

TUpdate == /\ Ev.e = "update" /\ Consume
           /\ Commit("trace", 0, Ev.blk, FALSE)
           /\ Len(pool'.good) = Ev.g /\ Len(pool'.utxoq) = Ev.u

TraceNext == l <= Len(TraceLog) /\ (TBoot \/ TAdd \/ TAddDuringCommit \/ TReap \/ TUpdate)

TraceSpec == TraceInit /\ [][TraceNext]_tvars

\* high-water mark of consumed lines
Consumed == TLCSet(1, IF TLCGet(1) < l THEN l ELSE TLCGet(1))
TraceAccepted == /\ PrintT(ToJson([consumed |-> TLCGet(1) - 1, lines |-> Len(TraceLog)]))
             /\ TLCGet(1) = Len(TraceLog) + 1
ASSUME TLCSet(1, 0)

TraceView == <<cfg, ledger, pool, l>>
=============================================================================
