\* thorough, second exported instance: an election at every second height (2 and 4): the second election starts from an elected list
SPECIFICATION Spec
CONSTANTS
  Cand = {"x", "y", "w"}
  CandOrder <- OrderXY
  Other = {"z"}
  MaxScore = 500
  InitScore <- InitXYW
  MaxH = 4
  EvBound <- EvExport
  VotePeriod = 2
  Pledge <- PledgeXYW
  InitDeposit = 1
  Seeds = {"s1", "s2", "s3"}
  PermOf <- Perm3
  RepOrder <- Rep4
  SeedFromSeen = FALSE
  Nume = 2
  Deno = 3
  UpperLimit = 12
VIEW View
INVARIANTS TypeOK ReplicasAgree NextValidatorsAgree ScoreInRange ListMirrorsContract ProdBounded ElectedFromContract
CHECK_DEADLOCK FALSE
ACTION_CONSTRAINT Edge
