SPECIFICATION Spec
CONSTANTS
  Cand = {"x", "y"}
  CandOrder <- OrderXY
  Other = {"z"}
  MaxScore = 500
  InitScore <- InitXY
  MaxH = 4
  MaxEv = 2
VIEW View
INVARIANTS TypeOK ScoreInRange ListMirrorsContract ProdBounded
ACTION_CONSTRAINT Edge
CHECK_DEADLOCK FALSE
