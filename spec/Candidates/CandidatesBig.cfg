\* thorough design instance: two elections (heights 3 and 6), the second one from an elected list
SPECIFICATION Spec
CONSTANTS
  Cand = {"x", "y", "w"}
  CandOrder <- OrderXY
  Other = {"z"}
  MaxScore = 500
  InitScore <- InitXYW
  MaxH = 6
  EvBound <- EvDesignBig
  VotePeriod = 3
  Pledge <- PledgeXYW
  InitDeposit = 1
  Seeds = {"s1", "s2", "s3"}
  PermOf <- Perm3
  RepOrder <- Rep4
  SeedFromSeen = FALSE
  Nume = 2
  Deno = 3
  UpperLimit = 12
VIEW View
INVARIANTS TypeOK ReplicasAgree NextValidatorsAgree ScoreInRange ListMirrorsContract ProdBounded ElectedFromContract
CHECK_DEADLOCK FALSE
