\* quick design instance: election at height 3, one block after it; checked beside the export (no edges printed)
SPECIFICATION Spec
CONSTANTS
  Cand = {"x", "y", "w"}
  CandOrder <- OrderXY
  Other = {"z"}
  MaxScore = 500
  InitScore <- InitXYW
  MaxH = 4
  EvBound <- EvDesign
  VotePeriod = 3
  Pledge <- PledgeXYW
  InitDeposit = 1
  Seeds = {"s1", "s2", "s3"}
  PermOf <- Perm3
  RepOrder <- Rep4
  SeedFromSeen = FALSE
  Nume = 2
  Deno = 3
  UpperLimit = 12
VIEW View
INVARIANTS TypeOK ReplicasAgree NextValidatorsAgree ScoreInRange ListMirrorsContract ProdBounded ElectedFromContract
CHECK_DEADLOCK FALSE
