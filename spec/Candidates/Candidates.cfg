SPECIFICATION Spec
CONSTANTS
  Cand = {"x", "y"}
  CandOrder <- OrderXY
  Other = {"z"}
  MaxScore = 500
  InitScore <- InitXY
  MaxH = 3
  MaxEv = 2
VIEW View
INVARIANTS TypeOK ScoreInRange ListMirrorsContract ProdBounded
CHECK_DEADLOCK FALSE
