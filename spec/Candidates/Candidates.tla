------------------------------ MODULE Candidates ------------------------------
(***************************************************************************)
(* Candidate book-keeping of block execution (app/app.go), on several      *)
(* nodes that execute the same chain:                                      *)
(*   CheckBlock/PreRunBlock -> processBlock:                               *)
(*        TxsResult.SetCandidates(copy of the last list);                  *)
(*        processBlockEvidence: produce counter / score of the candidates  *)
(*        named by the block's evidence, in the list AND in the Candidates *)
(*        contract storage                                 (action Exec)   *)
(*   CommitBlock(block, seenCommit) -> updateCandidatesbyOrder(result,     *)
(*        block.LastCommit.Hash()):                        (action Commit) *)
(*        height % VotePeriod # 0 : reorder / drop                         *)
(*        height % VotePeriod = 0 : ELECTION - calculateCandidates: the    *)
(*            list is rebuilt from the contract storage (score > 0), with  *)
(*            the pledge deposit, a random number per candidate drawn from *)
(*            Keccak(hash, address), CalRank and the weighted RandomSort   *)
(*            salted with the hash; fresh produce counters; Rank = index   *)
(*        getValidators: the head of the list is the next validator set    *)
(* "The next validator candidates" of property C05 must be a function of   *)
(* (previous list, contract state, block).  A block is (evidence, seed):   *)
(* seed abstracts block.LastCommit.Hash() to what the election makes of    *)
(* it - the order PermOf[seed] it induces on the candidates and the random *)
(* numbers drawn from it.  CommitBlock also receives a NODE-LOCAL input,   *)
(* the seen commit (the +2/3 precommits that node happened to collect, or, *)
(* on the fast-sync path, the LastCommit of the following block): every    *)
(* replica commits with its own `seen`, over all choices, and the stored   *)
(* list, the next validators and the contract state must not depend on it. *)
(* SeedFromSeen = TRUE is the what-if in which the election is seeded from *)
(* the seen commit: TLC then violates ReplicasAgree.                       *)
(***************************************************************************)
EXTENDS Integers, Sequences, FiniteSets, TLC, Json

CONSTANTS Cand,        \* candidates registered in the Candidates contract
          CandOrder,   \* sequence over Cand: the stored list at genesis (registered candidates may be missing from it)
          Other,       \* validators that are not candidates
          MaxScore,    \* Coefficient.MaxScore (500)
          InitScore,   \* [Cand -> Int] score at genesis (list and contract agree)
          MaxH,        \* heights explored
          EvBound,     \* sequence: evidence items a block of height h may carry
          VotePeriod,  \* Coefficient.VotePeriod: an election at every height that is a multiple of it
          Pledge,      \* [Cand -> Int] deposit in the pledge contract (whole coins)
          InitDeposit, \* deposit recorded in the genesis list
          Seeds,       \* classes of LastCommit hashes
          PermOf,      \* [Seeds \cup {"empty"} -> permutation of Cand] the order a hash of that class induces
          RepOrder,    \* sequence of replicas (they commit a block in this order; they share nothing)
          SeedFromSeen,\* what-if: CommitBlock seeds the election from the seen commit
          Nume, Deno, UpperLimit  \* Coefficient.VoteRate: len*Nume/Deno candidates, at most UpperLimit, become validators

TwoConsecutive == 2
Threshold      == 3
Punish         == -10

\* the instance, for the replay (genesis of the real application is built from it)
ASSUME PrintT(ToJson([consts |-> [period |-> VotePeriod, pledge |-> Pledge, initDeposit |-> InitDeposit, order |-> CandOrder,
                                  initScore |-> InitScore, maxScore |-> MaxScore, nume |-> Nume, deno |-> Deno, upper |-> UpperLimit,
                                  perm |-> PermOf, replicas |-> RepOrder, maxH |-> MaxH, seedFromSeen |-> SeedFromSeen]]))

VARIABLES node,    \* [replica -> N]: what the replica holds; N = [list, prod, score, dep, drawn, cscore]
                   \*   list   the stored TxsResult.Candidates, in order (Rank = index)
                   \*   prod   ProduceInfo, score Score, dep Deposit of the list entries
                   \*   drawn  the class of the hash the Rand numbers of the list were drawn from
                   \*   cscore Score in the Candidates contract storage (part of the state hash)
                   \* while a block is open and the replica has not committed it, this is its processBlock result
          open,    \* a block has been executed (CheckBlock) and not yet committed by every replica
          seed,    \* class of the open block's LastCommit hash
          pc,      \* replicas RepOrder[1..pc] have committed the open block
          h,       \* height committed by every replica
          last     \* label of the last step (hidden by VIEW)
vars == <<node, open, seed, pc, h, last>>
View == <<node, open, seed, pc, h>>

Keys == Cand \cup Other
Range(s) == {s[i] : i \in 1..Len(s)}
Replica == Range(RepOrder)
R == Len(RepOrder)

\* evidence items a block may carry
Items ==
      {[k |-> "award", p |-> c, f |-> c] : c \in Keys}                       \* FaultValidatorsEvidence, round 0
 \cup {[k |-> "fault", p |-> c, f |-> d] : c \in Keys, d \in Cand}            \* round > 0: award c, punish d
 \cup {[k |-> "fault", p |-> c, f |-> d] : c \in Cand, d \in Other}
 \cup {[k |-> "dup",   p |-> c, f |-> c] : c \in Cand}                       \* DuplicateVoteEvidence

EvLists(n) == UNION {[1..m -> Items] : m \in 0..n}

(* ---- processBlockEvidence (only candidates of the last list are touched) -- *)
Award(s, c, in) ==
  IF ~(c \in in) THEN s ELSE
  LET p0 == IF s.prod[c] < 0 THEN 0 ELSE s.prod[c]
      p1 == p0 + 1
  IN IF p1 > TwoConsecutive
       THEN [s EXCEPT !.prod[c] = 0,
                      !.cscore[c] = IF @ < MaxScore THEN @ + 1 ELSE @,
                      !.score[c] = IF @ < MaxScore THEN @ + 1 ELSE @]
       ELSE [s EXCEPT !.prod[c] = p1]

Punishment(s, c, in) ==
  IF ~(c \in in) THEN s ELSE
  LET p0 == IF s.prod[c] > 0 THEN 0 ELSE s.prod[c]
      p1 == p0 - 1
  IN IF p1 <= -TwoConsecutive
       THEN [s EXCEPT !.prod[c] = p1,
                      !.cscore[c] = IF @ > 1 THEN @ - 1 ELSE @,
                      !.score[c] = IF @ > 1 THEN @ - 1 ELSE @]
       ELSE [s EXCEPT !.prod[c] = p1]

Clear(s, c, in) ==
  IF ~(c \in in) THEN s ELSE
  [s EXCEPT !.prod[c] = Punish, !.cscore[c] = 0, !.score[c] = 0]

ApplyItem(s, e, in) ==
  CASE e.k = "award" -> Award(s, e.p, in)
    [] e.k = "fault" -> Punishment(Award(s, e.p, in), e.f, in)
    [] e.k = "dup"   -> Clear(s, e.p, in)

RECURSIVE ApplyAll(_, _, _, _)
ApplyAll(s, evs, i, in) == IF i > Len(evs) THEN s ELSE ApplyAll(ApplyItem(s, evs[i], in), evs, i + 1, in)

Process(n, evs) == ApplyAll(n, evs, 1, Range(n.list))

(* ---- CommitBlock ----------------------------------------------------------- *)
\* entries of candidates outside the list do not exist: the functions are kept canonical
Canon(n) == LET in == Range(n.list) IN
  [n EXCEPT !.prod  = [c \in Cand |-> IF c \in in THEN n.prod[c] ELSE 0],
            !.score = [c \in Cand |-> IF c \in in THEN n.score[c] ELSE 0],
            !.dep   = [c \in Cand |-> IF c \in in THEN n.dep[c] ELSE 0]]

\* updateCandidatesbyOrder below an election height
Keep(s, c)   == s.prod[c] > -Threshold
Moved(s, c)  == ~Keep(s, c) /\ s.prod[c] # Punish
Reorder(s1) ==
  LET kept  == SelectSeq(s1.list, LAMBDA c : Keep(s1, c))
      moved == SelectSeq(s1.list, LAMBDA c : Moved(s1, c))
  IN Canon([s1 EXCEPT !.list = kept \o moved,
                      !.prod = [c \in Cand |-> IF c \in Range(moved) THEN 0 ELSE s1.prod[c]]])

\* calculateCandidates: a function of the contract state and the hash, nothing else
Elect(s1, sd) ==
  LET elig == {c \in Cand : s1.cscore[c] > 0}
  IN Canon([s1 EXCEPT !.list  = SelectSeq(PermOf[sd], LAMBDA c : c \in elig),
                      !.prod  = [c \in Cand |-> 0],
                      !.score = s1.cscore,
                      !.dep   = Pledge,
                      !.drawn = sd])

Election(height) == height % VotePeriod = 0
CommitFn(s1, height, sd) == IF Election(height) THEN Elect(s1, sd) ELSE Reorder(s1)

\* getValidators(canList): what CommitBlock returns (without the inner validators of the white list)
NumVals(l) == LET k == (Len(l) * Nume) \div Deno IN IF k > UpperLimit THEN UpperLimit ELSE k
Vals(n) == SubSeq(n.list, 1, NumVals(n.list))

NoSeed == "none"
Init == /\ node = [r \in Replica |-> Canon([list |-> CandOrder, prod |-> [c \in Cand |-> 0], score |-> InitScore,
                                            dep |-> [c \in Cand |-> InitDeposit], drawn |-> NoSeed, cscore |-> InitScore])]
        /\ open = FALSE
        /\ seed = NoSeed
        /\ pc = 0
        /\ h = 0
        /\ last = [op |-> "init"]

\* the block of height h+1 is executed by every replica (proposer: PreRunBlock + CheckBlock, validators and
\* fast sync: CheckBlock); the first block carries the empty commit
Exec(evs, sd) ==
  /\ ~open /\ h < MaxH
  /\ node' = [r \in Replica |-> Process(node[r], evs)]
  /\ open' = TRUE /\ seed' = sd /\ pc' = 0 /\ h' = h
  /\ last' = [op |-> "exec", evs |-> evs, seed |-> sd, election |-> Election(h + 1), period |-> VotePeriod]

\* CommitBlock(block, seen) on the next replica; the replica's seen commit is any valid commit of the block
Commit(sn) ==
  /\ open
  /\ LET r == RepOrder[pc + 1]
         sd == IF SeedFromSeen THEN sn ELSE seed
     IN /\ node' = [node EXCEPT ![r] = CommitFn(@, h + 1, sd)]
        /\ last' = [op |-> "commit", r |-> r, seen |-> sn]
  /\ IF pc + 1 = R
       THEN open' = FALSE /\ seed' = NoSeed /\ pc' = 0 /\ h' = h + 1
       ELSE open' = TRUE /\ seed' = seed /\ pc' = pc + 1 /\ h' = h

\* The class of a hash is what an election makes of it: at the other heights CommitFn does not look at the
\* hash and there is one class. (The replay gives every replica its own commit at every height.)
AnySeed == "any"
SeedsAt(height) == IF Election(height) THEN Seeds ELSE {AnySeed}
Next == \/ /\ h < MaxH
           /\ \E evs \in EvLists(EvBound[h + 1]), sd \in (IF h = 0 THEN {"empty"} ELSE SeedsAt(h + 1)) : Exec(evs, sd)
        \/ \E sn \in SeedsAt(h + 1) : Commit(sn)
Spec == Init /\ [][Next]_vars

(* ---- what the design promises ------------------------------------------- *)
Done(r) == \E i \in 1..pc : RepOrder[i] = r          \* r has committed the open block
Lists == {node[r].list : r \in Replica}
TypeOK == /\ \A l \in Lists : Range(l) \subseteq Cand /\ \A i, j \in 1..Len(l) : i # j => l[i] # l[j]
          /\ pc \in 0..(R - 1) /\ h \in 0..MaxH
\* C05: replicas in the same stage hold the same list (order, counters, score, deposit, random numbers),
\* the same contract state and return the same next validators - whatever their seen commits were
ReplicasAgree == \A r1, r2 \in Replica : (Done(r1) <=> Done(r2)) => node[r1] = node[r2]
NextValidatorsAgree == \A r1, r2 \in Replica : (Done(r1) <=> Done(r2)) => Vals(node[r1]) = Vals(node[r2])
Committed(r) == ~open \/ Done(r)
ScoreInRange == \A r \in Replica : \A c \in Range(node[r].list) : node[r].score[c] >= 0 /\ node[r].score[c] <= MaxScore
\* the list's copy of the score never drifts from the contract's
ListMirrorsContract == \A r \in Replica : \A c \in Range(node[r].list) : node[r].score[c] = node[r].cscore[c]
\* a candidate whose score was cleared by a duplicate vote leaves the list at the commit
\* (unless a later item of the same block moved its counter off the marker)
ProdBounded == \A r \in Replica : Committed(r) =>
                 \A c \in Range(node[r].list) : node[r].prod[c] > -Threshold /\ node[r].prod[c] <= TwoConsecutive
\* an elected list is exactly the scored candidates of the contract, with fresh counters and the pledge deposit
ElectedFromContract == \A r \in Replica : (Committed(r) /\ (IF open THEN h + 1 ELSE h) > 0 /\ Election(IF open THEN h + 1 ELSE h)) =>
                 /\ Range(node[r].list) = {c \in Cand : node[r].cscore[c] > 0}
                 /\ \A c \in Range(node[r].list) : node[r].prod[c] = 0 /\ node[r].dep[c] = Pledge[c]

\* under ReplicasAgree the first and the last replica of the commit order determine the state
Proj == [h |-> h, open |-> open, seed |-> seed, pc |-> pc,
         a |-> node[RepOrder[1]], z |-> node[RepOrder[R]],
         avals |-> Vals(node[RepOrder[1]]), zvals |-> Vals(node[RepOrder[R]])]
Edge == PrintT(ToJson([from |-> Proj, act |-> last', to |-> Proj']))
===============================================================================
