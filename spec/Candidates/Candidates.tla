------------------------------ MODULE Candidates ------------------------------
(***************************************************************************)
(* Candidate book-keeping of block execution (app/app.go):                 *)
(*   processBlock      : TxsResult.SetCandidates(copy of the last list)    *)
(*   processBlockEvidence : produce counter / score of the candidates      *)
(*                          named by the block's evidence, in list AND in  *)
(*                          the Candidates contract storage                *)
(*   CommitBlock -> updateCandidatesbyOrder : reorder / drop (no election: *)
(*                          heights below VotePeriod = 1321)               *)
(* The next list is part of "the next validator candidates" of property    *)
(* C05: it must be a function of (previous list, contract state, block).   *)
(* One action = one block; the replay executes it on several replicas that *)
(* run the block a different number of times.                              *)
(***************************************************************************)
EXTENDS Integers, Sequences, FiniteSets, TLC, Json

CONSTANTS Cand,        \* candidates at genesis (list order = CandOrder)
          CandOrder,   \* sequence over Cand
          Other,       \* validators that are not candidates
          MaxScore,    \* Coefficient.MaxScore (500)
          InitScore,   \* [Cand -> Int] score at genesis (list and contract agree)
          MaxH,        \* heights explored
          MaxEv        \* evidence items per block

TwoConsecutive == 2
Threshold      == 3
Punish         == -10

VARIABLES list,    \* sequence of candidates (the stored TxsResult.Candidates, in order)
          prod,    \* [Cand -> Int]  ProduceInfo of the list entry
          score,   \* [Cand -> Int]  Score of the list entry
          cscore,  \* [Cand -> Int]  Score in the Candidates contract storage
          h,
          last     \* label of the last block (hidden by VIEW)
vars == <<list, prod, score, cscore, h, last>>
View == <<list, prod, score, cscore, h>>

Keys == Cand \cup Other
Range(s) == {s[i] : i \in 1..Len(s)}

\* evidence items a block may carry
Items ==
      {[k |-> "award", p |-> c, f |-> c] : c \in Keys}                       \* FaultValidatorsEvidence, round 0
 \cup {[k |-> "fault", p |-> c, f |-> d] : c \in Keys, d \in Cand}            \* round > 0: award c, punish d
 \cup {[k |-> "fault", p |-> c, f |-> d] : c \in Cand, d \in Other}
 \cup {[k |-> "dup",   p |-> c, f |-> c] : c \in Cand}                       \* DuplicateVoteEvidence

EvLists == UNION {[1..n -> Items] : n \in 0..MaxEv}

St == [prod : [Cand -> Int], score : [Cand -> Int], cscore : [Cand -> Int]]

Award(s, c, in) ==
  IF ~(c \in in) THEN s ELSE
  LET p0 == IF s.prod[c] < 0 THEN 0 ELSE s.prod[c]
      p1 == p0 + 1
  IN IF p1 > TwoConsecutive
       THEN [prod   |-> [s.prod EXCEPT ![c] = 0],
             cscore |-> [s.cscore EXCEPT ![c] = IF @ < MaxScore THEN @ + 1 ELSE @],
             score  |-> [s.score EXCEPT ![c] = IF @ < MaxScore THEN @ + 1 ELSE @]]
       ELSE [s EXCEPT !.prod[c] = p1]

Punishment(s, c, in) ==
  IF ~(c \in in) THEN s ELSE
  LET p0 == IF s.prod[c] > 0 THEN 0 ELSE s.prod[c]
      p1 == p0 - 1
  IN IF p1 <= -TwoConsecutive
       THEN [prod   |-> [s.prod EXCEPT ![c] = p1],
             cscore |-> [s.cscore EXCEPT ![c] = IF @ > 1 THEN @ - 1 ELSE @],
             score  |-> [s.score EXCEPT ![c] = IF @ > 1 THEN @ - 1 ELSE @]]
       ELSE [s EXCEPT !.prod[c] = p1]

Clear(s, c, in) ==
  IF ~(c \in in) THEN s ELSE
  [prod |-> [s.prod EXCEPT ![c] = Punish], cscore |-> [s.cscore EXCEPT ![c] = 0], score |-> [s.score EXCEPT ![c] = 0]]

ApplyItem(s, e, in) ==
  CASE e.k = "award" -> Award(s, e.p, in)
    [] e.k = "fault" -> Punishment(Award(s, e.p, in), e.f, in)
    [] e.k = "dup"   -> Clear(s, e.p, in)

RECURSIVE ApplyAll(_, _, _, _)
ApplyAll(s, evs, i, in) == IF i > Len(evs) THEN s ELSE ApplyAll(ApplyItem(s, evs[i], in), evs, i + 1, in)

\* updateCandidatesbyOrder below an election height
Keep(s, c)   == s.prod[c] > -Threshold
Moved(s, c)  == ~Keep(s, c) /\ s.prod[c] # Punish
Init == /\ list = CandOrder
        /\ prod = [c \in Cand |-> 0]
        /\ score = InitScore
        /\ cscore = InitScore
        /\ h = 0
        /\ last = [evs |-> <<>>]

Block(evs) ==
  /\ h < MaxH
  /\ LET in == Range(list)
         s1 == ApplyAll([prod |-> prod, score |-> score, cscore |-> cscore], evs, 1, in)
         kept  == SelectSeq(list, LAMBDA c : Keep(s1, c))
         moved == SelectSeq(list, LAMBDA c : Moved(s1, c))
         s2 == [s1 EXCEPT !.prod = [c \in Cand |-> IF c \in Range(moved) THEN 0 ELSE s1.prod[c]]]
     IN /\ list' = kept \o moved
        /\ prod' = s2.prod
        /\ score' = s2.score
        /\ cscore' = s2.cscore
  /\ h' = h + 1
  /\ last' = [evs |-> evs]

Next == \E evs \in EvLists : Block(evs)
Spec == Init /\ [][Next]_vars

(* ---- what the design promises ------------------------------------------- *)
TypeOK == /\ Range(list) \subseteq Cand
          /\ \A i, j \in 1..Len(list) : i # j => list[i] # list[j]
ScoreInRange == \A c \in Range(list) : score[c] >= 0 /\ score[c] <= MaxScore
\* the list's copy of the score never drifts from the contract's
ListMirrorsContract == \A c \in Range(list) : score[c] = cscore[c]
\* a candidate whose score was cleared by a duplicate vote leaves the list at the commit
\* (unless a later item of the same block moved its counter off the marker)
ProdBounded == \A c \in Range(list) : prod[c] > -Threshold /\ prod[c] <= TwoConsecutive

Edge == PrintT(ToJson([from |-> [list |-> list, prod |-> prod, score |-> score, cscore |-> cscore, h |-> h],
                       act  |-> last',
                       to   |-> [list |-> list', prod |-> prod', score |-> score', cscore |-> cscore', h |-> h']]))
===============================================================================
