---- MODULE MC_Candidates ----
EXTENDS Candidates
\* x and y are in the genesis list; w registered with the contract after the list was made (it enters at the first election)
OrderXY == <<"x", "y">>
\* x sits just below the ceiling, y just above the floor (the two saturation points of the score)
InitXYW == [c \in {"x", "y", "w"} |-> CASE c = "x" -> 499 [] c = "y" -> 2 [] OTHER -> 7]
\* w has no pledge (the deposit of such a candidate is 0)
PledgeXYW == [c \in {"x", "y", "w"} |-> CASE c = "x" -> 3 [] c = "y" -> 5 [] OTHER -> 0]
\* three classes of hashes: every candidate heads the list under one of them
Perm3 == [s \in {"s1", "s2", "s3", "empty"} |->
            CASE s = "s1" -> <<"x", "y", "w">> [] s = "s2" -> <<"w", "y", "x">> [] s = "s3" -> <<"y", "w", "x">> [] OTHER -> <<"x", "y", "w">>]
\* proposer (PreRunBlock + CheckBlock), validator (CheckBlock), validator that saw the block in two rounds, fast-sync node
Rep4 == <<"p", "v1", "v2", "f">>
EvExport    == <<2, 1, 1, 1>>
EvDesign    == <<2, 2, 1, 1>>
EvExportBig == <<2, 2, 1, 1, 1>>
EvDesignBig == <<2, 2, 2, 1, 1, 1>>
====
