---- MODULE MC_Candidates ----
EXTENDS Candidates
OrderXY == <<"x", "y">>
\* x sits just below the ceiling, y just above the floor (the two saturation points of the score)
InitXY == [c \in {"x", "y"} |-> IF c = "x" THEN 499 ELSE 2]
====
