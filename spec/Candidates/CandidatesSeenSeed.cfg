\* WHAT-IF: CommitBlock seeds the election from the node's seen commit. TLC must report ReplicasAgree violated (the check treats anything else as a vacuous model)
SPECIFICATION Spec
CONSTANTS
  Cand = {"x", "y", "w"}
  CandOrder <- OrderXY
  Other = {"z"}
  MaxScore = 500
  InitScore <- InitXYW
  MaxH = 4
  EvBound <- EvExport
  VotePeriod = 3
  Pledge <- PledgeXYW
  InitDeposit = 1
  Seeds = {"s1", "s2", "s3"}
  PermOf <- Perm3
  RepOrder <- Rep4
  SeedFromSeen = TRUE
  Nume = 2
  Deno = 3
  UpperLimit = 12
VIEW View
INVARIANTS TypeOK ReplicasAgree NextValidatorsAgree ScoreInRange ListMirrorsContract ProdBounded ElectedFromContract
CHECK_DEADLOCK FALSE
