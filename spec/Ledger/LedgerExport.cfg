SPECIFICATION Spec
CONSTANTS
  Acct = {"a1", "a2"}
  Wallet = {"w1"}
  Passive = {"p1"}
  InitTok = 1
  Amt = {1}
  InitBal = 2
  MaxH = 4
  MaxTx = 1
  MaxCoins = 3
  Kinds = {"xfer", "dep", "wd", "cx", "call", "tok", "fwd", "sst", "pay"}
INVARIANTS Conservation TokenConservation NoNegative SpentOnce SpentMarked
ACTION_CONSTRAINT Edge
VIEW View
CHECK_DEADLOCK FALSE
