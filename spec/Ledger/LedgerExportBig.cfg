SPECIFICATION Spec
CONSTANTS
  Acct = {"a1", "a2"}
  Wallet = {"w1"}
  Amt = {1, 2}
  InitBal = 3
  MaxH = 2
  MaxTx = 2
  MaxCoins = 2
INVARIANTS Conservation NoNegative SpentOnce SpentMarked
ACTION_CONSTRAINT Edge
VIEW View
CHECK_DEADLOCK FALSE
