SPECIFICATION Spec
CONSTANTS
  Acct = {"a1", "a2"}
  Wallet = {"w1"}
  Passive = {"p1"}
  InitTok = 1
  Amt = {1}
  InitBal = 3
  MaxH = 2
  MaxTx = 2
  MaxCoins = 2
INVARIANTS Conservation TokenConservation NoNegative SpentOnce SpentMarked
ACTION_CONSTRAINT Edge
VIEW View
CHECK_DEADLOCK FALSE
