\* quick tier: every kind alone (blocks / batches of up to 3), three mixed pairs (up to 2); checked and exported in one run
SPECIFICATION Spec
CONSTANTS
  Families = {{"xfer"}, {"tok"}, {"create"}, {"call"}, {"dep"}, {"mst"}, {"mst", "cut"}, {"xfer", "dep"}, {"tok", "call"}}
  MaxNonce1 = 2
  MaxNonce2 = 2
  MaxNonce3 = 2
  MaxTx1 = 3
  MaxTx2 = 2
  MaxTx3 = 1
  Paths = {"block", "pool"}
  Checked = {"xfer", "tok", "create", "call", "dep", "cut", "mst"}
INVARIANTS TypeOK ExecutedAtMostOnce ExactNextNonce NonceCountsExecuted SignersNotRolledBack CodeNotRolledBack PoolContinuesChain
PROPERTIES RejectedIsNoOp RejectedBlockLeavesPool NonceMonotone
ACTION_CONSTRAINT Edge
VIEW View
CHECK_DEADLOCK FALSE
