SPECIFICATION Spec
CONSTANTS
  Acct = {"a1", "a2"}
  Wallet = {"w1"}
  Passive = {"p1"}
  InitTok = 1
  Amt = {1}
  InitBal = 2
  MaxH = 3
  MaxTx = 3
  MaxCoins = 0
  Kinds = {"kill", "kfund"}
INVARIANTS Conservation TokenConservation NoNegative SpentOnce SpentMarked
PROPERTIES RejectedIsNoOp NonceCountsExecuted
ACTION_CONSTRAINT Edge
VIEW View
CHECK_DEADLOCK FALSE
