\* control: the nonce check of the block path lacks the two special kinds (the shape of a type switch without
\* their cases); TLC must report a violated invariant (ExecutedAtMostOnce / ExactNextNonce / SignersNotRolledBack)
SPECIFICATION Spec
CONSTANTS
  Families = {{"mst"}, {"mst", "cut"}}
  MaxNonce1 = 2
  MaxNonce2 = 2
  MaxNonce3 = 2
  MaxTx1 = 2
  MaxTx2 = 2
  MaxTx3 = 1
  Paths = {"block", "pool"}
  Checked = {"xfer", "tok", "create", "call", "dep"}
INVARIANTS TypeOK ExecutedAtMostOnce ExactNextNonce NonceCountsExecuted SignersNotRolledBack CodeNotRolledBack PoolContinuesChain
VIEW View
CHECK_DEADLOCK FALSE
