----------------------------- MODULE NonceKinds -----------------------------
(***************************************************************************)
(* The nonce discipline of linkchain PER TRANSACTION KIND, on both ways a  *)
(* transaction reaches the chain.                                          *)
(*                                                                         *)
(* Every kind that carries an account input is executed through the same   *)
(* processTransaction (app/state_processor.go GenerateTransaction,         *)
(* app/state_transition.go preTransit/checkNonce, postTransit/setNonce):   *)
(*   xfer    types.Transaction to a plain account                          *)
(*   tok     types.TokenTransaction                                        *)
(*   create  types.Transaction without recipient (contract creation)       *)
(*   call    types.Transaction to a contract                               *)
(*   dep     types.UTXOTransaction with an account input (deposit)         *)
(*   cut     types.ContractUpgradeTx  (sender = one of the installed       *)
(*           signers; here the ordinary account a1, so that it SHARES its  *)
(*           nonce sequence with the five kinds above)                     *)
(*   mst     types.MultiSignAccountTx (sender = the special account        *)
(*           MultiSignNonceAddr; signed by the validators; installs the    *)
(*           signer set that authorises cut)                               *)
(* but the code that decides whether the nonce is right sits in different  *)
(* places per kind and per path (checkValid's type switch,                 *)
(* CheckStoreState, the per-type CheckState of the mempool, the generic    *)
(* checkNonce).  The model states the rule once, for all kinds; the replay *)
(* (harness/props/c07/kinds.go) holds every kind on every path against it. *)
(*                                                                         *)
(* BLOCK PATH   Offer(blk): a foreign proposer's block (any sequence of    *)
(*   transactions) goes through PreRunBlock / CheckBlock / CommitBlock.    *)
(*   ONE transaction that is not at its sender's exact next nonce rejects  *)
(*   the WHOLE block; an accepted block is committed and the mempool is    *)
(*   updated (filter, recheck, promote).                                   *)
(* MEMPOOL PATH Submit(batch): the transactions are handed to AddTx one by *)
(*   one (good / queued for later / refused), then the node reaps          *)
(*   everything pending, builds the block and commits it.                  *)
(*                                                                         *)
(* A transaction is identified by [k, n, v]: kind, nonce it carries, and a *)
(* payload variant (v distinguishes a verbatim replay of a committed       *)
(* transaction from a fresh transaction that re-uses its nonce; for mst    *)
(* the variant IS the signer set it installs, for cut the code version).   *)
(***************************************************************************)
EXTENDS Integers, Sequences, FiniteSets, TLC, Json

CONSTANTS Families,  \* set of sets of kinds; a behaviour first chooses ONE family and then offers only its kinds
                     \* (the product of all kinds' histories is not needed: nonce sequences interact per sender)
          MaxNonce1, MaxNonce2, MaxNonce3,  \* bound on every sender's committed nonce in a family of 1, 2, >= 3 kinds
          MaxTx1, MaxTx2, MaxTx3,  \* transactions per offered block / submitted batch in a family of 1, 2, >= 3 kinds
          Paths,     \* subset of {"block", "pool"}
          Checked    \* kinds whose nonce the block path compares with the state.  As required: all kinds.
                     \* (A smaller set is the "as coded" shape of a tree in which the check sits in a type
                     \* switch that lacks a case; TLC then shows which invariants fall.)

AllKinds == {"xfer", "tok", "create", "call", "dep", "cut", "mst"}
Senders  == {"a1", "mst"}
SenderOf(k) == IF k = "mst" THEN "mst" ELSE "a1"
Variants == {"A", "B"}
Id(k, n, v) == [k |-> k, n |-> n, v |-> v]
Snd(x) == SenderOf(x.k)
NoId == Id("none", 0, "A")
VarsOf(k) == IF k = "mst" THEN Variants ELSE {"A"}        \* what is offered at the exact nonce
AltOf(k)  == IF k = "mst" THEN Variants ELSE {"B"}        \* fresh payloads for a used nonce

ASSUME /\ \A f \in Families : f # {} /\ f \subseteq AllKinds
       /\ Checked \subseteq AllKinds /\ Paths \subseteq {"block", "pool"}

VARIABLES fam,      \* the family of this behaviour ({} before the choice)
          nonce,    \* Senders -> committed next nonce (state Account.Nonce)
          log,      \* Senders -> sequence of [id, at]: every transaction ever committed for the sender, in order,
                    \* with the sender's committed nonce at the moment it was executed (history)
          signers,  \* "none" | "A" | "B": the installed signer set (txmgr.GetMultiSignersInfo)
          code,     \* id of the upgrade whose payload is the inner contract's code (NoId = genesis code)
          pend,     \* mempool: executable transactions in arrival order (goodTxs / specGoodTxs)
          fut,      \* mempool: transactions queued for a later nonce (futureTxs; one per sender and nonce)
          last      \* label of the step (output only)
vars == <<fam, nonce, log, signers, code, pend, fut, last>>

\* the bounds of the chosen family
MaxNonce == IF Cardinality(fam) = 1 THEN MaxNonce1 ELSE IF Cardinality(fam) = 2 THEN MaxNonce2 ELSE MaxNonce3
Len0 == IF Cardinality(fam) = 1 THEN MaxTx1 ELSE IF Cardinality(fam) = 2 THEN MaxTx2 ELSE MaxTx3
MaxLen == MaxTx1 + MaxTx2 + MaxTx3

Ids(sq) == {sq[i] : i \in DOMAIN sq}
Done == UNION {{log[s][i].id : i \in DOMAIN log[s]} : s \in Senders}

Init == /\ fam = {} /\ nonce = [s \in Senders |-> 0] /\ log = [s \in Senders |-> <<>>]
        /\ signers = "none" /\ code = NoId /\ pend = <<>> /\ fut = {}
        /\ last = [path |-> "init"]

(* ---- what may be offered --------------------------------------------------- *)
\* A view r = [nonce, known]: the nonces the next transaction is judged against and the identities already
\* used (committed, executed earlier in the block, or sitting in the pool).
Cur(r, k) == r.nonce[SenderOf(k)]
Exact(r) == UNION {{Id(k, Cur(r, k), v) : v \in VarsOf(k)} : k \in {q \in fam : Cur(r, q) < MaxNonce}} \ r.known
Deviant(r) ==
       {Id(k, Cur(r, k) + 1, "A") : k \in fam}                                                    \* a gap
  \cup UNION {{Id(k, Cur(r, k) - 1, v) : v \in AltOf(k)} : k \in {q \in fam : Cur(r, q) > 0}}     \* a used nonce, fresh payload
  \cup r.known                                                                                    \* verbatim: replay / duplicate
Adv(r, x) == [nonce |-> [r.nonce EXCEPT ![Snd(x)] = @ + 1], known |-> r.known \cup {x}]

\* Sequences of at most n further transactions, at most ONE of them deviating (d: the deviation is used up).
\* One bad transaction rejects the whole block, so a second deviation behind the first adds nothing; the
\* transactions around the deviating one are exact for the state in which the deviating one is skipped.
RECURSIVE Gen(_, _, _)
Gen(r, n, d) ==
  IF n = 0 THEN {<<>>}
  ELSE {<<>>}
       \cup UNION {{<<x>> \o rest : rest \in Gen(Adv(r, x), n - 1, d)} : x \in Exact(r)}
       \cup (IF d THEN {} ELSE UNION {{<<x>> \o rest : rest \in Gen(r, n - 1, TRUE)} : x \in Deviant(r) \ Exact(r)})

CountP(s) == Cardinality({i \in DOMAIN pend : Snd(pend[i]) = s})
CheckNonce == [s \in Senders |-> nonce[s] + CountP(s)]       \* the nonces of the speculative check state
BlocksB == Gen([nonce |-> nonce, known |-> Done], Len0, FALSE) \ {<<>>}
BlocksP == Gen([nonce |-> CheckNonce, known |-> Done \cup Ids(pend) \cup fut], Len0, FALSE) \ {<<>>}

(* ---- block execution -------------------------------------------------------- *)
\* b = [nonce, log, signers, code]: the state a block is executed on
Chain == [nonce |-> nonce, log |-> log, signers |-> signers, code |-> code]
Executed(b) == UNION {{b.log[s][i].id : i \in DOMAIN b.log[s]} : s \in Senders}

\* an upgrade is authorised by the signer set COMMITTED before the block (CheckBlock: verifyTxsOnProcess ->
\* ContractUpgradeTx.CheckBasic -> txmgr.GetMultiSignersInfo, which changes at commit only); set A contains a1
Auth(x, sg0) == x.k # "cut" \/ sg0 = "A"
NonceOK(b, x) == x.k \notin Checked \/ x.n = b.nonce[Snd(x)]
Why(b, x) == IF x.n > b.nonce[Snd(x)] THEN "gap"
             ELSE IF x \in Done THEN "replay"              \* committed in an earlier block
             ELSE IF x \in Executed(b) THEN "dup"          \* executed earlier in this very block
             ELSE "stale"                                  \* a fresh transaction on a used nonce
\* setNonce writes (nonce the transaction carries) + 1
Step(b, x) == [nonce   |-> [b.nonce EXCEPT ![Snd(x)] = x.n + 1],
               log     |-> [b.log EXCEPT ![Snd(x)] = Append(@, [id |-> x, at |-> b.nonce[Snd(x)]])],
               signers |-> IF x.k = "mst" THEN x.v ELSE b.signers,
               code    |-> IF x.k = "cut" THEN x ELSE b.code]
RECURSIVE Fold(_, _, _)
Fold(b, blk, i) == IF i > Len(blk) THEN [ok |-> TRUE, b |-> b, bad |-> 0, why |-> "none"]
                   ELSE IF NonceOK(b, blk[i]) THEN Fold(Step(b, blk[i]), blk, i + 1)
                   ELSE [ok |-> FALSE, b |-> b, bad |-> i, why |-> Why(b, blk[i])]
\* the verdict on a block: the nonce rule first (it is what this module is about), then authorisation
Run(b, blk) == LET r == Fold(b, blk, 1)
                   un == {i \in DOMAIN blk : ~Auth(blk[i], b.signers)}
               IN IF ~r.ok THEN r
                  ELSE IF un # {} THEN [ok |-> FALSE, b |-> b, bad |-> CHOOSE i \in un : \A j \in un : i <= j, why |-> "unauth"]
                  ELSE r

(* ---- the mempool ------------------------------------------------------------ *)
SlotTaken(f, x) == \E y \in f : Snd(y) = Snd(x) /\ y.n = x.n
CanQueue(x) == x.k # "mst"          \* canAddFutureTxType: special transactions have no future queue

\* promoteExecutables: queued transactions that are too old are dropped, those whose turn has come move to pending
RECURSIVE Promote(_, _, _)
Promote(rn, p, f) ==
  LET f1 == {x \in f : x.n >= rn[Snd(x)]}
      ready == {x \in f1 : x.n = rn[Snd(x)]}
  IN IF ready = {} THEN [rn |-> rn, pend |-> p, fut |-> f1]
     ELSE LET x == CHOOSE y \in ready : TRUE
          IN Promote([rn EXCEPT ![Snd(x)] = @ + 1], Append(p, x), f1 \ {x})

\* AddTx on q = [cn, pend, fut] (cn: nonces of the check state).  Verdict: "good" (pending), "future" (queued), or
\* refused: "known" (committed, pending or queued already: dedup cache / used nonce), "unauth", "low", "high"
Add(q, x) ==
  LET s == Snd(x) IN
  IF x \in Done \/ x \in Ids(q.pend) \/ x \in q.fut THEN [q |-> q, v |-> "known"]
  ELSE IF x.n < q.cn[s] THEN [q |-> q, v |-> "low"]
  ELSE IF ~Auth(x, signers) THEN [q |-> q, v |-> "unauth"]
  ELSE IF x.n = q.cn[s]
  THEN LET cn1 == [q.cn EXCEPT ![s] = @ + 1]
           pr  == IF CanQueue(x) THEN Promote(cn1, Append(q.pend, x), q.fut)
                  ELSE [rn |-> cn1, pend |-> Append(q.pend, x), fut |-> q.fut]
       IN [q |-> [cn |-> pr.rn, pend |-> pr.pend, fut |-> pr.fut], v |-> "good"]
  ELSE IF x.n > q.cn[s] /\ CanQueue(x) /\ ~SlotTaken(q.fut, x)
  THEN [q |-> [q EXCEPT !.fut = @ \cup {x}], v |-> "future"]
  ELSE [q |-> q, v |-> "high"]                        \* a gap, and no queue for the kind or the slot is taken
RECURSIVE AddAll(_, _, _, _)
AddAll(q, batch, i, vs) == IF i > Len(batch) THEN [q |-> q, vs |-> vs]
                           ELSE LET a == Add(q, batch[i]) IN AddAll(a.q, batch, i + 1, Append(vs, a.v))

\* Reap: ordinary transactions in arrival order, then the special ones
IsMst(x) == x.k = "mst"
NotMst(x) == x.k # "mst"
ReapOrder(p) == SelectSeq(p, NotMst) \o SelectSeq(p, IsMst)

\* mempool.Update after a commit: committed transactions leave, pending ones are rechecked in order against the
\* new committed state (too low: dropped; too high: back to the queue, dropped if the slot is taken), then promotion
RECURSIVE Recheck(_, _, _, _, _)
Recheck(p, i, rn, np, nf) ==
  IF i > Len(p) THEN [rn |-> rn, pend |-> np, fut |-> nf]
  ELSE LET x == p[i]  s == Snd(x) IN
       IF x.n = rn[s] THEN Recheck(p, i + 1, [rn EXCEPT ![s] = @ + 1], Append(np, x), nf)
       ELSE IF x.n > rn[s] /\ CanQueue(x) /\ ~SlotTaken(nf, x) THEN Recheck(p, i + 1, rn, np, nf \cup {x})
       ELSE Recheck(p, i + 1, rn, np, nf)
PoolAfter(p, f, b) ==
  LET left == SelectSeq(p, LAMBDA x : x \notin Executed(b))
      rc == Recheck(ReapOrder(left), 1, b.nonce, <<>>, f)
  IN Promote(rc.rn, rc.pend, rc.fut)

(* ---- actions ----------------------------------------------------------------- *)
Choose(f) == /\ fam = {} /\ fam' = f
             /\ last' = [path |-> "choose", fam |-> f]
             /\ UNCHANGED <<nonce, log, signers, code, pend, fut>>

Commit(b, p, f) == LET pa == PoolAfter(p, f, b) IN
                   /\ nonce' = b.nonce /\ log' = b.log /\ signers' = b.signers /\ code' = b.code
                   /\ pend' = pa.pend /\ fut' = pa.fut

\* block path: a foreign proposer's block
Offer(blk) ==
  LET r == Run(Chain, blk) IN
  /\ last' = [path |-> "block", blk |-> blk, ok |-> r.ok, bad |-> r.bad, why |-> r.why, verdicts |-> <<>>, reap |-> <<>>]
  /\ IF r.ok THEN Commit(r.b, pend, fut) ELSE UNCHANGED <<nonce, log, signers, code, pend, fut>>
  /\ UNCHANGED fam

\* mempool path: submissions, then the node proposes what it reaps
Submit(batch) ==
  LET a == AddAll([cn |-> CheckNonce, pend |-> pend, fut |-> fut], batch, 1, <<>>)
      reap == ReapOrder(a.q.pend)
      r == Run(Chain, reap)
  IN /\ last' = [path |-> "pool", blk |-> batch, ok |-> r.ok, bad |-> r.bad, why |-> r.why, verdicts |-> a.vs, reap |-> reap]
     /\ IF reap # <<>> /\ r.ok THEN Commit(r.b, a.q.pend, a.q.fut)
        ELSE /\ pend' = a.q.pend /\ fut' = a.q.fut /\ UNCHANGED <<nonce, log, signers, code>>
     /\ UNCHANGED fam

Next == \/ \E f \in Families : Choose(f)
        \/ /\ fam # {}
           /\ \/ "block" \in Paths /\ \E blk \in BlocksB : Offer(blk)
              \/ "pool" \in Paths /\ \E batch \in BlocksP : Submit(batch)
Spec == Init /\ [][Next]_vars

(* ---- what TLC checks ---------------------------------------------------------- *)
Entries == {<<s, i>> : s \in Senders, i \in 1..(MaxNonce1 + MaxNonce2 + MaxNonce3 + MaxLen + 2)}
Has(e) == e[2] \in DOMAIN log[e[1]]
\* C07: no transaction identity is executed twice, whatever its kind and whichever way it came
ExecutedAtMostOnce == \A e1, e2 \in Entries : Has(e1) /\ Has(e2) /\ e1 # e2 => log[e1[1]][e1[2]].id # log[e2[1]][e2[2]].id
\* C07: every executed transaction carried its sender's committed nonce of that moment, and these nonces count up
ExactNextNonce == \A s \in Senders : \A i \in DOMAIN log[s] : log[s][i].id.n = log[s][i].at /\ log[s][i].at = i - 1
NonceCountsExecuted == \A s \in Senders : nonce[s] = Len(log[s])
\* the installed signer set / contract code is the one of the HIGHEST nonce ever executed (a replay rolls it back)
Newest(s, k) == LET I == {i \in DOMAIN log[s] : log[s][i].id.k = k} IN
                IF I = {} THEN NoId ELSE log[s][CHOOSE i \in I : \A j \in I : log[s][j].id.n <= log[s][i].id.n].id
SignersNotRolledBack == signers = (IF Newest("mst", "mst") = NoId THEN "none" ELSE Newest("mst", "mst").v)
CodeNotRolledBack == code = Newest("a1", "cut")
\* between the mempool and the chain: what is pending continues the committed nonces without gap, nothing in the
\* pool is committed already, and the queue holds later nonces only
PoolContinuesChain ==
  /\ \A s \in Senders : LET P == SelectSeq(pend, LAMBDA x : Snd(x) = s) IN \A i \in DOMAIN P : P[i].n = nonce[s] + i - 1
  /\ (Ids(pend) \cup fut) \cap Done = {}
  /\ \A x \in fut : x.n > CheckNonce[Snd(x)]
  /\ Cardinality(Ids(pend)) = Len(pend)
TypeOK == /\ fam \in Families \cup {{}} /\ signers \in {"none", "A", "B"}
          /\ \A s \in Senders : nonce[s] \in 0..(MaxNonce1 + MaxNonce2 + MaxNonce3 + MaxLen + 2)
\* a rejected block changes nothing, on the chain and (block path) in the pool; nonces never move backwards
RejectedIsNoOp == [][(last'.path \in {"block", "pool"} /\ ~last'.ok) => UNCHANGED <<nonce, log, signers, code>>]_vars
RejectedBlockLeavesPool == [][(last'.path = "block" /\ ~last'.ok) => UNCHANGED <<pend, fut>>]_vars
NonceMonotone == [][\A s \in Senders : nonce'[s] >= nonce[s]]_vars

(* ---- export -------------------------------------------------------------------- *)
Proj(f, n, l, sg, c, p, q) == [fam |-> f, nonce |-> n, log |-> l, signers |-> sg, code |-> c, pend |-> p, fut |-> q]
Edge == PrintT(ToJson([from |-> Proj(fam, nonce, log, signers, code, pend, fut), act |-> last',
                       to |-> Proj(fam', nonce', log', signers', code', pend', fut')]))
View == <<fam, nonce, log, signers, code, pend, fut>>
=============================================================================
