------------------------------- MODULE Ledger -------------------------------
(***************************************************************************)
(* The value ledger of linkchain as block execution sees it                *)
(* (app/state_processor.go Process, app/state_transition.go,               *)
(* types/tx_utxo.go): account balances and nonces, a pool of confidential  *)
(* outputs ("coins") with their spent marks (key images), two contracts of *)
(* known behaviour, and the fee collector.  A block is a sequence of       *)
(* transactions executed in order; ONE invalid transaction rejects the     *)
(* WHOLE block (StateProcessor.Process returns the error).                 *)
(*                                                                         *)
(* Amounts are in abstract units; fees are "epsilon": a sender needs       *)
(* strictly more than the amount it moves, and what it pays in fees is     *)
(* accounted by the harness from receipts (fees never reach one unit in    *)
(* the bounded behaviours).  The block space contains the attacks the      *)
(* properties name: stale / future nonces (replay, gaps), spending a coin  *)
(* twice (in one block, across blocks), and tampered confidential          *)
(* transactions (inflated claim, altered commitment, altered fee).         *)
(***************************************************************************)
EXTENDS Integers, Sequences, FiniteSets, TLC, Json

CONSTANTS Acct,       \* account names (strings): they hold keys and send transactions
          Passive,    \* accounts that only receive (one starts with tokens only: no native coin, nonce 0)
          InitTok,    \* initial token balance of every holder (units of the one token T)
          Wallet,     \* confidential wallets (strings)
          Amt,        \* amounts a transaction may move (units)
          InitBal,    \* initial balance of every account (units)
          MaxH,       \* chain length bound
          MaxTx,      \* transactions per block bound
          MaxCoins,   \* bound on confidential outputs ever created
          Kinds       \* transaction kinds on the menu (families: the full menu is explored with one
                      \* transaction per block, multi-transaction blocks with a narrower menu)

Contracts == {"cStore", "cRevert"}   \* keeps what it receives / always reverts
Holders   == Acct \cup Passive
\* a third contract, cFwd, forwards the value it receives to the first passive account by an
\* inner CALL and reverts if that call fails; with a tight gas limit the inner call (which
\* carries linkchain's extra transfer fee) runs out of gas and the whole transaction fails
GasClass  == {"ample", "tight"}
\* "cStoreTight": a value-bearing call of cStore whose gas limit lies in the window between the
\* transfer fee and transfer fee + intrinsic gas: admitted, and failed before anything moves
CallTargets == Contracts \cup {"cStoreTight"}
\* a fourth contract, cKill: called WITH data it self-destructs in favour of the passive account,
\* called without data it just accepts what it is sent.  linkchain finalises the state once per
\* BLOCK: a self-destructed contract stays alive and callable until the end of the block, is then
\* deleted together with whatever it was sent after the self-destruct (as coded; see NoUndesignedBurn).

VARIABLES bal,      \* Holders -> units
          tok,      \* Holders -> units of token T
          nonce,    \* Acct -> next nonce
          coins,    \* sequence of [owner, amt, spent]: the confidential pool, by creation order
          held,     \* units held by the contracts (cStore)
          pay,      \* units held by cPay, a funded contract that pays one unit to the passive account when called
          kill,     \* [bal, code, dead]: cKill's holdings, whether its code still exists, and (inside a block
                    \* only) whether it has self-destructed in this block
          burnt,    \* history: units destroyed outside the two designed exceptions (as coded)
          h,        \* committed height
          spends,   \* history: coin ids spent on the committed chain, in order
          last      \* label of the last step (output only)
vars == <<bal, tok, nonce, coins, held, pay, kill, burnt, h, spends, last>>

St == [bal |-> bal, tok |-> tok, nonce |-> nonce, coins |-> coins, held |-> held, pay |-> pay, spends |-> spends,
       kill |-> kill, burnt |-> burnt]

PayInit == 2
Supply == Cardinality(Acct) * InitBal + PayInit

TokSupply == Cardinality(Holders) * InitTok
FwdTarget == CHOOSE p \in Passive : TRUE

Init == /\ bal = [a \in Holders |-> IF a \in Acct THEN InitBal ELSE 0]
        /\ tok = [a \in Holders |-> InitTok]
        /\ nonce = [a \in Acct |-> 0]
        /\ coins = <<>> /\ held = 0 /\ pay = PayInit /\ h = 0 /\ spends = <<>>
        /\ kill = [bal |-> 0, code |-> TRUE, dead |-> FALSE] /\ burnt = 0
        /\ last = [blk |-> <<>>, ok |-> TRUE]

(* ---- transactions -------------------------------------------------------- *)
\* uniform record: k kind, f from (account or coin id), t to, a amount, n nonce (or tamper class)
Tx(k, f, t, a, n) == [k |-> k, f |-> f, t |-> t, a |-> a, n |-> n]

NonceChoices(s, a) == {s.nonce[a], s.nonce[a] + 1} \cup (IF s.nonce[a] > 0 THEN {s.nonce[a] - 1} ELSE {})
CoinIds(s) == 1..Len(s.coins)

\* every transaction a block may contain in state s (valid or not)
FullMenu(s) ==
     UNION {{Tx("xfer", f, t, a, n) : t \in Acct \ {f}, a \in Amt, n \in NonceChoices(s, f)} : f \in Acct}
  \cup (IF Len(s.coins) < MaxCoins   \* (a bound of the model, not a rule of the ledger)
        THEN UNION {{Tx("dep", f, w, a, s.nonce[f]) : w \in Wallet, a \in Amt} : f \in Acct} ELSE {})
  \cup {Tx("wd", c, t, 0, "ok") : c \in CoinIds(s), t \in Acct}
  \cup (IF Len(s.coins) < MaxCoins THEN {Tx("cx", c, w, 0, "ok") : c \in CoinIds(s), w \in Wallet} ELSE {})
  \cup UNION {{Tx("call", f, c, a, s.nonce[f]) : c \in Contracts, a \in {0} \cup Amt} : f \in Acct}
  \cup UNION {{Tx("call", f, "cStoreTight", a, s.nonce[f]) : a \in Amt} : f \in Acct}
  \cup UNION {{Tx("kill", f, "cKill", a, s.nonce[f]) : a \in {0} \cup Amt} : f \in Acct}
  \cup UNION {{Tx("kfund", f, "cKill", a, s.nonce[f]) : a \in Amt} : f \in Acct}
  \cup {Tx("wd", c, t, 0, cls) : c \in CoinIds(s), t \in Acct, cls \in {"inflate", "commit", "fee"}}
  \cup UNION {{Tx("tok", f, t, a, s.nonce[f]) : t \in Holders \ {f}, a \in Amt} : f \in Acct}
  \cup UNION {{Tx("fwd", f, g, a, s.nonce[f]) : g \in GasClass, a \in Amt} : f \in Acct}
  \cup UNION {{Tx("sst", f, "cSlots", p, s.nonce[f]) : p \in {1, 2}} : f \in Acct}
  \cup UNION {{Tx("pay", f, g, 0, s.nonce[f]) : g \in GasClass} : f \in Acct}
Menu(s) == {x \in FullMenu(s) : x.k \in Kinds}

\* one transaction on state s: [ok, s]
Apply(s, tx) ==
  CASE tx.k = "xfer" ->
         \* valid whenever the nonce is right; a transfer the sender cannot cover is executed
         \* as a FAILED transaction (processTransaction.transitInputs): nonce and fee only
         IF tx.n = s.nonce[tx.f]
         THEN [ok |-> TRUE, s |-> IF s.bal[tx.f] > tx.a
                                  THEN [s EXCEPT !.bal[tx.f] = @ - tx.a, !.bal[tx.t] = @ + tx.a, !.nonce[tx.f] = @ + 1]
                                  ELSE [s EXCEPT !.nonce[tx.f] = @ + 1]]
         ELSE [ok |-> FALSE, s |-> s]
    [] tx.k = "tok" ->   \* token transfer; uncovered => failed transaction (nonce and fee only)
         IF tx.n = s.nonce[tx.f]
         THEN [ok |-> TRUE, s |-> IF s.tok[tx.f] >= tx.a
                                  THEN [s EXCEPT !.tok[tx.f] = @ - tx.a, !.tok[tx.t] = @ + tx.a, !.nonce[tx.f] = @ + 1]
                                  ELSE [s EXCEPT !.nonce[tx.f] = @ + 1]]
         ELSE [ok |-> FALSE, s |-> s]
    [] tx.k = "sst" ->   \* a storage-writing call (pattern 1 fills twelve slots, pattern 2 overwrites
                         \* eleven and clears one): no value moves; it exists for C05 (many updates and a
                         \* deletion in one storage trie within one block)
         IF tx.n = s.nonce[tx.f]
         THEN [ok |-> TRUE, s |-> [s EXCEPT !.nonce[tx.f] = @ + 1]]
         ELSE [ok |-> FALSE, s |-> s]
    [] tx.k = "pay" ->   \* zero-value call of cPay: with ample gas it pays one unit of ITS OWN balance to the
                         \* passive account; with a gas limit below the inner transfer fee the call fails as a whole
         IF tx.n = s.nonce[tx.f]
         THEN [ok |-> TRUE, s |-> IF tx.t = "ample" /\ s.pay >= 1
                                  THEN [s EXCEPT !.pay = @ - 1, !.bal[FwdTarget] = @ + 1, !.nonce[tx.f] = @ + 1]
                                  ELSE [s EXCEPT !.nonce[tx.f] = @ + 1]]
         ELSE [ok |-> FALSE, s |-> s]
    [] tx.k = "fwd" ->   \* call cFwd with value: forwarded to the passive account, or failed as a whole
         IF tx.n = s.nonce[tx.f]
         THEN [ok |-> TRUE, s |-> IF tx.t = "ample" /\ s.bal[tx.f] > tx.a
                                  THEN [s EXCEPT !.bal[tx.f] = @ - tx.a, !.bal[FwdTarget] = @ + tx.a, !.nonce[tx.f] = @ + 1]
                                  ELSE [s EXCEPT !.nonce[tx.f] = @ + 1]]
         ELSE [ok |-> FALSE, s |-> s]
    [] tx.k = "kill" ->  \* call cKill with data (and value a): while its code exists it takes the value and
                         \* self-destructs: everything it holds goes to the passive account
         IF tx.n = s.nonce[tx.f]
         THEN [ok |-> TRUE, s |-> IF s.bal[tx.f] > tx.a
                                  THEN IF s.kill.code
                                       THEN [s EXCEPT !.bal[tx.f] = @ - tx.a, !.bal[FwdTarget] = @ + s.kill.bal + tx.a,
                                                      !.kill = [bal |-> 0, code |-> TRUE, dead |-> TRUE], !.nonce[tx.f] = @ + 1]
                                       ELSE [s EXCEPT !.bal[tx.f] = @ - tx.a, !.kill.bal = @ + tx.a, !.nonce[tx.f] = @ + 1]
                                  ELSE [s EXCEPT !.nonce[tx.f] = @ + 1]]
         ELSE [ok |-> FALSE, s |-> s]
    [] tx.k = "kfund" -> \* value sent to cKill's address without data: accepted, with or without code
         IF tx.n = s.nonce[tx.f]
         THEN [ok |-> TRUE, s |-> IF s.bal[tx.f] > tx.a
                                  THEN [s EXCEPT !.bal[tx.f] = @ - tx.a, !.kill.bal = @ + tx.a, !.nonce[tx.f] = @ + 1]
                                  ELSE [s EXCEPT !.nonce[tx.f] = @ + 1]]
         ELSE [ok |-> FALSE, s |-> s]
    [] tx.k = "dep" ->
         IF tx.n = s.nonce[tx.f] /\ s.bal[tx.f] > tx.a
         THEN [ok |-> TRUE, s |-> [s EXCEPT !.bal[tx.f] = @ - tx.a, !.nonce[tx.f] = @ + 1,
                                           !.coins = Append(@, [owner |-> tx.t, amt |-> tx.a, spent |-> FALSE])]]
         ELSE [ok |-> FALSE, s |-> s]
    [] tx.k = "wd" ->   \* confidential -> account; a tampered spend is never valid
         IF tx.n = "ok" /\ tx.f \in CoinIds(s) /\ ~s.coins[tx.f].spent
         THEN [ok |-> TRUE, s |-> [s EXCEPT !.coins[tx.f].spent = TRUE, !.bal[tx.t] = @ + s.coins[tx.f].amt,
                                           !.spends = Append(@, tx.f)]]
         ELSE [ok |-> FALSE, s |-> s]
    [] tx.k = "cx" ->   \* confidential -> confidential
         IF tx.f \in CoinIds(s) /\ ~s.coins[tx.f].spent
         THEN [ok |-> TRUE, s |-> [s EXCEPT !.coins = Append([@ EXCEPT ![tx.f].spent = TRUE],
                                                             [owner |-> tx.t, amt |-> s.coins[tx.f].amt, spent |-> FALSE]),
                                           !.spends = Append(@, tx.f)]]
         ELSE [ok |-> FALSE, s |-> s]
    [] tx.k = "call" ->  \* valid whenever the nonce is right: a call whose value the sender cannot
                         \* cover, or that reverts, FAILS inside the VM and moves nothing but the fee
         IF tx.n = s.nonce[tx.f]
         THEN [ok |-> TRUE, s |-> IF tx.t = "cStore" /\ s.bal[tx.f] > tx.a
                                  THEN [s EXCEPT !.bal[tx.f] = @ - tx.a, !.held = @ + tx.a, !.nonce[tx.f] = @ + 1]
                                  ELSE [s EXCEPT !.nonce[tx.f] = @ + 1]]
         ELSE [ok |-> FALSE, s |-> s]

\* end of block: self-destructed contracts are deleted with whatever they hold by then
Finalise(s) == IF s.kill.dead
               THEN [s EXCEPT !.burnt = @ + s.kill.bal, !.kill = [bal |-> 0, code |-> FALSE, dead |-> FALSE]]
               ELSE s
RECURSIVE Exec(_, _)
Exec(s, blk) == IF blk = <<>> THEN [ok |-> TRUE, s |-> Finalise(s)]
                ELSE LET r == Apply(s, Head(blk))
                     IN IF r.ok THEN Exec(r.s, Tail(blk)) ELSE [ok |-> FALSE, s |-> s]

\* blocks: every sequence of 1..MaxTx menu transactions; later transactions are chosen
\* from the menu of the state the earlier ones produce (or of the same state if rejected)
Ok1(s)     == {x \in Menu(s) : Apply(s, x).ok}
RECURSIVE Seqs(_, _)
Seqs(s, n) == IF n = 0 THEN {}
              ELSE {<<t>> : t \in Menu(s)} \cup UNION {{<<t>> \o r : r \in Seqs(Apply(s, t).s, n - 1)} : t \in Ok1(s)}
Blocks(s) == Seqs(s, MaxTx)

\* a block is offered; accepted blocks are committed, rejected ones leave everything as it is
Offer(blk) ==
  /\ h < MaxH
  /\ LET r == Exec(St, blk) IN
       /\ last' = [blk |-> blk, ok |-> r.ok]
       /\ IF r.ok
          THEN /\ bal' = r.s.bal /\ tok' = r.s.tok /\ nonce' = r.s.nonce /\ coins' = r.s.coins /\ held' = r.s.held
               /\ pay' = r.s.pay /\ spends' = r.s.spends /\ kill' = r.s.kill /\ burnt' = r.s.burnt /\ h' = h + 1
          ELSE UNCHANGED <<bal, tok, nonce, coins, held, pay, spends, kill, burnt, h>>

Next == \E blk \in Blocks(St) : Offer(blk)
Spec == Init /\ [][Next]_vars

(* ---- what TLC checks ------------------------------------------------------ *)
RECURSIVE SumCoins(_)
SumCoins(cs) == IF cs = <<>> THEN 0 ELSE (IF Head(cs).spent THEN 0 ELSE Head(cs).amt) + SumCoins(Tail(cs))
RECURSIVE SumBal(_)
SumBal(S) == IF S = {} THEN 0 ELSE LET a == CHOOSE a \in S : TRUE IN bal[a] + SumBal(S \ {a})

\* C06: value is neither created nor destroyed (fees are epsilon here; the harness accounts them exactly)
Conservation == SumBal(Holders) + SumCoins(coins) + held + pay + kill.bal + burnt = Supply
\* ... and nothing is destroyed outside the designed exceptions.  As coded this does NOT hold: value sent
\* to a contract after it self-destructed in the same block disappears with it (checked by a config of its
\* own; the replay reproduces the counterexample on the real application)
NoUndesignedBurn == burnt = 0
RECURSIVE SumTok(_)
SumTok(S) == IF S = {} THEN 0 ELSE LET a == CHOOSE a \in S : TRUE IN tok[a] + SumTok(S \ {a})
TokenConservation == SumTok(Holders) = TokSupply
NoNegative == \A a \in Holders : bal[a] >= 0 /\ tok[a] >= 0
\* C07: every coin is spent at most once on the committed chain; nonces only count executed transactions
SpentOnce == \A i, j \in DOMAIN spends : i # j => spends[i] # spends[j]
SpentMarked == \A c \in DOMAIN coins : coins[c].spent <=> \E i \in DOMAIN spends : spends[i] = c
\* a rejected block changes nothing (block atomicity), an accepted one extends the chain by one
RejectedIsNoOp == [][~last'.ok => UNCHANGED <<bal, tok, nonce, coins, held, pay, spends, kill, burnt, h>>]_vars
NonceCountsExecuted == [][\A a \in Acct : nonce'[a] >= nonce[a]]_vars

(* ---- export ---------------------------------------------------------------- *)
Proj(b, t, n, c, hd, py, sp, k, bu) == [bal |-> b, tok |-> t, nonce |-> n, coins |-> c, held |-> hd, pay |-> py, spends |-> sp,
                                        kbal |-> k.bal, kcode |-> k.code, burnt |-> bu]
Edge == PrintT(ToJson([from |-> Proj(bal, tok, nonce, coins, held, pay, spends, kill, burnt), act |-> last',
                       to |-> Proj(bal', tok', nonce', coins', held', pay', spends', kill', burnt')]))
View == <<bal, tok, nonce, coins, held, pay, spends, kill, burnt, h>>
=============================================================================
