\* thorough tier: longer histories, more mixed pairs, and the special kinds mixed with an ordinary one of the same sender
SPECIFICATION Spec
CONSTANTS
  Families = {{"xfer"}, {"tok"}, {"create"}, {"call"}, {"dep"}, {"mst"}, {"mst", "cut"}, {"xfer", "dep"}, {"tok", "call"}, {"create", "dep"}, {"xfer", "tok"}, {"call", "create"}, {"mst", "cut", "xfer"}, {"mst", "cut", "dep"}}
  MaxNonce1 = 4
  MaxNonce2 = 3
  MaxNonce3 = 2
  MaxTx1 = 3
  MaxTx2 = 2
  MaxTx3 = 1
  Paths = {"block", "pool"}
  Checked = {"xfer", "tok", "create", "call", "dep", "cut", "mst"}
INVARIANTS TypeOK ExecutedAtMostOnce ExactNextNonce NonceCountsExecuted SignersNotRolledBack CodeNotRolledBack PoolContinuesChain
PROPERTIES RejectedIsNoOp RejectedBlockLeavesPool NonceMonotone
ACTION_CONSTRAINT Edge
VIEW View
CHECK_DEADLOCK FALSE
