SPECIFICATION Spec
CONSTANTS
  Acct = {"a1", "a2"}
  Wallet = {"w1"}
  Passive = {"p1"}
  InitTok = 1
  Amt = {1, 2}
  InitBal = 3
  MaxH = 2
  MaxTx = 2
  MaxCoins = 2
  Kinds = {"xfer", "dep", "wd", "cx", "call", "tok", "fwd", "sst", "pay"}
INVARIANTS Conservation TokenConservation NoNegative SpentOnce SpentMarked
PROPERTIES RejectedIsNoOp NonceCountsExecuted
VIEW View
CHECK_DEADLOCK FALSE
