SPECIFICATION Spec
CONSTANTS
  NFields = 2
  MaxSteps = 3
  MaxSigMut = 1
  LegacyAccepted = FALSE
  ResignKeepsCache = FALSE
INVARIANTS TypeOK SenderIsSigner ExactFieldsAndChain MalleableRejected
PROPERTIES PoolHitExact AnswerIsRecover
ACTION_CONSTRAINT Edge
VIEW View
CHECK_DEADLOCK FALSE
