------------------------------ MODULE ConfAuth ------------------------------
(***************************************************************************)
(* Confidential outputs: who recognises, decodes and spends them, and what  *)
(* a spend authorisation is bound to (types/tx_utxo.go: generateOneTime-    *)
(* Address, isOutputBelongToAccount, generateKeyImage, PrefixHash,          *)
(* expandTransactionRctSig, checkRingctSignatures; wallet scan loop of      *)
(* wallet/wallet/linkaccount.go processNewTransaction).                     *)
(*                                                                         *)
(* The group is ideal (symbolic terms, no relations but the intended ones): *)
(*   D(v, r)       = 8*v*R = 8*r*V            GenerateKeyDerivation          *)
(*   OT(d, r, i)   = Hs(D(d,r), i)*G + S_d    DerivePublicKey                *)
(*   OT - Hs(D,j)G = S_d iff (D, j) is the pair used by the payer            *)
(*                                            DeriveSubaddressPublicKey     *)
(*   x(D, j, w)    = Hs(D, j) + s_w           DeriveSecretKey                *)
(*   amount is masked with Hs(Hs(Hs(D,i)))    EcdhEncode / EcdhDecode        *)
(* A deposit transaction pays output 0 to Dest[0] and output 1 to Dest[1]   *)
(* with transaction key r; three wallets scan it; a wallet builds a spend   *)
(* of one output (ring size 1: the plain ring signature over the pre-MLSAG  *)
(* hash of PrefixHash and the RingCT base); components of the spend are     *)
(* changed on the wire; CheckBasic verifies.                                 *)
(***************************************************************************)
EXTENDS Integers, FiniteSets, TLC, Json

CONSTANTS Wallets, Comps, MaxSteps

Idx == {0, 1}
Junk == "junk"

VARIABLES dest,    \* Idx -> Wallets : the destinations the payer chose
          rkeyOK,  \* FALSE: the transaction key R on the wire was replaced
          spend,   \* NoSpend or [by, idx, sec, changed]
          steps, last
vars == <<dest, rkeyOK, spend, steps, last>>

NoSpend == [by |-> "none", idx |-> 0, sec |-> [v |-> "none", r |-> "none", i |-> 0, s |-> "none"], changed |-> {}]

(* ---- symbolic CryptoNote algebra ---------------------------------------- *)
RKey == IF rkeyOK THEN "r" ELSE "r_replaced"
Deriv(v, r) == [v |-> v, r |-> r]                               \* GenerateKeyDerivation
OTAddr(i) == [v |-> dest[i], r |-> "r", i |-> i, s |-> dest[i]] \* generateOneTimeAddress (payer side)
\* DeriveSubaddressPublicKey(otaddr, D, j): the spend public key the address was built on, or junk
SpendPubOf(ot, D, j) == IF ot.v = D.v /\ ot.r = D.r /\ ot.i = j THEN ot.s ELSE Junk
KeyIndex(w) == {w}                                              \* the wallet's own spend public keys
\* isOutputBelongToAccount as the scan loop calls it (derivation from the R on the wire)
Recognises(w, i) == SpendPubOf(OTAddr(i), Deriv(w, RKey), i) \in KeyIndex(w)
\* EcdhDecode with DerivationToScalar(D, i): the amount, or junk
Decodes(w, i) == Deriv(w, RKey) = Deriv(dest[i], "r")
\* DeriveSecretKey(D, j, s_w): secret of the public key [D, j, S_w]
Secret(w, j) == [v |-> w, r |-> "r", i |-> j, s |-> w]
\* a one-member ring signature by secret x verifies for public key P iff x*G = P
SigVerifies(sp) == sp.sec = OTAddr(sp.idx)

(* ---- actions ---------------------------------------------------------------- *)
Init == /\ dest = [i \in Idx |-> "none"] /\ rkeyOK = TRUE /\ spend = NoSpend /\ steps = 0
        /\ last = [op |-> "init"]
Paid == dest[0] # "none"

\* NewAinTokenTransaction: the payer deposits to two confidential destinations
Pay(d0, d1) ==
    /\ ~Paid /\ dest' = [i \in Idx |-> IF i = 0 THEN d0 ELSE d1]
    /\ UNCHANGED <<rkeyOK, spend, steps>>
    /\ last' = [op |-> "pay", d0 |-> d0, d1 |-> d1]

\* wallet w scans the deposit: which outputs it takes for its own, whether the amount it decodes is the paid one
Scan(w) ==
    /\ Paid /\ spend = NoSpend
    /\ UNCHANGED <<dest, rkeyOK, spend, steps>>
    /\ last' = [op |-> "scan", w |-> w,
                rec |-> [i \in Idx |-> Recognises(w, i)],
                amt |-> [i \in Idx |-> Recognises(w, i) /\ Decodes(w, i)],
                dec |-> [i \in Idx |-> Decodes(w, i)]]   \* decoding forced without the ownership test

ReplaceRKey ==
    /\ Paid /\ spend = NoSpend /\ steps < MaxSteps /\ steps' = steps + 1
    /\ rkeyOK' = ~rkeyOK
    /\ UNCHANGED <<dest, spend>>
    /\ last' = [op |-> "replace_rkey"]

\* NewUinTokenTransaction + UInTransWithRctSig by wallet w with its own keys (source.RKey is the payer's R)
BuildSpend(w, i) ==
    /\ Paid /\ spend = NoSpend /\ rkeyOK /\ steps < MaxSteps /\ steps' = steps + 1
    /\ LET own == SpendPubOf(OTAddr(i), Deriv(w, "r"), i) \in KeyIndex(w) IN
         /\ spend' = IF own THEN [by |-> w, idx |-> i, sec |-> Secret(w, i), changed |-> {}] ELSE NoSpend
         /\ last' = [op |-> "spend", w |-> w, i |-> i, built |-> own]
    /\ UNCHANGED <<dest, rkeyOK>>

\* a wallet that is not the destination skips the ownership test (adds the junk key to its own
\* key index) and signs with the secret its keys derive
ForgeSpend(w, i) ==
    /\ Paid /\ spend = NoSpend /\ rkeyOK /\ steps < MaxSteps /\ steps' = steps + 1
    /\ w # dest[i]
    /\ spend' = [by |-> w, idx |-> i, sec |-> Secret(w, i), changed |-> {}]
    /\ UNCHANGED <<dest, rkeyOK>>
    /\ last' = [op |-> "forge", w |-> w, i |-> i]

Change(c) ==
    /\ spend # NoSpend /\ steps < MaxSteps /\ steps' = steps + 1
    /\ spend' = [spend EXCEPT !.changed = IF c \in @ THEN @ \ {c} ELSE @ \cup {c}]
    /\ UNCHANGED <<dest, rkeyOK>>
    /\ last' = [op |-> "change", c |-> c]

Accepts(sp) == SigVerifies(sp) /\ sp.changed = {}
\* CheckBasic of the spend as it is now
Verify ==
    /\ spend # NoSpend
    /\ UNCHANGED <<dest, rkeyOK, spend, steps>>
    /\ last' = [op |-> "verify", ok |-> Accepts(spend)]

Next == \/ \E d0 \in Wallets, d1 \in Wallets : Pay(d0, d1)
        \/ \E w \in Wallets : Scan(w) \/ \E i \in Idx : BuildSpend(w, i) \/ ForgeSpend(w, i)
        \/ ReplaceRKey \/ Verify \/ \E c \in Comps : Change(c)
Spec == Init /\ [][Next]_vars

(* ---- what TLC checks ---------------------------------------------------------- *)
OnlyOwnerRecognises == \A w \in Wallets, i \in Idx : Recognises(w, i) => (w = dest[i] /\ rkeyOK)
OnlyOwnerDecodes    == \A w \in Wallets, i \in Idx : (Recognises(w, i) /\ Decodes(w, i)) => w = dest[i]
OwnerRecognises     == (Paid /\ rkeyOK) => \A i \in Idx : Recognises(dest[i], i) /\ Decodes(dest[i], i)
OnlyOwnerSpends     == (spend # NoSpend /\ Accepts(spend)) => spend.by = dest[spend.idx]
SpendAuthBindsAll   == (spend # NoSpend /\ Accepts(spend)) => spend.changed = {}

Proj(d, rk, sp, n) == [dest |-> [d0 |-> d[0], d1 |-> d[1]], rkey |-> rk, by |-> sp.by, idx |-> sp.idx,
                       changed |-> sp.changed, n |-> n,
                       ok |-> (sp # NoSpend /\ Accepts(sp))]
Edge == PrintT(ToJson([from |-> Proj(dest, rkeyOK, spend, steps), act |-> last',
                       to |-> Proj(dest', rkeyOK', spend', steps')]))
View == <<dest, rkeyOK, spend, steps>>
=============================================================================
