SPECIFICATION Spec
CONSTANTS
  NFields = 1
  MaxSteps = 2
  MaxSigMut = 1
  LegacyAccepted = FALSE
  ResignKeepsCache = FALSE
  ServeUnchecked = TRUE
INVARIANTS TypeOK SenderIsSigner ExactFieldsAndChain MalleableRejected PoolCheckedIsVerified
PROPERTIES PoolHitExact AnswerIsRecover BlockAcceptsOnlyVerified BlockAcceptsVerified
VIEW View
CHECK_DEADLOCK FALSE
