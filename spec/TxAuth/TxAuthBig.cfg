SPECIFICATION Spec
CONSTANTS
  NFields = 3
  MaxSteps = 4
  MaxSigMut = 2
  LegacyAccepted = FALSE
  ResignKeepsCache = FALSE
INVARIANTS TypeOK SenderIsSigner ExactFieldsAndChain MalleableRejected
PROPERTIES PoolHitExact AnswerIsRecover
ACTION_CONSTRAINT Edge
VIEW View
CHECK_DEADLOCK FALSE
