SPECIFICATION Spec
CONSTANTS
  NFields = 3
  MaxSteps = 4
  MaxSigMut = 2
  LegacyAccepted = FALSE
  ResignKeepsCache = FALSE
  ServeUnchecked = FALSE
INVARIANTS TypeOK SenderIsSigner ExactFieldsAndChain MalleableRejected PoolCheckedIsVerified
PROPERTIES PoolHitExact AnswerIsRecover BlockAcceptsOnlyVerified BlockAcceptsVerified
ACTION_CONSTRAINT Edge
VIEW View
CHECK_DEADLOCK FALSE
