SPECIFICATION Spec
CONSTANTS
  NFields = 1
  MaxSteps = 2
  MaxSigMut = 1
  LegacyAccepted = TRUE
  ResignKeepsCache = FALSE
INVARIANTS TypeOK SenderIsSigner ExactFieldsAndChain MalleableRejected
PROPERTIES PoolHitExact AnswerIsRecover
VIEW View
CHECK_DEADLOCK FALSE
