SPECIFICATION Spec
CONSTANTS
  NFields = 1
  MaxSteps = 2
  MaxSigMut = 1
  LegacyAccepted = TRUE
  ResignKeepsCache = FALSE
  ServeUnchecked = FALSE
INVARIANTS TypeOK SenderIsSigner ExactFieldsAndChain MalleableRejected PoolCheckedIsVerified
PROPERTIES PoolHitExact AnswerIsRecover BlockAcceptsOnlyVerified BlockAcceptsVerified
VIEW View
CHECK_DEADLOCK FALSE
