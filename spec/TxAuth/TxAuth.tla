------------------------------- MODULE TxAuth -------------------------------
(***************************************************************************)
(* Sender authentication of account-based transactions (types/sign.go,     *)
(* types/transaction.go, tx_type_txt.go, tx_type_cut.go, tx_utxo.go account*)
(* input side, libs/crypto.ValidateSignatureValues / Ecrecover).           *)
(*                                                                         *)
(* One transaction object travels through the operations the code offers:  *)
(*   Mutate(f)     a signed field is changed on the wire and the bytes are *)
(*                 decoded again (ser.DecodeBytes into a fresh object)     *)
(*   MutateSig(c)  V, R or S is changed on the wire (classes below)        *)
(*   Sign(k,p)     tx.Sign(NewSTDEIP155Signer(p), k) / WithSignature on the*)
(*                 SAME object (types.sign: hash over fields ++ <<p,0,0>>) *)
(*   SignLegacy(k) a signature made outside the repo over the Homestead    *)
(*                 hash (fields only), V = 27 + recid                      *)
(*   ChangeParam   the verifying node uses the other chain parameter       *)
(*   Query         sender(signer, data): cache hit or signer.Sender + store*)
(*   AdmitPut      mempool.AddTx, first linearisation point: cache.Put of  *)
(*                 the object with BasicChecked = FALSE - BEFORE its basic *)
(*                 check (signature / multi-signature / ring signature)    *)
(*   AdmitVerdict  mempool.AddTx, second linearisation point: the basic    *)
(*                 check has run on the pooled object; passed => the flag  *)
(*                 is set (the object stays, key: tx hash), failed =>      *)
(*                 cache.Delete                                            *)
(*   BlockVerify   block verification of a received block carrying the     *)
(*                 current transaction (app.CheckBlock: verifySpecTxSign + *)
(*                 verifyTxsOnProcess). It asks GetTxFromCache(hash) of    *)
(*                 the mempool                                             *)
(*                 and may run at ANY time, in particular between AdmitPut *)
(*                 and AdmitVerdict of the same hash. What a hit means     *)
(*                 depends on the kind of transaction (parameter m):       *)
(*                   "rederive"  Transaction, TokenTransaction, account    *)
(*                               input: from := cacheTx.From(); StoreFrom  *)
(*                   "trust"     MultiSignAccountTx (VerifySign skipped),  *)
(*                               UTXOTransaction (CheckBasic skipped)      *)
(*                 miss => the full check of the block's own object        *)
(*   ReDecode      encode + decode: a fresh object, empty caches           *)
(*                                                                         *)
(* Cryptography is ideal: a signature remembers (key, fields, hash         *)
(* parameter) it was made over; Ecrecover returns that key iff the hash the*)
(* verifier recomputes from the CURRENT content is the signed one and the  *)
(* recovery id is the right one, and an address nobody holds otherwise.    *)
(* Fields are abstract (1..NFields, all alike here); the harness maps them *)
(* onto every concrete signed field of every transaction kind.             *)
(*                                                                         *)
(* Two deviations of the code are switches, so that TLC can be run "as     *)
(* designed" (both FALSE: every invariant holds, behaviours are exported   *)
(* and replayed on the real code) and "as coded" (TRUE: TLC shows which    *)
(* invariant the deviation breaks):                                        *)
(*   LegacyAccepted    STDEIP155Signer.Sender hands V in {27,28} to the    *)
(*                     Homestead signer whose hash omits the parameter     *)
(*   ResignKeepsCache  Sign/WithSignature copy the data struct including   *)
(*                     the memoised sender (fromValue)                     *)
(* A third switch is a what-if (FALSE as coded and as designed):           *)
(*   ServeUnchecked    GetTxFromCache hands out entries whose basic check  *)
(*                     has not finished (txCache.Get, not CheckAndGet)     *)
(***************************************************************************)
EXTENDS Integers, FiniteSets, TLC, Json

CONSTANTS NFields,           \* abstract signed fields
          MaxSteps,          \* bound on content-changing steps per behaviour
          MaxSigMut,         \* bound on signature malformations per behaviour
          LegacyAccepted,    \* as coded: TRUE
          ResignKeepsCache,  \* as coded: TRUE
          ServeUnchecked     \* what-if: TRUE

Fields == 1..NFields
Keys   == {"k1", "k2"}       \* k1 = the owner, k2 = somebody else's key
Params == {"p0", "p1"}       \* p0 = this chain (GlobalSTDSigner), p1 = another chain
None   == "none"
Other(p) == IF p = "p0" THEN "p1" ELSE "p0"

SigClasses == {"r0", "s0", "rN", "sN", "highS", "flipv", "vout", "reparam", "strip"}

VARIABLES alt,    \* set of fields whose value differs from the original content
          sig,    \* the signature carried by the object (record below)
          vp,     \* chain parameter of the verifying node
          cache,  \* stdSigCache of the object: [p, who] or NoCache
          pool,   \* the entry of the mempool cache: [alt, sig, who, chk] or NoPool; chk = BasicChecked
          steps, sigmuts,
          last    \* action label with the expected result (output only)
vars == <<alt, sig, vp, cache, pool, steps, sigmuts, last>>

(* A signature: what it was made over (ghost: key, over, hp) and how its    *)
(* three numbers look (enc/vpar/rec describe V, r and s their range class). *)
Signed(k, f, p) == [key |-> k, over |-> f, hp |-> p, enc |-> "eip", vpar |-> p,
                    rec |-> "ok", r |-> "ok", s |-> "ok"]
LegacySigned(k, f) == [key |-> k, over |-> f, hp |-> None, enc |-> "legacy", vpar |-> None,
                       rec |-> "ok", r |-> "ok", s |-> "ok"]
NoCache == [p |-> None, who |-> None]
NoPool  == [alt |-> {}, sig |-> Signed(None, {}, None), who |-> None, chk |-> FALSE]
HitModes == {"rederive", "trust"}

(* ---- the code's algorithm (types/sign.go) ------------------------------ *)
\* isProtectedV: everything but 27/28
IsProtectedV(sg) == sg.enc # "legacy"
\* DeriveSignParam: (V - 35) / 2 ; a recovery id outside {0,1} lands on another parameter
DeriveSignParam(sg) == IF sg.enc = "eip" /\ sg.rec # "out" THEN sg.vpar ELSE None
\* crypto.ValidateSignatureValues(v, r, s, homestead) with v in {0,1} (guaranteed by the V arithmetic)
ValidateSignatureValues(sg, homestead) ==
    /\ sg.r = "ok"                                           \* 1 <= r < N
    /\ sg.s \in (IF homestead THEN {"ok"} ELSE {"ok", "high"})  \* 1 <= s <= N/2 (homestead) / < N
\* crypto.Ecrecover on the hash recomputed from the current content. (r, N-s, v^1) is the
\* same signer as (r, s, v): "high" denotes that pair, so only the range check stops it.
Ecrecover(hf, hpar, sg) ==
    IF sg.over = hf /\ sg.hp = hpar /\ sg.rec = "ok" THEN sg.key ELSE "other"
RecoverPlain(hf, hpar, sg, homestead) ==
    IF ~ValidateSignatureValues(sg, homestead) THEN "err" ELSE Ecrecover(hf, hpar, sg)
\* STDHomesteadSigner.Sender: Hash = rlpHash(signFields)
HomesteadSender(a, sg) == RecoverPlain(a, None, sg, TRUE)
\* STDEIP155Signer.Sender: Hash = rlpHash(signFields ++ <<param, 0, 0>>)
EIP155Sender(p, a, sg) ==
    IF ~IsProtectedV(sg)
      THEN (IF LegacyAccepted THEN HomesteadSender(a, sg) ELSE "err")
      ELSE IF DeriveSignParam(sg) # p THEN "err"             \* ErrInvalidSignParam
      ELSE RecoverPlain(a, p, sg, TRUE)

(* ---- actions ------------------------------------------------------------ *)
Init == /\ alt = {} /\ sig = Signed("k1", {}, "p0") /\ vp = "p0"
        /\ cache = NoCache /\ pool = NoPool /\ steps = 0 /\ sigmuts = 0
        /\ last = [op |-> "init"]

Mutate(f) ==
    /\ steps < MaxSteps /\ steps' = steps + 1
    /\ alt' = IF f \in alt THEN alt \ {f} ELSE alt \cup {f}
    /\ cache' = NoCache                                     \* decoded into a fresh object
    /\ UNCHANGED <<sig, vp, pool, sigmuts>>
    /\ last' = [op |-> "mutate", f |-> f]

MutSig(sg, c) ==
    CASE c = "r0"      -> [sg EXCEPT !.r = "zero"]
      [] c = "rN"      -> [sg EXCEPT !.r = "geN"]
      [] c = "s0"      -> [sg EXCEPT !.s = "zero"]
      [] c = "sN"      -> [sg EXCEPT !.s = "geN"]
      [] c = "highS"   -> [sg EXCEPT !.s = "high"]           \* (r, N-s, v^1)
      [] c = "flipv"   -> [sg EXCEPT !.rec = IF sg.rec = "ok" THEN "flip" ELSE "ok"]
      [] c = "vout"    -> [sg EXCEPT !.rec = "out"]          \* V moved outside the two values of its parameter
      [] c = "reparam" -> [sg EXCEPT !.vpar = Other(sg.vpar)] \* V re-encoded for the other chain, R,S kept
      [] c = "strip"   -> [sg EXCEPT !.enc = "legacy", !.vpar = None]  \* V := 27 + recid, R,S kept

SigEnabled(sg, c) ==
    CASE c = "highS"   -> sg.s = "ok"
      [] c = "flipv"   -> sg.rec # "out"
      [] c = "vout"    -> sg.rec = "ok" /\ sg.enc = "eip"
      [] c = "reparam" -> sg.enc = "eip"
      [] c = "strip"   -> sg.enc = "eip" /\ sg.rec # "out"
      [] OTHER         -> TRUE

MutateSig(c) ==
    /\ steps < MaxSteps /\ steps' = steps + 1
    /\ sigmuts < MaxSigMut /\ sigmuts' = sigmuts + 1
    /\ SigEnabled(sig, c) /\ MutSig(sig, c) # sig
    /\ sig' = MutSig(sig, c)
    /\ cache' = NoCache
    /\ UNCHANGED <<alt, vp, pool>>
    /\ last' = [op |-> "mutsig", c |-> c]

Sign(k, p) ==
    /\ steps < MaxSteps /\ steps' = steps + 1
    /\ sig' = Signed(k, alt, p)
    /\ sig' # sig
    /\ cache' = IF ResignKeepsCache THEN cache ELSE NoCache  \* same object
    /\ UNCHANGED <<alt, vp, pool, sigmuts>>
    /\ last' = [op |-> "sign", k |-> k, p |-> p]

SignLegacy(k) ==
    /\ steps < MaxSteps /\ steps' = steps + 1
    /\ sig' = LegacySigned(k, alt)
    /\ sig' # sig
    /\ cache' = NoCache
    /\ UNCHANGED <<alt, vp, pool, sigmuts>>
    /\ last' = [op |-> "signlegacy", k |-> k]

\* (not while an admission is in flight on this node: the step commutes with AdmitVerdict and
\* BlockVerify needs vp = "p0", so those interleavings add nothing but states)
ChangeParam ==
    /\ (pool = NoPool \/ pool.chk)
    /\ vp' = Other(vp)
    /\ UNCHANGED <<alt, sig, cache, pool, steps, sigmuts>>
    /\ last' = [op |-> "param", p |-> vp']

\* sender(signer, data)
SenderCached(p) ==
    LET hit == cache.p = p
        res == IF hit THEN cache.who ELSE EIP155Sender(p, alt, sig)
    IN  [hit |-> hit, res |-> res,
         cache |-> IF hit \/ res = "err" THEN cache ELSE [p |-> p, who |-> res]]

Query ==
    LET q == SenderCached(vp) IN
    /\ cache' = q.cache
    /\ UNCHANGED <<alt, sig, vp, pool, steps, sigmuts>>
    /\ last' = [op |-> "query", res |-> q.res]

\* mempool.AddTx on this chain, up to `mem.cache.Put(cacheTx)`: ANY transaction gets in, flagged unchecked
\* (the mempool receives its own decoded object: the memo of the travelling object is not touched)
AdmitPut ==
    /\ steps < MaxSteps /\ steps' = steps + 1
    /\ vp = "p0" /\ pool = NoPool
    /\ pool' = [alt |-> alt, sig |-> sig, who |-> None, chk |-> FALSE]
    /\ UNCHANGED <<alt, sig, vp, cache, sigmuts>>
    /\ last' = [op |-> "admitput"]

\* ... and from the return of app.CheckTx(tx, BasicCheck) on: `cacheTx.BasicChecked = true` / `mem.cache.Delete`
AdmitVerdict ==
    /\ pool # NoPool /\ ~pool.chk
    /\ LET r == EIP155Sender("p0", pool.alt, pool.sig) IN
         /\ pool' = IF r \in Keys THEN [pool EXCEPT !.who = r, !.chk = TRUE] ELSE NoPool
         /\ last' = [op |-> "admitverdict", ok |-> r \in Keys]
    /\ UNCHANGED <<alt, sig, vp, cache, steps, sigmuts>>

\* mempool.GetTxFromCache(hash) = cache.CheckAndGet: Hash() covers every field and V, R, S, so the
\* lookup finds only a byte-identical transaction, and only one whose basic check has passed
Served == /\ pool # NoPool /\ pool.alt = alt /\ pool.sig = sig
          /\ (pool.chk \/ ServeUnchecked)
\* cacheTx.From(): the memo the basic check left in the pooled object, or recovery from its content
PoolFrom == IF pool.chk THEN pool.who ELSE EIP155Sender("p0", pool.alt, pool.sig)

\* app.CheckBlock for a received block with the current transaction (a freshly decoded object)
BlockVerify(m) ==
    /\ vp = "p0"
    /\ (~Served => m = "rederive")                          \* a miss is the same for every kind
    /\ LET q      == SenderCached("p0")
           trust  == Served /\ m = "trust"
           res    == IF ~Served THEN q.res ELSE IF trust THEN "skipped" ELSE PoolFrom
           accept == trust \/ res \in Keys
       IN  /\ cache' = IF ~Served THEN q.cache
                       ELSE IF trust \/ PoolFrom = "err" THEN cache
                       ELSE [p |-> "p0", who |-> PoolFrom]
           /\ last' = [op |-> "blockverify", m |-> IF Served THEN m ELSE "any", hit |-> Served,
                       res |-> res, accept |-> accept]
    /\ UNCHANGED <<alt, sig, vp, pool, steps, sigmuts>>

ReDecode ==
    /\ cache # NoCache /\ cache' = NoCache
    /\ UNCHANGED <<alt, sig, vp, pool, steps, sigmuts>>
    /\ last' = [op |-> "redecode"]

\* crypto.ValidateSignatureValues as a function of value classes (queried in the initial state only)
LibValid(v, r, s, hs) == /\ r = "ok" /\ s \in (IF hs THEN {"ok"} ELSE {"ok", "high"}) /\ v \in {"0", "1"}
LibValidate ==
    /\ steps = 0 /\ cache = NoCache /\ vp = "p0" /\ alt = {} /\ sig = Signed("k1", {}, "p0")
    /\ UNCHANGED <<alt, sig, vp, cache, pool, steps, sigmuts>>
    /\ \E v \in {"0", "1", "ge2"}, r \in {"zero", "ok", "geN"}, s \in {"zero", "ok", "high", "geN"}, hs \in BOOLEAN :
         last' = [op |-> "libvalidate", v |-> v, r |-> r, s |-> s, hs |-> hs, res |-> LibValid(v, r, s, hs)]

Next == \/ \E f \in Fields : Mutate(f)
        \/ \E c \in SigClasses : MutateSig(c)
        \/ \E k \in Keys, p \in Params : Sign(k, p)
        \/ \E k \in Keys : SignLegacy(k)
        \/ ChangeParam \/ Query \/ AdmitPut \/ AdmitVerdict \/ ReDecode \/ LibValidate
        \/ \E m \in HitModes : BlockVerify(m)

Spec == Init /\ [][Next]_vars

(* ---- what TLC checks ------------------------------------------------------ *)
SigOK == /\ sig.key \in Keys \cup {None} /\ sig.over \subseteq Fields
         /\ sig.hp \in Params \cup {None} /\ sig.enc \in {"eip", "legacy"}
         /\ sig.vpar \in Params \cup {None} /\ sig.rec \in {"ok", "flip", "out"}
         /\ sig.r \in {"ok", "zero", "geN"} /\ sig.s \in {"ok", "zero", "geN", "high"}
TypeOK == /\ alt \subseteq Fields /\ SigOK /\ vp \in Params /\ steps \in 0..MaxSteps
          /\ cache.p \in Params \cup {None} /\ cache.who \in Keys \cup {"other", None}
          /\ pool.who \in Keys \cup {None} /\ pool.chk \in BOOLEAN /\ sigmuts \in 0..MaxSigMut

\* Whatever sender the object memoises is what recovery from its CURRENT content gives.
SenderIsSigner == cache # NoCache => cache.who = EIP155Sender(cache.p, alt, sig)
\* An accepted sender signed exactly the current fields for exactly the verifying chain.
ExactFieldsAndChain ==
    \A p \in Params : LET w == EIP155Sender(p, alt, sig) IN
        w \in Keys => sig.key = w /\ sig.over = alt /\ sig.hp = p
\* Zero / out-of-range / high-s values and recovery ids outside {0,1} are refused everywhere.
MalleableRejected ==
    (sig.r # "ok" \/ sig.s # "ok" \/ sig.rec = "out") => \A p \in Params : EIP155Sender(p, alt, sig) = "err"
\* A mempool-cache hit hands over the sender of a byte-identical transaction only.
PoolHitExact ==
    [][ (last'.op = "blockverify" /\ last'.hit /\ last'.res \in Keys) => cache'.who = EIP155Sender("p0", alt', sig') ]_vars
\* Every answer the code gives is the recovery from the current content.
AnswerIsRecover ==
    [][ (last'.op \in {"query", "blockverify"} /\ last'.res # "skipped") =>
          last'.res = EIP155Sender(IF last'.op = "query" THEN vp ELSE "p0", alt, sig) ]_vars
\* The cache vouches (flag set) only for an entry whose authorisation verified.
PoolCheckedIsVerified ==
    pool.chk => pool.who \in Keys /\ pool.who = EIP155Sender("p0", pool.alt, pool.sig)
\* A block is accepted only if the authorisation of its transaction verifies - whatever the
\* mempool cache holds at that moment (nothing, the same hash in flight, checked, removed) ...
BlockAcceptsOnlyVerified ==
    [][ (last'.op = "blockverify" /\ last'.accept) => EIP155Sender("p0", alt', sig') \in Keys ]_vars
\* ... and a transaction whose authorisation verifies is accepted in every such cache state.
BlockAcceptsVerified ==
    [][ (last'.op = "blockverify" /\ EIP155Sender("p0", alt', sig') \in Keys) => last'.accept ]_vars

(* ---- export ---------------------------------------------------------------- *)
Proj(a, sg, v, c, pl, n) ==
    [alt |-> a, sig |-> sg, vp |-> v, cache |-> c, pool |-> pl, n |-> n,
     exp |-> [p \in Params |-> EIP155Sender(p, a, sg)]]
Edge == PrintT(ToJson([from |-> Proj(alt, sig, vp, cache, pool, steps), act |-> last',
                       to |-> Proj(alt', sig', vp', cache', pool', steps')]))
View == <<alt, sig, vp, cache, pool, steps, sigmuts>>
=============================================================================
