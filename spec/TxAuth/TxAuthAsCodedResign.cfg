SPECIFICATION Spec
CONSTANTS
  NFields = 1
  MaxSteps = 2
  MaxSigMut = 1
  LegacyAccepted = FALSE
  ResignKeepsCache = TRUE
INVARIANTS TypeOK SenderIsSigner ExactFieldsAndChain MalleableRejected
PROPERTIES PoolHitExact AnswerIsRecover
VIEW View
CHECK_DEADLOCK FALSE
