SPECIFICATION Spec
CONSTANTS
  Wallets = {"w1", "w2", "w3"}
  Comps = {"keyimage", "keyoffset", "out_otaddr", "out_remark", "token", "rkey", "addkeys", "fee", "extra", "sig_v", "sig_r", "sig_s", "pseudo_out", "outpk", "ecdh_mask", "ecdh_amount", "bp_r", "ring_sig", "aout_to", "aout_amount", "aout_commit"}
  MaxSteps = 3
INVARIANTS OnlyOwnerRecognises OnlyOwnerDecodes OwnerRecognises OnlyOwnerSpends SpendAuthBindsAll
ACTION_CONSTRAINT Edge
VIEW View
CHECK_DEADLOCK FALSE
