---- MODULE MC_Local ----
EXTENDS ConsensusLocal
PropNever == [r \in 0..MaxRound |-> FALSE]
PropR0    == [r \in 0..MaxRound |-> r = 0]
PropR1    == [r \in 0..MaxRound |-> r = 1]
PropAll   == [r \in 0..MaxRound |-> TRUE]
====
