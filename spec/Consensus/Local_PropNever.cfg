SPECIFICATION Spec
CONSTANTS
  MaxRound = 1
  Values = {"A", "B"}
  IAmProposer <- PropNever
INVARIANTS TypeOK OnePrevotePerRound OnePrecommitPerRound PrecommitNeedsPolka NoPrevoteAgainstLock DecisionNeedsMaj LockConsistent
CHECK_DEADLOCK FALSE
