--------------------------- MODULE RecoverQuorums ---------------------------
(***************************************************************************)
(* linkchain's recover mode (consensus/state.go: 15-minute timer or a      *)
(* recover proposal) swaps the validator set of the CURRENT height for     *)
(* "white list + all candidates" and resets the vote sets.  Agreement      *)
(* rests on any two commit quorums of one height sharing a correct         *)
(* validator.  This module asks TLC whether a quorum of the normal set and *)
(* a quorum of the recover set always intersect - with NO Byzantine        *)
(* validator at all.  (Named deviation of DESIGN.md: EnterRecover.)        *)
(***************************************************************************)
EXTENDS Integers, FiniteSets

CONSTANTS Normal,  \* validators of the height (unit powers)
          Cands    \* candidate nodes that join in recover mode

VARIABLES q1, q2   \* a commit quorum under the normal set, one under the recover set
Recover == Normal \cup Cands
Quorum(S, All) == S \subseteq All /\ 3 * Cardinality(S) > 2 * Cardinality(All)

Init == /\ q1 \in {S \in SUBSET Normal : Quorum(S, Normal)}
        /\ q2 \in {S \in SUBSET Recover : Quorum(S, Recover)}
Next == UNCHANGED <<q1, q2>>

\* with every validator correct, two quorums that share nobody can commit different blocks
QuorumsIntersect == q1 \cap q2 # {}
=============================================================================
