INIT Init
NEXT Next
CONSTANTS
  Normal = {"v1", "v2", "v3", "v4"}
  Cands = {"k1", "k2", "k3", "k4", "k5", "k6", "k7", "k8"}
INVARIANT QuorumsIntersect
CHECK_DEADLOCK FALSE
