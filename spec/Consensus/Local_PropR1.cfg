SPECIFICATION Spec
CONSTANTS
  MaxRound = 1
  Values = {"A", "B"}
  IAmProposer <- PropR1
INVARIANTS TypeOK OnePrevotePerRound OnePrecommitPerRound PrecommitNeedsPolka NoPrevoteAgainstLock DecisionNeedsMaj LockConsistent
CHECK_DEADLOCK FALSE
