-------------------------- MODULE Trace_Consensus --------------------------
(***************************************************************************)
(* Trace validation for consensus (code -> model).  A harness drives N     *)
(* real ConsensusState instances (hook H1) under an adversarial scheduler  *)
(* and records one event per select case the state machine handled:        *)
(* the input (own queued message / delivered message / fired timeout),     *)
(* the thresholds its vote sets report, and its RoundState before and      *)
(* after.  This specification                                              *)
(*   (1) replays every event through the transcribed algorithm             *)
(*       (ConsensusNode) and requires the real node's next RoundState and  *)
(*       the messages it queues for itself to be exactly the model's       *)
(*       (conformance), and                                                *)
(*   (2) independently tallies the votes each node was given and checks    *)
(*       the voting discipline and Agreement on every step (monitor) -     *)
(*       this part does not depend on the node's own vote sets.            *)
(* Acceptance: every line consumed (high-water mark in TLC register 1).    *)
(***************************************************************************)
EXTENDS ConsensusNode, Json, TLCExt

CONSTANT CheckConformance  \* TRUE: conformance + monitor; FALSE: monitor only (after drift was recorded)

TraceLog == ndJsonDeserialize("trace.ndjson")

VARIABLES l,        \* next line
          N,        \* number of validator slots
          power,    \* sequence: voting power by index (index i is sequence position i+1)
          byz,      \* set of Byzantine indexes
          ns,       \* node index -> node state (ConsensusNode.InitNode shape)
          emitted,  \* node index -> set of own votes popped from its queue [h,t,r,b]
          tally,    \* node index -> set of votes it was given or cast [h,t,r,b,from]
          decs      \* set of <<node, height, value>>
tvars == <<l, N, power, byz, ns, emitted, tally, decs>>

Ev == TraceLog[l]

Idx(i) == i + 1
Total == LET RECURSIVE Sum(_) Sum(k) == IF k = 0 THEN 0 ELSE power[k] + Sum(k - 1) IN Sum(N)
PowerOf(S) == LET RECURSIVE Sum(_) Sum(T) == IF T = {} THEN 0 ELSE LET x == CHOOSE x \in T : TRUE IN power[Idx(x)] + Sum(T \ {x}) IN Sum(S)
Quorum(S) == 3 * PowerOf(S) > 2 * Total

ThOf(view) == [r \in Rounds |->
                 IF \E i \in DOMAIN view.th : view.th[i].r = r
                 THEN LET t == view.th[CHOOSE i \in DOMAIN view.th : view.th[i].r = r]
                      IN [anyPV |-> t.anyPV, polka |-> t.polka, anyPC |-> t.anyPC, maj |-> t.maj]
                 ELSE NoTh]

\* the part of a node state that is compared with the recorded RoundState
Proj(s) == [h |-> s.h, r |-> s.round, s |-> s.step,
            prop |-> s.prop.b, propR |-> IF s.prop.r >= 0 THEN s.prop.pol ELSE -2,
            pblock |-> s.pblock, expect |-> s.expect,
            lr |-> s.lr, lb |-> s.lb, vr |-> s.vr, vb |-> s.vb, cr |-> s.cr]
ViewProj(v) == [h |-> v.h, r |-> v.r, s |-> v.s, prop |-> v.prop, propR |-> v.propR,
                pblock |-> v.pblock, expect |-> v.expect,
                lr |-> v.lr, lb |-> v.lb, vr |-> v.vr, vb |-> v.vb, cr |-> v.cr]

Conforms(s2, view) ==
  IF Proj(s2) = ViewProj(view) THEN TRUE
  ELSE PrintT(ToJson([kind |-> "nonconformance", line |-> l, node |-> Ev.node, what |-> "state", model |-> Proj(s2), code |-> ViewProj(view)])) /\ FALSE

\* P[r]: does the node believe it proposes round r (recorded belief, rotated from its round)
PB == [r \in Rounds |-> IF r + 1 <= Len(Ev.isprop) THEN Ev.isprop[r + 1] ELSE FALSE]

Init0 == /\ l = 1 /\ N = 0 /\ power = <<>> /\ byz = {} /\ ns = <<>> /\ emitted = <<>> /\ tally = <<>> /\ decs = {}

\* "init" starts a (new) trace: several traces are concatenated in one file
StartTrace ==
  /\ Ev.ev = "init"
  /\ N' = Ev.n /\ power' = Ev.powers
  /\ byz' = {Ev.byz[i] : i \in DOMAIN Ev.byz}
  /\ ns' = [i \in 0..(Ev.n - 1) |-> InitNode(1)]
  /\ emitted' = [i \in 0..(Ev.n - 1) |-> {}]
  /\ tally' = [i \in 0..(Ev.n - 1) |-> {}]
  /\ decs' = {}

\* apply the decision / height change and compare with the recorded post-state;
\* the decisions the monitor judges are the ones the CODE reports (CommitBlock calls)
Finish(n, s2) ==
  /\ decs' = IF Ev.commitH > 0 THEN decs \cup {<<n, Ev.commitH, Ev.commitV>>} ELSE decs
  /\ IF ~CheckConformance THEN ns' = ns
     ELSE IF s2.dec # None
     THEN /\ (IF Ev.commitH = s2.h /\ Ev.commitV = s2.dec THEN TRUE
              ELSE PrintT(ToJson([kind |-> "nonconformance", line |-> l, node |-> n, what |-> "decision", model |-> <<s2.h, s2.dec>>, code |-> <<Ev.commitH, Ev.commitV>>])) /\ FALSE)
          /\ Conforms(NextHeight(s2), Ev.post)
          /\ ns' = [ns EXCEPT ![n] = NextHeight(s2)]
     ELSE /\ (IF Ev.commitH = 0 THEN TRUE
              ELSE PrintT(ToJson([kind |-> "nonconformance", line |-> l, node |-> n, what |-> "decision", model |-> <<0, "none">>, code |-> <<Ev.commitH, Ev.commitV>>])) /\ FALSE)
          /\ Conforms(s2, Ev.post)
          /\ ns' = [ns EXCEPT ![n] = s2]

\* pop the node's own queued message: it must be what the model queued
PopOwn(s, m) ==
  /\ s.iq # <<>>
  /\ LET q == Head(s.iq) IN
       /\ q.t = m.t /\ q.r = m.r
       /\ (q.b = m.b \/ q.b = New)
       /\ (m.t = "prop" => q.pol = m.pol)

VoteStep(n, s0, m) ==
  \* thresholds of the vote's round after the vote was added: what the node's vote sets
  \* report afterwards; when the step ended the height they are gone, and the commit tells them
  LET thr == IF Ev.post.h = Ev.pre.h THEN ThOf(Ev.post)[m.r]
             ELSE LET p == ThOf(Ev.pre)[m.r] IN [p EXCEPT !.anyPC = TRUE, !.maj = Ev.commitV]
      s1 == [s0 EXCEPT !.th[m.r] = thr]
  IN IF m.h # s0.h \/ ~Ev.added \/ ~InR(m.r) THEN s0
     ELSE IF m.t = "pv" THEN AfterPrevote(s1, m.r, PB) ELSE AfterPrecommit(s1, m.r, PB)

MsgStep(n, own) ==
  LET s  == ns[n]
      m  == Ev.msg
      s0 == IF own /\ s.iq # <<>> THEN [s EXCEPT !.iq = Tail(@)] ELSE s
  IN /\ (own /\ CheckConformance) =>
          (IF PopOwn(s, m) THEN TRUE
           ELSE PrintT(ToJson([kind |-> "nonconformance", line |-> l, node |-> n, what |-> "own message", model |-> s.iq, code |-> m])) /\ FALSE)
     /\ emitted' = IF own /\ m.t \in {"pv", "pc"}
                   THEN [emitted EXCEPT ![n] = @ \cup {[h |-> m.h, t |-> m.t, r |-> m.r, b |-> m.b]}]
                   ELSE emitted
     /\ tally' = IF m.t \in {"pv", "pc"} /\ Ev.added
                 THEN [tally EXCEPT ![n] = @ \cup {[h |-> m.h, t |-> m.t, r |-> m.r, b |-> m.b, from |-> m.from]}]
                 ELSE tally
     /\ Finish(n,
          IF m.t \in {"pv", "pc"} THEN VoteStep(n, s0, m)
          ELSE IF m.t = "prop"
               THEN (IF m.h # s0.h \/ m.rec THEN s0
                     ELSE SetProposal(s0, [t |-> "prop", r |-> m.r, b |-> m.b, pol |-> m.pol], m.from = Ev.pre.proposer))
          ELSE IF m.t = "part"
               THEN (IF m.h # s0.h \/ ~Ev.added THEN s0 ELSE GotBlock(s0, m.b))
          ELSE s0)

TimeoutStep(n) ==
  /\ UNCHANGED <<emitted, tally>>
  /\ Finish(n, HandleTimeout(ns[n], Ev.th, Ev.tr, Ev.ts, PB))

Step ==
  /\ l <= Len(TraceLog) /\ l' = l + 1
  /\ \/ StartTrace
     \/ /\ Ev.ev = "internal" /\ UNCHANGED <<N, power, byz>> /\ MsgStep(Ev.node, TRUE)
     \/ /\ Ev.ev = "deliver"  /\ UNCHANGED <<N, power, byz>> /\ MsgStep(Ev.node, FALSE)
     \/ /\ Ev.ev = "timeout"  /\ UNCHANGED <<N, power, byz>> /\ TimeoutStep(Ev.node)

TraceSpec == Init0 /\ [][Step]_tvars

(* ---- monitor: discipline and agreement from the harness-side tally ------ *)
Nodes == DOMAIN ns
Correct == {i \in Nodes : i \notin byz}
Voters(n, h, t, r, b) == {v.from : v \in {x \in tally[n] : x.h = h /\ x.t = t /\ x.r = r /\ x.b = b}}
SawPolka(n, h, r, b) == Quorum(Voters(n, h, "pv", r, b))

OneVotePerRound ==
  \A n \in Correct : \A a, b \in emitted[n] : (a.h = b.h /\ a.t = b.t /\ a.r = b.r) => a = b
PrecommitNeedsPolka ==
  \A n \in Correct : \A m \in emitted[n] : (m.t = "pc" /\ m.b # Nil) => SawPolka(n, m.h, m.r, m.b)
NoPrevoteAgainstLock ==
  \A n \in Correct : \A m \in emitted[n] :
     m.t = "pv" =>
       LET locks == {x \in emitted[n] : x.t = "pc" /\ x.h = m.h /\ x.r < m.r /\ x.b # Nil}
       IN locks # {} =>
            LET q == CHOOSE x \in locks : \A y \in locks : y.r <= x.r
            IN m.b # q.b =>
                 \E r1 \in (q.r + 1)..m.r :
                    \E w \in {x.b : x \in {y \in tally[n] : y.h = m.h /\ y.t = "pv" /\ y.r = r1}} :
                       w # q.b /\ SawPolka(n, m.h, r1, w)
DecisionNeedsMaj ==
  \A d \in decs : d[1] \in Correct =>
     \E r \in Rounds : Quorum(Voters(d[1], d[2], "pc", r, d[3]))
Agreement ==
  \A d1, d2 \in decs : (d1[1] \in Correct /\ d2[1] \in Correct /\ d1[2] = d2[2]) => d1[3] = d2[3]

(* ---- acceptance ---------------------------------------------------------- *)
Mark == TLCSet(1, IF TLCGet(1) < l THEN l ELSE TLCGet(1))
Accepted ==
  IF TLCGet(1) = Len(TraceLog) + 1 THEN TRUE
  ELSE PrintT(ToJson([kind |-> "rejected", line |-> TLCGet(1)])) /\ FALSE
ASSUME TLCSet(1, 0)
=============================================================================
