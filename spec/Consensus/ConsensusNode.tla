--------------------------- MODULE ConsensusNode ---------------------------
(***************************************************************************)
(* The node-local part of linkchain's consensus state machine              *)
(* (consensus/state.go), transcribed function by function.  One operator   *)
(* per enter* function of the code; every operator is evaluated            *)
(* functionally so that one TLA+ step is the whole cascade the code runs   *)
(* under cs.mtx for one select case of receiveRoutine.                     *)
(*                                                                         *)
(* A node does not store individual votes here: its HeightVoteSet is       *)
(* abstracted to the thresholds it has crossed per round,                  *)
(*   th[r] = [anyPV, polka, anyPC, maj]                                    *)
(* (HasTwoThirdsAny / TwoThirdsMajority of Prevotes(r) and Precommits(r)). *)
(* Who crosses which threshold when is the environment's business: the     *)
(* exhaustive model (ConsensusLocal) lets an adversary choose them, the    *)
(* trace specification (Trace_Consensus) binds them to what a real node's  *)
(* vote sets reported.                                                     *)
(***************************************************************************)
EXTENDS Integers, Sequences, FiniteSets, TLC

CONSTANT MaxRound

Rounds == 0..MaxRound
Nil    == "nil"      \* the nil vote / a +2/3 majority for nil
None   == "none"     \* no value / no majority
New    == "new"      \* placeholder: a freshly created block (named when it is first seen)

\* RoundStepType of consensus/types/round_state.go
NewHeight == 1  NewRound == 2  Propose == 3  Prevote == 4
PrevoteWait == 5  Precommit == 6  PrecommitWait == 7  Commit == 8

NoTh   == [anyPV |-> FALSE, polka |-> None, anyPC |-> FALSE, maj |-> None]
NoProp == [r |-> -1, b |-> None, pol |-> -1]

\* RoundState as far as the algorithm reads it (plus the internal message queue)
InitNode(h) ==
  [h |-> h, round |-> 0, step |-> NewHeight,
   prop |-> NoProp,      \* accepted proposal: round, value named by its part-set header, POL round
   pblock |-> None,      \* complete ProposalBlock
   expect |-> None,      \* part-set header being collected (ProposalBlockParts)
   lr |-> 0, lb |-> None,        \* LockedRound / LockedBlock
   vr |-> 0, vb |-> None,        \* ValidRound / ValidBlock
   cr |-> -1,                    \* CommitRound
   th |-> [r \in Rounds |-> NoTh],
   iq |-> <<>>,                  \* internalMsgQueue: own proposal, parts and votes
   dec |-> None]                 \* value finalised at this height

Min(a, b) == IF a < b THEN a ELSE b
InR(r)    == r \in Rounds

Msg(t, r, b, pol) == [t |-> t, r |-> r, b |-> b, pol |-> pol]
Emit(s, m) == [s EXCEPT !.iq = Append(@, m)]

\* HeightVoteSet.POLInfo: the highest tracked round (<= round+1) with any +2/3 prevote majority, nil included
POLRound(s) ==
  LET top == Min(s.round + 1, MaxRound)
      rs  == {r \in 0..top : s.th[r].polka # None}
  IN IF rs = {} THEN -1 ELSE CHOOSE r \in rs : \A q \in rs : q <= r

\* isProposalComplete
ProposalComplete(s) ==
  /\ s.prop.r >= 0 /\ s.pblock # None
  /\ (s.prop.pol < 0 \/ (InR(s.prop.pol) /\ s.th[s.prop.pol].polka # None))

\* defaultDoPrevote + signAddVote (the vote carries cs.Round as it is when signing)
DoPrevote(s) ==
  LET b == IF s.lb # None THEN s.lb ELSE IF s.pblock = None THEN Nil ELSE s.pblock
  IN Emit(s, Msg("pv", s.round, b, -1))

EnterPrevote(s, r) ==
  IF r < s.round \/ (s.round = r /\ s.step >= Prevote) THEN s
  ELSE [DoPrevote(s) EXCEPT !.round = r, !.step = Prevote]

EnterPrevoteWait(s, r) ==
  IF r < s.round \/ (s.round = r /\ s.step >= PrevoteWait) THEN s
  ELSE [s EXCEPT !.round = r, !.step = PrevoteWait]

EnterPrecommit(s, r) ==
  IF r < s.round \/ (s.round = r /\ s.step >= Precommit) THEN s
  ELSE LET polka == IF InR(r) THEN s.th[r].polka ELSE None
           Done(x) == [x EXCEPT !.round = r, !.step = Precommit]
           PC(x, b) == Done(Emit(x, Msg("pc", x.round, b, -1)))
       IN IF polka = None THEN PC(s, Nil)                                   \* no polka: precommit nil
          ELSE IF polka = Nil THEN PC([s EXCEPT !.lr = 0, !.lb = None], Nil) \* +2/3 nil: unlock
          ELSE IF s.lb = polka THEN PC([s EXCEPT !.lr = r], polka)           \* relock
          ELSE IF s.pblock = polka THEN PC([s EXCEPT !.lr = r, !.lb = polka], polka)  \* lock
          ELSE PC([s EXCEPT !.lr = 0, !.lb = None,                            \* polka for a block we lack
                            !.pblock = IF s.expect = polka THEN s.pblock ELSE None,
                            !.expect = polka], Nil)

EnterPrecommitWait(s, r) ==
  IF r < s.round \/ (s.round = r /\ s.step >= PrecommitWait) THEN s
  ELSE [s EXCEPT !.round = r, !.step = PrecommitWait]

\* tryFinalizeCommit + finalizeCommit: the decision; the height change is applied by the caller
TryFinalize(s) ==
  LET b == IF s.cr >= 0 /\ InR(s.cr) THEN s.th[s.cr].maj ELSE None
  IN IF b = None \/ b = Nil \/ s.pblock # b THEN s ELSE [s EXCEPT !.dec = b]

EnterCommit(s, cr) ==
  IF s.step >= Commit THEN s
  ELSE LET b  == s.th[cr].maj
           s1 == IF s.lb = b THEN [s EXCEPT !.pblock = s.lb, !.expect = s.lb] ELSE s
           s2 == IF s1.pblock # b /\ s1.expect # b THEN [s1 EXCEPT !.pblock = None, !.expect = b] ELSE s1
       IN TryFinalize([s2 EXCEPT !.step = Commit, !.cr = cr])

\* defaultDecideProposal: locked block, else valid block, else a new one
DecideProposal(s) ==
  LET b == IF s.lb # None THEN s.lb ELSE IF s.vb # None THEN s.vb ELSE New
  IN Emit(Emit(s, Msg("prop", s.round, b, POLRound(s))), Msg("part", s.round, b, -1))

\* enterPropose. P[r] = "this node is the proposer of round r as it believes" (its
\* validator set rotated from the round it is in; see ValSet for that computation)
EnterPropose(s, r, P) ==
  IF r < s.round \/ (s.round = r /\ s.step >= Propose) THEN s
  ELSE LET s1 == IF P[r] THEN DecideProposal(s) ELSE s
           s2 == [s1 EXCEPT !.round = r, !.step = Propose]
       IN IF ProposalComplete(s2) THEN EnterPrevote(s2, r) ELSE s2

\* enterNewRound (the test configuration creates empty blocks: no wait for transactions)
EnterNewRound(s, r, P) ==
  IF r < s.round \/ (s.round = r /\ s.step # NewHeight) THEN s
  ELSE LET s1 == [s EXCEPT !.round = r, !.step = NewRound,
                           !.prop   = IF r = 0 THEN @ ELSE NoProp,
                           !.pblock = IF r = 0 THEN @ ELSE None,
                           !.expect = IF r = 0 THEN @ ELSE None]
       IN EnterPropose(s1, r, P)

\* defaultSetProposal (fromProposer: the signature verifies against the proposer the node expects)
SetProposal(s, m, fromProposer) ==
  IF s.prop.r >= 0 THEN s
  ELSE IF m.r # s.round \/ s.step >= Commit THEN s
  ELSE IF ~(m.pol = -1 \/ (0 <= m.pol /\ m.pol < m.r)) THEN s
  ELSE IF ~fromProposer THEN s
  ELSE [s EXCEPT !.prop = [r |-> m.r, b |-> m.b, pol |-> m.pol], !.pblock = None, !.expect = m.b]

\* addProposalBlockPart when the part completes the set (blocks of the drivers have one part)
GotBlock(s, b) ==
  IF s.expect # b \/ s.pblock # None THEN s
  ELSE LET polka == s.th[s.round].polka
           s1 == [s EXCEPT !.pblock = b]
           s2 == IF polka # None /\ polka # Nil /\ s1.vr < s1.round /\ b = polka
                 THEN [s1 EXCEPT !.vr = s1.round, !.vb = b] ELSE s1
       IN IF s2.step <= Propose /\ ProposalComplete(s2)
          THEN LET s3 == EnterPrevote(s2, s2.round)
               IN IF polka # None THEN EnterPrecommit(s3, s3.round) ELSE s3
          ELSE IF s2.step = Commit THEN TryFinalize(s2) ELSE s2

\* addVote, prevote branch, evaluated after the vote was added (thresholds already updated)
AfterPrevote(s, r, P) ==
  LET polka == s.th[r].polka
      s1 == IF polka # None /\ s.lb # None /\ s.lr < r /\ r <= s.round /\ s.lb # polka
            THEN [s EXCEPT !.lr = 0, !.lb = None] ELSE s
      s2 == IF polka # None /\ polka # Nil /\ s1.vr < r /\ r <= s1.round /\ s1.pblock = polka
            THEN [s1 EXCEPT !.vr = r, !.vb = polka] ELSE s1
  IN IF s2.round <= r /\ s2.th[r].anyPV
     THEN LET s3 == EnterNewRound(s2, r, P)
          IN IF polka # None THEN EnterPrecommit(s3, r)
             ELSE EnterPrevoteWait(EnterPrevote(s3, r), r)
     ELSE IF s2.prop.r >= 0 /\ 0 <= s2.prop.pol /\ s2.prop.pol = r /\ ProposalComplete(s2)
          THEN EnterPrevote(s2, s2.round)
          ELSE s2

\* addVote, precommit branch
AfterPrecommit(s, r, P) ==
  LET maj == s.th[r].maj
  IN IF maj # None
     THEN IF maj = Nil
          THEN (IF r + 1 <= MaxRound THEN EnterNewRound(s, r + 1, P) ELSE s)
          ELSE EnterCommit(EnterPrecommit(EnterNewRound(s, r, P), r), r)
     ELSE IF s.round <= r /\ s.th[r].anyPC
          THEN EnterPrecommitWait(EnterPrecommit(EnterNewRound(s, r, P), r), r)
          ELSE s

\* handleTimeout: the guard against stale timeouts, then the switch on the step
HandleTimeout(s, th, tr, ts, P) ==
  IF th # s.h \/ tr < s.round \/ (tr = s.round /\ ts < s.step) THEN s
  ELSE IF ts = NewHeight     THEN EnterNewRound(s, 0, P)
  ELSE IF ts = NewRound      THEN EnterPropose(s, 0, P)
  ELSE IF ts = Propose       THEN EnterPrevote(s, tr)
  ELSE IF ts = PrevoteWait   THEN EnterPrecommit(s, tr)
  ELSE IF ts = PrecommitWait THEN (IF tr + 1 <= MaxRound THEN EnterNewRound(s, tr + 1, P) ELSE s)
  ELSE s

\* updateToStatus after finalizeCommit: everything is reset for the next height; the
\* internal queue keeps what the node still has to tell itself
NextHeight(s) == [InitNode(s.h + 1) EXCEPT !.iq = s.iq]
=============================================================================
