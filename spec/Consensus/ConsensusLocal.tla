--------------------------- MODULE ConsensusLocal ---------------------------
(***************************************************************************)
(* Layer L: ONE correct node running the transcribed algorithm             *)
(* (ConsensusNode) against a fully adversarial environment: every other    *)
(* validator is Byzantine, so every vote-set threshold is available at any *)
(* time, any proposal of a Byzantine proposer and any block may arrive,    *)
(* any scheduled timeout may fire.  TLC checks the voting discipline the   *)
(* safety argument (AgreementAbs) rests on.                                *)
(***************************************************************************)
EXTENDS ConsensusNode

CONSTANTS Values,      \* block values the adversary may propose
          IAmProposer  \* Rounds -> BOOLEAN (substituted from MC module)

VoteVals == Values \cup {Nil}

VARIABLES s,       \* the node (height 1)
          sent,    \* every vote the node has handed to itself / the wire: [t, r, b]
          unlockWitness  \* history: rounds in which the node has seen a polka, with its value
vars == <<s, sent, unlockWitness>>

P == IAmProposer

Init == /\ s = InitNode(1)
        /\ sent = {}
        /\ unlockWitness = {}

\* bookkeeping after each step: what entered the internal queue is "sent" at once
\* (a vote has no further local effect than being counted, which the adversary controls);
\* proposals and parts stay queued and are handled by Internal
IsVote(m)  == m.t \in {"pv", "pc"}
NotVote(m) == ~IsVote(m)
Commit1(s2) ==
  /\ sent' = sent \cup {[t |-> s2.iq[i].t, r |-> s2.iq[i].r, b |-> s2.iq[i].b] : i \in {j \in DOMAIN s2.iq : IsVote(s2.iq[j])}}
  /\ s' = [s2 EXCEPT !.iq = SelectSeq(s2.iq, NotVote)]
  /\ unlockWitness' = unlockWitness \cup {<<r, s2.th[r].polka>> : r \in {q \in Rounds : s2.th[q].polka # None}}
Upd(s2) == Commit1(s2) /\ s2 # s

Running == s.dec = None

\* ---- the adversary crosses thresholds (monotone, consistent) ----
SeeAnyPV(r) == /\ ~s.th[r].anyPV
               /\ Upd(AfterPrevote([s EXCEPT !.th[r].anyPV = TRUE], r, P))
SeePolka(r, v) == /\ s.th[r].polka = None
                  /\ Upd(AfterPrevote([s EXCEPT !.th[r].anyPV = TRUE, !.th[r].polka = v], r, P))
MorePV(r) == Upd(AfterPrevote(s, r, P))       \* a further prevote that crosses nothing
SeeAnyPC(r) == /\ ~s.th[r].anyPC
               /\ Upd(AfterPrecommit([s EXCEPT !.th[r].anyPC = TRUE], r, P))
SeeMaj(r, v) == /\ s.th[r].maj = None
                /\ Upd(AfterPrecommit([s EXCEPT !.th[r].anyPC = TRUE, !.th[r].maj = v], r, P))
MorePC(r) == Upd(AfterPrecommit(s, r, P))

\* HeightVoteSet tracks rounds 0..round+1 (catch-up rounds of peers reach further; bounded by MaxRound)
Thresholds == \E r \in Rounds :
                 \/ SeeAnyPV(r) \/ SeeAnyPC(r) \/ MorePV(r) \/ MorePC(r)
                 \/ \E v \in VoteVals : SeePolka(r, v) \/ SeeMaj(r, v)

\* ---- own queued proposal / block part ----
Internal ==
  /\ s.iq # <<>>
  /\ LET m  == Head(s.iq)
         s0 == [s EXCEPT !.iq = Tail(@)]
         b  == IF m.b = New THEN (IF s.round = 0 THEN "A" ELSE "B") ELSE m.b
     IN Commit1(IF m.t = "prop" THEN SetProposal(s0, [m EXCEPT !.b = b], TRUE)
                ELSE IF m.t = "part" THEN GotBlock(s0, b) ELSE s0)

\* ---- proposals and blocks from the network ----
RecvProposal == \E r \in Rounds, v \in Values, pol \in -1..MaxRound :
                   /\ ~P[r]        \* a Byzantine proposer's round; forged signatures are rejected by SetProposal
                   /\ Upd(SetProposal(s, Msg("prop", r, v, pol), TRUE))
RecvBlock == \E v \in Values : Upd(GotBlock(s, v))

\* ---- timeouts: any (height, round, step) the ticker could still hold ----
Timeout == \E tr \in Rounds, ts \in {NewHeight, Propose, PrevoteWait, PrecommitWait} :
              /\ tr <= s.round
              /\ Upd(HandleTimeout(s, s.h, tr, ts, P))

Next == Running /\ (Thresholds \/ Internal \/ RecvProposal \/ RecvBlock \/ Timeout)
Spec == Init /\ [][Next]_vars

(* ---- the discipline ---------------------------------------------------- *)
Own(t, r) == {m \in sent : m.t = t /\ m.r = r}
OnePrevotePerRound   == \A r \in Rounds : Cardinality(Own("pv", r)) <= 1
OnePrecommitPerRound == \A r \in Rounds : Cardinality(Own("pc", r)) <= 1
\* a non-nil precommit in r needs a polka for that block in r, seen by this node
PrecommitNeedsPolka  == \A r \in Rounds : \A m \in Own("pc", r) : m.b # Nil => s.th[r].polka = m.b
\* the lock is the last non-nil precommit; prevoting something else needs a later polka for something else
LastLock(r) == LET rs == {q \in 0..(r - 1) : \E m \in Own("pc", q) : m.b # Nil}
               IN IF rs = {} THEN -1 ELSE CHOOSE q \in rs : \A x \in rs : x <= q
LockVal(q) == (CHOOSE m \in Own("pc", q) : m.b # Nil).b
NoPrevoteAgainstLock ==
  \A r \in Rounds : \A m \in Own("pv", r) :
     LET q == LastLock(r) IN
       (q >= 0 /\ m.b # LockVal(q)) =>
          \E w \in unlockWitness : w[1] > q /\ w[1] <= r /\ w[2] # LockVal(q)
DecisionNeedsMaj == s.dec # None => \E r \in Rounds : s.th[r].maj = s.dec
LockConsistent == s.lb # None => \E m \in sent : m.t = "pc" /\ m.b = s.lb /\ m.r = s.lr
TypeOK == /\ s.round \in Rounds /\ s.step \in NewHeight..Commit
          /\ s.lr \in Rounds /\ s.vr \in Rounds

\* hide nothing: all three variables matter
=============================================================================
