---- MODULE AgreementAbs ----
EXTENDS Integers, FiniteSets, TLC
CONSTANTS Corr, Byz, Power, MaxRound, Values
Val == Corr \cup Byz
Rounds == 0..MaxRound
Nil == "nil"
None == "none"
VoteVals == Values \cup {Nil}
RECURSIVE Sum(_)
Sum(S) == IF S = {} THEN 0 ELSE LET x == CHOOSE x \in S : TRUE IN Power[x] + Sum(S \ {x})
Total == Sum(Val)
Quorum(p) == 3 * p > 2 * Total
VARIABLES pv, pc, rnd, dec
vars == <<pv, pc, rnd, dec>>
Init == /\ pv = [n \in Corr |-> [r \in Rounds |-> None]]
        /\ pc = [n \in Corr |-> [r \in Rounds |-> None]]
        /\ rnd = [n \in Corr |-> 0]
        /\ dec = [n \in Corr |-> None]
PVSup(r, v) == Sum({n \in Corr : pv[n][r] = v}) + Sum(Byz)
PCSup(r, v) == Sum({n \in Corr : pc[n][r] = v}) + Sum(Byz)
LockRounds(n, r) == {q \in 0..(r-1) : pc[n][q] \notin {None, Nil}}
LockR(n, r) == CHOOSE q \in LockRounds(n, r) : \A x \in LockRounds(n, r) : x <= q
Prevote(n, r, v) ==
    /\ r >= rnd[n] /\ pv[n][r] = None /\ pc[n][r] = None
    /\ (LockRounds(n, r) # {} /\ v # pc[n][LockR(n, r)]) =>
          \E r1 \in (LockR(n, r) + 1)..r : \E w \in VoteVals \ {pc[n][LockR(n, r)]} : Quorum(PVSup(r1, w))
    /\ pv' = [pv EXCEPT ![n][r] = v] /\ rnd' = [rnd EXCEPT ![n] = r] /\ UNCHANGED <<pc, dec>>
Precommit(n, r, v) ==
    /\ r >= rnd[n] /\ pc[n][r] = None
    /\ v # Nil => Quorum(PVSup(r, v))
    /\ pc' = [pc EXCEPT ![n][r] = v] /\ rnd' = [rnd EXCEPT ![n] = r] /\ UNCHANGED <<pv, dec>>
Decide(n, v) ==
    /\ dec[n] = None /\ \E r \in Rounds : Quorum(PCSup(r, v))
    /\ dec' = [dec EXCEPT ![n] = v] /\ UNCHANGED <<pv, pc, rnd>>
Next == \E n \in Corr : \/ \E r \in Rounds, v \in VoteVals : Prevote(n, r, v) \/ Precommit(n, r, v)
                        \/ \E v \in Values : Decide(n, v)
Agreement == \A a, b \in Corr : dec[a] # None /\ dec[b] # None => dec[a] = dec[b]
====
