---- MODULE MC_Ag ----
EXTENDS AgreementAbs
CONSTANTS c1, c2, c3, c4, b1, b2
Unit4   == [x \in {c1, c2, c3, b1} |-> 1]
Unit22  == [x \in {c1, c2, b1, b2} |-> 1]
P2111   == [x \in {c1, c2, c3, b1} |-> IF x = c1 THEN 2 ELSE 1]
Unit5   == [x \in {c1, c2, c3, c4, b1} |-> 1]
Sym3    == Permutations({c1, c2, c3})
Sym23   == Permutations({c2, c3})
Sym4    == Permutations({c1, c2, c3, c4})
====
