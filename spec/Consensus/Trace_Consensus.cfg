SPECIFICATION TraceSpec
CONSTANTS
  MaxRound = 24
  CheckConformance = TRUE
INVARIANTS OneVotePerRound PrecommitNeedsPolka NoPrevoteAgainstLock DecisionNeedsMaj Agreement
CONSTRAINT Mark
POSTCONDITION Accepted
CHECK_DEADLOCK FALSE
