SPECIFICATION TraceSpec
CONSTANTS
  MaxRound = 16
  CheckConformance = TRUE
INVARIANTS OneVotePerRound PrecommitNeedsPolka NoPrevoteAgainstLock DecisionNeedsMaj Agreement
CONSTRAINT Mark
POSTCONDITION Accepted
CHECK_DEADLOCK FALSE
