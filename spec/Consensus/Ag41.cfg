INIT Init
NEXT Next
CONSTANTS
  c1 = c1
  c2 = c2
  c3 = c3
  c4 = c4
  b1 = b1
  b2 = b2
  Corr = {c1, c2, c3, c4}
  Byz = {b1}
  Power <- Unit5
  MaxRound = 1
  Values = {"A", "B"}
SYMMETRY Sym4
INVARIANT Agreement
CHECK_DEADLOCK FALSE
