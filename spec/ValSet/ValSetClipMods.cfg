\* thorough, saturation sub-model with structural changes on the 5-bit machine
SPECIFICATION Spec
CONSTANTS
  NAddr = 3
  Powers = {5, 12}
  Coinbases = {0}
  ArgAccums = {0}
  NewSizes = {2, 3}
  MaxK = 2
  MaxD = 1
  MaxMods = 1
  MaxAge = 1
  ChangeMax = 2
  MaxI = 15
  IncAlgo = "fixed"
  CopyAlgo = "takeover"
  Ops = {"new", "inc", "add", "update", "remove", "copy", "ustat"}
INVARIANTS TypeOK Sorted CachesCoherent PathIndependence TwinAgreement EvidenceProposerAgrees ReloadTransparent Inc1Agree Proportional
           Conservation HashIgnoresAccum HashOrderIndependent UpdateOrderIndependent Saturates
PROPERTIES HashStable UpdateStatusRule
ACTION_CONSTRAINT Edge
VIEW View
CHECK_DEADLOCK FALSE
