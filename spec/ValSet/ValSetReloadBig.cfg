\* thorough, persist-and-reload on sets of 4 validators with powers in {1, 5} (rotations by up to 2, twins up to 2 apart)
SPECIFICATION Spec
CONSTANTS
  NAddr = 4
  Powers = {1, 5}
  Coinbases = {0}
  ArgAccums = {0}
  NewSizes = {4}
  MaxK = 2
  MaxD = 2
  MaxMods = 0
  MaxAge = 0
  ChangeMax = 2
  MaxI = 1000000
  IncAlgo = "fixed"
  CopyAlgo = "takeover"
  Ops = {"new", "inc", "copy", "ustat", "reload"}
INVARIANTS TypeOK Sorted CachesCoherent PathIndependence TwinAgreement EvidenceProposerAgrees ReloadTransparent Inc1Agree Proportional
           Conservation HashIgnoresAccum HashOrderIndependent UpdateOrderIndependent Saturates
PROPERTIES HashStable UpdateStatusRule
ACTION_CONSTRAINT Edge
VIEW View
CHECK_DEADLOCK FALSE
