\* thorough, structural sub-model: two coinbases, rotations by up to 3 around one structural change
SPECIFICATION Spec
CONSTANTS
  NAddr = 3
  Powers = {1, 3}
  Coinbases = {0, 1}
  ArgAccums = {0}
  NewSizes = {2}
  MaxK = 3
  MaxD = 2
  MaxMods = 1
  MaxAge = 2
  ChangeMax = 3
  MaxI = 1000000
  IncAlgo = "fixed"
  CopyAlgo = "takeover"
  Ops = {"new", "inc", "add", "update", "remove", "copy", "ustat"}
INVARIANTS TypeOK Sorted CachesCoherent PathIndependence TwinAgreement EvidenceProposerAgrees ReloadTransparent Inc1Agree Proportional
           Conservation HashIgnoresAccum HashOrderIndependent UpdateOrderIndependent Saturates
PROPERTIES HashStable UpdateStatusRule
ACTION_CONSTRAINT Edge
VIEW View
CHECK_DEADLOCK FALSE
