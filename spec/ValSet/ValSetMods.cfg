\* quick, structural sub-model: Add / Update / Remove / updateStatus with a changed list from
\* every state of the rotation cycle, followed by a bounded number of rotations and copies
SPECIFICATION Spec
CONSTANTS
  NAddr = 3
  Powers = {1, 3}
  Coinbases = {0}
  ArgAccums = {0}
  NewSizes = {2, 3}
  MaxK = 2
  MaxD = 1
  MaxMods = 1
  MaxAge = 2
  ChangeMax = 2
  MaxI = 1000000
  IncAlgo = "fixed"
  CopyAlgo = "takeover"
  Ops = {"new", "inc", "add", "update", "remove", "copy", "ustat"}
INVARIANTS TypeOK Sorted CachesCoherent PathIndependence TwinAgreement EvidenceProposerAgrees ReloadTransparent Inc1Agree Proportional
           Conservation HashIgnoresAccum HashOrderIndependent UpdateOrderIndependent Saturates
PROPERTIES HashStable UpdateStatusRule
ACTION_CONSTRAINT Edge
VIEW View
CHECK_DEADLOCK FALSE
