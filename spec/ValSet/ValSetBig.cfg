\* thorough, rotation sub-model: every set of 4 validators with powers in {1, 2, 5}, its whole
\* rotation cycle, twins rotated in different portions up to 4 apart
SPECIFICATION Spec
CONSTANTS
  NAddr = 4
  Powers = {1, 2, 5}
  Coinbases = {0}
  ArgAccums = {0}
  NewSizes = {4}
  MaxK = 4
  MaxD = 4
  MaxMods = 0
  MaxAge = 0
  ChangeMax = 2
  MaxI = 1000000
  IncAlgo = "fixed"
  CopyAlgo = "takeover"
  Ops = {"new", "inc", "copy", "ustat"}
INVARIANTS TypeOK Sorted CachesCoherent PathIndependence TwinAgreement EvidenceProposerAgrees ReloadTransparent Inc1Agree Proportional
           Conservation HashIgnoresAccum HashOrderIndependent UpdateOrderIndependent Saturates
PROPERTIES HashStable UpdateStatusRule
ACTION_CONSTRAINT Edge
VIEW View
CHECK_DEADLOCK FALSE
