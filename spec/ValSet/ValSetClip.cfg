\* quick, saturation sub-model: a 5-bit machine (-16..15) on which totals and priorities clip
SPECIFICATION Spec
CONSTANTS
  NAddr = 3
  Powers = {5, 12}
  Coinbases = {0}
  ArgAccums <- LowAccums
  NewSizes = {2, 3}
  MaxK = 3
  MaxD = 3
  MaxMods = 0
  MaxAge = 0
  ChangeMax = 2
  MaxI = 15
  IncAlgo = "fixed"
  CopyAlgo = "takeover"
  Ops = {"new", "inc", "copy", "ustat"}
INVARIANTS TypeOK Sorted CachesCoherent PathIndependence TwinAgreement EvidenceProposerAgrees ReloadTransparent Inc1Agree Proportional
           Conservation HashIgnoresAccum HashOrderIndependent UpdateOrderIndependent Saturates
PROPERTIES HashStable UpdateStatusRule
ACTION_CONSTRAINT Edge
VIEW View
CHECK_DEADLOCK FALSE
