\* NEGATIVE control: Copy() that keeps the cached proposer only if it IS (pointer identity) one
\* of the copied elements.  A decoded set loses its proposer in the copy: TLC must report
\* ReloadTransparent (or TwinAgreement) violated; nothing is exported
SPECIFICATION Spec
CONSTANTS
  NAddr = 2
  Powers = {1, 3}
  Coinbases = {0}
  ArgAccums = {0}
  NewSizes = {2}
  MaxK = 2
  MaxD = 2
  MaxMods = 0
  MaxAge = 0
  ChangeMax = 2
  MaxI = 1000000
  IncAlgo = "fixed"
  CopyAlgo = "identity"
  Ops = {"new", "inc", "copy", "ustat", "reload"}
INVARIANTS TypeOK Sorted CachesCoherent TwinAgreement ReloadTransparent
VIEW View
CHECK_DEADLOCK FALSE
