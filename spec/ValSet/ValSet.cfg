\* quick, rotation sub-model: every set over 3 addresses with powers 1..3, its whole rotation
\* cycle, a twin that is rotated in different portions, per-block updateStatus without change
SPECIFICATION Spec
CONSTANTS
  NAddr = 3
  Powers = {1, 2, 3}
  Coinbases = {0}
  ArgAccums = {0}
  NewSizes = {1, 2, 3}
  MaxK = 3
  MaxD = 3
  MaxMods = 0
  MaxAge = 0
  ChangeMax = 2
  MaxI = 1000000
  IncAlgo = "fixed"
  CopyAlgo = "takeover"
  Ops = {"new", "inc", "copy", "ustat"}
INVARIANTS TypeOK Sorted CachesCoherent PathIndependence TwinAgreement EvidenceProposerAgrees ReloadTransparent Inc1Agree Proportional
           Conservation HashIgnoresAccum HashOrderIndependent UpdateOrderIndependent Saturates
PROPERTIES HashStable UpdateStatusRule
ACTION_CONSTRAINT Edge
VIEW View
CHECK_DEADLOCK FALSE
