\* quick, persist-and-reload sub-model: every set over 3 addresses with powers 1 or 3, its whole
\* rotation cycle, twins, per-block updateStatus; either holder is persisted and loaded again
\* (restart) in any state -- after rotations, before / after Copy -- followed by any action
SPECIFICATION Spec
CONSTANTS
  NAddr = 3
  Powers = {1, 3}
  Coinbases = {0}
  ArgAccums = {0}
  NewSizes = {1, 2, 3}
  MaxK = 2
  MaxD = 2
  MaxMods = 0
  MaxAge = 0
  ChangeMax = 2
  MaxI = 1000000
  IncAlgo = "fixed"
  CopyAlgo = "takeover"
  Ops = {"new", "inc", "copy", "ustat", "reload"}
INVARIANTS TypeOK Sorted CachesCoherent PathIndependence TwinAgreement EvidenceProposerAgrees ReloadTransparent Inc1Agree Proportional
           Conservation HashIgnoresAccum HashOrderIndependent UpdateOrderIndependent Saturates
PROPERTIES HashStable UpdateStatusRule
ACTION_CONSTRAINT Edge
VIEW View
CHECK_DEADLOCK FALSE
