\* the rotation exactly as /repo has it: TLC reports PathIndependence violated (a lead the
\* harness replays on the real ValidatorSet); nothing is exported
SPECIFICATION Spec
CONSTANTS
  NAddr = 2
  Powers = {1, 3}
  Coinbases = {0}
  ArgAccums = {0}
  NewSizes = {2}
  MaxK = 2
  MaxD = 2
  MaxMods = 0
  MaxAge = 0
  ChangeMax = 2
  MaxI = 1000000
  IncAlgo = "coded"
  CopyAlgo = "takeover"
  Ops = {"new", "inc", "copy"}
INVARIANTS TypeOK Sorted CachesCoherent Inc1Agree PathIndependence TwinAgreement EvidenceProposerAgrees ReloadTransparent
VIEW View
CHECK_DEADLOCK FALSE
