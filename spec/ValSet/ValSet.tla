------------------------------- MODULE ValSet -------------------------------
(***************************************************************************)
(* types.ValidatorSet / types.Validator and the two places of the          *)
(* consensus code that rotate and replace it (consensus/state.go           *)
(* enterNewRound, consensus/execution.go updateStatus).                    *)
(*                                                                         *)
(* A set is the record the Go struct is:                                   *)
(*   vals : the slice Validators, kept sorted by address; every element    *)
(*          [addr, p = VotingPower, a = Accum, cb = CoinBase]              *)
(*          (the public key is a function of the address)                  *)
(*   prop : the cached pointer Proposer (0 = nil)                          *)
(*   pt   : what that pointer points at: "nil" | "elem" (an element of a   *)
(*          Validators slice: IncrementAccum stores the element it         *)
(*          selected, Copy() takes the pointer over) | "detached" (an      *)
(*          object of its own that carries the proposer's VALUES: what     *)
(*          decoding a persisted set yields -- LoadStatus,                 *)
(*          LoadStatusByHeight, LoadValidators after a restart)            *)
(*   tvp  : the cached totalVotingPower (0 = not computed)                 *)
(*   rot  : ghost -- TRUE while the set has only been rotated since        *)
(*          NewValidatorSet built it                                       *)
(*   age  : ghost -- single rotation steps made after the first structural *)
(*          change of the behaviour (only used to bound the exploration)   *)
(* Addresses are 1..NAddr; the harness instantiates address i with the     *)
(* i-th of several tables of real keys sorted by address bytes, powers and *)
(* accums with multiples of the abstract ones.  Integers are those of a    *)
(* machine with range MinI..MaxI; all arithmetic goes through the clipped  *)
(* operators transcribed from safeAddClip / safeSubClip / safeMulClip.     *)
(*                                                                         *)
(* Two holders of a set are modelled: A (cs.Validators / status.Validators *)
(* of "this node") and B (what Copy() returned: another node's view of the *)
(* same height, the copy enterNewRound rotates, status.LastValidators, the *)
(* copy the fault-evidence code rotates).  While B is a twin of A (copied  *)
(* from it, no structural change since) d = rotations(B) - rotations(A).   *)
(*                                                                         *)
(* One action per public call:                                             *)
(*   New(list)          NewValidatorSet(list)                              *)
(*   Inc(t, k)          t.IncrementAccum(k)                                *)
(*   Add/Update/Remove  A.Add(v) / A.Update(v) / A.Remove(addr)            *)
(*   Copy               B := A.Copy()                                      *)
(*   Adopt              A := B        (enterNewRound: cs.Validators = ..)  *)
(*   Drop               B is forgotten                                     *)
(*   UStat(list)        updateStatus(status, .., list) through ApplyBlock: *)
(*                      A := next set, B := status.LastValidators          *)
(*   Reload(t)          the holder's set is replaced by what decoding its  *)
(*                      encoding yields (SaveStatus .. restart ..          *)
(*                      LoadStatus): same validators and accums, Proposer  *)
(*                      a detached object, the unexported cached total     *)
(*                      gone.  Enabled in any state, followed by anything  *)
(*                      (node.NewNode hands out status.Copy() next).       *)
(*                                                                         *)
(* IncAlgo selects the rotation algorithm:                                 *)
(*   "coded" -- IncrementAccum(k) exactly as /repo has it: add k*power to  *)
(*              every validator first, then k times pick the maximum and   *)
(*              subtract the total (DEVIATION: not equal to k single       *)
(*              steps for unequal powers)                                  *)
(*   "fixed" -- the designed algorithm: k times the single step            *)
(* CopyAlgo selects what Copy() does with the cached proposer:             *)
(*   "takeover" -- as /repo has it: the pointer is taken over as it is     *)
(*   "identity" -- NEGATIVE instance (ValSetCopyIdentity.cfg): the copy's  *)
(*              proposer is the copied element that IS (pointer identity)  *)
(*              the old proposer, else nil -- loses a detached proposer;   *)
(*              TLC must report ReloadTransparent / TwinAgreement violated *)
(*                                                                         *)
(* Bounded instances (all of this module):                                 *)
(*   ValSet.cfg, ValSetBig.cfg            rotation cycles and twins        *)
(*   ValSetMods.cfg, ValSetModsBig.cfg,   Add / Update / Remove /          *)
(*   ValSetMods2.cfg                      updateStatus with changed lists  *)
(*   ValSetClip.cfg, ValSetClipBig.cfg,   a 5- or 6-bit machine on which   *)
(*   ValSetClipMods.cfg                   totals and priorities clip       *)
(*   ValSetAsCoded.cfg                    IncAlgo = "coded": TLC reports   *)
(*                                        PathIndependence violated        *)
(*   ValSetReload.cfg, ValSetReloadBig.cfg  Reload (persist, restart, load)  *)
(*                                        on rotation cycles and twins     *)
(*   ValSetReloadMods.cfg,                Reload around structural changes *)
(*   ValSetReloadMods3.cfg                                                 *)
(*   ValSetClipReload.cfg                 Reload on the 5-bit machine      *)
(*   ValSetCopyIdentity.cfg               CopyAlgo = "identity": TLC must  *)
(*                                        report a violation (control)     *)
(*                                                                         *)
(* Idiom: `\A x \in {e} : P(x)` and `CHOOSE r \in {f(x) : x \in {e}} : TRUE` *)
(* bind the value of e once.  (TLC re-evaluates an operator application    *)
(* every time its result is indexed or passed on unevaluated, which makes  *)
(* a window of 20 rotation steps take minutes instead of milliseconds.)    *)
(***************************************************************************)
EXTENDS Integers, Sequences, FiniteSets, TLC, Json

CONSTANTS NAddr,      \* number of abstract addresses
          Powers,     \* voting powers used by the operations (positive)
          Coinbases,  \* coinbase values (small naturals)
          ArgAccums,  \* Accum values the validators handed to New / Add / Update carry (the
                      \* application's lists carry 0; the API copies whatever is there)
          NewSizes,   \* sizes of the lists NewValidatorSet is called with
          MaxK,       \* largest argument of IncrementAccum
          MaxD,       \* bound on |d| between twins
          MaxMods,    \* bound on structural changes per behaviour
          MaxAge,     \* bound on rotations of a set after a structural change (rotated-only sets cycle)
          ChangeMax,  \* largest change list UpdateOrderIndependent permutes
          MaxI,       \* machine integers are MinI..MaxI
          IncAlgo,    \* "coded" | "fixed"
          CopyAlgo,   \* "takeover" | "identity"
          Ops         \* enabled actions (sub-models for the different configs)

Addr == 1..NAddr
MinI == -MaxI - 1
LowAccums == {-(MaxI - 1), 0}   \* for `ArgAccums <- LowAccums` (a .cfg cannot write a negative number)
Nil  == 0

VARIABLES A, B,   \* the two holders
          twin,   \* B is a copy of A and neither changed structurally since
          d,      \* rotations(B) - rotations(A) while twin
          mods,   \* structural changes so far
          last    \* label of the last action (output only; hidden by the VIEW)
vars == <<A, B, twin, d, mods, last>>

(* ---- clipped arithmetic (types/validator_set.go, bottom of the file) --- *)
\* safeAdd reports overflow iff the exact sum leaves the machine range
AddOv(a, b)   == (b > 0 /\ a > MaxI - b) \/ (b < 0 /\ a < MinI - b)
AddClip(a, b) == IF AddOv(a, b) THEN (IF b < 0 THEN MinI ELSE MaxI) ELSE a + b
SubOv(a, b)   == (b > 0 /\ a < MinI + b) \/ (b < 0 /\ a > MaxI + b)
SubClip(a, b) == IF SubOv(a, b) THEN (IF b > 0 THEN MinI ELSE MaxI) ELSE a - b
\* safeMul: 0 and 1 are answered first, MinI as an operand is an overflow, otherwise
\* the wrapped product c is tested with c/b # a, i.e. the exact product left the range
MulOv(a, b)   == a # 0 /\ b # 0 /\ a # 1 /\ b # 1 /\
                 (a = MinI \/ b = MinI \/ a * b > MaxI \/ a * b < MinI)
MulClip(a, b) == IF a = 0 \/ b = 0 THEN 0
                 ELSE IF MulOv(a, b) THEN (IF (a < 0) # (b < 0) THEN MinI ELSE MaxI)
                 ELSE a * b

MinV(x, y) == IF x < y THEN x ELSE y
AbsV(x)    == IF x < 0 THEN -x ELSE x

(* ---- the ValidatorSet ------------------------------------------------- *)
Val(ad, p, a, cb) == [addr |-> ad, p |-> p, a |-> a, cb |-> cb]
Dead == [live |-> FALSE, vals |-> <<>>, prop |-> Nil, pt |-> "nil", tvp |-> 0, rot |-> FALSE, age |-> 0]

Addrs(vs) == {vs[i].addr : i \in 1..Len(vs)}

RECURSIVE SumPow(_, _)                 \* TotalVotingPower's loop: clipped, in slice order
SumPow(vs, n) == IF n = 0 THEN 0 ELSE AddClip(SumPow(vs, n - 1), vs[n].p)
Total(s) == IF s.tvp = 0 THEN SumPow(s.vals, Len(s.vals)) ELSE s.tvp

\* Validator.CompareAccum: higher accum wins, ties go to the LOWER address
Better(x, y) == x.a > y.a \/ (x.a = y.a /\ x.addr < y.addr)
\* the top of the heap built with accumComparable / the result of findProposer
MaxIdx(vs) == CHOOSE i \in 1..Len(vs) : \A j \in 1..Len(vs) : j # i => Better(vs[i], vs[j])

GetProposer(s) == IF Len(s.vals) = 0 THEN Nil
                  ELSE IF s.prop = Nil THEN s.vals[MaxIdx(s.vals)].addr   \* findProposer
                  ELSE s.prop

\* --- IncrementAccum as coded ---
Bump(vs, k) == [i \in 1..Len(vs) |-> [vs[i] EXCEPT !.a = AddClip(@, MulClip(vs[i].p, k))]]
RECURSIVE Dec(_, _, _, _)              \* n times: subtract the total from the current maximum
Dec(vs, tot, n, pr) ==
  IF n = 0 THEN [vals |-> vs, prop |-> pr]
  ELSE LET m == MaxIdx(vs) IN
       CHOOSE r \in {Dec(ws, tot, n - 1, vs[m].addr) : ws \in {[vs EXCEPT ![m].a = SubClip(@, tot)]}} : TRUE
IncCoded(s, k) == LET tot == Total(s)
                      r   == Dec(Bump(s.vals, k), tot, k, s.prop)
                  IN  [s EXCEPT !.vals = r.vals, !.prop = r.prop, !.pt = "elem", !.tvp = tot]

\* --- the designed rotation: k single steps ---
Step(s) == LET tot == Total(s)
               vs  == Bump(s.vals, 1)
               m   == MaxIdx(vs)
           IN  [s EXCEPT !.vals = [vs EXCEPT ![m].a = SubClip(@, tot)], !.prop = vs[m].addr, !.pt = "elem", !.tvp = tot]
RECURSIVE Walk(_, _)
Walk(s, n) == IF n = 0 THEN s ELSE CHOOSE r \in {Walk(t, n - 1) : t \in {Step(s)}} : TRUE
IncFixed(s, k) == Walk(s, k)

Inc(s, k) == IF IncAlgo = "coded" THEN IncCoded(s, k) ELSE IncFixed(s, k)

\* --- NewValidatorSet: copy, sort by address, rotate once ---
RECURSIVE InsertSorted(_, _)
InsertSorted(vs, v) == IF vs = <<>> THEN <<v>>
                       ELSE IF v.addr < Head(vs).addr THEN <<v>> \o vs
                       ELSE <<Head(vs)>> \o InsertSorted(Tail(vs), v)
RECURSIVE SortByAddr(_)
SortByAddr(l) == IF l = <<>> THEN <<>> ELSE InsertSorted(SortByAddr(Tail(l)), Head(l))
NewValidatorSet(l) ==
  LET s0 == [live |-> TRUE, vals |-> SortByAddr(l), prop |-> Nil, pt |-> "nil", tvp |-> 0,
             rot |-> (\A i \in 1..Len(l) : l[i].a = 0), age |-> 0]
  IN  IF Len(l) > 0 THEN Inc(s0, 1) ELSE s0

\* --- sort.Search(len, addr <= vals[i].addr): first index whose address is >= addr ---
SearchIdx(vs, ad) == IF \E i \in 1..Len(vs) : ad <= vs[i].addr
                     THEN CHOOSE i \in 1..Len(vs) : ad <= vs[i].addr /\ \A j \in 1..(i - 1) : ad > vs[j].addr
                     ELSE Len(vs) + 1
Found(vs, ad) == LET i == SearchIdx(vs, ad) IN i <= Len(vs) /\ vs[i].addr = ad
Invalidate(s, vs) == [s EXCEPT !.vals = vs, !.prop = Nil, !.pt = "nil", !.tvp = 0, !.rot = FALSE, !.age = 0]

AddV(s, v) == LET i == SearchIdx(s.vals, v.addr) IN
  IF i > Len(s.vals) THEN [set |-> Invalidate(s, Append(s.vals, v)), ok |-> TRUE]
  ELSE IF s.vals[i].addr = v.addr THEN [set |-> s, ok |-> FALSE]
  ELSE [set |-> Invalidate(s, SubSeq(s.vals, 1, i - 1) \o <<v>> \o SubSeq(s.vals, i, Len(s.vals))), ok |-> TRUE]
UpdateV(s, v) == LET i == SearchIdx(s.vals, v.addr) IN
  IF Found(s.vals, v.addr) THEN [set |-> Invalidate(s, [s.vals EXCEPT ![i] = v]), ok |-> TRUE]
  ELSE [set |-> s, ok |-> FALSE]
RemoveV(s, ad) == LET i == SearchIdx(s.vals, ad) IN
  IF Found(s.vals, ad)
  THEN [set |-> Invalidate(s, SubSeq(s.vals, 1, i - 1) \o SubSeq(s.vals, i + 1, Len(s.vals))), ok |-> TRUE]
  ELSE [set |-> s, ok |-> FALSE]

\* Copy(): the validators are copied, the Proposer pointer and the cached total are taken over
\* (whatever the pointer points at -- the copy names the same proposer as the original).
\* The "identity" variant re-points an element and drops everything else.
CopyOf(s) == IF CopyAlgo = "identity" /\ s.pt = "detached" THEN [s EXCEPT !.prop = Nil, !.pt = "nil"] ELSE s

\* What decoding the encoding of s yields (ser / amino over the exported fields Validators and
\* Proposer): the same validators in the same order with the same accums; Proposer an object of
\* its own with the proposer's values; the unexported totalVotingPower is not persisted.
Decode(s) == [s EXCEPT !.pt = (IF s.prop = Nil THEN "nil" ELSE "detached"), !.tvp = 0]

\* Hash(): Merkle root over the validators in slice order, each leaf covering
\* (Address, PubKey, CoinBase, VotingPower) -- modelled by the leaf sequence itself
Hash(s) == [i \in 1..Len(s.vals) |-> <<s.vals[i].addr, s.vals[i].p, s.vals[i].cb>>]

\* updateStatus: a fresh set iff the application's list hashes differently, else rotate once
UpdateStatus(s, l) ==
  LET next == CopyOf(s)
      new  == NewValidatorSet(l)
      chg  == Len(l) # 0 /\ Hash(new) # Hash(next)
  IN  [next |-> IF chg THEN new ELSE Inc(next, 1), lastv |-> CopyOf(s), changed |-> chg]

\* updateValidators (consensus/execution.go): the rule for applying a change list
ApplyOne(s, u) ==
  IF ~Found(s.vals, u.addr) THEN (IF u.p <= 0 THEN s ELSE AddV(s, u).set)
  ELSE IF u.p = 0 THEN RemoveV(s, u.addr).set
  ELSE IF u.p # s.vals[SearchIdx(s.vals, u.addr)].p THEN UpdateV(s, u).set
  ELSE s
RECURSIVE ApplyUpdates(_, _)
ApplyUpdates(s, us) == IF us = <<>> THEN s ELSE ApplyUpdates(ApplyOne(s, Head(us)), Tail(us))

(* ---- lists the operations are called with ------------------------------ *)
RECURSIVE AscSeq(_)
AscSeq(S) == IF S = {} THEN <<>>
             ELSE LET x == CHOOSE x \in S : \A y \in S : x <= y IN <<x>> \o AscSeq(S \ {x})
\* application output / genesis lists: distinct addresses, ascending (the harness permutes them);
\* the Accum they carry is 0 unless a configuration widens ArgAccums
ListsOver(S) == {[i \in 1..Len(AscSeq(S)) |-> Val(AscSeq(S)[i], f[AscSeq(S)[i]][1], f[AscSeq(S)[i]][3], f[AscSeq(S)[i]][2])] :
                   f \in [S -> Powers \X Coinbases \X ArgAccums]}
NewLists == UNION {ListsOver(S) : S \in {T \in SUBSET Addr : Cardinality(T) \in NewSizes}}
AsList(s) == [i \in 1..Len(s.vals) |-> [s.vals[i] EXCEPT !.a = 0]]
\* what the application may return for the next height: nothing, the same set, or one change
Variants(s) ==
  {<<>>, AsList(s)}
  \cup {[AsList(s) EXCEPT ![i].p = p] : i \in 1..Len(s.vals), p \in Powers}
  \cup {[AsList(s) EXCEPT ![i].cb = c] : i \in 1..Len(s.vals), c \in Coinbases}
  \cup {SortByAddr(Append(AsList(s), Val(ad, p, 0, CHOOSE c \in Coinbases : TRUE))) :
          ad \in Addr \ Addrs(s.vals), p \in Powers}
  \cup {SelectSeq(AsList(s), LAMBDA v : v.addr # ad) : ad \in {x \in Addrs(s.vals) : Len(s.vals) > 1}}

(* ---- the state machine ------------------------------------------------- *)
\* exploration bound: before the first structural change a set moves freely on its rotation
\* cycle (finitely many states); after it every set is rotated at most MaxAge more steps
Cyclic(s)    == s.rot /\ mods = 0
CanAge(s, k) == Cyclic(s) \/ s.age + k <= MaxAge
Aged(s, k)   == IF Cyclic(s) THEN s ELSE [s EXCEPT !.age = @ + k]

Init == /\ A = Dead /\ B = Dead /\ twin = FALSE /\ d = 0 /\ mods = 0
        /\ last = [op |-> "init"]

\* what the deviating algorithm would have produced (lets the harness classify a mismatch)
CodedView(s, k) == CHOOSE v \in {[acc |-> [i \in 1..Len(c.vals) |-> c.vals[i].a], gp |-> GetProposer(c)] :
                                    c \in {IncCoded(s, k)}} : TRUE

New(l) == /\ "new" \in Ops /\ ~A.live
          /\ A' = NewValidatorSet(l) /\ UNCHANGED <<B, twin, d, mods>>
          /\ last' = [op |-> "new", list |-> l]

IncA(k) == /\ "inc" \in Ops /\ A.live /\ Len(A.vals) > 0 /\ CanAge(A, k)
           /\ twin => d - k >= -MaxD
           /\ A' = Aged(Inc(A, k), k) /\ d' = (IF twin THEN d - k ELSE d)
           /\ UNCHANGED <<B, twin, mods>>
           /\ last' = [op |-> "inc", t |-> "A", k |-> k, coded |-> CodedView(A, k)]
IncB(k) == /\ "inc" \in Ops /\ B.live /\ Len(B.vals) > 0 /\ twin   \* a stale B is only looked at
           /\ d + k <= MaxD /\ CanAge(B, k)
           /\ B' = Aged(Inc(B, k), k) /\ d' = d + k
           /\ UNCHANGED <<A, twin, mods>>
           /\ last' = [op |-> "inc", t |-> "B", k |-> k, coded |-> CodedView(B, k)]

Structural(res, lab) == /\ A.live /\ ~B.live /\ mods < MaxMods
                        /\ A' = res.set /\ mods' = (IF res.ok THEN mods + 1 ELSE mods)
                        /\ UNCHANGED <<B, twin, d>>
                        /\ last' = [lab EXCEPT !.res = res.ok]
Add(v)    == "add" \in Ops /\ \E r \in {AddV(A, v)} : Structural(r, [op |-> "add", v |-> v, res |-> FALSE])
Update(v) == "update" \in Ops /\ \E r \in {UpdateV(A, v)} : Structural(r, [op |-> "update", v |-> v, res |-> FALSE])
Remove(ad) == /\ "remove" \in Ops /\ (Found(A.vals, ad) => Len(A.vals) > 1)
              /\ \E r \in {RemoveV(A, ad)} : Structural(r, [op |-> "remove", addr |-> ad, res |-> FALSE])

Copy  == /\ "copy" \in Ops /\ A.live /\ ~(twin /\ d = 0)
         /\ B' = CopyOf(A) /\ twin' = TRUE /\ d' = 0 /\ UNCHANGED <<A, mods>>
         /\ last' = [op |-> "copy"]
Adopt == /\ "copy" \in Ops /\ B.live /\ twin /\ d > 0
         /\ A' = B /\ B' = Dead /\ twin' = FALSE /\ d' = 0 /\ UNCHANGED mods
         /\ last' = [op |-> "adopt"]
Drop  == /\ ("copy" \in Ops \/ "ustat" \in Ops) /\ B.live
         /\ B' = Dead /\ twin' = FALSE /\ d' = 0 /\ UNCHANGED <<A, mods>>
         /\ last' = [op |-> "drop"]

\* persist-and-reload of one holder (a restart reloads status.Validators and
\* status.LastValidators: Reload("A") then Reload("B")); rotation counts are untouched
Reload(t) == /\ "reload" \in Ops
             /\ \E s \in {IF t = "A" THEN A ELSE B} :
                  /\ s.live /\ Len(s.vals) > 0
                  /\ A' = (IF t = "A" THEN Decode(s) ELSE A)
                  /\ B' = (IF t = "B" THEN Decode(s) ELSE B)
             /\ UNCHANGED <<twin, d, mods>>
             /\ last' = [op |-> "reload", t |-> t]

UStat(l) == /\ "ustat" \in Ops /\ A.live /\ Len(A.vals) > 0
            /\ \E u \in {UpdateStatus(A, l)} :
                 /\ u.changed => mods < MaxMods
                 /\ ~u.changed => CanAge(A, 1)
                 /\ A' = (IF u.changed THEN u.next ELSE Aged(u.next, 1)) /\ B' = u.lastv
                 /\ twin' = ~u.changed /\ d' = (IF u.changed THEN 0 ELSE -1)
                 /\ mods' = (IF u.changed THEN mods + 1 ELSE mods)
                 /\ last' = [op |-> "ustat", list |-> l, changed |-> u.changed]

Next == \/ \E l \in NewLists : New(l)
        \/ \E k \in 1..MaxK : IncA(k) \/ IncB(k)
        \/ \E ad \in Addr, p \in Powers, c \in Coinbases, a \in ArgAccums : Add(Val(ad, p, a, c)) \/ Update(Val(ad, p, a, c))
        \/ \E ad \in Addr : Remove(ad)
        \/ Copy \/ Adopt \/ Drop
        \/ Reload("A") \/ Reload("B")
        \/ \E l \in Variants(A) : UStat(l)

Spec == Init /\ [][Next]_vars

(* ---- what TLC checks --------------------------------------------------- *)
\* The per-set properties are evaluated on A in the states where no copy exists.  Nothing is
\* skipped: B only ever holds a value A held (Copy, UStat) or a rotation of it that A can make
\* itself, and Drop is always enabled.  (The harness re-checks this on the exported graph.)
Holders == {s \in (IF B.live THEN {} ELSE {A}) : s.live /\ Len(s.vals) > 0}

InRange(x) == x >= MinI /\ x <= MaxI
SetOK(s) == /\ s.live \in BOOLEAN /\ s.prop \in Addr \cup {Nil} /\ InRange(s.tvp)
            /\ s.pt \in {"nil", "elem", "detached"}
            /\ \A i \in 1..Len(s.vals) : /\ s.vals[i].addr \in Addr /\ s.vals[i].cb \in Coinbases
                                         /\ InRange(s.vals[i].p) /\ InRange(s.vals[i].a)
TypeOK == SetOK(A) /\ SetOK(B) /\ twin \in BOOLEAN /\ d \in -MaxD..MaxD /\ mods \in 0..MaxMods

\* the slice stays strictly sorted by address (binary search, index = position in commits)
Sorted == \A s \in {A, B} : \A i \in 1..(Len(s.vals) - 1) : s.vals[i].addr < s.vals[i + 1].addr
\* the cached proposer is a member of the set; the cached total is the total
CachesCoherent == \A s \in {A, B} : /\ s.prop # Nil => s.prop \in Addrs(s.vals)
                                    /\ (s.pt = "nil") <=> (s.prop = Nil)
                                    /\ s.tvp # 0 => s.tvp = SumPow(s.vals, Len(s.vals))

SameRot(s, t) == /\ Len(s.vals) = Len(t.vals)
                 /\ \A i \in 1..Len(s.vals) : s.vals[i] = t.vals[i]
                 /\ GetProposer(s) = GetProposer(t)

\* every way of splitting a rotation by k gives the proposer AND the priorities of the one call
RECURSIVE Comps(_)
Comps(n) == IF n = 0 THEN {<<>>} ELSE UNION {{<<j>> \o c : c \in Comps(n - j)} : j \in 1..n}
RECURSIVE IncAll(_, _)
IncAll(s, c) == IF c = <<>> THEN s ELSE CHOOSE r \in {IncAll(t, Tail(c)) : t \in {Inc(s, Head(c))}} : TRUE
Witness(s, k, c) == PrintT(ToJson([lead |-> "PathIndependence",
                                   vals |-> s.vals, prop |-> s.prop, k |-> k, split |-> c,
                                   once |-> CodedView(s, k),
                                   composed |-> [acc |-> [i \in 1..Len(s.vals) |-> IncAll(s, c).vals[i].a],
                                                 gp |-> GetProposer(IncAll(s, c))]]))
PathIndependence ==
  \A s \in Holders : \A k \in 1..MaxK : \A c \in Comps(k) : \A x \in {IncAll(s, c)}, y \in {Inc(s, k)} :
     SameRot(x, y) \/ (Witness(s, k, c) /\ FALSE)

\* the same at the level of the two holders: twins that made the same number of rotations --
\* in whatever portions -- are in the same state; a twin that is behind catches up by walking
TwinAgreement == twin => IF d >= 0 THEN \A x \in {Walk(A, d)} : SameRot(x, B)
                                   ELSE \A x \in {Walk(B, -d)} : SameRot(x, A)

\* the fault-evidence code (getLastFaultValsInfo, checkFaultValEvidence, VerifyFaultValEvidence)
\* recomputes the proposer of round r from the previous height's set with ONE call
\* IncrementAccum(r); the nodes that were in round r got there by enterNewRound, in portions
EvidenceProposerAgrees ==
  \A s \in Holders : \A r \in 1..MaxK : \A x \in {Inc(CopyOf(s), r)}, y \in {Walk(s, r)} :
     GetProposer(x) = GetProposer(y)

\* persistence is transparent: the set a restarted node decodes, and the Copy() of it that
\* node.NewNode hands to the consensus state / block-sync reactor / evidence pool, name the same
\* proposer, have the same members, priorities, total and identity as the set of a node that
\* kept running, and rotate to the same proposers (rounds 1..MaxK of this height, and
\* LastValidators: the round-r proposer of the previous height in fault evidence)
ReloadTransparent ==
  \A s \in {x \in {A, B} : x.live /\ Len(x.vals) > 0} :
     \A t \in {Decode(s)} : \A c \in {CopyOf(t)} : \A cc \in {CopyOf(c)} :
        /\ SameRot(t, s) /\ SameRot(c, s) /\ SameRot(cc, s)
        /\ Total(c) = Total(s) /\ Hash(c) = Hash(s)
        /\ \A k \in 1..MaxK : \A x \in {Inc(c, k)}, y \in {Inc(s, k)} : SameRot(x, y)

\* one call with k = 1 is the single step under both algorithms (per-block rotation unaffected)
Inc1Agree == \A s \in Holders : IncCoded(s, 1) = IncFixed(s, 1)

\* weighted round robin: from a set that has only been rotated, a window of `total` single
\* steps selects every validator exactly `power` times and returns to the same priorities
SumExact(s) == LET RECURSIVE Sm(_)
                   Sm(n) == IF n = 0 THEN 0 ELSE Sm(n - 1) + s.vals[n].p
               IN  Sm(Len(s.vals))
NoClip(s) == \A i \in 1..Len(s.vals) : AbsV(s.vals[i].a) + (MaxK + 2) * SumExact(s) < MaxI
RECURSIVE Proposers(_, _)      \* the proposers of the next n single steps
Proposers(s, n) == IF n = 0 THEN <<>>
                   ELSE CHOOSE r \in {<<t.prop>> \o Proposers(t, n - 1) : t \in {Step(s)}} : TRUE
WindowOK(s) ==
  \A T \in {SumExact(s)} : \A w \in {Proposers(s, T)}, e \in {Walk(s, T)} :
      /\ \A j \in 1..Len(s.vals) : Cardinality({i \in 1..T : w[i] = s.vals[j].addr}) = s.vals[j].p
      /\ \A j \in 1..Len(s.vals) : e.vals[j].a = s.vals[j].a
Proportional == \A s \in Holders : (s.rot /\ NoClip(s)) => WindowOK(s)
\* rotation neither creates nor destroys priority; a rotated-only set sums to zero and no
\* priority reaches the total
SumAcc(s) == LET RECURSIVE Sm(_)
                 Sm(n) == IF n = 0 THEN 0 ELSE Sm(n - 1) + s.vals[n].a
             IN  Sm(Len(s.vals))
Conservation ==
  \A s \in Holders : NoClip(s) =>
     /\ \A k \in 1..MaxK : \A t \in {Inc(s, k)} : SumAcc(t) = SumAcc(s)
     /\ s.rot => (SumAcc(s) = 0 /\ \A i \in 1..Len(s.vals) : AbsV(s.vals[i].a) < SumExact(s))

\* identity
HashIgnoresAccum == \A s \in Holders : \A k \in 1..MaxK : \A t \in {Inc(s, k)} : Hash(t) = Hash(s)
HashStable == [][ /\ last'.op \in {"inc", "copy", "drop", "reload"} => Hash(A') = Hash(A)
                  /\ last'.op \in {"inc", "reload"} => Hash(B') = Hash(B)
                  /\ last'.op = "copy" => Hash(B') = Hash(A)
                  /\ last'.op = "adopt" => Hash(A') = Hash(B) ]_vars
Perms(l) == {p \in [1..Len(l) -> 1..Len(l)] : \A i, j \in 1..Len(l) : i # j => p[i] # p[j]}
HashOrderIndependent ==     \* state independent: evaluated in the initial state only
  ~A.live => \A l \in NewLists : \A p \in Perms(l) :
                NewValidatorSet([i \in 1..Len(l) |-> l[p[i]]]) = NewValidatorSet(l)
\* a change list with distinct addresses gives the same set in every order
ChangeLists(n) == UNION {{[i \in 1..n |-> Val(AscSeq(S)[i], f[AscSeq(S)[i]], 0, CHOOSE c \in Coinbases : TRUE)] :
                            f \in [S -> Powers \cup {0}]} : S \in {T \in SUBSET Addr : Cardinality(T) = n}}
UpdateOrderIndependent ==
  (A.live /\ ~B.live /\ A.age = 0) => \A n \in 2..MinV(NAddr, ChangeMax) : \A l \in ChangeLists(n) : \A p \in Perms(l) :
     \A r1 \in {ApplyUpdates(A, l)}, r2 \in {ApplyUpdates(A, [i \in 1..n |-> l[p[i]]])} :
         r1.vals = r2.vals /\ GetProposer(r1) = GetProposer(r2)
\* the next set is a function of (current set, application output) only
UpdateStatusRule ==
  [][last'.op = "ustat" =>
       /\ B' = A
       /\ (last'.changed => A' = NewValidatorSet(last'.list))
       /\ (~last'.changed => A' = Aged(Inc(A, 1), 1) /\ Hash(A') = Hash(A))
       /\ (last'.changed <=> (Len(last'.list) # 0 /\ Hash(NewValidatorSet(last'.list)) # Hash(A)))]_vars

\* arithmetic saturates: the total is the exact sum capped at MaxI; a single step never
\* lowers the priority of a validator that was not selected and never raises the selected
\* one above what it had plus its power
Saturates ==
  \A s \in Holders :
     /\ Total(s) = MinV(SumExact(s), MaxI)
     /\ \A t \in {Step(s)} : \A i \in 1..Len(s.vals) :
          /\ InRange(t.vals[i].a)
          /\ t.vals[i].addr # t.prop => t.vals[i].a >= s.vals[i].a
          /\ t.vals[i].addr = t.prop => t.vals[i].a <= AddClip(s.vals[i].a, s.vals[i].p)

(* ---- export for the replay harness ------------------------------------ *)
SetView(s) == [live |-> s.live, vals |-> s.vals, prop |-> s.prop, pt |-> s.pt, tvp |-> s.tvp, rot |-> s.rot,
               gp |-> GetProposer(s), tot |-> (IF s.live THEN Total(s) ELSE 0)]
Proj(a, b, tw, dd, mm) == [A |-> SetView(a), B |-> SetView(b), twin |-> tw, d |-> dd, mods |-> mm]
Edge == PrintT(ToJson([from |-> Proj(A, B, twin, d, mods), act |-> last', to |-> Proj(A', B', twin', d', mods')]))
View == <<A, B, twin, d, mods>>
=============================================================================
