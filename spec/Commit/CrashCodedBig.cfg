\* thorough: as CrashCoded with three heights and every combination of confidential blocks
SPECIFICATION Spec
CONSTANTS
  MaxH = 3
  NBatch = 2
  Flats <- BothModes
  Confs <- ConfsBig
  ValChgs <- ValChgsBig
  Keeps <- NoPruning
  MaxCrash = 2
  CrashFrom = 1
  MaxPrunes = 0
  ReconcileUtxo = FALSE
  GuardBsPrune = FALSE
  WindowStPrune = FALSE
INVARIANTS TypeOK NodeComesUp NothingAckedLost ConsistentAfterRecovery

VIEW View
CHECK_DEADLOCK FALSE
