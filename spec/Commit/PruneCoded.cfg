\* pruning part as coded: TLC is EXPECTED to violate PruneKeepsWindow (uint64 underflow; status loop ignores the window)
SPECIFICATION Spec
CONSTANTS
  MaxH = 5
  NBatch = 2
  Flats <- TrieOnly
  Confs <- NoConf
  ValChgs <- ValChgsPrune
  Keeps <- KeepsSmall
  MaxCrash = 0
  CrashFrom = 1
  MaxPrunes = 2
  ReconcileUtxo = FALSE
  GuardBsPrune = FALSE
  WindowStPrune = FALSE
INVARIANTS TypeOK PruneKeepsWindow

VIEW View
CHECK_DEADLOCK FALSE
