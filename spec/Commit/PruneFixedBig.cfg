\* thorough: as PruneFixed with seven heights, three ticks, more windows and change patterns
SPECIFICATION Spec
CONSTANTS
  MaxH = 7
  NBatch = 2
  Flats <- TrieOnly
  Confs <- NoConf
  ValChgs <- ValChgsPruneBig
  Keeps <- KeepsBig
  MaxCrash = 0
  CrashFrom = 1
  MaxPrunes = 3
  ReconcileUtxo = FALSE
  GuardBsPrune = TRUE
  WindowStPrune = TRUE
INVARIANTS TypeOK PruneKeepsWindow

VIEW View
CHECK_DEADLOCK FALSE
