\* thorough: as CrashCodedSafe with four heights, three crashes
SPECIFICATION Spec
CONSTANTS
  MaxH = 4
  NBatch = 2
  Flats <- BothModes
  Confs <- ConfsBig
  ValChgs <- ValChgsBig
  Keeps <- NoPruning
  MaxCrash = 3
  CrashFrom = 1
  MaxPrunes = 0
  ReconcileUtxo = FALSE
  GuardBsPrune = FALSE
  WindowStPrune = FALSE
INVARIANTS TypeOK NodeComesUp NothingAckedLost

VIEW View
CHECK_DEADLOCK FALSE
