\* crash part with a start-up reconciliation of the UTXO store (ReconcileUtxo), two crashes anywhere: every invariant must hold
SPECIFICATION Spec
CONSTANTS
  MaxH = 2
  NBatch = 2
  Flats <- BothModes
  Confs <- ConfsCrash
  ValChgs <- ValChgsCrash
  Keeps <- NoPruning
  MaxCrash = 2
  CrashFrom = 1
  MaxPrunes = 0
  ReconcileUtxo = TRUE
  GuardBsPrune = FALSE
  WindowStPrune = FALSE
INVARIANTS TypeOK NodeComesUp NothingAckedLost UtxoNotBehind ConsistentAfterRecovery

VIEW View
CHECK_DEADLOCK FALSE
