SPECIFICATION Spec
CONSTANTS
  MaxH = 2
  NBatch = 2
  Flats <- BothModes
  Confs <- ConfsCrash
  ValChgs <- ValChgsCrash
  Keeps <- NoPruning
  MaxCrash = 1
  CrashFrom = 2
  MaxPrunes = 0
  ReconcileUtxo = FALSE
  GuardBsPrune = FALSE
  WindowStPrune = FALSE
INVARIANTS TypeOK
ACTION_CONSTRAINT Edge
VIEW View
CHECK_DEADLOCK FALSE
