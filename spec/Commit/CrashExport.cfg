\* crash part as coded, one crash while block 2 is committed: the reachable graph is exported; the harness walks it to predict what a restart on each crash image shows
SPECIFICATION Spec
CONSTANTS
  MaxH = 2
  NBatch = 2
  Flats <- BothModes
  Confs <- ConfsCrash
  ValChgs <- ValChgsCrash
  Keeps <- NoPruning
  MaxCrash = 1
  CrashFrom = 2
  MaxPrunes = 0
  ReconcileUtxo = FALSE
  GuardBsPrune = FALSE
  WindowStPrune = FALSE
INVARIANTS TypeOK NodeComesUp NothingAckedLost
ACTION_CONSTRAINT Edge
VIEW View
CHECK_DEADLOCK FALSE
