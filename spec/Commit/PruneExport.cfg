\* pruning part as coded: exported graph (the harness generates this file with the switches matching the implementation fingerprint)
SPECIFICATION Spec
CONSTANTS
  MaxH = 5
  NBatch = 2
  Flats <- TrieOnly
  Confs <- NoConf
  ValChgs <- ValChgsPrune
  Keeps <- KeepsSmall
  MaxCrash = 0
  CrashFrom = 1
  MaxPrunes = 2
  ReconcileUtxo = FALSE
  GuardBsPrune = FALSE
  WindowStPrune = FALSE
INVARIANTS TypeOK
ACTION_CONSTRAINT Edge
VIEW View
CHECK_DEADLOCK FALSE
