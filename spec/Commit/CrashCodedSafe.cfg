\* crash part as coded, two crashes anywhere: the part of the property the code does guarantee (the node comes up again, nothing acknowledged is lost) must hold
SPECIFICATION Spec
CONSTANTS
  MaxH = 2
  NBatch = 2
  Flats <- BothModes
  Confs <- ConfsCrash
  ValChgs <- ValChgsCrash
  Keeps <- NoPruning
  MaxCrash = 2
  CrashFrom = 1
  MaxPrunes = 0
  ReconcileUtxo = FALSE
  GuardBsPrune = FALSE
  WindowStPrune = FALSE
INVARIANTS TypeOK NodeComesUp NothingAckedLost

VIEW View
CHECK_DEADLOCK FALSE
