\* pruning part with both loops repaired (proposed_fixes/c13-*.diff): PruneKeepsWindow must hold
SPECIFICATION Spec
CONSTANTS
  MaxH = 5
  NBatch = 2
  Flats <- TrieOnly
  Confs <- NoConf
  ValChgs <- ValChgsPrune
  Keeps <- KeepsSmall
  MaxCrash = 0
  CrashFrom = 1
  MaxPrunes = 2
  ReconcileUtxo = FALSE
  GuardBsPrune = TRUE
  WindowStPrune = TRUE
INVARIANTS TypeOK PruneKeepsWindow

VIEW View
CHECK_DEADLOCK FALSE
