------------------------------- MODULE Commit -------------------------------
(***************************************************************************)
(* How a linkchain node makes a decided block durable, what a restart does *)
(* with what a crash left behind, and what the two pruning loops delete.   *)
(*                                                                         *)
(* A block is committed by a SEQUENCE of writes to independent stores (no  *)
(* common transaction); the order below is the order of the code:          *)
(*                                                                         *)
(*  consensus/state.go finalizeCommit(h)                                   *)
(*    CheckBlock                                             pc "fin"      *)
(*    app/app.go CommitBlock                                               *)
(*      state.Commit, flat mode (state/keyvalue.go):                       *)
(*        truncate the undo log kvState.wal                  "kv_trunc"    *)
(*        kvHeight := h                       (SetSync)      "kv_h"        *)
(*        per dirty trie: append pre-images to the undo log  "kv_undo"     *)
(*                        write the batch                    "kv_bat"      *)
(*      state.Commit + TrieDB.Commit, trie mode: node batches "tr_nodes",  *)
(*        the batch holding the root node                    "tr_root"     *)
(*      blockchain/store.go SaveBlock: three goroutines, any order:        *)
(*        receipts | txsResult | tx index (libs/txmgr)       "bs_side"     *)
(*        one batch: parts, commits, seen commit, meta       "bs_batch"    *)
(*        the height descriptor "blockStore"                 "bs_desc"     *)
(*        SetSync(nil,nil)                                   "bs_flush"    *)
(*      utxo/store.go SaveUtxo: key images                   "ux_kimg"     *)
(*        outputs | token outputs                       "ux_outs" "ux_tok" *)
(*        per-token max sequence | per-block start sequence "ux_max" "ux_bseq"*)
(*    WAL EndHeight(h)                      (fsync)          "wal_end"     *)
(*    consensus/execution.go ApplyBlock: validate            "apply"       *)
(*      consensus/new_status.go SaveStatus: VALDK:h+1        "sv_val"      *)
(*        CSPK:h+1 | statusKey | statusKey_h     "sv_par" "sv_key" "sv_byh"*)
(*                                                                         *)
(* Crash loses the process state.  Restart is node.NewNode + the WAL       *)
(* catch-up of ConsensusState.OnStart AS CODED: the block store height is  *)
(* the descriptor; the flat state is rolled back from its undo log when    *)
(* kvHeight = descriptor+1; the consensus status is rebuilt (ApplyBlock)   *)
(* when it lags the block store by exactly one; the WAL replay re-enters   *)
(* finalizeCommit when the decided block of the status height + 1 is in    *)
(* the WAL.  Nothing reconciles the UTXO store (switch ReconcileUtxo).     *)
(*                                                                         *)
(* Prune is one tick of node.ClearHistoricalData: BlockStore.              *)
(* DeleteHistoricalData(K) then ConsensusState.DeleteHistoricalData(K),    *)
(* each as coded (switches GuardBsPrune / WindowStPrune = FALSE) or as     *)
(* repaired (TRUE).                                                        *)
(***************************************************************************)
EXTENDS Integers, FiniteSets, TLC, Json

CONSTANTS MaxH,          \* blocks 1..MaxH are decided one after the other
          NBatch,        \* flat mode: state batches per block (storage tries + account trie)
          Flats,         \* storage modes explored: subset of BOOLEAN (TRUE = flat key-value state)
          Confs,         \* possible sets of heights whose block carries key images and confidential outputs
          ValChgs,       \* possible sets of heights whose block changes the validator set
          Keeps,         \* retention windows explored; NoKeep = the node does not prune
          MaxCrash,      \* bound on the number of crashes
          CrashFrom,     \* crashes happen while height >= CrashFrom is being decided/committed
          MaxPrunes,     \* bound on the number of pruning ticks
          ReconcileUtxo, \* FALSE = as coded
          GuardBsPrune,  \* FALSE = as coded (maxHeight-keep computed in uint64)
          WindowStPrune  \* FALSE = as coded (loop bound ignores keep; referenced records deleted)

NoKeep  == -1
Heights == 1..MaxH
RecDom  == 1..(MaxH + 1)         \* VALDK / CSPK records exist for heights 1..H+1

VARIABLES par,   \* what the behaviour is about: [flat, conf, valchg, keep] (chosen in Init, constant)
          kv,    \* state database: flat (h = kvHeight, n[x] = batches of block x applied, undo log) or trie (roots)
          bs,    \* block store + tx index
          ux,    \* UTXO store
          wal,   \* consensus WAL: heights whose decision is in it, EndHeight markers
          st,    \* consensus status database
          pr,    \* persisted "start delete height" markers of the two pruning loops (0 = absent)
          mem,   \* the process (lost by Crash)
          hist,  \* history: acknowledged height, counters, whether a pruning call is still running
          last   \* label of the last action (output only)
vars == <<par, kv, bs, ux, wal, st, pr, mem, hist, last>>

Max(S) == IF S = {} THEN 0 ELSE CHOOSE x \in S : \A y \in S : y <= x
Rec(k, p) == [k |-> k, p |-> p]     \* a VALDK / CSPK record: "full" set, "ptr" to the height of last change, "none"

Mem0 == [up |-> TRUE, pc |-> "idle", appH |-> 0, csH |-> 1, mseq |-> 0, stH |-> 0, chg |-> 1,
         side |-> {}, bi |-> 0, ret |-> "fin", sh |-> 0, nchg |-> 1, bsStart |-> 0, stStart |-> 0]

Init ==
  /\ par \in [flat : Flats, conf : Confs, valchg : ValChgs, keep : Keeps]
  /\ kv = [h |-> 0, n |-> [x \in Heights |-> 0], undoFor |-> 0, undoLen |-> 0, roots |-> {}]
  /\ bs = [rcpt |-> {}, tres |-> {}, txix |-> {}, parts |-> {}, meta |-> {}, seen |-> {}, bcom |-> {}, desc |-> 0]
  /\ ux = [kimg |-> {}, outs |-> {}, max |-> 0, bseq |-> {}]
  /\ wal = [msgs |-> {}, ends |-> {0}]
  /\ st = [h |-> 0, chg |-> 1,
           val  |-> [x \in RecDom |-> IF x = 1 THEN Rec("full", 1) ELSE Rec("none", 0)],
           parm |-> [x \in RecDom |-> IF x = 1 THEN Rec("full", 1) ELSE Rec("none", 0)],
           byh |-> {0}]
  /\ pr = [bs |-> 0, st |-> 0]
  /\ mem = Mem0
  /\ hist = [acked |-> 0, crashes |-> 0, prunes |-> 0, hung |-> FALSE, pruned |-> FALSE]
  /\ last = [op |-> "init"]

H == mem.csH                       \* the height finalizeCommit works on
IsConf(h) == h \in par.conf
Goto(p) == [mem EXCEPT !.pc = p]

(* ---- consensus reaches the decision for height H: proposal, parts, votes are in the WAL ---- *)
Propose ==
  /\ mem.up /\ mem.pc = "idle" /\ H <= MaxH
  /\ wal' = [wal EXCEPT !.msgs = @ \cup {H}]
  /\ mem' = Goto("fin")
  /\ last' = [op |-> "propose", h |-> H]
  /\ UNCHANGED <<par, kv, bs, ux, st, pr, hist>>

(* ---- one write (or one in-memory decision) of finalizeCommit / CommitBlock / ApplyBlock ---- *)
\* CheckBlock: the application must stand at H-1 and no key image of the block may be spent already
CheckBlockOK == mem.appH = H - 1 /\ ~(IsConf(H) /\ H \in ux.kimg)

AfterState == [mem EXCEPT !.pc = "bs_side", !.side = {}]

StepFin ==
  /\ mem.pc = "fin"
  /\ mem' = IF ~CheckBlockOK THEN Goto("dead")        \* PanicConsensus("+2/3 committed an invalid block")
            ELSE IF par.flat THEN Goto("kv_trunc") ELSE Goto("tr_nodes")
  /\ last' = [op |-> "step", w |-> "fin"]
  /\ UNCHANGED <<par, kv, bs, ux, wal, st, pr, hist>>

StepKV ==
  \/ /\ mem.pc = "kv_trunc"
     /\ kv' = [kv EXCEPT !.undoFor = H, !.undoLen = 0]
     /\ mem' = Goto("kv_h") /\ last' = [op |-> "step", w |-> "kv_trunc"]
  \/ /\ mem.pc = "kv_h"
     /\ kv' = [kv EXCEPT !.h = H]
     /\ mem' = [mem EXCEPT !.pc = "kv_undo", !.bi = 1] /\ last' = [op |-> "step", w |-> "kv_h"]
  \/ /\ mem.pc = "kv_undo"
     /\ kv' = [kv EXCEPT !.undoLen = mem.bi]
     /\ mem' = Goto("kv_bat") /\ last' = [op |-> "step", w |-> "kv_undo"]
  \/ /\ mem.pc = "kv_bat"
     /\ kv' = [kv EXCEPT !.n[H] = mem.bi]
     /\ mem' = IF mem.bi < NBatch THEN [mem EXCEPT !.pc = "kv_undo", !.bi = @ + 1] ELSE AfterState
     /\ last' = [op |-> "step", w |-> "kv_bat"]
  \/ /\ mem.pc = "tr_nodes"
     /\ kv' = kv                                      \* interior nodes: not reachable from any stored root
     /\ mem' = Goto("tr_root") /\ last' = [op |-> "step", w |-> "tr_nodes"]
  \/ /\ mem.pc = "tr_root"
     /\ kv' = [kv EXCEPT !.roots = @ \cup {H}]
     /\ mem' = AfterState /\ last' = [op |-> "step", w |-> "tr_root"]

SideWrites == {"rcpt", "tres", "txix"}

StepBS ==
  \/ /\ mem.pc = "bs_side"
     /\ \E w \in SideWrites \ mem.side :
          /\ bs' = CASE w = "rcpt" -> [bs EXCEPT !.rcpt = @ \cup {H}]
                     [] w = "tres" -> [bs EXCEPT !.tres = @ \cup {H}]
                     [] w = "txix" -> [bs EXCEPT !.txix = @ \cup {H}]
          /\ mem' = IF mem.side \cup {w} = SideWrites THEN [mem EXCEPT !.pc = "bs_batch", !.side = SideWrites]
                    ELSE [mem EXCEPT !.side = @ \cup {w}]
          /\ last' = [op |-> "step", w |-> w]
  \/ /\ mem.pc = "bs_batch"
     /\ bs' = [bs EXCEPT !.parts = @ \cup {H}, !.meta = @ \cup {H}, !.seen = @ \cup {H}, !.bcom = @ \cup {H - 1}]
     /\ mem' = Goto("bs_desc") /\ last' = [op |-> "step", w |-> "bs_batch"]
  \/ /\ mem.pc = "bs_desc"
     /\ bs' = [bs EXCEPT !.desc = H]
     /\ mem' = [mem EXCEPT !.pc = "bs_flush", !.appH = H] /\ last' = [op |-> "step", w |-> "bs_desc"]
  \/ /\ mem.pc = "bs_flush"
     /\ bs' = bs
     /\ mem' = Goto("ux_kimg") /\ last' = [op |-> "step", w |-> "bs_flush"]

\* SaveUtxoOutputs numbers the outputs from the in-memory maximum: outputs of blocks the
\* maximum does not count yet are overwritten.
StepUX ==
  \/ /\ mem.pc = "ux_kimg"
     /\ ux' = IF IsConf(H) THEN [ux EXCEPT !.kimg = @ \cup {H}] ELSE ux
     /\ mem' = Goto("ux_outs") /\ last' = [op |-> "step", w |-> "ux_kimg"]
  \/ /\ mem.pc = "ux_outs"
     /\ ux' = IF IsConf(H) THEN [ux EXCEPT !.outs = {b \in @ : b <= mem.mseq} \cup {H}] ELSE ux
     /\ mem' = Goto("ux_tok") /\ last' = [op |-> "step", w |-> "ux_outs"]
  \/ /\ mem.pc = "ux_tok"
     /\ ux' = ux
     /\ mem' = IF IsConf(H) THEN Goto("ux_max") ELSE Goto("wal_end")
     /\ last' = [op |-> "step", w |-> "ux_tok"]
  \/ /\ mem.pc = "ux_max"
     /\ ux' = [ux EXCEPT !.max = H]
     /\ mem' = [mem EXCEPT !.pc = "ux_bseq", !.mseq = H] /\ last' = [op |-> "step", w |-> "ux_max"]
  \/ /\ mem.pc = "ux_bseq"
     /\ ux' = [ux EXCEPT !.bseq = @ \cup {H}]
     /\ mem' = Goto("wal_end") /\ last' = [op |-> "step", w |-> "ux_bseq"]

StepWalEnd ==
  /\ mem.pc = "wal_end"
  /\ wal' = [wal EXCEPT !.ends = @ \cup {H}]
  /\ hist' = [hist EXCEPT !.acked = IF H > @ THEN H ELSE @]
  /\ mem' = Goto("apply") /\ last' = [op |-> "step", w |-> "wal_end"]
  /\ UNCHANGED <<par, kv, bs, ux, st, pr>>

\* ApplyBlock(status, block sh): validateBlock wants block.Height = status.LastBlockHeight+1
NextChg(h) == IF h \in par.valchg THEN h + 1 ELSE mem.chg
StepApply ==
  /\ mem.pc = "apply"
  /\ mem' = IF mem.stH # H - 1 THEN Goto("dead")     \* ApplyBlock fails: cmn.Kill()
            ELSE [mem EXCEPT !.pc = "sv_val", !.sh = H, !.nchg = NextChg(H), !.ret = "fin"]
  /\ last' = [op |-> "step", w |-> "apply"]
  /\ UNCHANGED <<par, kv, bs, ux, wal, st, pr, hist>>

StepSave ==
  \/ /\ mem.pc = "sv_val"
     /\ st' = [st EXCEPT !.val[mem.sh + 1] = IF mem.nchg = mem.sh + 1 THEN Rec("full", mem.nchg) ELSE Rec("ptr", mem.nchg)]
     /\ mem' = Goto("sv_par") /\ last' = [op |-> "step", w |-> "sv_val"]
  \/ /\ mem.pc = "sv_par"
     /\ st' = [st EXCEPT !.parm[mem.sh + 1] = Rec("ptr", 1)]      \* the parameters never change in this code base
     /\ mem' = Goto("sv_key") /\ last' = [op |-> "step", w |-> "sv_par"]
  \/ /\ mem.pc = "sv_key"
     /\ st' = [st EXCEPT !.h = mem.sh, !.chg = mem.nchg]
     /\ mem' = Goto("sv_byh") /\ last' = [op |-> "step", w |-> "sv_key"]
  \/ /\ mem.pc = "sv_byh"                       \* (statusKey_{h-10} is deleted first when h > 10: outside the bounds)
     /\ st' = [st EXCEPT !.byh = @ \cup {mem.sh}]
     /\ mem' = [mem EXCEPT !.pc = IF mem.ret = "fin" THEN "idle" ELSE "replay",
                           !.stH = mem.sh, !.chg = mem.nchg, !.csH = mem.sh + 1]
     /\ last' = [op |-> "step", w |-> "sv_byh"]

Step ==
  /\ mem.up
  /\ \/ StepFin
     \/ StepKV    /\ UNCHANGED <<par, bs, ux, wal, st, pr, hist>>
     \/ StepBS    /\ UNCHANGED <<par, kv, ux, wal, st, pr, hist>>
     \/ StepUX    /\ UNCHANGED <<par, kv, bs, wal, st, pr, hist>>
     \/ StepWalEnd
     \/ StepApply
     \/ StepSave  /\ UNCHANGED <<par, kv, bs, ux, wal, pr, hist>>

(* ---- crash and restart ------------------------------------------------------------------- *)
Crash ==
  /\ mem.up /\ mem.pc \notin {"dead"} /\ hist.crashes < MaxCrash /\ H >= CrashFrom
  /\ ~hist.hung
  /\ mem' = [Mem0 EXCEPT !.up = FALSE, !.pc = "down"]
  /\ hist' = [hist EXCEPT !.crashes = @ + 1]
  /\ last' = [op |-> "crash", at |-> mem.pc]
  /\ UNCHANGED <<par, kv, bs, ux, wal, st, pr>>

\* state/keyvalue.go rebuildLastState: every logged pre-image is written back
RolledBack == IF kv.undoFor \in Heights
              THEN [kv EXCEPT !.n[kv.undoFor] = IF kv.undoLen >= @ THEN 0 ELSE @ - kv.undoLen]
              ELSE kv

\* the state database can be opened at block-store height d
StateOpens(d) == IF par.flat THEN kv.h \in {d, d + 1, 0}     \* otherwise: panic "kvStateHeight is .., blockStoreHeight is .."
                 ELSE d = 0 \/ d \in kv.roots               \* otherwise: missing trie node
UtxoOf(d) == LET c == {h \in par.conf : h <= d} IN [kimg |-> c, outs |-> c, max |-> Max(c), bseq |-> c]

\* node.NewNode up to (and including) NewConsensusState
Restart ==
  /\ ~mem.up /\ mem.pc = "down"
  /\ LET d  == bs.desc
         ok == /\ (d = 0 \/ (d \in bs.parts /\ d \in bs.meta))       \* LoadBlock(height) # nil
               /\ (d = 0 \/ d \in bs.tres)                           \* LoadTxsResult(height)
               /\ StateOpens(d)
               /\ (st.h = 0 \/ st.h \in bs.seen \/ st.h + 1 = d)     \* reconstructLastCommit needs the seen commit
         m  == [Mem0 EXCEPT !.appH = d, !.mseq = IF ReconcileUtxo THEN UtxoOf(d).max ELSE ux.max,
                            !.stH = st.h, !.chg = st.chg, !.csH = st.h + 1]
     IN /\ kv' = IF ok /\ par.flat /\ kv.h = d + 1 THEN RolledBack ELSE kv
        /\ ux' = IF ok /\ ReconcileUtxo THEN UtxoOf(d) ELSE ux
        /\ mem' = IF ~ok THEN [m EXCEPT !.pc = "dead"]
                  ELSE IF st.h + 1 = d                                \* "rebuild status": ApplyBlock(status, block d)
                       THEN [m EXCEPT !.pc = "sv_val", !.sh = d, !.nchg = IF d \in par.valchg THEN d + 1 ELSE st.chg, !.ret = "boot"]
                       ELSE [m EXCEPT !.pc = "replay"]
  /\ last' = [op |-> "restart"]
  /\ UNCHANGED <<par, bs, wal, st, pr, hist>>

\* ConsensusState.OnStart: catchupReplay(cs.Height); its errors are logged and ignored
Replay ==
  /\ mem.up /\ mem.pc = "replay"
  /\ mem' = IF H \in wal.ends \/ (H - 1) \notin wal.ends \/ H \notin wal.msgs
            THEN Goto("idle")                 \* nothing to replay / "WAL does not contain #ENDHEIGHT"
            ELSE Goto("fin")                  \* the replayed precommit re-enters finalizeCommit(H)
  /\ last' = [op |-> "replay"]
  /\ UNCHANGED <<par, kv, bs, ux, wal, st, pr, hist>>

(* ---- pruning ----------------------------------------------------------------------------- *)
\* BlockStore.deleteBlock(h): needs meta and parts; keeps meta and txsResult ("keep for evm")
DelBlocks(S) == LET D == {h \in S : h \in bs.parts /\ h \in bs.meta} IN
  [bs EXCEPT !.txix = @ \ D, !.parts = @ \ D, !.seen = @ \ D, !.rcpt = @ \ D, !.bcom = @ \ {h - 1 : h \in D}]

BsMin == IF mem.bsStart # 0 THEN mem.bsStart ELSE IF pr.bs # 0 THEN pr.bs ELSE 1
BsUnderflow(K) == mem.appH < K                 \* maxHeight-keepLatestBlocks wraps around in uint64
BsHangs(K) == BsUnderflow(K) /\ ~GuardBsPrune  \* the loop then runs (practically) for ever, deleting every block
BsRange(K) == IF BsHangs(K) THEN {h \in Heights : h >= BsMin}
              ELSE IF BsUnderflow(K) \/ mem.appH - K < BsMin THEN {}
              ELSE BsMin..(mem.appH - K)

\* ConsensusState.DeleteHistoricalData
StLoaded == IF pr.st # 0 THEN pr.st ELSE 1
StMin == IF mem.stStart # 0 THEN mem.stStart
         ELSE IF WindowStPrune THEN StLoaded ELSE 0     \* as coded the loaded value goes to a shadowing variable
StRuns(K) == ~(H < StMin + K)
StEnd(K) == IF WindowStPrune THEN (H - 1) - K ELSE H    \* last height whose records go
KeepRec(f, K) == IF WindowStPrune /\ StEnd(K) + 1 \in RecDom /\ f[StEnd(K) + 1].k = "ptr" THEN {f[StEnd(K) + 1].p} ELSE {}
Wipe(f, S) == [x \in RecDom |-> IF x \in S THEN Rec("none", 0) ELSE f[x]]

Prune ==
  /\ mem.up /\ mem.pc = "idle" /\ par.keep # NoKeep /\ hist.prunes < MaxPrunes /\ ~hist.hung
  /\ LET K == par.keep
         R == BsRange(K)
         S == StMin..StEnd(K)
     IN /\ bs' = DelBlocks(R)
        /\ IF BsHangs(K)
           THEN /\ hist' = [hist EXCEPT !.prunes = @ + 1, !.hung = TRUE, !.pruned = TRUE]
                /\ UNCHANGED <<st, pr, mem>>
           ELSE /\ hist' = [hist EXCEPT !.prunes = @ + 1, !.pruned = TRUE]
                /\ st' = IF StRuns(K)
                         THEN [st EXCEPT !.val = Wipe(@, S \ KeepRec(st.val, K)), !.parm = Wipe(@, S \ KeepRec(st.parm, K))]
                         ELSE st
                /\ pr' = [bs |-> IF R = {} THEN pr.bs ELSE mem.appH - K + 1,
                          st |-> IF StRuns(K) THEN StEnd(K) + 1 ELSE pr.st]
                /\ mem' = [mem EXCEPT !.bsStart = IF R = {} THEN BsMin ELSE mem.appH - K + 1,
                                      !.stStart = IF StRuns(K) THEN StEnd(K) + 1
                                                  ELSE IF @ # 0 THEN @ ELSE StLoaded]
  /\ last' = [op |-> "prune", k |-> par.keep]
  /\ UNCHANGED <<par, kv, ux, wal>>

Next == Propose \/ Step \/ Crash \/ Restart \/ Replay \/ Prune
Spec == Init /\ [][Next]_vars

(* ---- the property ------------------------------------------------------------------------ *)
\* what each store says about "where the chain is" once the node is up and idle
StateAt(x) == IF par.flat THEN \A h \in Heights : kv.n[h] = IF h <= x THEN NBatch ELSE 0
              ELSE x = 0 \/ x \in kv.roots
UtxoAt(x)  == ux = UtxoOf(x)
Recovered  == mem.up /\ mem.pc = "idle"
\* Records of the block store and of the tx index are written ahead of the height descriptor;
\* what a crash leaves above the descriptor belongs to the DECIDED block x+1 and is overwritten
\* with identical data when that block is committed again: it is not an inconsistency.
Upto(S, x) == (1..x) \subseteq S /\ S \subseteq 1..(x + 1)

\* a node that was restarted comes up
NodeComesUp == mem.pc # "dead"

\* all stores reflect exactly the same prefix; nothing acknowledged is lost; nothing is half applied
ConsistentAfterRecovery ==
  (Recovered /\ ~hist.pruned) =>
     LET x == mem.appH IN
       /\ bs.desc = x /\ Upto(bs.parts, x) /\ Upto(bs.meta, x) /\ Upto(bs.seen, x) /\ Upto(bs.tres, x)
       /\ StateAt(x)
       /\ UtxoAt(x)
       /\ Upto(bs.txix, x)
       /\ st.h = x /\ mem.stH = x /\ H = x + 1
       /\ st.val[x + 1].k # "none" /\ st.parm[x + 1].k # "none"
       /\ hist.acked <= x

\* individually, for diagnosis (each is implied by ConsistentAfterRecovery)
UtxoNotBehind  == (Recovered /\ ~hist.pruned) => \A h \in par.conf : h <= mem.appH => h \in ux.kimg /\ h \in ux.outs /\ ux.max >= h
NothingAckedLost == Recovered => hist.acked <= mem.appH

\* pruning with window K leaves the last K heights servable and verifiable
LoadOK(f, h) == \/ f[h].k = "full"
                \/ f[h].k = "ptr" /\ f[h].p \in RecDom /\ f[f[h].p].k = "full"
Window == {h \in Heights : h > mem.appH - par.keep /\ h <= mem.appH}
PruneKeepsWindow ==
  (mem.up /\ mem.pc = "idle" /\ par.keep # NoKeep) =>
     /\ ~hist.hung                                   \* the call returns
     /\ \A h \in Window :
          /\ h \in bs.parts /\ h \in bs.meta /\ h \in bs.seen /\ h \in bs.tres /\ h \in bs.txix
          /\ (h < mem.appH => h \in bs.bcom)
          /\ LoadOK(st.val, h) /\ LoadOK(st.parm, h)

TypeOK == /\ mem.pc \in {"idle", "fin", "kv_trunc", "kv_h", "kv_undo", "kv_bat", "tr_nodes", "tr_root", "bs_side", "bs_batch",
                         "bs_desc", "bs_flush", "ux_kimg", "ux_outs", "ux_tok", "ux_max", "ux_bseq", "wal_end", "apply",
                         "sv_val", "sv_par", "sv_key", "sv_byh", "replay", "down", "dead"}
          /\ bs.desc \in 0..MaxH /\ st.h \in 0..MaxH /\ H \in 1..(MaxH + 1)

(* ---- export for the harness -------------------------------------------------------------- *)
Proj == [par |-> par, kv |-> kv, bs |-> bs, ux |-> ux, wal |-> wal, st |-> st, pr |-> pr, mem |-> mem, hist |-> hist]
ProjN == [par |-> par', kv |-> kv', bs |-> bs', ux |-> ux', wal |-> wal', st |-> st', pr |-> pr', mem |-> mem', hist |-> hist']
Edge == PrintT(ToJson([from |-> Proj, act |-> last', to |-> ProjN]))
View == <<par, kv, bs, ux, wal, st, pr, mem, hist>>
=============================================================================
