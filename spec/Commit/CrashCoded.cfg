\* crash part as coded, two crashes: TLC is EXPECTED to violate ConsistentAfterRecovery (no start-up reconciliation of the UTXO store) - a lead the harness reproduces on the real node
SPECIFICATION Spec
CONSTANTS
  MaxH = 2
  NBatch = 2
  Flats <- BothModes
  Confs <- ConfsCrash
  ValChgs <- ValChgsCrash
  Keeps <- NoPruning
  MaxCrash = 2
  CrashFrom = 2
  MaxPrunes = 0
  ReconcileUtxo = FALSE
  GuardBsPrune = FALSE
  WindowStPrune = FALSE
INVARIANTS TypeOK NodeComesUp NothingAckedLost ConsistentAfterRecovery

VIEW View
CHECK_DEADLOCK FALSE
