\* thorough: as CrashDesigned with four heights, three crashes
SPECIFICATION Spec
CONSTANTS
  MaxH = 4
  NBatch = 2
  Flats <- BothModes
  Confs <- ConfsBig
  ValChgs <- ValChgsBig
  Keeps <- NoPruning
  MaxCrash = 3
  CrashFrom = 1
  MaxPrunes = 0
  ReconcileUtxo = TRUE
  GuardBsPrune = FALSE
  WindowStPrune = FALSE
INVARIANTS TypeOK NodeComesUp NothingAckedLost UtxoNotBehind ConsistentAfterRecovery

VIEW View
CHECK_DEADLOCK FALSE
