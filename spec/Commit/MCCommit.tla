------------------------------ MODULE MCCommit ------------------------------
(* Bounded instances of Commit: set-valued constants for the .cfg files. *)
EXTENDS Commit

NoPruning    == {NoKeep}
BothModes    == {TRUE, FALSE}
TrieOnly     == {FALSE}
\* crash part: height 1 is committed undisturbed, height 2 is the block whose commit crashes
ConfsCrash   == {{}, {2}, {1, 2}}
ValChgsCrash == {{}, {2}}
ConfsBig     == SUBSET (1..3)
ValChgsBig   == {{}, {2}, {3}, {1, 3}}
\* pruning part
NoConf       == {{}}
ValChgsPrune == {{}, {2}, {2, 4}}
KeepsSmall   == {0, 1, 2, 3, 7}
ValChgsPruneBig == {{}, {2}, {2, 4}, {1, 5}, {3, 4, 6}}
KeepsBig     == {0, 1, 2, 3, 5, 9}
=============================================================================
