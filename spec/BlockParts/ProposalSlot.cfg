SPECIFICATION Spec
CONSTANTS
  MaxA = 2
  MaxB = 3
  ClearOnPolka = TRUE
  ClearOnCommit = TRUE
INVARIANTS SlotHoldsTarget CompleteHasBlock CommittedIsCommit CommitCompletes
ACTION_CONSTRAINT Edge
VIEW View
CHECK_DEADLOCK FALSE
