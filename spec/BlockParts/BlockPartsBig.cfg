SPECIFICATION Spec
CONSTANTS
  MinTotal = 1
  MaxTotal = 5
  DistinctOnly = FALSE
  CheckUpper = TRUE
  CheckProof = TRUE
  IndexInProof = TRUE
INVARIANTS TypeOK CountMatches PartsAreOriginal CompleteMeansOriginal AnyOrderCompletes ProofSound
PROPERTIES ForgedNeverAdded
ACTION_CONSTRAINT Edge
VIEW View
CHECK_DEADLOCK FALSE
