SPECIFICATION Spec
CONSTANTS
  MaxA = 3
  MaxB = 4
  ClearOnPolka = TRUE
  ClearOnCommit = TRUE
INVARIANTS SlotHoldsTarget CompleteHasBlock CommittedIsCommit CommitCompletes
ACTION_CONSTRAINT Edge
VIEW View
CHECK_DEADLOCK FALSE
