SPECIFICATION Spec
CONSTANTS
  MinTotal = 6
  MaxTotal = 8
  DistinctOnly = TRUE
  CheckUpper = TRUE
  CheckProof = TRUE
  IndexInProof = TRUE
INVARIANTS TypeOK CountMatches PartsAreOriginal CompleteMeansOriginal AnyOrderCompletes ProofSound
PROPERTIES ForgedNeverAdded
ACTION_CONSTRAINT Edge
VIEW View
CHECK_DEADLOCK FALSE
