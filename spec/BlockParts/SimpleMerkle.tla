---------------------------- MODULE SimpleMerkle ----------------------------
(***************************************************************************)
(* libs/crypto/merkle "simple tree" as coded (simple_tree.go,              *)
(* simple_proof.go), over symbolic hash terms.                             *)
(*                                                                         *)
(* Hash terms are free constructors (collision freedom of Keccak-256 is    *)
(* the assumption of the whole argument):                                  *)
(*     <<"H", bytes>>      Keccak256(bytes)           - a leaf / item hash *)
(*     <<"H", l, r>>       SimpleHashFromTwoHashes    - an inner node      *)
(*     <<"nil">>           the nil result of computeHashFromAunts          *)
(* The code has NO leaf / inner domain separation: an inner node is        *)
(* Keccak256(enc(l) ++ enc(r)), i.e. the leaf hash of the 66 byte string   *)
(* enc(l) ++ enc(r).  Byte strings are therefore either opaque             *)
(* (<<"c", n>>) or such a pair (<<"p", l, r>>), and LeafHash maps the      *)
(* latter onto the inner-node term, so TLC explores the second-preimage    *)
(* attempt "inner node passed off as a leaf".                              *)
(***************************************************************************)
EXTENDS Integers, Sequences

NoHash        == <<"nil">>
Opaque(n)     == <<"c", n>>
PairBytes(l, r) == <<"p", l, r>>
LeafHash(b)   == IF b[1] = "p" THEN <<"H", b[2], b[3]>> ELSE <<"H", b>>
Inner(l, r)   == <<"H", l, r>>

\* number of items that go to the left subtree: (len+1)/2, as in simpleHashFromHashes
Split(n) == (n + 1) \div 2

\* simpleHashFromHashes(hashes) for a non-empty sequence of hash terms
RECURSIVE Root(_)
Root(hs) ==
  IF Len(hs) = 1 THEN hs[1]
  ELSE LET k == Split(Len(hs)) IN
       Inner(Root(SubSeq(hs, 1, k)), Root(SubSeq(hs, k + 1, Len(hs))))

\* trailsFromHashers + FlattenAunts: the aunts of item i (0-based), from the
\* leaf's sibling up to the root's child
RECURSIVE Aunts(_, _)
Aunts(hs, i) ==
  IF Len(hs) = 1 THEN <<>>
  ELSE LET k == Split(Len(hs)) IN
       IF i < k THEN Append(Aunts(SubSeq(hs, 1, k), i), Root(SubSeq(hs, k + 1, Len(hs))))
       ELSE Append(Aunts(SubSeq(hs, k + 1, Len(hs)), i - k), Root(SubSeq(hs, 1, k)))

\* computeHashFromAunts(index, total, leafHash, innerHashes), line by line
RECURSIVE Compute(_, _, _, _)
Compute(i, n, leaf, au) ==
  IF i >= n \/ i < 0 \/ n <= 0 THEN NoHash
  ELSE IF n = 1 THEN (IF Len(au) # 0 THEN NoHash ELSE leaf)
  ELSE IF Len(au) = 0 THEN NoHash
  ELSE LET k    == Split(n)
           top  == au[Len(au)]
           rest == SubSeq(au, 1, Len(au) - 1) IN
       IF i < k
       THEN LET l == Compute(i, k, leaf, rest) IN
            IF l = NoHash THEN NoHash ELSE Inner(l, top)
       ELSE LET r == Compute(i - k, n - k, leaf, rest) IN
            IF r = NoHash THEN NoHash ELSE Inner(top, r)

\* SimpleProof.Verify
Verify(i, n, leaf, au, root) ==
  LET c == Compute(i, n, leaf, au) IN c # NoHash /\ c = root

\* the two children of the parent of leaf i (0-based) in a tree over hs, Len(hs) >= 2
RECURSIVE ParentChildren(_, _)
ParentChildren(hs, i) ==
  LET k == Split(Len(hs)) IN
  IF Len(hs) = 2 THEN <<hs[1], hs[2]>>
  ELSE IF i < k
       THEN (IF k = 1 THEN <<hs[1], Root(SubSeq(hs, 2, Len(hs)))>> ELSE ParentChildren(SubSeq(hs, 1, k), i))
       ELSE (IF Len(hs) - k = 1 THEN <<Root(SubSeq(hs, 1, k)), hs[Len(hs)]>>
             ELSE ParentChildren(SubSeq(hs, k + 1, Len(hs)), i - k))
=============================================================================
