------------------------------ MODULE MC_BlockId ------------------------------
EXTENDS BlockId

\* types.Header as it is in the tree (the harness compares this list with the struct
\* by reflection and reports a difference as drift)
AllFields == {"ChainID", "Height", "Coinbase", "Time", "NumTxs", "TotalTxs", "Recover",
              "ParentHash", "LastBlockID", "LastCommitHash", "ValidatorsHash", "ConsensusHash",
              "DataHash", "StateHash", "ReceiptHash", "GasLimit", "GasUsed", "EvidenceHash"}
HashedAsCoded == AllFields \ {"Recover"}     \* Header.Hash() omits Recover

QuickShapes    == {<<4, 2, 4>>}
ThoroughShapes == {<<4, 2, 4>>, <<1, 1, 1>>, <<0, 0, 0>>, <<2, 0, 3>>}

\* seeded design defects (the invariants must fail on them)
WithoutGasUsed == AllFields \ {"GasUsed"}    \* a field lost by the hash AND by the encoding
=============================================================================
