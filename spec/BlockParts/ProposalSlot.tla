---------------------------- MODULE ProposalSlot ----------------------------
(***************************************************************************)
(* The proposal slot of a ConsensusState in one round (consensus/state.go):*)
(* ProposalBlockParts (a part set for ONE signed header) and ProposalBlock *)
(* (the block decoded from it), and the three places that re-target the    *)
(* slot to another header:                                                 *)
(*   Propose  = defaultSetProposal: ProposalBlock = nil, new part set      *)
(*   Polka(x) = the third +2/3 prevote for x -> enterPrecommit: lock x if  *)
(*              the slot holds x, otherwise "polka for a block we don't    *)
(*              have": new part set for x's header, ProposalBlock = nil    *)
(*   Commit(x)= the third +2/3 precommit for x -> enterCommit: if the slot *)
(*              does not hold x, new part set for x, ProposalBlock = nil;  *)
(*              tryFinalizeCommit                                          *)
(*   Part(i)  = BlockPartMessage -> addProposalBlockPart: AddPart; when    *)
(*              the set completes, ser.DecodeReader(reader, &ProposalBlock)*)
(*              and Hash() (logged), enterPrevote / tryFinalizeCommit      *)
(*   OtherPart= a part of the block the slot is not waiting for (rejected) *)
(*                                                                         *)
(* Why the "= nil" matters is DecodeInto: the pointer decoder of libs/ser  *)
(* allocates only for a nil target; a non-nil target is REUSED and only    *)
(* its exported fields are overwritten, so the hashes a Block memoises in  *)
(* unexported fields (Block.hash, Data.hash, Commit.hash, ...) survive.    *)
(* ClearOnPolka / ClearOnCommit are TRUE for the code as it is; FALSE is   *)
(* the seeded defect (the invariants must fail).                           *)
(*                                                                         *)
(* dropped is a history variable: it keeps the executions in which a        *)
(* COMPLETE block was in the slot at the re-targeting apart from those in  *)
(* which the slot was empty, so that a transition tour covers the arrival  *)
(* of the new block's parts in both.                                       *)
(*                                                                         *)
(* Two blocks A (proposed) and B (the one the other validators vote for),  *)
(* split into tot[1] / tot[2] parts.  The node is not a validator.         *)
(***************************************************************************)
EXTENDS Integers, FiniteSets, TLC, Json

CONSTANTS MaxA, MaxB,      \* A is split into 1..MaxA parts, B into 1..MaxB
          ClearOnPolka, ClearOnCommit

VARIABLES phase,      \* "idle" | "open"
          tot,        \* <<parts of A, parts of B>>
          target,     \* the block whose header ProposalBlockParts was made from ("none" after the commit)
          have,       \* indexes held by ProposalBlockParts
          blk,        \* ProposalBlock: [content, memo]
          step,       \* "propose" | "prevote" | "precommit" | "commit" | "done"
          locked,     \* LockedBlock
          polka,      \* block with +2/3 prevotes seen ("none" if none)
          commit,     \* block with +2/3 precommits seen
          committed,  \* the block handed to CommitBlock
          dropped,    \* history: the block that sat in the slot when it was last re-targeted
          last
vars == <<phase, tot, target, have, blk, step, locked, polka, commit, committed, dropped, last>>

None   == "none"
NilBlk == [content |-> None, memo |-> None]
Total(x) == IF x = "A" THEN tot[1] ELSE tot[2]
Other(x) == IF x = "A" THEN "B" ELSE "A"

\* ser.DecodeReader(r, &ptr): see the header comment
DecodeInto(b, x) == IF b = NilBlk THEN [content |-> x, memo |-> None] ELSE [content |-> x, memo |-> b.memo]
\* Block.Hash(): computed from the content once, then memoised
HashOf(b)   == IF b.memo # None THEN b.memo ELSE b.content
Memoise(b)  == [b EXCEPT !.memo = HashOf(b)]
HashesTo(b, x) == b # NilBlk /\ HashOf(b) = x

Label(op, x, i) == [op |-> op, x |-> x, i |-> i]

Init == /\ phase = "idle" /\ tot = <<0, 0>> /\ target = None /\ have = {} /\ blk = NilBlk /\ step = "propose"
        /\ locked = None /\ polka = None /\ commit = None /\ committed = NilBlk /\ dropped = None
        /\ last = Label("init", None, 0)

\* new height, round 0, the proposal for A arrives
Propose == /\ phase = "idle"
           /\ \E a \in 1..MaxA, b \in 1..MaxB : tot' = <<a, b>>
           /\ phase' = "open" /\ target' = "A" /\ have' = {} /\ blk' = NilBlk /\ step' = "propose"
           /\ locked' = None /\ polka' = None /\ commit' = None /\ committed' = NilBlk /\ dropped' = None
           /\ last' = Label("propose", "A", 0)

Finalize(b) == /\ step' = "done" /\ committed' = b
               /\ blk' = NilBlk /\ target' = None /\ have' = {}     \* updateToStatus: next height

Part(i) ==
  /\ phase = "open" /\ step # "done" /\ target # None /\ i \in (1..Total(target)) \ have
  /\ LET h2 == have \cup {i}
         complete == h2 = 1..Total(target)
         nb == IF complete THEN Memoise(DecodeInto(blk, target)) ELSE blk
     IN IF complete /\ step = "commit" /\ HashesTo(nb, commit)
        THEN Finalize(nb)                                        \* tryFinalizeCommit
        ELSE /\ have' = h2 /\ blk' = nb /\ UNCHANGED <<target, committed>>
             /\ step' = IF complete /\ step = "propose" THEN "prevote" ELSE step
  /\ last' = Label("part", target, i)
  /\ UNCHANGED <<phase, tot, locked, polka, commit, dropped>>

OtherPart(i) ==
  /\ phase = "open" /\ step # "done" /\ target # None /\ i \in 1..Total(Other(target))
  /\ last' = Label("otherpart", Other(target), i)
  /\ UNCHANGED <<phase, tot, target, have, blk, step, locked, polka, commit, committed, dropped>>

\* +2/3 prevotes for x in this round (the node is in propose or prevote)
Polka(x) ==
  /\ phase = "open" /\ polka = None /\ step \in {"propose", "prevote"}
  /\ polka' = x /\ step' = "precommit"
  /\ IF HashesTo(blk, x)
     THEN locked' = x /\ UNCHANGED <<target, have, blk, dropped>>  \* lock the proposal block
     ELSE /\ locked' = None
          /\ IF target # x
             THEN /\ target' = x /\ have' = {}                      \* NewPartSetFromHeader(blockID.PartsHeader)
                  /\ blk' = IF ClearOnPolka THEN NilBlk ELSE blk    \* cs.ProposalBlock = nil
                  /\ dropped' = blk.content
             ELSE UNCHANGED <<target, have, blk, dropped>>
  /\ last' = Label("polka", x, 0)
  /\ UNCHANGED <<phase, tot, commit, committed>>

\* +2/3 precommits for x in this round
Commit(x) ==
  /\ phase = "open" /\ commit = None /\ step \notin {"commit", "done"}
  /\ commit' = x
  /\ LET retarget == ~HashesTo(blk, x) /\ target # x
         nb == IF retarget /\ ClearOnCommit THEN NilBlk ELSE blk
     IN /\ dropped' = IF retarget THEN blk.content ELSE dropped
        /\ IF HashesTo(nb, x)
           THEN Finalize(nb)                                        \* tryFinalizeCommit at once
           ELSE /\ step' = "commit" /\ blk' = nb
                /\ target' = IF retarget THEN x ELSE target
                /\ have' = IF retarget THEN {} ELSE have
                /\ UNCHANGED committed
  /\ last' = Label("commit", x, 0)
  /\ UNCHANGED <<phase, tot, locked, polka>>

Restart == /\ phase = "open"
           /\ phase' = "idle" /\ tot' = <<0, 0>> /\ target' = None /\ have' = {} /\ blk' = NilBlk /\ step' = "propose"
           /\ locked' = None /\ polka' = None /\ commit' = None /\ committed' = NilBlk /\ dropped' = None
           /\ last' = Label("restart", None, 0)

Next == \/ Propose \/ Restart
        \/ \E i \in 1..(IF MaxA > MaxB THEN MaxA ELSE MaxB) : Part(i) \/ OtherPart(i)
        \/ \E x \in {"A", "B"} : Polka(x) \/ Commit(x)

Spec == Init /\ [][Next]_vars

(* ---- what TLC checks ------------------------------------------------------ *)
\* the block in the slot is the block of the slot's header, and says so
SlotHoldsTarget == (phase = "open" /\ blk # NilBlk) => (blk.content = target /\ HashOf(blk) = target)
\* a complete part set has produced its block
CompleteHasBlock == (phase = "open" /\ target # None /\ have = 1..Total(target)) => blk # NilBlk
\* what is committed is the block that has the +2/3 precommits
CommittedIsCommit == committed # NilBlk => (committed.content = commit /\ HashOf(committed) = commit)
\* the parts of the committed block always lead to its commit
CommitCompletes == (phase = "open" /\ step = "commit" /\ target = commit /\ have = 1..Total(target)) => FALSE

(* ---- export ----------------------------------------------------------------- *)
SetToSeq(S) == [k \in 1..Cardinality(S) |-> CHOOSE x \in S : Cardinality({y \in S : y < x}) = k - 1]
ProjOf(ph, t, tg, hv, b, st, lk, pk, cm, cd, dr) ==
  [phase |-> ph, tot |-> t, target |-> tg, have |-> SetToSeq(hv), blk |-> b.content, blkhash |-> HashOf(b),
   step |-> st, locked |-> lk, polka |-> pk, commit |-> cm, committed |-> cd.content, committedhash |-> HashOf(cd),
   dropped |-> dr]
Edge == PrintT(ToJson([from |-> ProjOf(phase, tot, target, have, blk, step, locked, polka, commit, committed, dropped),
                       act |-> last',
                       to |-> ProjOf(phase', tot', target', have', blk', step', locked', polka', commit', committed', dropped')]))
View == <<phase, tot, target, have, blk, step, locked, polka, commit, committed, dropped>>
=============================================================================
