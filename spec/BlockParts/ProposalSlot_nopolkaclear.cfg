SPECIFICATION Spec
CONSTANTS
  MaxA = 2
  MaxB = 2
  ClearOnPolka = FALSE
  ClearOnCommit = TRUE
INVARIANTS SlotHoldsTarget CompleteHasBlock CommittedIsCommit CommitCompletes

VIEW View
CHECK_DEADLOCK FALSE
