SPECIFICATION Spec
CONSTANTS
  HdrFields <- AllFields
  Hashed <- HashedAsCoded
  Encoded <- AllFields
  Shapes <- QuickShapes
  MaxPert = 1
  OrderedRoots = FALSE
INVARIANTS BaseValid IdInjective HashBinds
PROPERTIES StepChangesId

VIEW View
CHECK_DEADLOCK FALSE
