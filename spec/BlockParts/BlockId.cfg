SPECIFICATION Spec
CONSTANTS
  HdrFields <- AllFields
  Hashed <- HashedAsCoded
  Encoded <- AllFields
  Shapes <- QuickShapes
  MaxPert = 1
  OrderedRoots = TRUE
INVARIANTS BaseValid IdInjective HashBinds
PROPERTIES StepChangesId
ACTION_CONSTRAINT Edge
VIEW View
CHECK_DEADLOCK FALSE
