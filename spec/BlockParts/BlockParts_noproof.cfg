SPECIFICATION Spec
CONSTANTS
  MinTotal = 1
  MaxTotal = 3
  DistinctOnly = FALSE
  CheckUpper = TRUE
  CheckProof = FALSE
  IndexInProof = TRUE
INVARIANTS TypeOK CountMatches PartsAreOriginal CompleteMeansOriginal AnyOrderCompletes ProofSound
PROPERTIES ForgedNeverAdded

VIEW View
CHECK_DEADLOCK FALSE
