------------------------------- MODULE BlockId -------------------------------
(***************************************************************************)
(* What the signed block id commits to (types/block.go).                   *)
(*                                                                         *)
(*   BlockID = <<Block.Hash(), MakePartSet(n).Header()>>                   *)
(*   Block.Hash()  = Header.Hash() = SimpleHashFromMap over the fields in  *)
(*                   Hashed (a Merkle map: injective in the named values)  *)
(*   part-set hash = Merkle root over the chunks of the serialisation,     *)
(*                   which carries the header fields in Encoded, the       *)
(*                   transactions, the evidence and the last commit        *)
(*                   (block id + precommits); module BlockParts shows that *)
(*                   a part-set header determines the serialised bytes     *)
(*   Data.Hash(), EvidenceData.Hash(), Commit.Hash() are simple-tree roots *)
(*   over the ordered items (Txs.Hash, EvidenceList.Hash,                  *)
(*   SimpleHashFromHashers) which the proposer stores in DataHash,         *)
(*   EvidenceHash, LastCommitHash and Block.ValidateBasic re-checks.       *)
(*                                                                         *)
(* A block is a record of components; values and items are symbols, hashes *)
(* are the free constructors of SimpleMerkle.  The state machine starts    *)
(* from a sealed proposer block ("base") and applies single perturbations, *)
(* optionally re-sealing the header the way a (malicious) proposer would:  *)
(* one action per way a block can differ from another one.                 *)
(*                                                                         *)
(* Named deviation of the code: Header.Hash() omits Recover, Commit.Hash() *)
(* omits Commit.BlockID - both are covered by the part-set hash only       *)
(* (Hashed # Encoded).                                                     *)
(***************************************************************************)
EXTENDS Integers, Sequences, FiniteSets, TLC, Json, SimpleMerkle

CONSTANTS HdrFields,    \* the serialisable fields of types.Header
          Hashed,       \* ... those Header.Hash() covers
          Encoded,      \* ... those the serialisation of the block carries
          Shapes,       \* set of <<number of txs, of evidence items, of precommits>>
          MaxPert,      \* perturbations stacked on the proposer's block
          OrderedRoots  \* TRUE (as coded): list roots depend on the order of the items

RootFields == {"DataHash", "EvidenceHash", "LastCommitHash"}
Lists      == {"txs", "ev", "pc"}
RootOfList == [l \in Lists |-> CASE l = "txs" -> "DataHash" [] l = "ev" -> "EvidenceHash" [] l = "pc" -> "LastCommitHash"]

VARIABLES phase,  \* "idle" | "open"
          base,   \* the proposer's block
          cur,    \* the block under consideration
          npert,  \* perturbations applied to it
          last
vars == <<phase, base, cur, npert, last>>

NilItem   == 0                          \* an absent precommit
ItemHash(x) == LeafHash(Opaque(x))      \* tx.Hash() / ev.Hash() / aminoHasher(vote).Hash()
EmptyRoot == LeafHash(Opaque(-1))       \* the zero hash of an empty list
JunkRoot  == LeafHash(Opaque(-2))
JunkRoot2 == LeafHash(Opaque(-3))

\* Txs.Hash / EvidenceList.Hash / SimpleHashFromHashers: 0 -> empty, 1 -> the item's hash, else split
ListRoot(s) ==
  IF Len(s) = 0 THEN EmptyRoot
  ELSE LET t == IF OrderedRoots THEN s ELSE SortSeq(s, LAMBDA a, b : a < b) IN
       Root([k \in 1..Len(t) |-> ItemHash(t[k])])

Seal(b) == [b EXCEPT !.hdr = [b.hdr EXCEPT !["NumTxs"] = Opaque(Len(b.txs)),
                                          !["DataHash"] = ListRoot(b.txs),
                                          !["EvidenceHash"] = ListRoot(b.ev),
                                          !["LastCommitHash"] = ListRoot(b.pc)]]

MkBlock(sh) == Seal([hdr  |-> [f \in HdrFields |-> Opaque(1)],
                     txs  |-> [k \in 1..sh[1] |-> k],
                     ev   |-> [k \in 1..sh[2] |-> k],
                     pc   |-> [k \in 1..sh[3] |-> IF sh[3] >= 3 /\ k = 2 THEN NilItem ELSE k],
                     cbid |-> Opaque(1)])

\* ---- identity ---------------------------------------------------------------
HeaderHash(h) == <<"M", [f \in Hashed |-> h[f]]>>            \* Header.Hash()
Enc(b)        == <<[f \in Encoded |-> b.hdr[f]], b.txs, b.ev, b.cbid, b.pc>>
PartsHash(b)  == <<"P", Enc(b)>>                              \* MakePartSet(n).Header()
BlockID(b)    == <<HeaderHash(b.hdr), PartsHash(b)>>

\* Block.ValidateBasic: the ties between header and content
ValidBasic(b) == /\ b.hdr["NumTxs"] = Opaque(Len(b.txs))
                 /\ b.hdr["LastCommitHash"] = ListRoot(b.pc)
                 /\ b.hdr["DataHash"] = ListRoot(b.txs)
                 /\ b.hdr["EvidenceHash"] = ListRoot(b.ev)

\* ---- perturbations ----------------------------------------------------------
AltValue(f, v) == IF f \in RootFields THEN (IF v = JunkRoot THEN JunkRoot2 ELSE JunkRoot)
                  ELSE Opaque(v[2] + 100)
RemoveAt(s, k) == SubSeq(s, 1, k - 1) \o SubSeq(s, k + 1, Len(s))
InsertAfter(s, k, x) == SubSeq(s, 1, k) \o <<x>> \o SubSeq(s, k + 1, Len(s))
SwapAt(s, k) == [s EXCEPT ![k] = s[k + 1], ![k + 1] = s[k]]
Get(b, l) == CASE l = "txs" -> b.txs [] l = "ev" -> b.ev [] l = "pc" -> b.pc
Put(b, l, s) == CASE l = "txs" -> [b EXCEPT !.txs = s] [] l = "ev" -> [b EXCEPT !.ev = s] [] l = "pc" -> [b EXCEPT !.pc = s]

Label(comp, kind, f, k, reseal) == [op |-> "perturb", comp |-> comp, kind |-> kind, f |-> f, k |-> k, reseal |-> reseal]

Apply(nb, reseal, lbl) ==
  /\ phase = "open" /\ npert < MaxPert
  /\ cur' = IF reseal THEN Seal(nb) ELSE nb
  /\ npert' = npert + 1
  /\ last' = lbl
  /\ UNCHANGED <<phase, base>>

PHdr(f) == phase = "open" /\ Apply([cur EXCEPT !.hdr[f] = AltValue(f, @)], FALSE, Label("hdr", "content", f, 0, FALSE))
PCbid   == phase = "open" /\ Apply([cur EXCEPT !.cbid = Opaque(@[2] + 100)], FALSE, Label("cbid", "content", "", 0, FALSE))

PList(l, kind, k, reseal) ==
  /\ phase = "open"
  /\ LET s == Get(cur, l) IN
     CASE kind = "content"   -> k \in 1..Len(s)
       [] kind = "nil"       -> l = "pc" /\ k \in 1..Len(s) /\ s[k] # NilItem
       [] kind = "swap"      -> k \in 1..Len(s) - 1 /\ s[k] # s[k + 1]
       [] kind = "insert"    -> k \in 0..Len(s)
       [] kind = "dupinsert" -> k \in 1..Len(s)
       [] kind = "remove"    -> k \in 1..Len(s)
       [] OTHER -> FALSE
  /\ LET s == Get(cur, l)
         t == CASE kind = "content"   -> [s EXCEPT ![k] = @ + 100]
                [] kind = "nil"       -> [s EXCEPT ![k] = NilItem]
                [] kind = "swap"      -> SwapAt(s, k)
                [] kind = "insert"    -> InsertAfter(s, k, 50 + npert)
                [] kind = "dupinsert" -> InsertAfter(s, k, s[k])
                [] kind = "remove"    -> RemoveAt(s, k)
     IN Apply(Put(cur, l, t), reseal, Label(l, kind, "", k, reseal))

Kinds == {"content", "nil", "swap", "insert", "dupinsert", "remove"}
MaxLen == 8

NoLabel == [op |-> "", comp |-> "", kind |-> "", f |-> "", k |-> 0, reseal |-> FALSE]

Start == /\ phase = "idle"
         /\ \E sh \in Shapes : base' = MkBlock(sh) /\ cur' = MkBlock(sh)
         /\ phase' = "open" /\ npert' = 0
         /\ last' = [NoLabel EXCEPT !.op = "start"]

\* a fresh decode of the proposer's bytes
Restore == /\ phase = "open" /\ npert > 0
           /\ cur' = base /\ npert' = 0
           /\ last' = [NoLabel EXCEPT !.op = "restore"]
           /\ UNCHANGED <<phase, base>>

Restart == /\ phase = "open" /\ npert = 0
           /\ phase' = "idle" /\ base' = <<>> /\ cur' = <<>>
           /\ last' = [NoLabel EXCEPT !.op = "restart"]
           /\ UNCHANGED npert

Init == phase = "idle" /\ base = <<>> /\ cur = <<>> /\ npert = 0 /\ last = [NoLabel EXCEPT !.op = "init"]

Next == \/ Start \/ Restore \/ Restart
        \/ \E f \in HdrFields : PHdr(f)
        \/ PCbid
        \/ \E l \in Lists, kind \in Kinds, k \in 0..MaxLen, reseal \in BOOLEAN : PList(l, kind, k, reseal)

Spec == Init /\ [][Next]_vars

(* ---- what TLC checks ------------------------------------------------------ *)
Relevant(b) == <<b.hdr, b.txs, b.ev, b.cbid, b.pc>>

\* a block that differs from the proposer's in any component has another block id
IdInjective == phase = "open" => (Relevant(cur) # Relevant(base) => BlockID(cur) # BlockID(base))

\* the block hash alone fixes every hashed header field and, for a block that passes
\* ValidateBasic, the ordered transactions, evidence and precommits
HashBinds ==
  phase = "open" =>
    ((HeaderHash(cur.hdr) = HeaderHash(base.hdr) /\ ValidBasic(cur))
       => /\ cur.txs = base.txs /\ cur.ev = base.ev /\ cur.pc = base.pc
          /\ \A f \in Hashed : cur.hdr[f] = base.hdr[f])

\* every single perturbation changes the block id
StepChangesId ==
  [][ (last'.op = "perturb" /\ Relevant(cur') # Relevant(cur)) => BlockID(cur') # BlockID(cur) ]_vars

\* the proposer's own block is valid
BaseValid == phase = "open" => ValidBasic(base)

(* ---- export ----------------------------------------------------------------- *)
ChangedFields(b0, b) == {f \in HdrFields : b.hdr[f] # b0.hdr[f]}
\* the projection identifies the model state (base is MkBlock(shape)) and carries the
\* observables the harness compares on the real block
ProjOf(ph, b0, b, n) ==
  IF ph = "idle" THEN [phase |-> "idle"]
  ELSE [phase |-> "open", npert |-> n,
        shape |-> <<Len(b0.txs), Len(b0.ev), Len(b0.pc)>>,
        txs |-> b.txs, ev |-> b.ev, pc |-> b.pc, cbid |-> b.cbid[2],
        hdr |-> [f \in ChangedFields(b0, b) |-> b.hdr[f]],
        same |-> (Relevant(b) = Relevant(b0)),
        idChanged    |-> (BlockID(b) # BlockID(b0)),
        hashChanged  |-> (HeaderHash(b.hdr) # HeaderHash(b0.hdr)),
        partsChanged |-> (PartsHash(b) # PartsHash(b0)),
        valid        |-> ValidBasic(b),
        dataRootChanged |-> (ListRoot(b.txs) # ListRoot(b0.txs)),
        evRootChanged   |-> (ListRoot(b.ev) # ListRoot(b0.ev)),
        pcRootChanged   |-> (ListRoot(b.pc) # ListRoot(b0.pc))]
Edge == PrintT(ToJson([from |-> ProjOf(phase, base, cur, npert), act |-> last', to |-> ProjOf(phase', base', cur', npert')]))
View == <<phase, base, cur, npert>>
=============================================================================
