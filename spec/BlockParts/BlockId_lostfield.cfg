SPECIFICATION Spec
CONSTANTS
  HdrFields <- AllFields
  Hashed <- WithoutGasUsed
  Encoded <- WithoutGasUsed
  Shapes <- QuickShapes
  MaxPert = 1
  OrderedRoots = TRUE
INVARIANTS BaseValid IdInjective HashBinds
PROPERTIES StepChangesId

VIEW View
CHECK_DEADLOCK FALSE
