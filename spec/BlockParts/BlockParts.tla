------------------------------ MODULE BlockParts ------------------------------
(***************************************************************************)
(* Part sets (types/part_set.go): the proposer splits the serialized block *)
(* into parts and signs the part-set header [total, root]                  *)
(* (NewPartSetFromData); a receiver creates an empty set from the signed   *)
(* header (NewPartSetFromHeader) and feeds it whatever the network offers  *)
(* (AddPart) - the proposer's parts in any order, duplicates, and forged   *)
(* parts of every kind an adversary can put on the wire.                   *)
(*                                                                         *)
(* The original data is a sequence of chunk symbols orig[1..total]; two    *)
(* positions carry the same symbol iff the two parts have identical bytes  *)
(* (every equality pattern is explored: restricted growth strings).  A     *)
(* part on the wire is [idx, bytes, aunts].  The Merkle tree and the proof *)
(* check are those of libs/crypto/merkle (module SimpleMerkle).            *)
(*                                                                         *)
(* One action per public call:                                             *)
(*   Start   = proposer NewPartSetFromData(data).Header() ;                *)
(*             receiver NewPartSetFromHeader(header)                       *)
(*   Offer   = receiver AddPart(part): index bound -> duplicate -> proof,  *)
(*             exactly in the order of the code                            *)
(*   Restart = the receiver drops the set and starts again (next round)    *)
(* The bytes a complete set hands to the decoder (GetReader) are the       *)
(* concatenation of the stored parts: Assembled.                           *)
(*                                                                         *)
(* CheckUpper / CheckProof / IndexInProof are TRUE for the code as it is;  *)
(* setting one to FALSE gives the model of a seeded defect (used to show   *)
(* that the invariants are not vacuous).                                   *)
(***************************************************************************)
EXTENDS Integers, Sequences, FiniteSets, TLC, Json, SimpleMerkle

CONSTANTS MinTotal, MaxTotal,  \* totals explored
          DistinctOnly,        \* TRUE: only the pattern "all parts differ" (large totals)
          CheckUpper,          \* AddPart rejects part.Index >= total
          CheckProof,          \* AddPart verifies the Merkle proof
          IndexInProof         \* the proof check uses the part's index (FALSE: verifies as "some leaf")

VARIABLES phase,   \* "idle" | "open"
          orig,    \* the proposer's data: sequence of chunk symbols (<<>> when idle)
          parts,   \* receiver: ps.parts, bytes of the stored part or Nil, per index
          count,   \* receiver: ps.count
          last     \* label of the last action (output only, hidden by the VIEW)
vars == <<phase, orig, parts, count, last>>

Nil      == Opaque(0)
total    == Len(orig)
Bytes(o, i)   == Opaque(o[i + 1])                        \* bytes of part i (0-based) of data o
Hashes(o)     == [k \in 1..Len(o) |-> LeafHash(Opaque(o[k]))] \* Part.Hash() of every part
RootOf(o)     == Root(Hashes(o))                         \* PartSetHeader.Hash
ProofOf(o, i) == Aunts(Hashes(o), i)                     \* Part.Proof.Aunts as built by NewPartSetFromData
root     == RootOf(orig)

\* ---- byte strings that are not a part of the original -------------------
Flipped   == Opaque(90)   \* a part's bytes with one bit changed
Truncated == Opaque(91)   \* a part's bytes cut short
Extended  == Opaque(92)   \* a part's bytes with a byte appended
Empty     == Opaque(93)   \* no bytes at all
Foreign   == 94           \* chunk symbol of another block's content
Junk      == LeafHash(Opaque(99))  \* a hash that occurs nowhere in the tree

\* ---- equality patterns of the original (restricted growth strings) ------
RECURSIVE MaxOf(_)
MaxOf(s) == IF Len(s) = 0 THEN 0 ELSE LET m == MaxOf(Tail(s)) IN IF Head(s) > m THEN Head(s) ELSE m
Patterns(n) ==
  IF DistinctOnly THEN {[k \in 1..n |-> k]}
  ELSE {s \in [1..n -> 1..n] : /\ s[1] = 1
                               /\ \A k \in 2..n : s[k] <= MaxOf(SubSeq(s, 1, k - 1)) + 1}

\* ---- what the network can offer -------------------------------------------
RemoveAt(s, k) == SubSeq(s, 1, k - 1) \o SubSeq(s, k + 1, Len(s))
InsertAfter(s, k, x) == SubSeq(s, 1, k) \o <<x>> \o SubSeq(s, k + 1, Len(s))
SwapAt(s, k) == [s EXCEPT ![k] = s[k + 1], ![k + 1] = s[k]]

Part(idx, bytes, aunts) == [idx |-> idx, bytes |-> bytes, aunts |-> aunts]

\* data of "another block": the original cut by its last chunk, extended by one
\* chunk, or with chunk k replaced
Cut      == SubSeq(orig, 1, total - 1)
Ext      == Append(orig, Foreign)
Other(k) == [orig EXCEPT ![k + 1] = Foreign]

Classes == {"good", "flip", "trunc", "extend", "empty", "bytesof", "proofof", "shift",
            "aunt", "auntswap", "auntdrop", "auntadd", "othertotal", "otherblock", "innerleaf"}

\* cls with source part i (0-based) and parameter p is a meaningful offer in this state
Applicable(cls, i, p) ==
  /\ i \in 0..total - 1
  /\ CASE cls \in {"good", "flip", "trunc", "extend", "empty"} -> p = 0
       [] cls \in {"bytesof", "proofof"} -> p \in 0..total - 1 /\ p # i
       [] cls = "shift"      -> p \in -1..total + 1 /\ p # i     \* the part relabelled with index p
       [] cls = "aunt"       -> p \in 1..Len(ProofOf(orig, i))   \* aunt p replaced
       [] cls = "auntswap"   -> p \in 1..Len(ProofOf(orig, i)) - 1
                                /\ ProofOf(orig, i)[p] # ProofOf(orig, i)[p + 1]
       [] cls = "auntdrop"   -> p \in 1..Len(ProofOf(orig, i))
       [] cls = "auntadd"    -> p \in {0, Len(ProofOf(orig, i))}  \* junk aunt in front / at the end
       [] cls = "othertotal" -> (p = total - 1 /\ total > 1 /\ i < total - 1) \/ p = total + 1
       [] cls = "otherblock" -> p \in 0..total - 1               \* the block differs in chunk p
       [] cls = "innerleaf"  -> p = 0 /\ total >= 2
       [] OTHER -> FALSE

Mk(cls, i, p) ==
  LET b == Bytes(orig, i)  a == ProofOf(orig, i) IN
  CASE cls = "good"       -> Part(i, b, a)
    [] cls = "flip"       -> Part(i, Flipped, a)
    [] cls = "trunc"      -> Part(i, Truncated, a)
    [] cls = "extend"     -> Part(i, Extended, a)
    [] cls = "empty"      -> Part(i, Empty, a)
    [] cls = "bytesof"    -> Part(i, Bytes(orig, p), a)
    [] cls = "proofof"    -> Part(i, b, ProofOf(orig, p))
    [] cls = "shift"      -> Part(p, b, a)
    [] cls = "aunt"       -> Part(i, b, [a EXCEPT ![p] = Junk])
    [] cls = "auntswap"   -> Part(i, b, SwapAt(a, p))
    [] cls = "auntdrop"   -> Part(i, b, RemoveAt(a, p))
    [] cls = "auntadd"    -> Part(i, b, InsertAfter(a, p, Junk))
    [] cls = "othertotal" -> IF p = total + 1 THEN Part(i, Bytes(Ext, i), ProofOf(Ext, i))
                             ELSE Part(i, Bytes(Cut, i), ProofOf(Cut, i))
    [] cls = "otherblock" -> Part(i, Bytes(Other(p), i), ProofOf(Other(p), i))
    [] cls = "innerleaf"  -> LET ch == ParentChildren(Hashes(orig), i) IN
                             Part(i, PairBytes(ch[1], ch[2]), Tail(a))

\* the extra part of the extended data (its index is = total)
MkExtra == Part(total, Bytes(Ext, total), ProofOf(Ext, total))

\* ---- AddPart as coded -------------------------------------------------------
ProofOK(o) ==
  IF IndexInProof THEN Verify(o.idx, total, LeafHash(o.bytes), o.aunts, root)
  ELSE \E j \in 0..total - 1 : Verify(j, total, LeafHash(o.bytes), o.aunts, root)

Result(o) ==
  IF o.idx < 0 THEN "badindex"                           \* lower bound (ErrPartSetUnexpectedIndex)
  ELSE IF CheckUpper /\ o.idx >= total THEN "badindex"   \* upper bound (ErrPartSetUnexpectedIndex)
  ELSE IF o.idx >= total THEN "panic"                    \* ps.parts[part.Index]: index out of range (CheckUpper = FALSE only)
  ELSE IF parts[o.idx + 1] # Nil THEN "dup"              \* (false, nil)
  ELSE IF CheckProof /\ ~ProofOK(o) THEN "badproof"      \* ErrPartSetInvalidProof
  ELSE "added"

Sym(b) == IF b[1] = "p" THEN -1 ELSE b[2]
SymSeq(ps) == [k \in 1..Len(ps) |-> Sym(ps[k])]
Complete == phase = "open" /\ count = total
Assembled == parts            \* what GetReader() concatenates

AddPart(o, cls, i, p) ==
  /\ phase = "open"
  /\ LET r == Result(o) IN
     /\ parts' = IF r = "added" THEN [parts EXCEPT ![o.idx + 1] = o.bytes] ELSE parts
     /\ count' = IF r = "added" THEN count + 1 ELSE count
     /\ last' = [op |-> "offer", cls |-> cls, i |-> i, p |-> p, idx |-> o.idx, sym |-> Sym(o.bytes),
                 naunts |-> Len(o.aunts), res |-> r]
  /\ UNCHANGED <<phase, orig>>

Offer == \E cls \in Classes, i \in 0..MaxTotal - 1, p \in -1..MaxTotal + 1 :
           /\ phase = "open" /\ Applicable(cls, i, p)
           /\ AddPart(Mk(cls, i, p), cls, i, p)

OfferExtra == /\ phase = "open"
              /\ AddPart(MkExtra, "extrapart", total, 0)

NoLabel == [op |-> "", cls |-> "", i |-> 0, p |-> 0, idx |-> 0, sym |-> 0, naunts |-> 0, res |-> ""]

Start == /\ phase = "idle"
         /\ \E n \in MinTotal..MaxTotal : \E o \in Patterns(n) :
              /\ orig' = o
              /\ parts' = [k \in 1..n |-> Nil]
         /\ phase' = "open" /\ count' = 0
         /\ last' = [NoLabel EXCEPT !.op = "start"]

Restart == /\ phase = "open"
           /\ phase' = "idle" /\ orig' = <<>> /\ parts' = <<>> /\ count' = 0
           /\ last' = [NoLabel EXCEPT !.op = "restart"]

Init == /\ phase = "idle" /\ orig = <<>> /\ parts = <<>> /\ count = 0
        /\ last = [NoLabel EXCEPT !.op = "init"]

Next == Start \/ Offer \/ OfferExtra \/ Restart

Spec == Init /\ [][Next]_vars

(* ---- what TLC checks ---------------------------------------------------- *)
TypeOK == /\ phase \in {"idle", "open"}
          /\ Len(parts) = total
          /\ count \in 0..total

Held == {k \in 1..total : parts[k] # Nil}
CountMatches == count = Cardinality(Held)

\* a stored part carries the proposer's bytes for its index (no forged part is ever added)
PartsAreOriginal == \A k \in Held : parts[k] = Opaque(orig[k])

\* a complete set reassembles byte for byte into the proposer's data
CompleteMeansOriginal == Complete => Assembled = [k \in 1..total |-> Opaque(orig[k])]

\* whatever has been offered before, every missing original part is still accepted:
\* the proposer's parts complete the set in any order
AnyOrderCompletes ==
  phase = "open" => \A i \in 0..total - 1 :
      parts[i + 1] = Nil => Result(Part(i, Bytes(orig, i), ProofOf(orig, i))) = "added"

\* soundness of the proof system by itself, independent of what is already held: among
\* everything the network can offer, only the original bytes verify at an index
ProofSound ==
  phase = "open" =>
    \A cls \in Classes, i \in 0..total - 1, p \in -1..total + 1 :
      Applicable(cls, i, p) =>
        LET o == Mk(cls, i, p) IN
          (o.idx \in 0..total - 1 /\ Verify(o.idx, total, LeafHash(o.bytes), o.aunts, root))
            => o.bytes = Bytes(orig, o.idx)

\* an accepted part is the proposer's part for that index; nothing else changes the set
ForgedNeverAdded ==
  [][ /\ (last'.op = "offer" /\ last'.res = "added")
          => (last'.idx \in 0..total - 1 /\ last'.sym = orig[last'.idx + 1]
              /\ parts[last'.idx + 1] = Nil /\ count' = count + 1)
      /\ (last'.op = "offer" /\ last'.res # "added") => (parts' = parts /\ count' = count) ]_vars

(* ---- export for the replay harness ---------------------------------------- *)
Proj(ph, o, ps, c) == [phase |-> ph, orig |-> o, held |-> SymSeq(ps), count |-> c,
                       complete |-> (ph = "open" /\ c = Len(o))]
Edge == PrintT(ToJson([from |-> Proj(phase, orig, parts, count), act |-> last',
                       to |-> Proj(phase', orig', parts', count')]))
View == <<phase, orig, parts, count>>
=============================================================================
