\* model-only instance (thorough tier): the call-depth limit set to 2
SPECIFICATION Spec
CONSTANTS
  MaxOps = 4
  MaxFrameOps = 2
  MaxDepth = 3
  DepthLimit = 2
  TopKinds = {"call"}
  TopGas <- QuickTopGas
  TopValues = {1}
  LeafOps = {"sstore", "xfer", "revert", "invalid"}
  CallKinds = {"call", "delegate", "static"}
  CallValues = {0, 1, 9}
  CallReqs <- QuickCallReqs
  CreateValues = {1}
  NatTargets = {}
INVARIANTS TypeOK GasNeverGrows Conservation FinalState
PROPERTIES FrameAtomic ValueStaysWithCaller
CHECK_DEADLOCK FALSE
