------------------------------ MODULE EVMCosts ------------------------------
EXTENDS Integers
\* Gas cost of the harness' snippets (props/c20/asm.go).  This file holds the values
\* measured on the reference tree; the harness regenerates it from a traced calibration
\* run of the code under test before every TLC run (props/c20/calib.go).
CFrame == 162
CWork == 11
CSStore == 20006
CLog == 759
CXfer == 509709
CTokXfer == 9709
CRet == 15
CRevert == 15
CSuicide == 3
CSuicideFee == 500000
SuicideRefund == 24000
CCall0 == 721
CCallV == 509721
CCallCode0 == 721
CCallCodeV == 9721
CDelegate == 718
CStatic == 718
Stipend == 2300
CMark == 20009
CMarkCreate == 20015
CPop == 2
CCreatePre == 32162
CDeposit == 6400
CFee == 500000
CNewAcct == 25000
CPc1 == 3000
CPc2 == 60
CPc3 == 600
CPc4 == 15
CPc(i) == CASE i = 1 -> CPc1 [] i = 2 -> CPc2 [] i = 3 -> CPc3 [] i = 4 -> CPc4
CCallPre(kind, v) ==
  CASE kind = "call" -> (IF v > 0 THEN CCallV ELSE CCall0)
    [] kind = "callcode" -> (IF v > 0 THEN CCallCodeV ELSE CCallCode0)
    [] kind = "delegate" -> CDelegate
    [] kind = "static" -> CStatic
=============================================================================
