\* thorough tier: the quick bounds with many gas classes
\* (gas limits and gas requests exactly at / one below the cost boundaries of the ops)
SPECIFICATION Spec
CONSTANTS
  MaxOps = 3
  MaxFrameOps = 2
  MaxDepth = 2
  DepthLimit = 1024
  TopKinds = {"call", "create"}
  TopGas <- BigTopGas
  TopValues = {0, 1, 9}
  LeafOps = {"work", "sstore", "log", "xfer", "tokxfer", "selfdestruct", "return", "revert", "invalid", "loop"}
  CallKinds = {"call", "callcode", "delegate", "static"}
  CallValues = {0, 1, 9}
  CallReqs <- BigCallReqs
  CreateValues = {0, 1, 9}
  NatTargets = {}
INVARIANTS TypeOK GasNeverGrows Conservation FinalState
PROPERTIES FrameAtomic ValueStaysWithCaller
ACTION_CONSTRAINT Edge
CHECK_DEADLOCK FALSE
