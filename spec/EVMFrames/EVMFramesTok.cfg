\* quick tier, second instance: fewer op kinds and gas classes but one more op and one
\* more level, so that a failing frame can be followed by effects of its callers
\* (token / balance movements around reverted frames, self-destruct inside reverted frames)
SPECIFICATION Spec
CONSTANTS
  MaxOps = 4
  MaxFrameOps = 2
  MaxDepth = 3
  DepthLimit = 1024
  TopKinds = {"call"}
  TopGas <- DepthTopGas
  TopValues = {1}
  LeafOps = {"tokxfer", "xfer", "selfdestruct", "invalid"}
  CallKinds = {"call", "delegate"}
  CallValues = {0, 1}
  CallReqs <- TokCallReqs
  CreateValues = {}
  NatTargets = {}
INVARIANTS TypeOK GasNeverGrows Conservation FinalState
PROPERTIES FrameAtomic ValueStaysWithCaller
ACTION_CONSTRAINT Edge
CHECK_DEADLOCK FALSE
