\* model-only instance: the call-depth limit set to 1 so that the refused-call path
\* (ErrDepth: nothing happens, all gas comes back) is covered by the invariants
SPECIFICATION Spec
CONSTANTS
  MaxOps = 3
  MaxFrameOps = 2
  MaxDepth = 3
  DepthLimit = 1
  TopKinds = {"call"}
  TopGas <- DepthTopGas
  TopValues = {1}
  LeafOps = {"sstore", "xfer", "invalid"}
  CallKinds = {"call", "delegate"}
  CallValues = {0, 1, 9}
  CallReqs <- DepthCallReqs
  CreateValues = {1}
  NatTargets = {}
INVARIANTS TypeOK GasNeverGrows Conservation FinalState
PROPERTIES FrameAtomic ValueStaysWithCaller
CHECK_DEADLOCK FALSE
