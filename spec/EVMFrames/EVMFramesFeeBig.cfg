\* thorough tier: the transfer-fee mechanism, three ops. Gas limits and gas requests
\* exactly at / around the three boundaries of every fee-carrying op (cannot pay the cost
\* without the fee / can pay part of the fee / can pay all of it), so that the fee lists,
\* the refund on failure and what the invocation hands back are exercised in every frame
\* position (top frame, callee of CALL, callee of CALLCODE)
SPECIFICATION Spec
CONSTANTS
  MaxOps = 3
  MaxFrameOps = 2
  MaxDepth = 2
  DepthLimit = 1024
  TopKinds = {"call"}
  TopGas <- FeeTopGas
  TopValues = {1}
  LeafOps = {"xfer", "selfdestruct", "revert", "invalid"}
  CallKinds = {"call", "callcode"}
  CallValues = {0, 1}
  CallReqs <- FeeCallReqs
  CreateValues = {}
  NatTargets = {}
INVARIANTS TypeOK GasNeverGrows Conservation FinalState
PROPERTIES FrameAtomic ValueStaysWithCaller
ACTION_CONSTRAINT Edge
CHECK_DEADLOCK FALSE
