\* thorough tier: one more op and one more level than the quick instance
SPECIFICATION Spec
CONSTANTS
  MaxOps = 4
  MaxFrameOps = 2
  MaxDepth = 3
  DepthLimit = 1024
  TopKinds = {"call"}
  TopGas <- DepthTopGas
  TopValues = {1}
  LeafOps = {"sstore", "log", "xfer", "tokxfer", "selfdestruct", "return", "revert", "invalid"}
  CallKinds = {"call", "callcode", "delegate", "static"}
  CallValues = {0, 1}
  CallReqs <- QuickCallReqs
  CreateValues = {1}
  NatTargets = {}
INVARIANTS TypeOK GasNeverGrows Conservation FinalState
PROPERTIES FrameAtomic ValueStaysWithCaller
ACTION_CONSTRAINT Edge
CHECK_DEADLOCK FALSE
