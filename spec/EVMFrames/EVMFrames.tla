------------------------------ MODULE EVMFrames ------------------------------
(***************************************************************************)
(* The call-frame machine of vm/evm (evm.go Call / CallCode / DelegateCall *)
(* / StaticCall / create, interpreter.go Run, instructions.go opCall* /     *)
(* opCreate / opSuicide / opTransferToken) over a world shaped like         *)
(* state.StateDB: balances, token balances and the presence of an entry in  *)
(* the account's token map, nonces, storage, logs, suicide marks, deployed  *)
(* code, refund counter.  Snapshot / RevertToSnapshot = keeping the world   *)
(* value of the moment the code takes the snapshot.                         *)
(*                                                                          *)
(* A behaviour is one top-level invocation (runtime.Call or runtime.Create) *)
(* of a program.  The program is not given in advance: every step chooses   *)
(* the next abstract op of the running frame, so the set of behaviours is   *)
(* the set of (program tree, gas parameters) pairs within the bounds, each  *)
(* together with its execution.  `prog` records the chosen ops; the harness *)
(* assembles them to real bytecode (one snippet per op), runs it through    *)
(* vm/runtime and compares result, left-over gas and world with the values  *)
(* exported at the end of the behaviour.                                    *)
(*                                                                          *)
(* Abstract ops (one snippet each, cost from module EVMCosts, which the     *)
(* harness regenerates from a traced calibration run of the real code):     *)
(*   work, sstore (fresh slot), log, xfer (TRANSFERTOKEN of the native      *)
(*   coin to E), tokxfer (TRANSFERTOKEN of token T to E), selfdestruct (to  *)
(*   E), return, revert, invalid (0xfe), loop (runs out of gas),            *)
(*   call(kind, value, gas request) into a child frame, create(value).      *)
(* After a call/create returns the caller stores flag+1 in a marker slot    *)
(* (action Mark; in a write-protected frame it just pops the flag).         *)
(* Every frame starts with a memory set-up snippet (action Enter).          *)
(*                                                                          *)
(* Gas is concrete: the model computes with the real cost numbers, the      *)
(* "all but one 64th" rule, the call stipend, the code-deposit charge and   *)
(* burn-on-failure / keep-on-revert exactly as the code does, so the        *)
(* exported left-over gas is compared for equality.                         *)
(***************************************************************************)
EXTENDS Integers, Sequences, FiniteSets, TLC, Json, EVMCosts

CONSTANTS MaxOps,        \* bound: abstract ops in a program tree
          MaxFrameOps,   \* bound: abstract ops per frame
          MaxDepth,      \* bound: frames on the stack
          DepthLimit,    \* config.CallCreateDepth
          TopKinds,      \* subset of {"call", "create"}: runtime.Call / runtime.Create
          TopGas,        \* gas limits of the top-level invocation
          TopValues,     \* values of the top-level invocation (balance units)
          LeafOps,       \* subset of the leaf op names
          CallKinds,     \* subset of {"call", "callcode", "delegate", "static"}
          CallValues,    \* values passed by CALL / CALLCODE
          CallReqs,      \* gas requests of the CALL family (Huge = does not fit 64 bits)
          CreateValues   \* values passed by CREATE; {} = no CREATE ops

Huge == -1

\* accounts: origin (externally owned), beneficiary E (externally owned, funded),
\* root contract, and one account per op number: the callee of call op k / the
\* contract created by create op k.
O == 1
E == 2
R == 3
Acct(k) == 3 + k
NAcc == 3 + MaxOps
Accts == 1..NAcc

VARIABLES stack,   \* call frames, innermost last
          world,   \* the StateDB
          phase,   \* "init" | "run" | "done"
          nops,    \* ops chosen so far
          prog,    \* the ops chosen so far (the program, in execution order)
          top,     \* parameters of the top-level invocation
          result,  \* what the top-level invocation returned
          frames   \* ghost: one record per finished (or refused) frame
vars == <<stack, world, phase, nops, prog, top, result, frames>>

NoPend == [slot |-> 0, flag |-> 0, cr |-> FALSE]
NoResult == [ok |-> FALSE, cls |-> "", left |-> 0, ret |-> 0]
NoTop == [kind |-> "", gas |-> 0, value |-> 0]

World0(kind) ==
  [bal    |-> [a \in Accts |-> CASE a = O -> 3 [] a = E -> 1
                                 [] a = R -> (IF kind = "call" THEN 1 ELSE 0) [] OTHER -> 0],
   tok    |-> [a \in Accts |-> IF a = R /\ kind = "call" THEN 1 ELSE 0],
   ent    |-> IF kind = "call" THEN {R} ELSE {},   \* accounts whose token map has an entry for T
   nonce  |-> [a \in Accts |-> 0],
   st     |-> {},       \* storage: <<account, slot, value>>
   logs   |-> <<>>,     \* <<account, topic>>
   dead   |-> {},       \* accounts marked suicided
   code   |-> {},       \* created accounts whose code was stored
   refund |-> 0]

Init == /\ stack = <<>> /\ world = World0("call") /\ phase = "init" /\ nops = 0
        /\ prog = <<>> /\ top = NoTop /\ result = NoResult /\ frames = <<>>

Top == stack[Len(stack)]
D == Len(stack)

NewFrame(id, kind, ctx, gas, static, snap, pre) ==
  [id |-> id, kind |-> kind, ctx |-> ctx, gas |-> gas, sup |-> gas, static |-> static,
   snap |-> snap,   \* StateDB.Snapshot() of the code
   pre  |-> pre,    \* ghost: the world when the calling op started
   n |-> 0, entered |-> FALSE, pend |-> NoPend]

(* ---- the end of a frame ---------------------------------------------- *)
\* evm.Call & co after run(): on error RevertToSnapshot, and unless the error is
\* ExecutionReverted the remaining gas is used up; the caller gets `back`.
End(ok, cls, back, w, retid) ==
  LET f == Top IN
  /\ frames' = Append(frames, [id |-> f.id, ok |-> ok, cls |-> cls, sup |-> f.sup, back |-> back])
  /\ world' = IF ok THEN w ELSE f.snap
  /\ IF D = 1
     THEN /\ stack' = <<>> /\ phase' = "done"
          /\ result' = [ok |-> ok, cls |-> cls, left |-> back, ret |-> retid]
     ELSE /\ stack' = [i \in 1..D - 1 |->
                        IF i = D - 1
                        THEN [stack[i] EXCEPT !.gas = @ + back,
                                              !.pend = [slot |-> f.id, flag |-> IF ok THEN 1 ELSE 0,
                                                        cr |-> f.kind = "create"]]
                        ELSE stack[i]]
          /\ UNCHANGED <<phase, result>>

Burn(cls) == End(FALSE, cls, 0, world, 0)
Reverted(gasLeft, retid) == End(FALSE, "revert", gasLeft, world, retid)
\* the code halted without error; a create frame then pays for storing the returned code
Succeed(w, gasLeft, retid, codeLen) ==
  IF Top.kind = "create" /\ codeLen > 0
  THEN IF gasLeft < CDeposit THEN Burn("codestore")
       ELSE End(TRUE, "ok", gasLeft - CDeposit, [w EXCEPT !.code = @ \cup {Top.ctx}], retid)
  ELSE End(TRUE, "ok", gasLeft, w, retid)

Cont(g, w) == /\ stack' = [stack EXCEPT ![D].gas = g, ![D].n = @ + 1]
              /\ world' = w /\ UNCHANGED <<phase, result, frames>>

(* ---- the top-level invocation ---------------------------------------- *)
Start(kind, g, v) ==
  /\ phase = "init"
  /\ top' = [kind |-> kind, gas |-> g, value |-> v]
  /\ UNCHANGED <<nops, prog>>
  /\ LET w0 == World0(kind) IN
     IF kind = "call"
     THEN IF w0.bal[O] < v
          THEN \* evm.Call: ErrInsufficientBalance before anything happens
               /\ world' = w0 /\ stack' = <<>> /\ phase' = "done"
               /\ result' = [ok |-> FALSE, cls |-> "balance", left |-> g, ret |-> 0]
               /\ frames' = <<[id |-> 0, ok |-> FALSE, cls |-> "balance", sup |-> g, back |-> g]>>
          ELSE /\ world' = [w0 EXCEPT !.bal[O] = @ - v, !.bal[R] = @ + v]
               /\ stack' = <<NewFrame(0, "call", R, g, FALSE, w0, w0)>>
               /\ phase' = "run" /\ UNCHANGED <<result, frames>>
     ELSE \* evm.create at depth 0: no balance check, no nonce bump, UnsafeTransfer
          /\ world' = [w0 EXCEPT !.nonce[R] = 1, !.bal[R] = @ + v]
          /\ stack' = <<NewFrame(0, "create", R, g, FALSE, w0, w0)>>
          /\ phase' = "run" /\ UNCHANGED <<result, frames>>

(* ---- steps of the running frame -------------------------------------- *)
Enter == /\ phase = "run" /\ ~Top.entered
         /\ UNCHANGED <<nops, prog, top>>
         /\ IF Top.gas < CFrame THEN Burn("oog")
            ELSE /\ stack' = [stack EXCEPT ![D].gas = @ - CFrame, ![D].entered = TRUE]
                 /\ UNCHANGED <<world, phase, result, frames>>

Ready == phase = "run" /\ Top.entered /\ Top.pend.slot = 0
MayChoose == Ready /\ Top.n < MaxFrameOps /\ nops < MaxOps

\* the code of the frame ends (STOP)
EndOfCode == /\ Ready /\ UNCHANGED <<nops, prog, top>>
             /\ Succeed(world, Top.gas, 0, 0)

\* the caller's code after CALL* / CREATE: store flag+1 in the marker slot
Mark == /\ phase = "run" /\ Top.pend.slot # 0
        /\ UNCHANGED <<nops, prog, top>>
        /\ LET f == Top
               c == IF f.static THEN CPop ELSE IF f.pend.cr THEN CMarkCreate ELSE CMark
           IN IF f.gas < c THEN Burn("oog")
              ELSE /\ stack' = [stack EXCEPT ![D].gas = @ - c, ![D].pend = NoPend]
                   /\ world' = IF f.static THEN world
                               ELSE [world EXCEPT !.st = @ \cup {<<f.ctx, f.pend.slot, f.pend.flag + 1>>}]
                   /\ UNCHANGED <<phase, result, frames>>

Rec(op, kind, v, req, cn) ==
  [id |-> nops + 1, frame |-> Top.id, op |-> op, kind |-> kind, v |-> v, req |-> req, cn |-> cn]
Choose(r) == /\ nops' = nops + 1 /\ prog' = Append(prog, r) /\ UNCHANGED top

\* interpreter.Run: stack check, write protection, gas charge, then execute
Leaf(op) ==
  /\ MayChoose /\ Choose(Rec(op, "", 0, 0, 0))
  /\ LET f == Top  k == nops + 1  g == f.gas  c == f.ctx IN
     CASE op = "work" ->
            IF g < CWork THEN Burn("oog") ELSE Cont(g - CWork, world)
       [] op = "sstore" ->
            IF f.static THEN Burn("static") ELSE IF g < CSStore THEN Burn("oog")
            ELSE Cont(g - CSStore, [world EXCEPT !.st = @ \cup {<<c, k, 1>>}])
       [] op = "log" ->
            IF f.static THEN Burn("static") ELSE IF g < CLog THEN Burn("oog")
            ELSE Cont(g - CLog, [world EXCEPT !.logs = Append(@, <<c, k>>)])
       [] op = "xfer" ->   \* opTransferToken, native coin: charged, then reverts if unfunded
            IF f.static THEN Burn("static") ELSE IF g < CXfer THEN Burn("oog")
            ELSE IF world.bal[c] < 1 THEN Reverted(g - CXfer, 0)
            ELSE Cont(g - CXfer, [world EXCEPT !.bal[c] = @ - 1, !.bal[E] = @ + 1])
       [] op = "tokxfer" ->
            IF f.static THEN Burn("static") ELSE IF g < CTokXfer THEN Burn("oog")
            ELSE IF world.tok[c] < 1 THEN Reverted(g - CTokXfer, 0)
            ELSE Cont(g - CTokXfer, [world EXCEPT !.tok[c] = @ - 1, !.tok[E] = @ + 1, !.ent = @ \cup {c, E}])
       [] op = "selfdestruct" ->   \* gasSuicide + opSuicide + StateDB.Suicide
            LET cost == CSuicide + (IF world.bal[c] > 0 THEN CSuicideFee ELSE 0)
                w1 == [world EXCEPT !.bal[E] = @ + world.bal[c], !.bal[c] = 0,
                                    !.tok[E] = @ + world.tok[c], !.tok[c] = 0,
                                    \* Suicide() replaces the token map of c by an empty one
                                    !.ent = (IF world.tok[c] > 0 THEN @ \cup {E} ELSE @) \ {c},
                                    !.dead = @ \cup {c},
                                    !.refund = IF c \in world.dead THEN @ ELSE @ + SuicideRefund]
            IN IF f.static THEN Burn("static") ELSE IF g < cost THEN Burn("oog")
               ELSE Succeed(w1, g - cost, 0, 0)
       [] op = "return" ->
            IF g < CRet THEN Burn("oog") ELSE Succeed(world, g - CRet, k, 32)
       [] op = "revert" ->
            IF g < CRevert THEN Burn("oog") ELSE Reverted(g - CRevert, k)
       [] op = "invalid" -> Burn("invalid")
       [] op = "loop" -> Burn("oog")

\* gasCall*/callGas + opCall/opCallCode/opDelegateCall/opStaticCall + evm.Call & co
Call(kind, v, req) ==
  /\ MayChoose /\ D < MaxDepth /\ Choose(Rec("call", kind, v, req, 0))
  /\ LET f == Top  k == nops + 1
         hasV == v > 0
         pre == CCallPre(kind, v)
         avail == f.gas - pre
         cap == avail - (avail \div 64)
         temp == IF req = Huge \/ cap < req THEN cap ELSE req
         cgas == temp + (IF hasV THEN Stipend ELSE 0)
         callee == Acct(k)
         Refused(cls) ==   \* the callee never runs; all the gas comes back
           /\ stack' = [stack EXCEPT ![D].gas = (avail - temp) + cgas, ![D].n = @ + 1,
                                     ![D].pend = [slot |-> k, flag |-> 0, cr |-> FALSE]]
           /\ frames' = Append(frames, [id |-> k, ok |-> FALSE, cls |-> cls, sup |-> cgas, back |-> cgas])
           /\ UNCHANGED <<world, phase, result>>
     IN IF f.static /\ kind = "call" /\ hasV THEN Burn("static")
        ELSE IF f.gas < pre THEN Burn("oog")
        ELSE IF D > DepthLimit THEN Refused("depth")
        ELSE IF kind \in {"call", "callcode"} /\ world.bal[f.ctx] < v THEN Refused("balance")
        ELSE LET w1 == IF kind = "call"
                       THEN [world EXCEPT !.bal[f.ctx] = @ - v, !.bal[callee] = @ + v]
                       ELSE world
                 ctx == IF kind \in {"call", "static"} THEN callee ELSE f.ctx
             IN /\ stack' = Append([stack EXCEPT ![D].gas = avail - temp, ![D].n = @ + 1],
                                   NewFrame(k, kind, ctx, cgas, f.static \/ kind = "static", world, world))
                /\ world' = w1 /\ UNCHANGED <<phase, result, frames>>

\* gasCreate + opCreate + evm.create (depth > 0)
Create(v) ==
  /\ MayChoose /\ D < MaxDepth /\ Choose(Rec("create", "create", v, 0, world.nonce[Top.ctx]))
  /\ LET f == Top  k == nops + 1
         cgas == f.gas - CCreatePre     \* everything left goes to the init frame
         a == Acct(k)
         Refused(cls) ==
           /\ stack' = [stack EXCEPT ![D].gas = cgas, ![D].n = @ + 1,
                                     ![D].pend = [slot |-> k, flag |-> 0, cr |-> TRUE]]
           /\ frames' = Append(frames, [id |-> k, ok |-> FALSE, cls |-> cls, sup |-> cgas, back |-> cgas])
           /\ UNCHANGED <<world, phase, result>>
     IN IF f.static THEN Burn("static")
        ELSE IF f.gas < CCreatePre THEN Burn("oog")
        ELSE IF D > DepthLimit THEN Refused("depth")
        ELSE IF world.bal[f.ctx] < v THEN Refused("balance")
        ELSE LET w0 == [world EXCEPT !.nonce[f.ctx] = @ + 1]   \* before the snapshot
                 w1 == [w0 EXCEPT !.nonce[a] = 1, !.bal[f.ctx] = @ - v, !.bal[a] = @ + v]
             IN /\ stack' = Append([stack EXCEPT ![D].gas = 0, ![D].n = @ + 1],
                                   NewFrame(k, "create", a, cgas, FALSE, w0, world))
                /\ world' = w1 /\ UNCHANGED <<phase, result, frames>>

Next == \/ \E kind \in TopKinds, g \in TopGas, v \in TopValues : Start(kind, g, v)
        \/ Enter \/ Mark \/ EndOfCode
        \/ \E op \in LeafOps : Leaf(op)
        \/ \E kind \in CallKinds, req \in CallReqs :
             \E v \in (IF kind \in {"call", "callcode"} THEN CallValues ELSE {0}) : Call(kind, v, req)
        \/ \E v \in CreateValues : Create(v)

Spec == Init /\ [][Next]_vars

(* ---- what TLC checks -------------------------------------------------- *)
RECURSIVE SumTo(_, _)
SumTo(f, n) == IF n = 0 THEN 0 ELSE f[n] + SumTo(f, n - 1)
RECURSIVE GasOn(_)
GasOn(s) == IF s = <<>> THEN 0 ELSE Head(s).gas + GasOn(Tail(s))

TypeOK == /\ phase \in {"init", "run", "done"}
          /\ \A i \in 1..D : stack[i].gas >= 0
          /\ \A a \in Accts : world.bal[a] >= 0 /\ world.tok[a] >= 0

\* the gas in the machine never exceeds what the invocation was given; every frame
\* hands back at most what it was supplied with; a failure other than a revert (or a
\* call that was refused before the callee ran) hands back nothing.
GasNeverGrows ==
  /\ phase = "run" => GasOn(stack) <= top.gas
  /\ phase = "done" => result.left <= top.gas
  /\ \A i \in 1..Len(frames) :
       /\ frames[i].back <= frames[i].sup
       /\ (~frames[i].ok /\ frames[i].cls \notin {"revert", "depth", "balance"}) => frames[i].back = 0

\* value is neither created nor lost (a top-level create mints its endowment)
Conservation ==
  phase # "init" =>
    /\ SumTo(world.tok, NAcc) = SumTo(World0(top.kind).tok, NAcc)
    /\ top.kind = "call" => SumTo(world.bal, NAcc) = SumTo(World0("call").bal, NAcc)

Finished == Len(frames') = Len(frames) + 1
LastRec == frames'[Len(frames')]
Popped == phase = "run" /\ Len(stack') = D - 1
\* a frame that fails leaves the world as it was when the calling op started (for a
\* nested CREATE: except the creator's nonce, which the CREATE op itself bumps); a
\* call that is refused (depth, balance) changes nothing at all.
FrameAtomic ==
  [][ (Finished /\ ~LastRec.ok) =>
        IF Popped
        THEN world' = IF Top.kind = "create" /\ D > 1
                      THEN [Top.pre EXCEPT !.nonce[stack[D - 1].ctx] = @ + 1]
                      ELSE Top.pre
        ELSE IF phase = "init" THEN world' = World0(top'.kind) ELSE world' = world ]_vars
\* value sent into a failed call stays with the caller
ValueStaysWithCaller ==
  [][ (Finished /\ ~LastRec.ok /\ Popped) =>
        LET payer == IF D = 1 THEN O ELSE stack[D - 1].ctx IN
          world'.bal[payer] = Top.pre.bal[payer] ]_vars
\* DeterministicResult is structural: apart from the choice of the next op (which is
\* the program) no action has a disjunction, so (program, gas parameters) determine
\* the behaviour; the harness checks the same on the code by running everything twice.
\* a failed invocation leaves the pre-state
FinalState == phase = "done" /\ ~result.ok => world = World0(top.kind)

(* ---- bounded instances (referenced from the .cfg files) ------------- *)
GasBig == 10000000
\* exactly enough / one unit short for a frame whose first op is c
Edge1(c) == {CFrame + c - 1, CFrame + c}
QuickTopGas == {GasBig, CFrame + CSStore + CLog - 1}
QuickCallReqs == {Huge, CFrame + CSStore - 1}
DepthTopGas == {GasBig}
DepthCallReqs == {Huge, 30000}
TokCallReqs == {1200000}
BigTopGas == {GasBig, 1, 600000} \cup Edge1(CSStore)
BigCallReqs == {Huge, 0, 2300} \cup Edge1(CSStore)

(* ---- export for the replay harness ----------------------------------- *)
Export == [top |-> top, ops |-> prog, result |-> result, frames |-> frames, world |-> world]
Edge == (phase' = "done" /\ phase # "done") => PrintT(ToJson(Export'))
=============================================================================
