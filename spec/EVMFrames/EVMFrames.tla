------------------------------ MODULE EVMFrames ------------------------------
(***************************************************************************)
(* The call-frame machine of vm/evm (evm.go Call / CallCode / DelegateCall *)
(* / StaticCall / create, interpreter.go Run, instructions.go opCall* /     *)
(* opCreate / opSuicide / opTransferToken) over a world shaped like         *)
(* state.StateDB: balances, token balances and the presence of an entry in  *)
(* the account's token map, nonces, storage, logs, suicide marks, deployed  *)
(* code, refund counter.  Snapshot / RevertToSnapshot = keeping the world   *)
(* value of the moment the code takes the snapshot.                         *)
(*                                                                          *)
(* A behaviour is one top-level invocation (runtime.Call or runtime.Create) *)
(* of a program.  The program is not given in advance: every step chooses   *)
(* the next abstract op of the running frame, so the set of behaviours is   *)
(* the set of (program tree, gas parameters) pairs within the bounds, each  *)
(* together with its execution.  `prog` records the chosen ops; the harness *)
(* assembles them to real bytecode (one snippet per op), runs it through    *)
(* vm/runtime and compares result, left-over gas and world with the values  *)
(* exported at the end of the behaviour.                                    *)
(*                                                                          *)
(* Abstract ops (one snippet each, cost from module EVMCosts, which the     *)
(* harness regenerates from a traced calibration run of the real code):     *)
(*   work, sstore (fresh slot), log, xfer (TRANSFERTOKEN of the native      *)
(*   coin to E), tokxfer (TRANSFERTOKEN of token T to E), selfdestruct (to  *)
(*   E), return, revert, invalid (0xfe), loop (runs out of gas),            *)
(*   call(kind, value, gas request) into a child frame, create(value).      *)
(* After a call/create returns the caller stores flag+1 in a marker slot    *)
(* (action Mark; in a write-protected frame it just pops the flag).         *)
(* Every frame starts with a memory set-up snippet (action Enter).          *)
(*                                                                          *)
(* Gas is concrete: the model computes with the real cost numbers, the      *)
(* "all but one 64th" rule, the call stipend, the code-deposit charge and   *)
(* burn-on-failure / keep-on-revert exactly as the code does, so the        *)
(* exported left-over gas is compared for equality.                         *)
(*                                                                          *)
(* Transfer fees (evm.fees / evm.refundFees / evm.feeSaved).  The gas cost  *)
(* of an operation that moves the native coin (CALL with value,             *)
(* TRANSFERTOKEN of the native coin, SELFDESTRUCT of a holder) contains a   *)
(* FEE; the gas function pushes it on `fees`.  interpreter.Run: when the    *)
(* frame cannot pay the cost, the entry is popped again and - if the frame  *)
(* could have paid more than the cost without the fee - replaced by that    *)
(* excess.  opCall: when the callee fails (or is refused) every entry       *)
(* pushed since the CALL started, the CALL's own included, moves to         *)
(* `rfees`.  What the invocation finally hands back (app/state_transition)  *)
(* is leftOverGas + RefundFee() (= sum of rfees) when it succeeded and      *)
(* leftOverGas + RefundAllFee() (= sum of fees and rfees) when it failed.   *)
(*                                                                          *)
(* Call targets that are not in the state yet: the precompiled contracts    *)
(* (addresses 1..4; absent until first touched) and a fresh plain address.  *)
(* evm.Call: Snapshot, then - if the target does not exist - either return  *)
(* at once (no precompile, no value) or CreateAccount, then the transfer,   *)
(* then the native code (RequiredGas or out of gas; empty code for the      *)
(* plain address).  `world.ex` = which of these accounts exist.             *)
(***************************************************************************)
EXTENDS Integers, Sequences, FiniteSets, TLC, Json, EVMCosts

CONSTANTS MaxOps,        \* bound: abstract ops in a program tree
          MaxFrameOps,   \* bound: abstract ops per frame
          MaxDepth,      \* bound: frames on the stack
          DepthLimit,    \* config.CallCreateDepth
          TopKinds,      \* subset of {"call", "create"}: runtime.Call / runtime.Create
          TopGas,        \* gas limits of the top-level invocation
          TopValues,     \* values of the top-level invocation (balance units)
          LeafOps,       \* subset of the leaf op names
          CallKinds,     \* subset of {"call", "callcode", "delegate", "static"}
          CallValues,    \* values passed by CALL / CALLCODE
          CallReqs,      \* gas requests of the CALL family (Huge = does not fit 64 bits)
          CreateValues,  \* values passed by CREATE; {} = no CREATE ops
          NatTargets     \* subset of 1..5: call targets absent from the pre-state
                         \* (1..4 = precompiled contract i, 5 = fresh plain address)

Huge == -1

\* accounts: origin (externally owned), beneficiary E (externally owned, funded),
\* root contract, and one account per op number: the callee of call op k / the
\* contract created by create op k.
O == 1
E == 2
R == 3
Acct(k) == 3 + k
NAcc0 == 3 + MaxOps
Dyn(t) == NAcc0 + t          \* the account of native target t
Fresh == 5
NAcc == NAcc0 + 5
Accts == 1..NAcc
DynAccts == {Dyn(t) : t \in 1..5}

VARIABLES stack,   \* call frames, innermost last
          world,   \* the StateDB
          phase,   \* "init" | "run" | "done"
          nops,    \* ops chosen so far
          prog,    \* the ops chosen so far (the program, in execution order)
          top,     \* parameters of the top-level invocation
          result,  \* what the top-level invocation returned
          frames,  \* ghost: one record per finished (or refused) frame
          fees,    \* evm.fees: fees charged (or chargeable) and not handed back so far
          rfees    \* evm.refundFees: fees of failed calls, handed back with the result
vars == <<stack, world, phase, nops, prog, top, result, frames, fees, rfees>>

NoPend == [slot |-> 0, flag |-> 0, cr |-> FALSE]
NoResult == [ok |-> FALSE, cls |-> "", left |-> 0, ret |-> 0, refund |-> 0]
NoTop == [kind |-> "", gas |-> 0, value |-> 0]

World0(kind) ==
  [bal    |-> [a \in Accts |-> CASE a = O -> 3 [] a = E -> 1
                                 [] a = R -> (IF kind = "call" THEN 1 ELSE 0) [] OTHER -> 0],
   tok    |-> [a \in Accts |-> IF a = R /\ kind = "call" THEN 1 ELSE 0],
   ent    |-> IF kind = "call" THEN {R} ELSE {},   \* accounts whose token map has an entry for T
   nonce  |-> [a \in Accts |-> 0],
   st     |-> {},       \* storage: <<account, slot, value>>
   logs   |-> <<>>,     \* <<account, topic>>
   dead   |-> {},       \* accounts marked suicided
   code   |-> {},       \* created accounts whose code was stored
   ex     |-> {},       \* native targets (DynAccts) present in the state
   refund |-> 0]

Init == /\ stack = <<>> /\ world = World0("call") /\ phase = "init" /\ nops = 0
        /\ prog = <<>> /\ top = NoTop /\ result = NoResult /\ frames = <<>>
        /\ fees = <<>> /\ rfees = <<>>

Top == stack[Len(stack)]
D == Len(stack)

RECURSIVE SumSeq(_)
SumSeq(q) == IF q = <<>> THEN 0 ELSE Head(q) + SumSeq(Tail(q))

\* fidx: opCall's startFeesIndex = how many entries of `fees` are older than the CALL
\*       (-1: the calling op does not touch the fee lists: CALLCODE, DELEGATECALL,
\*       STATICCALL, CREATE, the top-level invocation)
\* nat:  -1 = the frame runs assembled code; >= 0 = native code needing that much gas
NewFrame(id, kind, ctx, gas, static, snap, pre, fidx, own, nat) ==
  [id |-> id, kind |-> kind, ctx |-> ctx, gas |-> gas, sup |-> gas, static |-> static,
   snap |-> snap,   \* StateDB.Snapshot() of the code
   pre  |-> pre,    \* ghost: the world when the calling op started
   fidx |-> fidx, own |-> own,   \* own: 1 = the first entry from fidx on is the CALL's own fee
   nat |-> nat,
   n |-> 0, entered |-> FALSE, pend |-> NoPend]

(* ---- the end of a frame ---------------------------------------------- *)
\* evm.Call & co after run(): on error RevertToSnapshot, and unless the error is
\* ExecutionReverted the remaining gas is used up; the caller gets `back`.
\* fs = evm.fees when the frame ends.  opCall, err # nil: the entries from
\* startFeesIndex on move to refundFees.
End(ok, cls, back, w, retid, fs) ==
  LET f == Top
      moved == IF ~ok /\ f.fidx >= 0 THEN SubSeq(fs, f.fidx + 1, Len(fs)) ELSE <<>>
      kept  == IF ~ok /\ f.fidx >= 0 THEN SubSeq(fs, 1, f.fidx) ELSE fs
      rf    == rfees \o moved
  IN
  /\ frames' = Append(frames, [id |-> f.id, ok |-> ok, cls |-> cls, sup |-> f.sup, back |-> back,
                               \* ghost: what this failure makes refundable, and the part of
                               \* it that was recorded inside the frame (not the CALL's own fee)
                               ref |-> SumSeq(moved),
                               inner |-> IF f.fidx >= 0 /\ ~ok /\ Len(fs) > f.fidx
                                         THEN SumSeq(SubSeq(fs, f.fidx + 1 + f.own, Len(fs))) ELSE 0])
  /\ world' = IF ok THEN w ELSE f.snap
  /\ fees' = kept /\ rfees' = rf
  /\ IF D = 1
     THEN /\ stack' = <<>> /\ phase' = "done"
          \* app/state_transition.go: tx.Gas += vm.RefundFee() / vm.RefundAllFee()
          /\ result' = [ok |-> ok, cls |-> cls, left |-> back, ret |-> retid,
                        refund |-> IF ok THEN SumSeq(rf) ELSE SumSeq(kept) + SumSeq(rf)]
     ELSE /\ stack' = [i \in 1..D - 1 |->
                        IF i = D - 1
                        THEN [stack[i] EXCEPT !.gas = @ + back,
                                              !.pend = [slot |-> f.id, flag |-> IF ok THEN 1 ELSE 0,
                                                        cr |-> f.kind = "create"]]
                        ELSE stack[i]]
          /\ UNCHANGED <<phase, result>>

Burn(cls) == End(FALSE, cls, 0, world, 0, fees)
BurnF(cls, fs) == End(FALSE, cls, 0, world, 0, fs)
\* interpreter.Run, !contract.UseGas(cost) with feeSaved: the entry just pushed is popped;
\* if the frame has more than the cost without the fee (plain), the excess is pushed instead
BurnOnFeeOp(g, plain) == BurnF("oog", IF g > plain THEN Append(fees, g - plain) ELSE fees)
Reverted(gasLeft, retid, fs) == End(FALSE, "revert", gasLeft, world, retid, fs)
\* the code halted without error; a create frame then pays for storing the returned code
Succeed(w, gasLeft, retid, codeLen, fs) ==
  IF Top.kind = "create" /\ codeLen > 0
  THEN IF gasLeft < CDeposit THEN BurnF("codestore", fs)
       ELSE End(TRUE, "ok", gasLeft - CDeposit, [w EXCEPT !.code = @ \cup {Top.ctx}], retid, fs)
  ELSE End(TRUE, "ok", gasLeft, w, retid, fs)

Cont(g, w, fs) == /\ stack' = [stack EXCEPT ![D].gas = g, ![D].n = @ + 1]
                  /\ world' = w /\ fees' = fs /\ UNCHANGED <<phase, result, frames, rfees>>

(* ---- the top-level invocation ---------------------------------------- *)
Start(kind, g, v) ==
  /\ phase = "init"
  /\ top' = [kind |-> kind, gas |-> g, value |-> v]
  /\ UNCHANGED <<nops, prog, fees, rfees>>
  /\ LET w0 == World0(kind) IN
     IF kind = "call"
     THEN IF w0.bal[O] < v
          THEN \* evm.Call: ErrInsufficientBalance before anything happens
               /\ world' = w0 /\ stack' = <<>> /\ phase' = "done"
               /\ result' = [ok |-> FALSE, cls |-> "balance", left |-> g, ret |-> 0, refund |-> 0]
               /\ frames' = <<[id |-> 0, ok |-> FALSE, cls |-> "balance", sup |-> g, back |-> g,
                               ref |-> 0, inner |-> 0]>>
          ELSE /\ world' = [w0 EXCEPT !.bal[O] = @ - v, !.bal[R] = @ + v]
               /\ stack' = <<NewFrame(0, "call", R, g, FALSE, w0, w0, -1, 0, -1)>>
               /\ phase' = "run" /\ UNCHANGED <<result, frames>>
     ELSE \* evm.create at depth 0: no balance check, no nonce bump, UnsafeTransfer
          /\ world' = [w0 EXCEPT !.nonce[R] = 1, !.bal[R] = @ + v]
          /\ stack' = <<NewFrame(0, "create", R, g, FALSE, w0, w0, -1, 0, -1)>>
          /\ phase' = "run" /\ UNCHANGED <<result, frames>>

(* ---- steps of the running frame -------------------------------------- *)
Enter == /\ phase = "run" /\ ~Top.entered /\ Top.nat < 0
         /\ UNCHANGED <<nops, prog, top>>
         /\ IF Top.gas < CFrame THEN Burn("oog")
            ELSE /\ stack' = [stack EXCEPT ![D].gas = @ - CFrame, ![D].entered = TRUE]
                 /\ UNCHANGED <<world, phase, result, frames, fees, rfees>>

\* run(): RunPrecompiledContract (UseGas(RequiredGas) or ErrOutOfGas) / no code at all
Native == /\ phase = "run" /\ ~Top.entered /\ Top.nat >= 0
          /\ UNCHANGED <<nops, prog, top>>
          /\ IF Top.gas < Top.nat THEN Burn("oog")
             ELSE Succeed(world, Top.gas - Top.nat, 0, 0, fees)

Ready == phase = "run" /\ Top.entered /\ Top.pend.slot = 0
MayChoose == Ready /\ Top.n < MaxFrameOps /\ nops < MaxOps

\* the code of the frame ends (STOP)
EndOfCode == /\ Ready /\ UNCHANGED <<nops, prog, top>>
             /\ Succeed(world, Top.gas, 0, 0, fees)

\* the caller's code after CALL* / CREATE: store flag+1 in the marker slot
Mark == /\ phase = "run" /\ Top.pend.slot # 0
        /\ UNCHANGED <<nops, prog, top>>
        /\ LET f == Top
               c == IF f.static THEN CPop ELSE IF f.pend.cr THEN CMarkCreate ELSE CMark
           IN IF f.gas < c THEN Burn("oog")
              ELSE /\ stack' = [stack EXCEPT ![D].gas = @ - c, ![D].pend = NoPend]
                   /\ world' = IF f.static THEN world
                               ELSE [world EXCEPT !.st = @ \cup {<<f.ctx, f.pend.slot, f.pend.flag + 1>>}]
                   /\ UNCHANGED <<phase, result, frames, fees, rfees>>

Rec(op, kind, v, req, cn, tg) ==
  [id |-> nops + 1, frame |-> Top.id, op |-> op, kind |-> kind, v |-> v, req |-> req, cn |-> cn, tg |-> tg]
Choose(r) == /\ nops' = nops + 1 /\ prog' = Append(prog, r) /\ UNCHANGED top

\* interpreter.Run: stack check, write protection, gas charge, then execute
Leaf(op) ==
  /\ MayChoose /\ Choose(Rec(op, "", 0, 0, 0, 0))
  /\ LET f == Top  k == nops + 1  g == f.gas  c == f.ctx IN
     CASE op = "work" ->
            IF g < CWork THEN Burn("oog") ELSE Cont(g - CWork, world, fees)
       [] op = "sstore" ->
            IF f.static THEN Burn("static") ELSE IF g < CSStore THEN Burn("oog")
            ELSE Cont(g - CSStore, [world EXCEPT !.st = @ \cup {<<c, k, 1>>}], fees)
       [] op = "log" ->
            IF f.static THEN Burn("static") ELSE IF g < CLog THEN Burn("oog")
            ELSE Cont(g - CLog, [world EXCEPT !.logs = Append(@, <<c, k>>)], fees)
       [] op = "xfer" ->   \* gasTransferToken (fee) + opTransferToken, native coin:
                           \* charged, then reverts if unfunded
            LET fs == Append(fees, CFee) IN
            IF f.static THEN Burn("static") ELSE IF g < CXfer THEN BurnOnFeeOp(g, CXfer - CFee)
            ELSE IF world.bal[c] < 1 THEN Reverted(g - CXfer, 0, fs)
            ELSE Cont(g - CXfer, [world EXCEPT !.bal[c] = @ - 1, !.bal[E] = @ + 1], fs)
       [] op = "tokxfer" ->
            IF f.static THEN Burn("static") ELSE IF g < CTokXfer THEN Burn("oog")
            ELSE IF world.tok[c] < 1 THEN Reverted(g - CTokXfer, 0, fees)
            ELSE Cont(g - CTokXfer, [world EXCEPT !.tok[c] = @ - 1, !.tok[E] = @ + 1, !.ent = @ \cup {c, E}], fees)
       [] op = "selfdestruct" ->   \* gasSuicide (fee if it holds the native coin) + opSuicide + StateDB.Suicide
            LET hasFee == world.bal[c] > 0
                cost == CSuicide + (IF hasFee THEN CSuicideFee ELSE 0)
                w1 == [world EXCEPT !.bal[E] = @ + world.bal[c], !.bal[c] = 0,
                                    !.tok[E] = @ + world.tok[c], !.tok[c] = 0,
                                    \* Suicide() replaces the token map of c by an empty one
                                    !.ent = (IF world.tok[c] > 0 THEN @ \cup {E} ELSE @) \ {c},
                                    !.dead = @ \cup {c},
                                    !.refund = IF c \in world.dead THEN @ ELSE @ + SuicideRefund]
            IN IF f.static THEN Burn("static")
               ELSE IF g < cost THEN (IF hasFee THEN BurnOnFeeOp(g, CSuicide) ELSE Burn("oog"))
               ELSE Succeed(w1, g - cost, 0, 0, IF hasFee THEN Append(fees, CSuicideFee) ELSE fees)
       [] op = "return" ->
            IF g < CRet THEN Burn("oog") ELSE Succeed(world, g - CRet, k, 32, fees)
       [] op = "revert" ->
            IF g < CRevert THEN Burn("oog") ELSE Reverted(g - CRevert, k, fees)
       [] op = "invalid" -> Burn("invalid")
       [] op = "loop" -> Burn("oog")

\* StateDB.Empty for a native target (nonce 0 and no code by construction)
EmptyAcct(w, a) == a \in DynAccts /\ (a \notin w.ex \/ w.bal[a] = 0)

\* gasCall*/callGas + opCall/opCallCode/opDelegateCall/opStaticCall + evm.Call & co
\* tg = 0: the callee is the contract Acct(k) running a child frame of the program;
\* tg in 1..5: a native target that may not exist yet
Call(kind, v, req, tg) ==
  /\ MayChoose /\ (IF tg = 0 THEN D < MaxDepth ELSE D <= MaxDepth)
  /\ Choose(Rec("call", kind, v, req, 0, tg))
  /\ LET f == Top  k == nops + 1
         hasV == v > 0
         callee == IF tg = 0 THEN Acct(k) ELSE Dyn(tg)
         hasFee == kind = "call" /\ hasV                       \* gasCall: gasFee(...) > 0
         pre == CCallPre(kind, v)
                + (IF kind = "call" /\ hasV /\ EmptyAcct(world, callee) THEN CNewAcct ELSE 0)
         avail == f.gas - pre
         cap == avail - (avail \div 64)
         temp == IF req = Huge \/ cap < req THEN cap ELSE req
         cgas == temp + (IF hasV THEN Stipend ELSE 0)
         fs == IF hasFee THEN Append(fees, CFee) ELSE fees
         own == IF hasFee THEN 1 ELSE 0
         fidx == IF kind = "call" THEN Len(fees) ELSE -1        \* opCall: startFeesIndex
         Refused(cls) ==   \* the callee never runs; all the gas comes back; opCall: err # nil
           /\ stack' = [stack EXCEPT ![D].gas = (avail - temp) + cgas, ![D].n = @ + 1,
                                     ![D].pend = [slot |-> k, flag |-> 0, cr |-> FALSE]]
           /\ frames' = Append(frames, [id |-> k, ok |-> FALSE, cls |-> cls, sup |-> cgas, back |-> cgas,
                                        ref |-> IF hasFee THEN CFee ELSE 0, inner |-> 0])
           /\ fees' = fees /\ rfees' = IF hasFee THEN Append(rfees, CFee) ELSE rfees
           /\ UNCHANGED <<world, phase, result>>
         NoAccount ==      \* evm.Call: "calling a non existing account, don't do anything"
           /\ stack' = [stack EXCEPT ![D].gas = (avail - temp) + cgas, ![D].n = @ + 1,
                                     ![D].pend = [slot |-> k, flag |-> 1, cr |-> FALSE]]
           /\ frames' = Append(frames, [id |-> k, ok |-> TRUE, cls |-> "noacct", sup |-> cgas, back |-> cgas,
                                        ref |-> 0, inner |-> 0])
           /\ UNCHANGED <<world, phase, result, fees, rfees>>
     IN IF f.static /\ kind = "call" /\ hasV THEN Burn("static")
        ELSE IF f.gas < pre
             THEN \* callGas wraps around (availableGas - base below zero): the gas for the
                  \* callee becomes the request itself (or an absurd amount for Huge), the
                  \* frame cannot pay; with a fee the excess over the cost without it stays
                  IF hasFee /\ req # Huge THEN BurnOnFeeOp(f.gas, pre - CFee + req)
                  ELSE Burn("oog")
        ELSE IF D > DepthLimit THEN Refused("depth")
        ELSE IF kind \in {"call", "callcode"} /\ world.bal[f.ctx] < v THEN Refused("balance")
        ELSE IF tg = Fresh /\ kind = "call" /\ ~hasV /\ callee \notin world.ex THEN NoAccount
        ELSE LET \* evm.Call: Snapshot(); if !Exist(addr) CreateAccount(addr); Transfer
                 w1 == IF kind = "call"
                       THEN [world EXCEPT !.bal[f.ctx] = @ - v, !.bal[callee] = @ + v,
                                          !.ex = IF tg = 0 THEN @ ELSE @ \cup {callee}]
                       ELSE world
                 ctx == IF kind \in {"call", "static"} THEN callee ELSE f.ctx
                 nat == IF tg = 0 THEN -1 ELSE IF tg = Fresh THEN 0 ELSE CPc(tg)
             IN /\ stack' = Append([stack EXCEPT ![D].gas = avail - temp, ![D].n = @ + 1],
                                   NewFrame(k, kind, ctx, cgas, f.static \/ kind = "static", world, world, fidx, own, nat))
                /\ world' = w1 /\ fees' = fs /\ UNCHANGED <<phase, result, frames, rfees>>

\* gasCreate + opCreate + evm.create (depth > 0)
Create(v) ==
  /\ MayChoose /\ D < MaxDepth /\ Choose(Rec("create", "create", v, 0, world.nonce[Top.ctx], 0))
  /\ LET f == Top  k == nops + 1
         cgas == f.gas - CCreatePre     \* everything left goes to the init frame
         a == Acct(k)
         Refused(cls) ==
           /\ stack' = [stack EXCEPT ![D].gas = cgas, ![D].n = @ + 1,
                                     ![D].pend = [slot |-> k, flag |-> 0, cr |-> TRUE]]
           /\ frames' = Append(frames, [id |-> k, ok |-> FALSE, cls |-> cls, sup |-> cgas, back |-> cgas,
                                        ref |-> 0, inner |-> 0])
           /\ UNCHANGED <<world, phase, result, fees, rfees>>
     IN IF f.static THEN Burn("static")
        ELSE IF f.gas < CCreatePre THEN Burn("oog")
        ELSE IF D > DepthLimit THEN Refused("depth")
        ELSE IF world.bal[f.ctx] < v THEN Refused("balance")
        ELSE LET w0 == [world EXCEPT !.nonce[f.ctx] = @ + 1]   \* before the snapshot
                 w1 == [w0 EXCEPT !.nonce[a] = 1, !.bal[f.ctx] = @ - v, !.bal[a] = @ + v]
             IN /\ stack' = Append([stack EXCEPT ![D].gas = 0, ![D].n = @ + 1],
                                   NewFrame(k, "create", a, cgas, FALSE, w0, world, -1, 0, -1))
                /\ world' = w1 /\ UNCHANGED <<phase, result, frames, fees, rfees>>

\* gas requests for a native target: exactly enough / one unit short of what the
\* native code needs (the stipend of a value call counted in), and "all"
NatReqs(tg, v) ==
  LET need == IF tg = Fresh THEN 0 ELSE CPc(tg)
      stip == IF v > 0 THEN Stipend ELSE 0
  IN {Huge} \cup (IF need > stip THEN {need - stip - 1, need - stip} ELSE {0})

Next == \/ \E kind \in TopKinds, g \in TopGas, v \in TopValues : Start(kind, g, v)
        \/ Enter \/ Native \/ Mark \/ EndOfCode
        \/ \E op \in LeafOps : Leaf(op)
        \/ \E kind \in CallKinds, req \in CallReqs :
             \E v \in (IF kind \in {"call", "callcode"} THEN CallValues ELSE {0}) : Call(kind, v, req, 0)
        \/ \E kind \in CallKinds, tg \in NatTargets :
             \E v \in (IF kind \in {"call", "callcode"} THEN CallValues ELSE {0}) :
               \E req \in NatReqs(tg, v) : Call(kind, v, req, tg)
        \/ \E v \in CreateValues : Create(v)

Spec == Init /\ [][Next]_vars

(* ---- what TLC checks -------------------------------------------------- *)
RECURSIVE SumTo(_, _)
SumTo(f, n) == IF n = 0 THEN 0 ELSE f[n] + SumTo(f, n - 1)
RECURSIVE GasOn(_)
GasOn(s) == IF s = <<>> THEN 0 ELSE Head(s).gas + GasOn(Tail(s))

TypeOK == /\ phase \in {"init", "run", "done"}
          /\ \A i \in 1..D : stack[i].gas >= 0
          /\ \A a \in Accts : world.bal[a] >= 0 /\ world.tok[a] >= 0
          /\ \A i \in 1..Len(fees) : fees[i] > 0
          /\ \A i \in 1..Len(rfees) : rfees[i] > 0
          /\ world.ex \subseteq DynAccts
          /\ \A a \in DynAccts \ world.ex : world.bal[a] = 0 /\ world.tok[a] = 0

\* the gas in the machine, INCLUDING every fee that may still be handed back, never
\* exceeds what the invocation was given; what the caller of the top frame finally gets
\* (left-over gas + refunded fees) is at most the gas supplied; every frame hands back
\* at most what it was supplied with, the fee entries recorded inside it included; a
\* failure other than a revert (or a call that was refused before the callee ran) hands
\* back no gas.
GasNeverGrows ==
  /\ phase = "run" => GasOn(stack) + SumSeq(fees) + SumSeq(rfees) <= top.gas
  /\ phase = "done" => result.left + result.refund <= top.gas
  /\ \A i \in 1..Len(frames) :
       /\ frames[i].back <= frames[i].sup
       /\ frames[i].back + frames[i].inner <= frames[i].sup
       /\ (~frames[i].ok /\ frames[i].cls \notin {"revert", "depth", "balance"}) => frames[i].back = 0

\* value is neither created nor lost (a top-level create mints its endowment)
Conservation ==
  phase # "init" =>
    /\ SumTo(world.tok, NAcc) = SumTo(World0(top.kind).tok, NAcc)
    /\ top.kind = "call" => SumTo(world.bal, NAcc) = SumTo(World0("call").bal, NAcc)

Finished == Len(frames') = Len(frames) + 1
LastRec == frames'[Len(frames')]
Popped == phase = "run" /\ Len(stack') = D - 1
\* a frame that fails leaves the world as it was when the calling op started (for a
\* nested CREATE: except the creator's nonce, which the CREATE op itself bumps) - this
\* includes the account the call itself created for a target that did not exist; a
\* call that is refused (depth, balance) changes nothing at all.
FrameAtomic ==
  [][ (Finished /\ ~LastRec.ok) =>
        IF Popped
        THEN world' = IF Top.kind = "create" /\ D > 1
                      THEN [Top.pre EXCEPT !.nonce[stack[D - 1].ctx] = @ + 1]
                      ELSE Top.pre
        ELSE IF phase = "init" THEN world' = World0(top'.kind) ELSE world' = world ]_vars
\* value sent into a failed call stays with the caller
ValueStaysWithCaller ==
  [][ (Finished /\ ~LastRec.ok /\ Popped) =>
        LET payer == IF D = 1 THEN O ELSE stack[D - 1].ctx IN
          world'.bal[payer] = Top.pre.bal[payer] ]_vars
\* DeterministicResult is structural: apart from the choice of the next op (which is
\* the program) no action has a disjunction, so (program, gas parameters) determine
\* the behaviour; the harness checks the same on the code by running everything twice.
\* a failed invocation leaves the pre-state
FinalState == phase = "done" /\ ~result.ok => world = World0(top.kind)

(* ---- bounded instances (referenced from the .cfg files) ------------- *)
GasBig == 10000000
\* exactly enough / one unit short for a frame whose first op is c
Edge1(c) == {CFrame + c - 1, CFrame + c}
QuickTopGas == {GasBig, CFrame + CSStore + CLog - 1}
QuickCallReqs == {Huge, CFrame + CSStore - 1}
DepthTopGas == {GasBig}
DepthCallReqs == {Huge, 30000}
TokCallReqs == {1200000}
BigTopGas == {GasBig, 1, 600000} \cup Edge1(CSStore)
BigCallReqs == {Huge, 0, 2300} \cup Edge1(CSStore)

\* fee instance: budgets around "cannot pay the cost without the fee" / "can pay part of
\* the fee" / "can pay everything" for each fee-carrying first op of a frame
FeeEdge(plain, fee) == {CFrame + plain - 1, CFrame + plain, CFrame + plain + 1,
                        CFrame + plain + fee - 1, CFrame + plain + fee}
FeeReq == 50000
FeeTopGas == {GasBig} \cup FeeEdge(CXfer - CFee, CFee) \cup FeeEdge(CSuicide, CSuicideFee)
             \cup FeeEdge(CCallV - CFee + FeeReq, CFee)
FeeCallReqs == {Huge, FeeReq} \cup FeeEdge(CXfer - CFee, CFee) \cup FeeEdge(CCallV - CFee + FeeReq, CFee)
NatTopGas == {GasBig, CFrame + CCall0 + 3000}

(* ---- export for the replay harness ----------------------------------- *)
Export == [top |-> top, ops |-> prog, result |-> result, frames |-> frames, world |-> world,
           fees |-> fees, rfees |-> rfees]
Edge == (phase' = "done" /\ phase # "done") => PrintT(ToJson(Export'))
=============================================================================
