\* quick tier: exhaustive, seconds
SPECIFICATION Spec
CONSTANTS
  MaxOps = 3
  MaxFrameOps = 2
  MaxDepth = 2
  DepthLimit = 1024
  TopKinds = {"call", "create"}
  TopGas <- QuickTopGas
  TopValues = {0, 1}
  LeafOps = {"work", "sstore", "log", "xfer", "tokxfer", "selfdestruct", "return", "revert", "invalid", "loop"}
  CallKinds = {"call", "callcode", "delegate", "static"}
  CallValues = {0, 1, 9}
  CallReqs <- QuickCallReqs
  CreateValues = {0, 1}
  NatTargets = {}
INVARIANTS TypeOK GasNeverGrows Conservation FinalState
PROPERTIES FrameAtomic ValueStaysWithCaller
ACTION_CONSTRAINT Edge
CHECK_DEADLOCK FALSE
