\* quick tier, fourth instance: call targets that are not in the state yet (the
\* precompiled contracts 1..4 and a fresh plain address), called with exactly enough gas /
\* one unit short / everything, with and without value, by every call kind, from the
\* top frame and from a callee that may itself fail afterwards
SPECIFICATION Spec
CONSTANTS
  MaxOps = 3
  MaxFrameOps = 2
  MaxDepth = 2
  DepthLimit = 1024
  TopKinds = {"call"}
  TopGas <- DepthTopGas
  TopValues = {1}
  LeafOps = {"sstore", "invalid"}
  CallKinds = {"call", "static"}
  CallValues = {0, 1}
  CallReqs <- DepthCallReqs
  CreateValues = {}
  NatTargets = {1, 2, 4, 5}
INVARIANTS TypeOK GasNeverGrows Conservation FinalState
PROPERTIES FrameAtomic ValueStaysWithCaller
ACTION_CONSTRAINT Edge
CHECK_DEADLOCK FALSE
