----------------------------- MODULE PeerInput -----------------------------
(***************************************************************************)
(* C16 - no message from a single peer can halt a node's consensus.        *)
(*                                                                         *)
(* One node, one attacking peer.  The node is in one of the STATE CLASSES  *)
(* of ClassTab (what handleMsg reads of the RoundState: height, round,     *)
(* step, LastCommit nil or not, proposal set or not, part set expected or  *)
(* not and which parts are there, which votes are held).  The peer sends   *)
(* any message of the BOUNDARY LATTICE Msgs(c): for every message type a   *)
(* valid base message and all single and double field deviations over      *)
(* nil / -1 / 0 / valid / valid+-1 / MaxInt / huge.                        *)
(*                                                                         *)
(* Two independent definitions are compared by TLC:                        *)
(*  (1) the OPERATIONAL transcription of the code path of a message:       *)
(*      ConsensusReactor.Receive (reactor stage: decode, per-channel type  *)
(*      switch, forward to peerMsgQueue) and ConsensusState.handleMsg ->   *)
(*      defaultSetProposal / addProposalBlockPart / tryAddVote -> addVote  *)
(*      -> HeightVoteSet.AddVote -> VoteSet.addVote, PartSet.AddPart, in   *)
(*      the order of the code's checks, with PARTIAL operations explicit:  *)
(*      a nil dereference, an index outside a slice, make() with a         *)
(*      negative length and AddVote on a nil VoteSet are "panic"; a panic  *)
(*      in handleMsg ends receiveRoutine: running' = FALSE;                *)
(*  (2) the DECLARATIVE predicate MayAffect(m): the message may            *)
(*      legitimately change the RoundState (over-approximation).           *)
(*                                                                         *)
(* The harm of an input may show only at a LATER step of the node itself:  *)
(* what a message leaves behind even when it is rejected (the RESIDUE: a   *)
(* vote-set entry HeightVoteSet.AddVote creates for a round the node does  *)
(* not track yet - before the vote is verified -, the peer's catch-up      *)
(* quota, a majority claim, an accepted proposal / part) is part of the    *)
(* model state, and after the peer's input the node takes its OWN steps:   *)
(* Start (NewHeight timeout: enterNewRound(h, 0)), Advance (timeouts / nil *)
(* precommits: enterNewRound(h, r+1)), Skip (+2/3 votes of round r+2:      *)
(* enterNewRound(h, r+2)) - up to MaxOwn round changes -, Commit (the      *)
(* height is decided, a fresh HeightVoteSet) and Start of the next height. *)
(* enterNewRound calls HeightVoteSet.SetRound(round+1), which is partial   *)
(* (two sanity panics) and runs over the entries the peer created.         *)
(*                                                                         *)
(* Every message that reaches peerMsgQueue is written to the write-ahead   *)
(* log BEFORE handleMsg (receiveRoutine: cs.wal.Write(mi)); baseWAL.Write  *)
(* turns an encoder error into a panic.  The WAL record wraps the message  *)
(* (time stamp, type prefixes, peer id: WalWrap bytes), so message SIZE is *)
(* a lattice dimension: the largest message the reactor accepts (Lim),     *)
(* one byte less, one byte more.                                           *)
(*                                                                         *)
(* Properties: AlwaysRunning (invariant, over peer input AND own steps)    *)
(* and InvalidIsStutter (action                                            *)
(* property: not MayAffect => the RoundState projection is unchanged).     *)
(* With the Fix* constants FALSE the model is the code as it is and TLC    *)
(* finds the halting inputs; with TRUE it is the repaired code.  Every     *)
(* explored (class, message) pair is exported with the expected outcome;   *)
(* the harness instantiates it on the real reactor and state machine.      *)
(*                                                                         *)
(* Integers stand for boundary values: NEG = "at most -2" (the harness     *)
(* uses -2, -64, -65, MinInt32, MinInt64), MAXI = "huge" (MaxInt32,        *)
(* MaxInt32+1, MaxInt64), FAR = a round the node does not track, MAXH =    *)
(* MaxUint64 (MAXH + 1 wraps to 0).  Validators: 0 = the node itself,      *)
(* 1 = the proposer of its current (height, round), 2 and 3 the others.    *)
(***************************************************************************)
EXTENDS Integers, FiniteSets, Sequences, TLC, Json

CONSTANTS Classes,            \* names of the state classes to explore
          Pairs,              \* "all": every double deviation; "key": double deviations must involve a key field
          FixLastCommitNil,   \* addVote returns ErrVoteHeightMismatch when cs.LastCommit = nil
          FixPartIndexNeg,    \* PartSet.AddPart rejects part.Index < 0
          FixTotalNeg,        \* defaultSetProposal rejects BlockPartsHeader.Total < 0
          FixTotalMax,        \* ... and a Total above what the largest allowed block can have
          FixRecoverAuth,     \* the recover path of defaultSetProposal requires a validator's signature
          FixBlockComponents, \* a decoded block with a missing header / data / last commit, or evidence with missing members, is rejected
          SetRoundSkipsExisting, \* HeightVoteSet.SetRound skips a round that already has an entry (TRUE: the code; FALSE: what if it called addRound)
          WalEncoderLimit     \* WALEncoder.Encode refuses a record above maxMsgSizeBytes (FALSE: the code - only the decoder has the bound)

NEG  == -9
MAXI == 99
FAR  == 7
MAXH == 99
NV   == 4              \* validators
NP   == 3              \* parts of the expected part set (the harness maps 0,1,2,3 to 0,1,Total-1,Total)
Vals == 0 .. NV - 1
MaxOwn == 2            \* round changes (Advance / Skip) the node makes on its own after the peer's input

\* message sizes (bytes on the wire).  Lim = maxMsgSize of the reactor (decodeMsg refuses len > maxMsgSize; it is also the
\* RecvMessageCapacity of the four channels) = maxMsgSizeBytes of the WAL decoder (1 MiB in the code; the harness uses the
\* real numbers).  WalWrap = what TimedWALMessage{Time, msgInfo{Msg, PeerID}} adds to the bare message (78-79 bytes).
Lim     == 10000
Small   == 300
WalWrap == 79
Sizes   == {"small", "lim-1", "lim", "lim+1"}
Bytes(sz) == CASE sz = "small" -> Small [] sz = "lim-1" -> Lim - 1 [] sz = "lim" -> Lim [] sz = "lim+1" -> Lim + 1

\* RoundStepType of the code
StNewHeight == 1  StNewRound == 2  StPropose == 3  StPrevote == 4  StPrevoteWait == 5
StPrecommit == 6  StPrecommitWait == 7  StCommit == 8

Prevote == 1  Precommit == 2

(* ---- state classes ------------------------------------------------------ *)
\* held: votes of the current height the node holds, <<round, type, validator, value>>
\* lcHeld: validators whose precommit of height h-1 is in cs.LastCommit
AllOf(rr, ty, vs, b) == {<<rr, ty, v, b>> : v \in vs}
Cls(h, r, step, lc, lcHeld, prop, exp, have, blk, stalled, held) ==
  [h |-> h, r |-> r, step |-> step, lc |-> lc, lcHeld |-> lcHeld, prop |-> prop, exp |-> exp,
   have |-> have, blk |-> blk, stalled |-> stalled, held |-> held]

ClassTab ==
  [ c \in {"h1-newheight", "h1-propose", "h1-parts", "h1-prevote", "h1-prevotewait", "h1-precommit",
           "h1-precommitwait", "h1-commit", "h1-r1-propose", "h2-newheight", "h2-propose", "h1-stalled"} |->
    CASE c = "h1-newheight"     -> Cls(1, 0, StNewHeight, FALSE, {}, FALSE, FALSE, {}, FALSE, FALSE, {})
      [] c = "h1-propose"       -> Cls(1, 0, StPropose, FALSE, {}, FALSE, FALSE, {}, FALSE, FALSE, {})
      [] c = "h1-parts"         -> Cls(1, 0, StPropose, FALSE, {}, TRUE, TRUE, {0}, FALSE, FALSE, {})
      [] c = "h1-prevote"       -> Cls(1, 0, StPrevote, FALSE, {}, TRUE, TRUE, {0, 1, 2}, TRUE, FALSE,
                                       {<<0, Prevote, 0, "block">>})
      [] c = "h1-prevotewait"   -> Cls(1, 0, StPrevoteWait, FALSE, {}, TRUE, TRUE, {0, 1, 2}, TRUE, FALSE,
                                       {<<0, Prevote, 0, "block">>, <<0, Prevote, 1, "block">>, <<0, Prevote, 2, "nil">>})
      [] c = "h1-precommit"     -> Cls(1, 0, StPrecommit, FALSE, {}, TRUE, TRUE, {0, 1, 2}, TRUE, FALSE,
                                       AllOf(0, Prevote, Vals, "block") \cup {<<0, Precommit, 0, "block">>})
      [] c = "h1-precommitwait" -> Cls(1, 0, StPrecommitWait, FALSE, {}, TRUE, TRUE, {0, 1, 2}, TRUE, FALSE,
                                       AllOf(0, Prevote, Vals, "block") \cup
                                       {<<0, Precommit, 0, "block">>, <<0, Precommit, 1, "block">>, <<0, Precommit, 2, "nil">>})
      \* (entering Commit from Propose the node first precommits nil itself: enterPrecommit without a polka)
      [] c = "h1-commit"        -> Cls(1, 0, StCommit, FALSE, {}, FALSE, TRUE, {}, FALSE, FALSE,
                                       AllOf(0, Precommit, {1, 2, 3}, "block") \cup {<<0, Precommit, 0, "nil">>})
      [] c = "h1-r1-propose"    -> Cls(1, 1, StPropose, FALSE, {}, FALSE, FALSE, {}, FALSE, FALSE,
                                       AllOf(0, Prevote, {0, 1, 2}, "nil") \cup AllOf(0, Precommit, Vals, "nil"))
      [] c = "h2-newheight"     -> Cls(2, 0, StNewHeight, TRUE, {0, 1, 2}, FALSE, FALSE, {}, FALSE, FALSE, {})
      [] c = "h2-propose"       -> Cls(2, 0, StPropose, TRUE, {0, 1, 2}, FALSE, FALSE, {}, FALSE, FALSE, {})
      [] c = "h1-stalled"       -> Cls(1, 0, StPropose, FALSE, {}, FALSE, FALSE, {}, FALSE, TRUE, {}) ]

(* ---- variables ------------------------------------------------------------ *)
VARIABLES cls,      \* name of the state class the node was in when the peer's input arrived
          rs,       \* what a message can change or leave behind: see RS0
          own,      \* where the node's own steps have taken it since: see OwnOf
          running,  \* receiveRoutine is alive
          last      \* label of the last step (output only)
vars == <<cls, rs, own, running, last>>

\* q: catch-up rounds the peer has made HeightVoteSet allocate (peerCatchupRounds, at most 2)
\* claim: the peer's VoteSetMaj23 claim, <<round, type, value>> or <<>> (VoteSet.peerMaj23s; the model keeps one)
\* changed: the message was accepted (proposal set / part added / vote added / recover entered): no further
\*          message is delivered; what the consensus algorithm makes of it is C01's business, but the node's own
\*          steps below must not fail from there either (the harness then only checks that nothing fails)
\* cat: the rounds above the tracked ones for which the peer has made HeightVoteSet create an entry (roundVoteSets), as far
\*      as the node's own steps can run into them (Near); entries further away are only counted in q
RS0 == [q |-> 0, claim |-> <<>>, changed |-> "no", cat |-> {}]

C == ClassTab[cls]

\* own: height, round, step of the node; hvr = HeightVoteSet.round, the highest round SetRound has tracked (0 before
\* enterNewRound of the height, round + 1 afterwards); n = round changes made; committed = the class's height is decided
OwnOf(c) == LET K == ClassTab[c]
            IN  [h |-> K.h, r |-> K.r, step |-> K.step, hvr |-> IF K.step = StNewHeight THEN 0 ELSE K.r + 1, n |-> 0, committed |-> FALSE]

\* rounds for which the node's HeightVoteSet tracks vote sets: only round 0 before enterNewRound
\* (step NewHeight), rounds 0..r+1 afterwards (SetRound(round+1))
Tracked(rr) == rr \in 0 .. own.hvr
\* getVoteSet(round) # nil: tracked, or an entry a catch-up vote created
HasSet(rr) == Tracked(rr) \/ rr \in rs.cat
\* the rounds SetRound can reach within MaxOwn own round changes
Near(rr) == rr \in 1 .. C.r + 2 * MaxOwn + 1

(* ---- the message lattice ---------------------------------------------------- *)
Heights == {0, C.h - 1, C.h, C.h + 1, MAXH}
Rounds  == {NEG, -1, 0, 1, 2, 3, FAR, MAXI}
Types   == {Prevote, Precommit, 0, 3, 255}
BitArrs == {"nil", "ok", "short", "long", "incons", "neg"}   \* BitArray: nil / right size / smaller / larger / Bits > 64*len(Elems) / Bits < 0

VoteDom ==
  [nilc |-> BOOLEAN, h |-> Heights, r |-> Rounds, typ |-> Types, who |-> Vals,
   vidx |-> {"who", "other", "neg1", "negbig", "size", "max"},
   vaddr |-> {"who", "other", "empty", "garbage"},
   size |-> {-1, 0, NV - 1, NV, NV + 1, MAXI},
   bid  |-> {"nil", "block", "unknown", "huge"},
   sig  |-> {"who", "other", "bad", "none"},
   sz   |-> Sizes]      \* a vote is made large through BlockID.PartsHeader.Hash: it then names an unknown block (VBid)
VoteBase(typ) == [t |-> "vote", ch |-> "vote", nilc |-> FALSE, h |-> C.h, r |-> C.r, typ |-> typ, who |-> 3,
                  vidx |-> "who", vaddr |-> "who", size |-> NV, bid |-> "block", sig |-> "who", sz |-> "small"]
\* a straggler precommit of the previous height (what cs.LastCommit collects in step NewHeight)
StragglerBase == [VoteBase(Precommit) EXCEPT !.h = C.h - 1, !.r = 0]
VoteKey == {"sig", "h", "typ"}

PropDom ==
  [nilc |-> BOOLEAN, ptype |-> {"normal", "recover", "zero", "bad"}, h |-> Heights, r |-> Rounds,
   pol |-> {NEG, -1, 0, 1, FAR, MAXI}, total |-> {NEG, -1, 0, NP, MAXI}, hash |-> {"ok", "empty", "long"},
   polbid |-> {"nil", "block", "huge"}, sig |-> {"proposer", "other", "bad", "none"},
   sz |-> Sizes]        \* a proposal is made large through BlockPartsHeader.Hash (which defaultSetProposal does not look at)
PropBase == [t |-> "proposal", ch |-> "data", nilc |-> FALSE, ptype |-> "normal", h |-> C.h, r |-> C.r, pol |-> -1,
             total |-> NP, hash |-> "ok", polbid |-> "nil", sig |-> "proposer", sz |-> "small"]
\* the message the recover path of defaultSetProposal looks for
RecoverBase == [PropBase EXCEPT !.ptype = "recover", !.r = C.r + 1]
PropKey == {"sig", "h", "r", "total"}

PartDom ==
  [nilc |-> BOOLEAN, h |-> Heights, r |-> Rounds, idx |-> {NEG, -1, 0, 1, 2, NP, MAXI},
   bytes |-> {"ok", "garbage", "empty"}, proof |-> {"ok", "garbage", "empty", "long"},
   sz |-> Sizes]        \* a part is made large through Part.Bytes: it cannot have a valid Merkle proof (honest parts have BlockPartSizeBytes)
MissingIdx == IF C.exp /\ C.have # 0 .. NP - 1 THEN CHOOSE i \in 0 .. NP - 1 : i \notin C.have /\ \A j \in 0 .. NP - 1 : j \notin C.have => i <= j ELSE 0
PartBase == [t |-> "part", ch |-> "data", nilc |-> FALSE, h |-> C.h, r |-> C.r, idx |-> MissingIdx, bytes |-> "ok", proof |-> "ok", sz |-> "small"]
PartKey == {"idx", "h"}

NrsDom == [h |-> Heights, r |-> Rounds, step |-> {0, 1, 3, 8, 9, 255}, secs |-> {-1, 0, MAXI}, lcr |-> {NEG, -1, 0, MAXI}]
NrsBase == [t |-> "nrs", ch |-> "state", h |-> C.h, r |-> C.r, step |-> C.step, secs |-> 0, lcr |-> -1]

CsDom == [h |-> Heights, hdr |-> {"ok", "zero", "unknown", "negtotal"}, ba |-> BitArrs]
CsBase == [t |-> "commitstep", ch |-> "state", h |-> C.h, hdr |-> "ok", ba |-> "ok"]

HvDom == [h |-> Heights, r |-> Rounds, typ |-> Types, idx |-> {NEG, -1, 0, NV - 1, NV, MAXI}]
HvBase == [t |-> "hasvote", ch |-> "state", h |-> C.h, r |-> C.r, typ |-> Prevote, idx |-> 1]

MjDom == [h |-> Heights, r |-> Rounds, typ |-> Types, bid |-> {"nil", "block", "unknown", "huge"}]
MjBase == [t |-> "maj23", ch |-> "state", h |-> C.h, r |-> C.r, typ |-> Prevote, bid |-> "block"]

\* (VoteSetBits and ProposalPOL messages are made large through the elements of their BitArray)
VbDom == [h |-> Heights, r |-> Rounds, typ |-> Types, bid |-> {"nil", "block", "unknown", "huge"}, ba |-> BitArrs, sz |-> Sizes]
VbBase == [t |-> "bits", ch |-> "bits", h |-> C.h, r |-> C.r, typ |-> Prevote, bid |-> "block", ba |-> "ok", sz |-> "small"]

PolDom == [h |-> Heights, polr |-> {NEG, -1, 0, 1, FAR, MAXI}, ba |-> BitArrs, sz |-> Sizes]
PolBase == [t |-> "pol", ch |-> "data", h |-> C.h, polr |-> 0, ba |-> "ok", sz |-> "small"]

HbDom == [nilc |-> BOOLEAN, h |-> Heights, r |-> {NEG, 0, MAXI}, idx |-> {NEG, 0, MAXI}]
HbBase == [t |-> "heartbeat", ch |-> "state", nilc |-> FALSE, h |-> C.h, r |-> C.r, idx |-> 1]

\* single and double deviations of a base message
Dev1(base, dom) == {[base EXCEPT ![f] = v] : <<f, v>> \in UNION {{<<f, v>> : v \in dom[f]} : f \in DOMAIN dom}}
\* (with Pairs = "key" the size is paired only with the signature class and the part index)
SzKey == {"sig", "idx"}
Dev2(base, dom, key) ==
  LET FV == UNION {{<<f, v>> : v \in dom[f] \ {base[f]}} : f \in DOMAIN dom}
  IN  {[base EXCEPT ![a[1]] = a[2], ![b[1]] = b[2]] :
         <<a, b>> \in {p \in FV \X FV : /\ p[1][1] # p[2][1]
                                        /\ \/ Pairs = "all"
                                           \/ p[1][1] \in key /\ p[2][1] # "sz" /\ p[1][1] # "sz"
                                           \/ p[1][1] \in SzKey /\ p[2][1] = "sz"}}
Dev(base, dom, key) == {base} \cup Dev1(base, dom) \cup Dev2(base, dom, key)

\* A Byzantine proposer's block: the proposal (signed as sig says) followed by all parts (valid proofs) of a
\* block with missing components; the node assembles it in addProposalBlockPart.
ByzContents == {"valid", "nohdr", "nodata", "nolastcommit", "emptylastcommit", "fve-noproposer", "fve-twice",
                "dve-novotes", "dve-nopubkey", "garbage"}
ByzMsgs == {[t |-> "byzblock", ch |-> "data", content |-> c, sig |-> sg] : c \in ByzContents, sg \in {"proposer", "other", "bad"}}

Channels == {"state", "data", "vote", "bits", "unknown"}
\* every base message on every wrong channel
Misrouted(bases) == {[b EXCEPT !.ch = ch] : <<b, ch>> \in {p \in bases \X Channels : p[1].ch # p[2]}}

VoteMsgs == LET voteBases == {VoteBase(Prevote), VoteBase(Precommit)} \cup (IF C.step = StNewHeight THEN {StragglerBase} ELSE {})
            IN  UNION {Dev(b, VoteDom, VoteKey) : b \in voteBases}
Maj23Msgs == Dev(MjBase, MjDom, {"h", "r", "typ"})
Msgs ==
  LET propBases == {PropBase} \cup (IF C.stalled THEN {RecoverBase} ELSE {})
  IN  VoteMsgs
      \cup UNION {Dev(b, PropDom, PropKey) : b \in propBases}
      \cup Dev(PartBase, PartDom, PartKey)
      \cup Dev(NrsBase, NrsDom, {"h", "r"}) \cup Dev(CsBase, CsDom, {"h", "hdr", "ba"}) \cup Dev(HvBase, HvDom, {"h", "idx"})
      \cup Maj23Msgs \cup Dev(VbBase, VbDom, {"h", "ba"}) \cup Dev(PolBase, PolDom, {"h", "polr", "ba"})
      \cup Dev(HbBase, HbDom, {"nilc"}) \cup ByzMsgs
      \cup Misrouted({VoteBase(Prevote), PropBase, PartBase, NrsBase, CsBase, HvBase, MjBase, VbBase, PolBase, HbBase})

(* ---- (2) the declarative side ---------------------------------------------- *)
\* a vote is authentic iff index, address and signature all belong to one validator
Authentic(m) == m.vidx = "who" /\ m.vaddr = "who" /\ m.sig = "who"
WellFormedVote(m) == ~m.nilc /\ m.typ \in {Prevote, Precommit} /\ Authentic(m) /\ m.size = NV
HeldValue(rr, ty, v) == IF \E e \in C.held : e[1] = rr /\ e[2] = ty /\ e[3] = v
                        THEN (CHOOSE e \in C.held : e[1] = rr /\ e[2] = ty /\ e[3] = v)[4] ELSE "none"
PlusOne(hh) == IF hh = MAXH THEN 0 ELSE hh + 1
\* the block a vote names: a large vote carries its bulk in BlockID.PartsHeader.Hash, so it names a block nobody knows
VBid(m) == IF m.sz = "small" THEN m.bid ELSE "unknown"
HasSz(m) == m.t \in {"vote", "proposal", "part", "bits", "pol"}
Size(m) == IF HasSz(m) THEN Bytes(m.sz) ELSE Small
\* decodeMsg: len(bz) > maxMsgSize is an error (the peer is stopped)
Decodable(m) == Size(m) <= Lim

MayAffectVote(m) ==
  \/ \* a new vote of the current height for a round the node has a vote set for (or may create one for)
     /\ WellFormedVote(m) /\ m.h = C.h /\ (HasSet(m.r) \/ rs.q < 2)
     /\ HeldValue(m.r, m.typ, m.who) # VBid(m)
  \/ \* a late precommit of the previous height while waiting in NewHeight
     /\ WellFormedVote(m) /\ PlusOne(m.h) = C.h /\ C.step = StNewHeight /\ m.typ = Precommit
     /\ C.lc /\ m.r = 0 /\ m.who \notin C.lcHeld
  \/ \* HeightVoteSet allocates a catch-up round (at most two per peer) before it validates the vote
     /\ ~m.nilc /\ m.h = C.h /\ m.typ \in {Prevote, Precommit} /\ ~HasSet(m.r) /\ rs.q < 2

PolOK(m) == m.pol = -1 \/ (0 <= m.pol /\ m.pol < m.r)
MayAffectProposal(m) ==
  /\ ~m.nilc /\ ~C.prop
  /\ \/ /\ m.ptype # "recover" /\ m.h = C.h /\ m.r = C.r /\ C.step < StCommit /\ PolOK(m)
        /\ m.sig = "proposer" /\ m.total >= 0
     \/ \* entering recover mode on a validator's recover proposal after the height stalled
        /\ m.ptype = "recover" /\ C.stalled /\ m.h = C.h /\ m.r > C.r /\ m.sig \in {"proposer", "other"}

MayAffectPart(m) ==
  ~m.nilc /\ m.h = C.h /\ C.exp /\ m.idx \in 0 .. NP - 1 /\ m.idx \notin C.have /\ m.bytes = "ok" /\ m.proof = "ok" /\ m.sz = "small"

\* a majority claim is remembered in the vote set of a tracked round of the current height
MayAffectMaj23(m) == m.h = C.h /\ m.typ \in {Prevote, Precommit} /\ HasSet(m.r) /\ rs.claim = <<>>

OnOwnChannel(m) == \/ m.t \in {"nrs", "commitstep", "hasvote", "maj23", "heartbeat"} /\ m.ch = "state"
                   \/ m.t \in {"proposal", "part", "pol", "byzblock"} /\ m.ch = "data"
                   \/ m.t = "vote" /\ m.ch = "vote"
                   \/ m.t = "bits" /\ m.ch = "bits"

\* the proposer's proposal is accepted and its parts are collected whatever they turn out to contain
MayAffectByz(m) == ~C.prop /\ C.step < StCommit /\ m.sig = "proposer"

MayAffect(m) ==
  /\ OnOwnChannel(m) /\ Decodable(m)
  /\ CASE m.t = "vote"     -> MayAffectVote(m)
       [] m.t = "byzblock" -> MayAffectByz(m)
       [] m.t = "proposal" -> MayAffectProposal(m)
       [] m.t = "part"     -> MayAffectPart(m)
       [] m.t = "maj23"    -> MayAffectMaj23(m)
       [] OTHER            -> FALSE

(* ---- (1) the operational side: the code path of a message ------------------- *)
\* Results of the state-machine stage: eff = "none" (ignored or rejected), "proposal" (cs.Proposal set),
\* "recover" (recover mode entered), "part" (part added), "vote" (vote added), "lastcommit" (added to
\* cs.LastCommit), "conflict" (a validator's second, different vote: evidence, the vote sets keep the first),
\* "alloc" (catch-up round allocated, vote rejected), "alloc+vote", "claim", "panic".
\* fx = which of the repairs the modelled code contains.
None == "none"
AsIs  == [lc |-> FALSE, idx |-> FALSE, tot |-> FALSE, max |-> FALSE, rec |-> FALSE, blk |-> FALSE]
Fixed == [lc |-> FixLastCommitNil, idx |-> FixPartIndexNeg, tot |-> FixTotalNeg, max |-> FixTotalMax, rec |-> FixRecoverAuth,
          blk |-> FixBlockComponents]

\* types.VoteSet.addVote (the vote set exists and is for the vote's height/round/type)
VoteSetAdd(m, heldValue) ==
  IF m.vidx \in {"neg1", "negbig"} THEN None                 \* valIndex < 0
  ELSE IF m.vaddr = "empty" THEN None                        \* len(valAddr) == 0
  ELSE IF m.size # NV THEN None                              \* ValidatorSize != valSet.Size()
  ELSE IF m.vidx \in {"size", "max"} THEN None               \* valSet.GetByIndex: index >= len -> nil
  ELSE IF m.vaddr # "who" \/ m.vidx # "who" THEN None        \* address does not match the index
  ELSE IF heldValue = VBid(m) THEN None                      \* duplicate (or non-deterministic signature)
  ELSE IF m.sig # "who" THEN None                            \* vote.Verify
  ELSE IF heldValue # "none" THEN "conflict"                 \* addVerifiedVote: conflicting, not tracked
  ELSE "vote"                                                \* addVerifiedVote

\* consensus.addVote
AddVote(m, fx) ==
  IF m.nilc THEN "panic"                                     \* vote.Height of a nil *Vote
  ELSE IF PlusOne(m.h) = C.h THEN
         IF ~(C.step = StNewHeight /\ m.typ = Precommit) THEN None       \* ErrVoteHeightMismatch
         ELSE IF ~C.lc THEN (IF fx.lc THEN None ELSE "panic")            \* cs.LastCommit.AddVote on a nil VoteSet
         ELSE IF m.r # 0 THEN None                                       \* ErrVoteUnexpectedStep (LastCommit is for round 0)
         ELSE LET a == VoteSetAdd(m, IF m.who \in C.lcHeld THEN "block" ELSE "none")
              IN  IF a = "vote" THEN "lastcommit" ELSE a
  ELSE IF m.h # C.h THEN None                                \* ErrVoteHeightMismatch
  ELSE IF m.typ \notin {Prevote, Precommit} THEN None        \* HeightVoteSet.AddVote: !IsVoteTypeValid
  ELSE IF ~HasSet(m.r) THEN                                  \* getVoteSet(vote.Round) == nil
         IF rs.q >= 2 THEN None                              \* GotVoteFromUnwantedRoundError
         ELSE IF VoteSetAdd(m, "none") = "vote" THEN "alloc+vote" ELSE "alloc"   \* hvs.addRound(vote.Round) BEFORE voteSet.AddVote
  ELSE VoteSetAdd(m, HeldValue(m.r, m.typ, m.who))

\* consensus.defaultSetProposal
SetProposal(m, fx) ==
  IF C.prop THEN None                                        \* already have one
  ELSE IF m.nilc THEN "panic"                                \* proposal.Type of a nil *Proposal
  ELSE IF m.ptype = "recover" /\ (m.h # C.h \/ m.r <= C.r) THEN None
  ELSE IF m.ptype = "recover" /\ ~C.stalled THEN None        \* "It`s not the right time"
  ELSE IF m.ptype = "recover" /\ fx.rec /\ m.sig \notin {"proposer", "other"} THEN None  \* (repaired code only)
  ELSE IF m.ptype = "recover" THEN "recover"                 \* validators and votes replaced, enterNewRound(round+1)
  ELSE IF m.h # C.h \/ m.r # C.r THEN None
  ELSE IF StCommit <= C.step THEN None
  ELSE IF ~PolOK(m) THEN None                                \* ErrInvalidProposalPOLRound
  ELSE IF m.sig # "proposer" THEN None                       \* ErrInvalidProposalSignature
  ELSE IF m.total < 0 THEN (IF fx.tot THEN None ELSE "panic")  \* NewPartSetFromHeader: make([]*Part, Total)
  ELSE IF m.total = MAXI /\ fx.max THEN None                 \* (repaired code only) more parts than the largest block has
  ELSE "proposal"                                            \* (a huge Total allocates that many entries: see the allocation phase)

\* types.PartSet.AddPart
AddPart(m, fx) ==
  IF m.nilc THEN "panic"                                     \* part.Index of a nil *Part
  ELSE IF m.idx >= NP THEN None                              \* ErrPartSetUnexpectedIndex
  ELSE IF m.idx < 0 THEN (IF fx.idx THEN None ELSE "panic")  \* ps.parts[part.Index]
  ELSE IF m.idx \in C.have THEN None                         \* already there
  ELSE IF m.bytes # "ok" \/ m.proof # "ok" \/ m.sz # "small" THEN None   \* ErrPartSetInvalidProof
  ELSE "part"

\* consensus.addProposalBlockPart
AddBlockPart(m, fx) ==
  IF m.h # C.h THEN None
  ELSE IF ~C.exp THEN (IF m.nilc THEN "panic" ELSE None)     \* the log line reads part.Index
  ELSE AddPart(m, fx)

\* the proposal and then every part of a Byzantine proposer's block: defaultSetProposal, addProposalBlockPart
\* until the set is complete, DecodeReader into cs.ProposalBlock, enterPrevote -> defaultDoPrevote -> checkBlockEvidence
ByzBlock(m, fx) ==
  IF SetProposal([PropBase EXCEPT !.sig = m.sig], fx) # "proposal" THEN None   \* no proposal: the parts are not expected
  ELSE IF m.content = "garbage" THEN "proposal"                  \* decode error: cs.ProposalBlock stays nil
  ELSE IF fx.blk /\ m.content \in {"nohdr", "nodata", "nolastcommit"} THEN "proposal"   \* (repaired code) block refused
  ELSE IF m.content = "nohdr" THEN "panic"                       \* cs.ProposalBlock.Recover with a nil *Header
  ELSE IF C.h > 1 /\ m.content \in {"nolastcommit", "emptylastcommit", "fve-noproposer", "dve-novotes", "dve-nopubkey"}
       THEN (IF fx.blk THEN "block" ELSE "panic")                \* checkFaultValEvidence / checkDuplicateVoteEvidence dereference them
  ELSE "block"                                                   \* block complete: enterPrevote (for it, or nil if it is invalid)

HandleMsg(m, fx) == CASE m.t = "proposal" -> SetProposal(m, fx)
                      [] m.t = "part"     -> AddBlockPart(m, fx)
                      [] m.t = "vote"     -> AddVote(m, fx)
                      [] OTHER            -> None

\* baseWAL.Write -> WALEncoder.Encode(TimedWALMessage{time.Now(), msgInfo{msg, peerID}}): the record is the message plus
\* WalWrap bytes; an Encode error is a panic in baseWAL.Write.  The encoder of the code has no size bound (the decoder
\* refuses records above Lim: WalUnreadable - the business of the crash-recovery properties).
WalRecord(m) == Size(m) + WalWrap
WalWrite(m) == IF WalEncoderLimit /\ WalRecord(m) > Lim THEN "panic" ELSE "ok"
WalUnreadable(m) == WalRecord(m) > Lim
\* receiveRoutine, case mi := <-cs.peerMsgQueue:  cs.wal.Write(mi); cs.handleMsg(mi)
Routine(m, fx) == IF WalWrite(m) = "panic" THEN "panic" ELSE HandleMsg(m, fx)

\* ConsensusReactor.Receive: does the message reach peerMsgQueue?  "yes" / "no" / "prs" (yes unless the
\* reactor panics on its own bookkeeping of the peer, which depends on what the peer announced before)
Forwarded(m) ==
  IF ~Decodable(m) THEN "no"                                 \* decodeMsg: "Msg exceeds max size"
  ELSE IF ~OnOwnChannel(m) \/ m.t \notin {"proposal", "part", "vote"} THEN "no"
  ELSE IF m.nilc THEN "no"                                   \* ps.SetHasProposal / msg.Part.Index / ps.SetHasVote dereference it
  ELSE IF m.t = "vote" /\ m.vidx = "negbig" THEN "prs"       \* BitArray.SetIndex of the peer's vote bit array
  ELSE IF m.t = "part" /\ m.idx = NEG THEN "prs"
  ELSE IF m.t = "proposal" /\ m.total = MAXI THEN "prs"      \* NewBitArray(Total) of the peer's part bit array
  ELSE "yes"

\* HeightVoteSet.SetPeerMaj23 as the reactor calls it: effect on the node's vote sets
Maj23Effect(m) ==
  IF ~OnOwnChannel(m) \/ m.h # C.h \/ m.typ \notin {Prevote, Precommit} \/ ~HasSet(m.r) THEN None
  ELSE IF rs.claim = <<>> THEN "claim"
  ELSE None      \* the same claim again, a claim for another vote set (the model keeps one) or a conflicting one (peer stopped)

\* the whole path
Effect(m, fx) ==
  IF m.t = "byzblock" THEN (IF OnOwnChannel(m) THEN ByzBlock(m, fx) ELSE None)
  ELSE IF m.t = "maj23" THEN Maj23Effect(m)
  ELSE IF Forwarded(m) = "no" THEN None
  ELSE Routine(m, fx)

\* what the state machine does if handed the message directly (the harness also does this: WAL write + handleMsg)
Direct(m, fx) == IF m.t \in {"proposal", "part", "vote"} THEN Routine(m, fx) ELSE None

(* ---- behaviours ---------------------------------------------------------------- *)
Init == /\ cls \in Classes /\ rs = RS0 /\ own = OwnOf(cls) /\ running = TRUE /\ last = [op |-> "init"]

\* Only messages whose path reads q / cat / claim are explored again once those changed: handleMsg reads
\* peerCatchupRounds and the catch-up entries only for votes of the current height with an untracked round, and
\* peerMaj23s of a vote set only for claims about that vote set.
SensVote(m)  == m.t = "vote" /\ OnOwnChannel(m) /\ ~m.nilc /\ m.h = C.h /\ m.typ \in {Prevote, Precommit} /\ ~Tracked(m.r)
SensClaim(m) == m.t = "maj23" /\ OnOwnChannel(m) /\ m.h = C.h /\ m.r = rs.claim[1] /\ m.typ = rs.claim[2]

\* where a failing delivery fails (for records and for the what-if configuration)
DeliverSite(m, e) == IF e # "panic" THEN "-"
                     ELSE IF m.t # "byzblock" /\ m.t # "maj23" /\ WalWrite(m) = "panic" THEN "baseWAL.Write/WALEncoder.Encode"
                     ELSE "handleMsg"

\* The peer's input arrives while the node is in the state class (before its own steps).
\* (Next evaluates this guard first so that the lattice is only built where a message can be delivered)
CanDeliver == running /\ rs.changed = "no" /\ own = OwnOf(cls)
Deliver(m) ==
  /\ CanDeliver
  /\ rs.q > 0 => SensVote(m)
  /\ rs.claim # <<>> => SensClaim(m)
  /\ LET e == Effect(m, Fixed) IN
       /\ running' = (e # "panic")
       /\ rs' = CASE e \in {"alloc", "alloc+vote"} -> [rs EXCEPT !.q = @ + 1, !.changed = IF e = "alloc" THEN "no" ELSE e,
                                                              !.cat = IF Near(m.r) THEN @ \cup {m.r} ELSE @]
                  [] e = "claim"                   -> [rs EXCEPT !.claim = <<m.r, m.typ, m.bid>>]
                  [] e \in {"none", "panic", "conflict"} -> rs
                  [] OTHER                         -> [rs EXCEPT !.changed = e]
       /\ last' = [op |-> "deliver", m |-> m, may |-> MayAffect(m), eff |-> e, fwd |-> Forwarded(m),
                   direct |-> Direct(m, Fixed), asis |-> Effect(m, AsIs), asisdirect |-> Direct(m, AsIs),
                   site |-> DeliverSite(m, e),
                   walbig |-> (m.t \in {"proposal", "part", "vote"} /\ Forwarded(m) # "no" /\ WalUnreadable(m))]
  /\ UNCHANGED <<cls, own>>

(* ---- the node's own steps ------------------------------------------------------------ *)
\* HeightVoteSet.SetRound(round) as enterNewRound calls it.  ex = the rounds above hvs.round that have an entry.
SetRound(hvr, ex, round, skips) ==
  IF hvr # 0 /\ round < hvr + 1 THEN "panic"                       \* PanicSanity("SetRound() must increment hvs.round")
  ELSE IF ~skips /\ (ex \cap (hvr + 1 .. round)) # {} THEN "panic"   \* addRound(r): PanicSanity("addRound() for an existing round")
  ELSE "ok"                                                         \* "continue // Already exists because peerCatchupRounds."

\* enterNewRound(h, round) as far as it is partial: cs.Votes.SetRound(round + 1); the entries it runs over become tracked
\* rounds (the peer's quota is not refunded).  A panic here is inside handleTimeout / handleMsg: receiveRoutine ends.
EnterNewRound(op, round, ex, step2, cnt) ==
  LET res == SetRound(own.hvr, ex, round + 1, SetRoundSkipsExisting) IN
  /\ running' = (res = "ok")
  /\ own' = IF res = "ok" THEN [own EXCEPT !.r = round, !.step = step2, !.hvr = round + 1, !.n = @ + cnt] ELSE own
  /\ rs'  = IF res = "ok" THEN [rs EXCEPT !.cat = ex \ (0 .. round + 1)] ELSE rs
  /\ last' = [op |-> op, res |-> res, site |-> IF res = "ok" THEN "-" ELSE "enterNewRound/HeightVoteSet.SetRound",
              over |-> (ex \cap (own.hvr + 1 .. round + 1)) # {}]      \* SetRound runs over an existing entry (the guard decides)
  /\ UNCHANGED cls

\* (recover mode replaces validators and vote sets: what follows is the business of the recover properties)
OwnEnabled == running /\ rs.changed # "recover"
InRound == own.step \in StPropose .. StPrecommitWait

\* the NewHeight timeout: handleTimeout -> enterNewRound(h, 0)
Start   == OwnEnabled /\ own.step = StNewHeight /\ EnterNewRound("start", 0, rs.cat, StPropose, 0)
\* timeouts and the others' nil votes: ... -> enterPrecommitWait -> timeout -> enterNewRound(h, r+1)
\* (or +2/3 nil precommits: addVote -> enterNewRound(h, r+1))
Advance == OwnEnabled /\ InRound /\ own.n < MaxOwn /\ ~own.committed /\ EnterNewRound("advance", own.r + 1, rs.cat, StPropose, 1)
\* +2/3 of the validators prevote nil in round r+2 (they are ahead): the first of these votes creates the entry of round r+2
\* as a catch-up round of the peer that relays it (if nobody created it before), addVote -> enterNewRound(h, r+2) -> enterPrecommit
Skip    == OwnEnabled /\ InRound /\ own.n < MaxOwn /\ ~own.committed
           /\ EnterNewRound("skip", own.r + 2, rs.cat \cup {own.r + 2}, StPrecommit, 1)
\* +2/3 precommits for a block and its parts: enterCommit -> finalizeCommit -> updateToStatus: a new HeightVoteSet
\* (no entries, no quotas, no claims), step NewHeight of the next height
Commit  == /\ OwnEnabled /\ own.step # StNewHeight /\ ~own.committed
           /\ own' = [h |-> own.h + 1, r |-> 0, step |-> StNewHeight, hvr |-> 0, n |-> 0, committed |-> TRUE]
           /\ rs' = [rs EXCEPT !.q = 0, !.cat = {}, !.claim = <<>>]
           /\ last' = [op |-> "commit", res |-> "ok", site |-> "-", over |-> FALSE]
           /\ UNCHANGED <<cls, running>>
OwnStep == Start \/ Advance \/ Skip \/ Commit

Next == \/ CanDeliver /\ \E m \in (IF rs.q > 0 THEN VoteMsgs ELSE IF rs.claim # <<>> THEN Maj23Msgs ELSE Msgs) : Deliver(m)
        \/ OwnStep

Spec == Init /\ [][Next]_vars

(* ---- what TLC checks -------------------------------------------------------------- *)
TypeOK == /\ cls \in Classes /\ running \in BOOLEAN /\ rs.q \in 0 .. 2 /\ rs.cat \subseteq Rounds
          /\ own.h \in {C.h, C.h + 1} /\ own.r \in 0 .. C.r + 2 * MaxOwn /\ own.step \in StNewHeight .. StCommit
          /\ own.n \in 0 .. MaxOwn /\ own.committed \in BOOLEAN

\* the consensus routine keeps running whatever the peer sends and whatever the node does afterwards
AlwaysRunning == running

\* a message that may not legitimately affect the node leaves its RoundState alone
InvalidIsStutter == [][ (last'.op = "deliver" /\ ~last'.may) => rs' = rs ]_vars

\* the catch-up allocation is bounded per peer, and the entries the peer created never outnumber its quota
BoundedCatchup == rs.q <= 2 /\ Cardinality(rs.cat) <= rs.q

\* the node tracks exactly the rounds 0 .. round+1 once it has entered a round; no catch-up entry lies inside that range
TrackedRange == /\ own.step # StNewHeight => own.hvr = own.r + 1
                /\ own.step = StNewHeight => own.hvr = 0
                /\ rs.cat \cap (0 .. own.hvr) = {}

\* nothing the state machine is handed directly may fail either, except for nil components,
\* which the reactor never forwards (Forwarded = "no")
DirectOnlyNil == [][ (last'.op = "deliver" /\ last'.direct = "panic" /\ last'.eff # "panic") => last'.m.nilc ]_vars

\* what-if configuration (SetRoundSkipsExisting = FALSE, WalEncoderLimit = TRUE): every site at which the routine would end
Hazard == running \/ PrintT(ToJson([hazard |-> last.site, cls |-> cls, act |-> last]))

(* ---- export for the harness --------------------------------------------------------- *)
Proj(c, r, o) == [cls |-> c, q |-> r.q, claim |-> r.claim, changed |-> r.changed, cat |-> r.cat,
                  own |-> [h |-> o.h, r |-> o.r, step |-> o.step, hvr |-> o.hvr, n |-> o.n, committed |-> o.committed]]
\* cf: the class record, for the harness to check that the node it built is the one described here
ClassFacts == [h |-> C.h, r |-> C.r, step |-> C.step, lc |-> C.lc, prop |-> C.prop, exp |-> C.exp,
               nhave |-> Cardinality(C.have), blk |-> C.blk, stalled |-> C.stalled]
Edge == PrintT(ToJson([from |-> Proj(cls, rs, own), act |-> last', to |-> Proj(cls', rs', own'), run |-> running', cf |-> ClassFacts]))
View == <<cls, rs, own, running>>
=============================================================================
