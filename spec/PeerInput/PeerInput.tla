----------------------------- MODULE PeerInput -----------------------------
(***************************************************************************)
(* C16 - no message from a single peer can halt a node's consensus.        *)
(*                                                                         *)
(* One node, one attacking peer.  The node is in one of the STATE CLASSES  *)
(* of ClassTab (what handleMsg reads of the RoundState: height, round,     *)
(* step, LastCommit nil or not, proposal set or not, part set expected or  *)
(* not and which parts are there, which votes are held).  The peer sends   *)
(* any message of the BOUNDARY LATTICE Msgs(c): for every message type a   *)
(* valid base message and all single and double field deviations over      *)
(* nil / -1 / 0 / valid / valid+-1 / MaxInt / huge.                        *)
(*                                                                         *)
(* Two independent definitions are compared by TLC:                        *)
(*  (1) the OPERATIONAL transcription of the code path of a message:       *)
(*      ConsensusReactor.Receive (reactor stage: decode, per-channel type  *)
(*      switch, forward to peerMsgQueue) and ConsensusState.handleMsg ->   *)
(*      defaultSetProposal / addProposalBlockPart / tryAddVote -> addVote  *)
(*      -> HeightVoteSet.AddVote -> VoteSet.addVote, PartSet.AddPart, in   *)
(*      the order of the code's checks, with PARTIAL operations explicit:  *)
(*      a nil dereference, an index outside a slice, make() with a         *)
(*      negative length and AddVote on a nil VoteSet are "panic"; a panic  *)
(*      in handleMsg ends receiveRoutine: running' = FALSE;                *)
(*  (2) the DECLARATIVE predicate MayAffect(m): the message may            *)
(*      legitimately change the RoundState (over-approximation).           *)
(*                                                                         *)
(* Properties: AlwaysRunning (invariant) and InvalidIsStutter (action      *)
(* property: not MayAffect => the RoundState projection is unchanged).     *)
(* With the Fix* constants FALSE the model is the code as it is and TLC    *)
(* finds the halting inputs; with TRUE it is the repaired code.  Every     *)
(* explored (class, message) pair is exported with the expected outcome;   *)
(* the harness instantiates it on the real reactor and state machine.      *)
(*                                                                         *)
(* Integers stand for boundary values: NEG = "at most -2" (the harness     *)
(* uses -2, -64, -65, MinInt32, MinInt64), MAXI = "huge" (MaxInt32,        *)
(* MaxInt32+1, MaxInt64), FAR = a round the node does not track, MAXH =    *)
(* MaxUint64 (MAXH + 1 wraps to 0).  Validators: 0 = the node itself,      *)
(* 1 = the proposer of its current (height, round), 2 and 3 the others.    *)
(***************************************************************************)
EXTENDS Integers, FiniteSets, Sequences, TLC, Json

CONSTANTS Classes,            \* names of the state classes to explore
          Pairs,              \* "all": every double deviation; "key": double deviations must involve a key field
          FixLastCommitNil,   \* addVote returns ErrVoteHeightMismatch when cs.LastCommit = nil
          FixPartIndexNeg,    \* PartSet.AddPart rejects part.Index < 0
          FixTotalNeg,        \* defaultSetProposal rejects BlockPartsHeader.Total < 0
          FixTotalMax,        \* ... and a Total above what the largest allowed block can have
          FixRecoverAuth,     \* the recover path of defaultSetProposal requires a validator's signature
          FixBlockComponents  \* a decoded block with a missing header / data / last commit, or evidence with missing members, is rejected

NEG  == -9
MAXI == 99
FAR  == 7
MAXH == 99
NV   == 4              \* validators
NP   == 3              \* parts of the expected part set (the harness maps 0,1,2,3 to 0,1,Total-1,Total)
Vals == 0 .. NV - 1

\* RoundStepType of the code
StNewHeight == 1  StNewRound == 2  StPropose == 3  StPrevote == 4  StPrevoteWait == 5
StPrecommit == 6  StPrecommitWait == 7  StCommit == 8

Prevote == 1  Precommit == 2

(* ---- state classes ------------------------------------------------------ *)
\* held: votes of the current height the node holds, <<round, type, validator, value>>
\* lcHeld: validators whose precommit of height h-1 is in cs.LastCommit
AllOf(rr, ty, vs, b) == {<<rr, ty, v, b>> : v \in vs}
Cls(h, r, step, lc, lcHeld, prop, exp, have, blk, stalled, held) ==
  [h |-> h, r |-> r, step |-> step, lc |-> lc, lcHeld |-> lcHeld, prop |-> prop, exp |-> exp,
   have |-> have, blk |-> blk, stalled |-> stalled, held |-> held]

ClassTab ==
  [ c \in {"h1-newheight", "h1-propose", "h1-parts", "h1-prevote", "h1-prevotewait", "h1-precommit",
           "h1-precommitwait", "h1-commit", "h1-r1-propose", "h2-newheight", "h2-propose", "h1-stalled"} |->
    CASE c = "h1-newheight"     -> Cls(1, 0, StNewHeight, FALSE, {}, FALSE, FALSE, {}, FALSE, FALSE, {})
      [] c = "h1-propose"       -> Cls(1, 0, StPropose, FALSE, {}, FALSE, FALSE, {}, FALSE, FALSE, {})
      [] c = "h1-parts"         -> Cls(1, 0, StPropose, FALSE, {}, TRUE, TRUE, {0}, FALSE, FALSE, {})
      [] c = "h1-prevote"       -> Cls(1, 0, StPrevote, FALSE, {}, TRUE, TRUE, {0, 1, 2}, TRUE, FALSE,
                                       {<<0, Prevote, 0, "block">>})
      [] c = "h1-prevotewait"   -> Cls(1, 0, StPrevoteWait, FALSE, {}, TRUE, TRUE, {0, 1, 2}, TRUE, FALSE,
                                       {<<0, Prevote, 0, "block">>, <<0, Prevote, 1, "block">>, <<0, Prevote, 2, "nil">>})
      [] c = "h1-precommit"     -> Cls(1, 0, StPrecommit, FALSE, {}, TRUE, TRUE, {0, 1, 2}, TRUE, FALSE,
                                       AllOf(0, Prevote, Vals, "block") \cup {<<0, Precommit, 0, "block">>})
      [] c = "h1-precommitwait" -> Cls(1, 0, StPrecommitWait, FALSE, {}, TRUE, TRUE, {0, 1, 2}, TRUE, FALSE,
                                       AllOf(0, Prevote, Vals, "block") \cup
                                       {<<0, Precommit, 0, "block">>, <<0, Precommit, 1, "block">>, <<0, Precommit, 2, "nil">>})
      \* (entering Commit from Propose the node first precommits nil itself: enterPrecommit without a polka)
      [] c = "h1-commit"        -> Cls(1, 0, StCommit, FALSE, {}, FALSE, TRUE, {}, FALSE, FALSE,
                                       AllOf(0, Precommit, {1, 2, 3}, "block") \cup {<<0, Precommit, 0, "nil">>})
      [] c = "h1-r1-propose"    -> Cls(1, 1, StPropose, FALSE, {}, FALSE, FALSE, {}, FALSE, FALSE,
                                       AllOf(0, Prevote, {0, 1, 2}, "nil") \cup AllOf(0, Precommit, Vals, "nil"))
      [] c = "h2-newheight"     -> Cls(2, 0, StNewHeight, TRUE, {0, 1, 2}, FALSE, FALSE, {}, FALSE, FALSE, {})
      [] c = "h2-propose"       -> Cls(2, 0, StPropose, TRUE, {0, 1, 2}, FALSE, FALSE, {}, FALSE, FALSE, {})
      [] c = "h1-stalled"       -> Cls(1, 0, StPropose, FALSE, {}, FALSE, FALSE, {}, FALSE, TRUE, {}) ]

(* ---- variables ------------------------------------------------------------ *)
VARIABLES cls,      \* name of the state class the node is in
          rs,       \* what a message can change: see RS0
          running,  \* receiveRoutine is alive
          last      \* label of the last step (output only)
vars == <<cls, rs, running, last>>

\* q: catch-up rounds the peer has made HeightVoteSet allocate (peerCatchupRounds, at most 2)
\* claim: the peer's VoteSetMaj23 claim, <<round, type, value>> or <<>> (VoteSet.peerMaj23s; the model keeps one)
\* changed: the message was accepted (proposal set / part added / vote added / recover entered): the
\*          behaviour ends there, what follows is the business of the consensus algorithm (C01)
RS0 == [q |-> 0, claim |-> <<>>, changed |-> "no"]

C == ClassTab[cls]

\* rounds for which the node's HeightVoteSet has vote sets: only round 0 before enterNewRound
\* (step NewHeight), rounds 0..r+1 afterwards (SetRound(round+1))
Tracked(rr) == IF C.step = StNewHeight THEN rr = 0 ELSE rr \in 0 .. C.r + 1

(* ---- the message lattice ---------------------------------------------------- *)
Heights == {0, C.h - 1, C.h, C.h + 1, MAXH}
Rounds  == {NEG, -1, 0, 1, 2, FAR, MAXI}
Types   == {Prevote, Precommit, 0, 3, 255}
BitArrs == {"nil", "ok", "short", "long", "incons", "neg"}   \* BitArray: nil / right size / smaller / larger / Bits > 64*len(Elems) / Bits < 0

VoteDom ==
  [nilc |-> BOOLEAN, h |-> Heights, r |-> Rounds, typ |-> Types, who |-> Vals,
   vidx |-> {"who", "other", "neg1", "negbig", "size", "max"},
   vaddr |-> {"who", "other", "empty", "garbage"},
   size |-> {-1, 0, NV - 1, NV, NV + 1, MAXI},
   bid  |-> {"nil", "block", "unknown", "huge"},
   sig  |-> {"who", "other", "bad", "none"}]
VoteBase(typ) == [t |-> "vote", ch |-> "vote", nilc |-> FALSE, h |-> C.h, r |-> C.r, typ |-> typ, who |-> 3,
                  vidx |-> "who", vaddr |-> "who", size |-> NV, bid |-> "block", sig |-> "who"]
\* a straggler precommit of the previous height (what cs.LastCommit collects in step NewHeight)
StragglerBase == [VoteBase(Precommit) EXCEPT !.h = C.h - 1, !.r = 0]
VoteKey == {"sig", "h", "typ"}

PropDom ==
  [nilc |-> BOOLEAN, ptype |-> {"normal", "recover", "zero", "bad"}, h |-> Heights, r |-> Rounds,
   pol |-> {NEG, -1, 0, 1, FAR, MAXI}, total |-> {NEG, -1, 0, NP, MAXI}, hash |-> {"ok", "empty", "long"},
   polbid |-> {"nil", "block", "huge"}, sig |-> {"proposer", "other", "bad", "none"}]
PropBase == [t |-> "proposal", ch |-> "data", nilc |-> FALSE, ptype |-> "normal", h |-> C.h, r |-> C.r, pol |-> -1,
             total |-> NP, hash |-> "ok", polbid |-> "nil", sig |-> "proposer"]
\* the message the recover path of defaultSetProposal looks for
RecoverBase == [PropBase EXCEPT !.ptype = "recover", !.r = C.r + 1]
PropKey == {"sig", "h", "r", "total"}

PartDom ==
  [nilc |-> BOOLEAN, h |-> Heights, r |-> Rounds, idx |-> {NEG, -1, 0, 1, 2, NP, MAXI},
   bytes |-> {"ok", "garbage", "empty"}, proof |-> {"ok", "garbage", "empty", "long"}]
MissingIdx == IF C.exp /\ C.have # 0 .. NP - 1 THEN CHOOSE i \in 0 .. NP - 1 : i \notin C.have /\ \A j \in 0 .. NP - 1 : j \notin C.have => i <= j ELSE 0
PartBase == [t |-> "part", ch |-> "data", nilc |-> FALSE, h |-> C.h, r |-> C.r, idx |-> MissingIdx, bytes |-> "ok", proof |-> "ok"]
PartKey == {"idx", "h"}

NrsDom == [h |-> Heights, r |-> Rounds, step |-> {0, 1, 3, 8, 9, 255}, secs |-> {-1, 0, MAXI}, lcr |-> {NEG, -1, 0, MAXI}]
NrsBase == [t |-> "nrs", ch |-> "state", h |-> C.h, r |-> C.r, step |-> C.step, secs |-> 0, lcr |-> -1]

CsDom == [h |-> Heights, hdr |-> {"ok", "zero", "unknown", "negtotal"}, ba |-> BitArrs]
CsBase == [t |-> "commitstep", ch |-> "state", h |-> C.h, hdr |-> "ok", ba |-> "ok"]

HvDom == [h |-> Heights, r |-> Rounds, typ |-> Types, idx |-> {NEG, -1, 0, NV - 1, NV, MAXI}]
HvBase == [t |-> "hasvote", ch |-> "state", h |-> C.h, r |-> C.r, typ |-> Prevote, idx |-> 1]

MjDom == [h |-> Heights, r |-> Rounds, typ |-> Types, bid |-> {"nil", "block", "unknown", "huge"}]
MjBase == [t |-> "maj23", ch |-> "state", h |-> C.h, r |-> C.r, typ |-> Prevote, bid |-> "block"]

VbDom == [h |-> Heights, r |-> Rounds, typ |-> Types, bid |-> {"nil", "block", "unknown", "huge"}, ba |-> BitArrs]
VbBase == [t |-> "bits", ch |-> "bits", h |-> C.h, r |-> C.r, typ |-> Prevote, bid |-> "block", ba |-> "ok"]

PolDom == [h |-> Heights, polr |-> {NEG, -1, 0, 1, FAR, MAXI}, ba |-> BitArrs]
PolBase == [t |-> "pol", ch |-> "data", h |-> C.h, polr |-> 0, ba |-> "ok"]

HbDom == [nilc |-> BOOLEAN, h |-> Heights, r |-> {NEG, 0, MAXI}, idx |-> {NEG, 0, MAXI}]
HbBase == [t |-> "heartbeat", ch |-> "state", nilc |-> FALSE, h |-> C.h, r |-> C.r, idx |-> 1]

\* single and double deviations of a base message
Dev1(base, dom) == {[base EXCEPT ![f] = v] : <<f, v>> \in UNION {{<<f, v>> : v \in dom[f]} : f \in DOMAIN dom}}
Dev2(base, dom, key) ==
  LET FV == UNION {{<<f, v>> : v \in dom[f] \ {base[f]}} : f \in DOMAIN dom}
  IN  {[base EXCEPT ![a[1]] = a[2], ![b[1]] = b[2]] :
         <<a, b>> \in {p \in FV \X FV : p[1][1] # p[2][1] /\ (Pairs = "all" \/ p[1][1] \in key)}}
Dev(base, dom, key) == {base} \cup Dev1(base, dom) \cup Dev2(base, dom, key)

\* A Byzantine proposer's block: the proposal (signed as sig says) followed by all parts (valid proofs) of a
\* block with missing components; the node assembles it in addProposalBlockPart.
ByzContents == {"valid", "nohdr", "nodata", "nolastcommit", "emptylastcommit", "fve-noproposer", "fve-twice",
                "dve-novotes", "dve-nopubkey", "garbage"}
ByzMsgs == {[t |-> "byzblock", ch |-> "data", content |-> c, sig |-> sg] : c \in ByzContents, sg \in {"proposer", "other", "bad"}}

Channels == {"state", "data", "vote", "bits", "unknown"}
\* every base message on every wrong channel
Misrouted(bases) == {[b EXCEPT !.ch = ch] : <<b, ch>> \in {p \in bases \X Channels : p[1].ch # p[2]}}

VoteMsgs == LET voteBases == {VoteBase(Prevote), VoteBase(Precommit)} \cup (IF C.step = StNewHeight THEN {StragglerBase} ELSE {})
            IN  UNION {Dev(b, VoteDom, VoteKey) : b \in voteBases}
Maj23Msgs == Dev(MjBase, MjDom, {"h", "r", "typ"})
Msgs ==
  LET propBases == {PropBase} \cup (IF C.stalled THEN {RecoverBase} ELSE {})
  IN  VoteMsgs
      \cup UNION {Dev(b, PropDom, PropKey) : b \in propBases}
      \cup Dev(PartBase, PartDom, PartKey)
      \cup Dev(NrsBase, NrsDom, {"h", "r"}) \cup Dev(CsBase, CsDom, {"h", "hdr", "ba"}) \cup Dev(HvBase, HvDom, {"h", "idx"})
      \cup Maj23Msgs \cup Dev(VbBase, VbDom, {"h", "ba"}) \cup Dev(PolBase, PolDom, {"h", "polr", "ba"})
      \cup Dev(HbBase, HbDom, {"nilc"}) \cup ByzMsgs
      \cup Misrouted({VoteBase(Prevote), PropBase, PartBase, NrsBase, CsBase, HvBase, MjBase, VbBase, PolBase, HbBase})

(* ---- (2) the declarative side ---------------------------------------------- *)
\* a vote is authentic iff index, address and signature all belong to one validator
Authentic(m) == m.vidx = "who" /\ m.vaddr = "who" /\ m.sig = "who"
WellFormedVote(m) == ~m.nilc /\ m.typ \in {Prevote, Precommit} /\ Authentic(m) /\ m.size = NV
HeldValue(rr, ty, v) == IF \E e \in C.held : e[1] = rr /\ e[2] = ty /\ e[3] = v
                        THEN (CHOOSE e \in C.held : e[1] = rr /\ e[2] = ty /\ e[3] = v)[4] ELSE "none"
PlusOne(hh) == IF hh = MAXH THEN 0 ELSE hh + 1

MayAffectVote(m) ==
  \/ \* a new vote of the current height for a round the node tracks (or may start tracking)
     /\ WellFormedVote(m) /\ m.h = C.h /\ (Tracked(m.r) \/ rs.q < 2)
     /\ HeldValue(m.r, m.typ, m.who) # m.bid
  \/ \* a late precommit of the previous height while waiting in NewHeight
     /\ WellFormedVote(m) /\ PlusOne(m.h) = C.h /\ C.step = StNewHeight /\ m.typ = Precommit
     /\ C.lc /\ m.r = 0 /\ m.who \notin C.lcHeld
  \/ \* HeightVoteSet allocates a catch-up round (at most two per peer) before it validates the vote
     /\ ~m.nilc /\ m.h = C.h /\ m.typ \in {Prevote, Precommit} /\ ~Tracked(m.r) /\ rs.q < 2

PolOK(m) == m.pol = -1 \/ (0 <= m.pol /\ m.pol < m.r)
MayAffectProposal(m) ==
  /\ ~m.nilc /\ ~C.prop
  /\ \/ /\ m.ptype # "recover" /\ m.h = C.h /\ m.r = C.r /\ C.step < StCommit /\ PolOK(m)
        /\ m.sig = "proposer" /\ m.total >= 0
     \/ \* entering recover mode on a validator's recover proposal after the height stalled
        /\ m.ptype = "recover" /\ C.stalled /\ m.h = C.h /\ m.r > C.r /\ m.sig \in {"proposer", "other"}

MayAffectPart(m) ==
  ~m.nilc /\ m.h = C.h /\ C.exp /\ m.idx \in 0 .. NP - 1 /\ m.idx \notin C.have /\ m.bytes = "ok" /\ m.proof = "ok"

\* a majority claim is remembered in the vote set of a tracked round of the current height
MayAffectMaj23(m) == m.h = C.h /\ m.typ \in {Prevote, Precommit} /\ Tracked(m.r) /\ rs.claim = <<>>

OnOwnChannel(m) == \/ m.t \in {"nrs", "commitstep", "hasvote", "maj23", "heartbeat"} /\ m.ch = "state"
                   \/ m.t \in {"proposal", "part", "pol", "byzblock"} /\ m.ch = "data"
                   \/ m.t = "vote" /\ m.ch = "vote"
                   \/ m.t = "bits" /\ m.ch = "bits"

\* the proposer's proposal is accepted and its parts are collected whatever they turn out to contain
MayAffectByz(m) == ~C.prop /\ C.step < StCommit /\ m.sig = "proposer"

MayAffect(m) ==
  /\ OnOwnChannel(m)
  /\ CASE m.t = "vote"     -> MayAffectVote(m)
       [] m.t = "byzblock" -> MayAffectByz(m)
       [] m.t = "proposal" -> MayAffectProposal(m)
       [] m.t = "part"     -> MayAffectPart(m)
       [] m.t = "maj23"    -> MayAffectMaj23(m)
       [] OTHER            -> FALSE

(* ---- (1) the operational side: the code path of a message ------------------- *)
\* Results of the state-machine stage: eff = "none" (ignored or rejected), "proposal" (cs.Proposal set),
\* "recover" (recover mode entered), "part" (part added), "vote" (vote added), "lastcommit" (added to
\* cs.LastCommit), "conflict" (a validator's second, different vote: evidence, the vote sets keep the first),
\* "alloc" (catch-up round allocated, vote rejected), "alloc+vote", "claim", "panic".
\* fx = which of the repairs the modelled code contains.
None == "none"
AsIs  == [lc |-> FALSE, idx |-> FALSE, tot |-> FALSE, max |-> FALSE, rec |-> FALSE, blk |-> FALSE]
Fixed == [lc |-> FixLastCommitNil, idx |-> FixPartIndexNeg, tot |-> FixTotalNeg, max |-> FixTotalMax, rec |-> FixRecoverAuth,
          blk |-> FixBlockComponents]

\* types.VoteSet.addVote (the vote set exists and is for the vote's height/round/type)
VoteSetAdd(m, heldValue) ==
  IF m.vidx \in {"neg1", "negbig"} THEN None                 \* valIndex < 0
  ELSE IF m.vaddr = "empty" THEN None                        \* len(valAddr) == 0
  ELSE IF m.size # NV THEN None                              \* ValidatorSize != valSet.Size()
  ELSE IF m.vidx \in {"size", "max"} THEN None               \* valSet.GetByIndex: index >= len -> nil
  ELSE IF m.vaddr # "who" \/ m.vidx # "who" THEN None        \* address does not match the index
  ELSE IF heldValue = m.bid THEN None                        \* duplicate (or non-deterministic signature)
  ELSE IF m.sig # "who" THEN None                            \* vote.Verify
  ELSE IF heldValue # "none" THEN "conflict"                 \* addVerifiedVote: conflicting, not tracked
  ELSE "vote"                                                \* addVerifiedVote

\* consensus.addVote
AddVote(m, fx) ==
  IF m.nilc THEN "panic"                                     \* vote.Height of a nil *Vote
  ELSE IF PlusOne(m.h) = C.h THEN
         IF ~(C.step = StNewHeight /\ m.typ = Precommit) THEN None       \* ErrVoteHeightMismatch
         ELSE IF ~C.lc THEN (IF fx.lc THEN None ELSE "panic")            \* cs.LastCommit.AddVote on a nil VoteSet
         ELSE IF m.r # 0 THEN None                                       \* ErrVoteUnexpectedStep (LastCommit is for round 0)
         ELSE LET a == VoteSetAdd(m, IF m.who \in C.lcHeld THEN "block" ELSE "none")
              IN  IF a = "vote" THEN "lastcommit" ELSE a
  ELSE IF m.h # C.h THEN None                                \* ErrVoteHeightMismatch
  ELSE IF m.typ \notin {Prevote, Precommit} THEN None        \* HeightVoteSet.AddVote: !IsVoteTypeValid
  ELSE IF ~Tracked(m.r) THEN
         IF rs.q >= 2 THEN None                              \* GotVoteFromUnwantedRoundError
         ELSE IF VoteSetAdd(m, "none") = "vote" THEN "alloc+vote" ELSE "alloc"
  ELSE VoteSetAdd(m, HeldValue(m.r, m.typ, m.who))

\* consensus.defaultSetProposal
SetProposal(m, fx) ==
  IF C.prop THEN None                                        \* already have one
  ELSE IF m.nilc THEN "panic"                                \* proposal.Type of a nil *Proposal
  ELSE IF m.ptype = "recover" /\ (m.h # C.h \/ m.r <= C.r) THEN None
  ELSE IF m.ptype = "recover" /\ ~C.stalled THEN None        \* "It`s not the right time"
  ELSE IF m.ptype = "recover" /\ fx.rec /\ m.sig \notin {"proposer", "other"} THEN None  \* (repaired code only)
  ELSE IF m.ptype = "recover" THEN "recover"                 \* validators and votes replaced, enterNewRound(round+1)
  ELSE IF m.h # C.h \/ m.r # C.r THEN None
  ELSE IF StCommit <= C.step THEN None
  ELSE IF ~PolOK(m) THEN None                                \* ErrInvalidProposalPOLRound
  ELSE IF m.sig # "proposer" THEN None                       \* ErrInvalidProposalSignature
  ELSE IF m.total < 0 THEN (IF fx.tot THEN None ELSE "panic")  \* NewPartSetFromHeader: make([]*Part, Total)
  ELSE IF m.total = MAXI /\ fx.max THEN None                 \* (repaired code only) more parts than the largest block has
  ELSE "proposal"                                            \* (a huge Total allocates that many entries: see the allocation phase)

\* types.PartSet.AddPart
AddPart(m, fx) ==
  IF m.nilc THEN "panic"                                     \* part.Index of a nil *Part
  ELSE IF m.idx >= NP THEN None                              \* ErrPartSetUnexpectedIndex
  ELSE IF m.idx < 0 THEN (IF fx.idx THEN None ELSE "panic")  \* ps.parts[part.Index]
  ELSE IF m.idx \in C.have THEN None                         \* already there
  ELSE IF m.bytes # "ok" \/ m.proof # "ok" THEN None         \* ErrPartSetInvalidProof
  ELSE "part"

\* consensus.addProposalBlockPart
AddBlockPart(m, fx) ==
  IF m.h # C.h THEN None
  ELSE IF ~C.exp THEN (IF m.nilc THEN "panic" ELSE None)     \* the log line reads part.Index
  ELSE AddPart(m, fx)

\* the proposal and then every part of a Byzantine proposer's block: defaultSetProposal, addProposalBlockPart
\* until the set is complete, DecodeReader into cs.ProposalBlock, enterPrevote -> defaultDoPrevote -> checkBlockEvidence
ByzBlock(m, fx) ==
  IF SetProposal([PropBase EXCEPT !.sig = m.sig], fx) # "proposal" THEN None   \* no proposal: the parts are not expected
  ELSE IF m.content = "garbage" THEN "proposal"                  \* decode error: cs.ProposalBlock stays nil
  ELSE IF fx.blk /\ m.content \in {"nohdr", "nodata", "nolastcommit"} THEN "proposal"   \* (repaired code) block refused
  ELSE IF m.content = "nohdr" THEN "panic"                       \* cs.ProposalBlock.Recover with a nil *Header
  ELSE IF C.h > 1 /\ m.content \in {"nolastcommit", "emptylastcommit", "fve-noproposer", "dve-novotes", "dve-nopubkey"}
       THEN (IF fx.blk THEN "block" ELSE "panic")                \* checkFaultValEvidence / checkDuplicateVoteEvidence dereference them
  ELSE "block"                                                   \* block complete: enterPrevote (for it, or nil if it is invalid)

HandleMsg(m, fx) == CASE m.t = "proposal" -> SetProposal(m, fx)
                      [] m.t = "part"     -> AddBlockPart(m, fx)
                      [] m.t = "vote"     -> AddVote(m, fx)
                      [] OTHER            -> None

\* ConsensusReactor.Receive: does the message reach peerMsgQueue?  "yes" / "no" / "prs" (yes unless the
\* reactor panics on its own bookkeeping of the peer, which depends on what the peer announced before)
Forwarded(m) ==
  IF ~OnOwnChannel(m) \/ m.t \notin {"proposal", "part", "vote"} THEN "no"
  ELSE IF m.nilc THEN "no"                                   \* ps.SetHasProposal / msg.Part.Index / ps.SetHasVote dereference it
  ELSE IF m.t = "vote" /\ m.vidx = "negbig" THEN "prs"       \* BitArray.SetIndex of the peer's vote bit array
  ELSE IF m.t = "part" /\ m.idx = NEG THEN "prs"
  ELSE IF m.t = "proposal" /\ m.total = MAXI THEN "prs"      \* NewBitArray(Total) of the peer's part bit array
  ELSE "yes"

\* HeightVoteSet.SetPeerMaj23 as the reactor calls it: effect on the node's vote sets
Maj23Effect(m) ==
  IF ~OnOwnChannel(m) \/ m.h # C.h \/ m.typ \notin {Prevote, Precommit} \/ ~Tracked(m.r) THEN None
  ELSE IF rs.claim = <<>> THEN "claim"
  ELSE None      \* the same claim again, a claim for another vote set (the model keeps one) or a conflicting one (peer stopped)

\* the whole path
Effect(m, fx) ==
  IF m.t = "byzblock" THEN (IF OnOwnChannel(m) THEN ByzBlock(m, fx) ELSE None)
  ELSE IF m.t = "maj23" THEN Maj23Effect(m)
  ELSE IF Forwarded(m) = "no" THEN None
  ELSE HandleMsg(m, fx)

\* what the state machine does if handed the message directly (the harness also does this)
Direct(m, fx) == IF m.t \in {"proposal", "part", "vote"} THEN HandleMsg(m, fx) ELSE None

(* ---- behaviours ---------------------------------------------------------------- *)
Init == /\ cls \in Classes /\ rs = RS0 /\ running = TRUE /\ last = [op |-> "init"]

\* Only messages whose path reads q / claim are explored again once those changed: handleMsg reads
\* peerCatchupRounds only for votes of the current height with an untracked round, and peerMaj23s of a
\* vote set only for claims about that vote set.
SensVote(m)  == m.t = "vote" /\ OnOwnChannel(m) /\ ~m.nilc /\ m.h = C.h /\ m.typ \in {Prevote, Precommit} /\ ~Tracked(m.r)
SensClaim(m) == m.t = "maj23" /\ OnOwnChannel(m) /\ m.h = C.h /\ m.r = rs.claim[1] /\ m.typ = rs.claim[2]

Deliver(m) ==
  /\ running /\ rs.changed = "no"
  /\ rs.q > 0 => SensVote(m)
  /\ rs.claim # <<>> => SensClaim(m)
  /\ LET e == Effect(m, Fixed) IN
       /\ running' = (e # "panic")
       /\ rs' = CASE e \in {"alloc", "alloc+vote"} -> [rs EXCEPT !.q = @ + 1, !.changed = IF e = "alloc" THEN "no" ELSE e]
                  [] e = "claim"                   -> [rs EXCEPT !.claim = <<m.r, m.typ, m.bid>>]
                  [] e \in {"none", "panic", "conflict"} -> rs
                  [] OTHER                         -> [rs EXCEPT !.changed = e]
       /\ last' = [op |-> "deliver", m |-> m, may |-> MayAffect(m), eff |-> e, fwd |-> Forwarded(m),
                   direct |-> Direct(m, Fixed), asis |-> Effect(m, AsIs), asisdirect |-> Direct(m, AsIs)]
  /\ UNCHANGED cls

Next == \E m \in (IF rs.q > 0 THEN VoteMsgs ELSE IF rs.claim # <<>> THEN Maj23Msgs ELSE Msgs) : Deliver(m)

Spec == Init /\ [][Next]_vars

(* ---- what TLC checks -------------------------------------------------------------- *)
TypeOK == /\ cls \in Classes /\ running \in BOOLEAN /\ rs.q \in 0 .. 2

\* the consensus routine keeps running whatever the peer sends
AlwaysRunning == running

\* a message that may not legitimately affect the node leaves its RoundState alone
InvalidIsStutter == [][ (last'.op = "deliver" /\ ~last'.may) => rs' = rs ]_vars

\* the catch-up allocation is bounded per peer
BoundedCatchup == rs.q <= 2

\* nothing the state machine is handed directly may fail either, except for nil components,
\* which the reactor never forwards (Forwarded = "no")
DirectOnlyNil == [][ (last'.op = "deliver" /\ last'.direct = "panic" /\ last'.eff # "panic") => last'.m.nilc ]_vars

(* ---- export for the harness --------------------------------------------------------- *)
Proj(c, r) == [cls |-> c, q |-> r.q, claim |-> r.claim, changed |-> r.changed]
\* cf: the class record, for the harness to check that the node it built is the one described here
ClassFacts == [h |-> C.h, r |-> C.r, step |-> C.step, lc |-> C.lc, prop |-> C.prop, exp |-> C.exp,
               nhave |-> Cardinality(C.have), blk |-> C.blk, stalled |-> C.stalled]
Edge == PrintT(ToJson([from |-> Proj(cls, rs), act |-> last', to |-> Proj(cls', rs'), run |-> running', cf |-> ClassFacts]))
View == <<cls, rs, running>>
=============================================================================
