SPECIFICATION Spec
CONSTANTS
  Classes = {"h1-newheight", "h1-propose", "h1-parts", "h1-prevote", "h1-prevotewait", "h1-precommit", "h1-precommitwait", "h1-commit", "h1-r1-propose", "h2-newheight", "h2-propose", "h1-stalled"}
  Pairs = "key"
  FixLastCommitNil = FALSE
  FixPartIndexNeg = FALSE
  FixTotalNeg = FALSE
  FixTotalMax = FALSE
  FixRecoverAuth = FALSE
  FixBlockComponents = FALSE
  SetRoundSkipsExisting = TRUE
  WalEncoderLimit = FALSE
INVARIANTS TypeOK AlwaysRunning BoundedCatchup TrackedRange
PROPERTIES InvalidIsStutter DirectOnlyNil
VIEW View
CHECK_DEADLOCK FALSE
