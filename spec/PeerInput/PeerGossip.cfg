SPECIFICATION Spec
CONSTANTS
  NodeClasses = {"g-h1-parts", "g-h1-commit", "g-h1-propose", "g-h2-propose", "g-h3-pruned"}
  MaxMsgs = 3
  FixBitArrays = TRUE
  FixCrisis = TRUE
  FixTotals = TRUE
INVARIANTS TypeOK Alive
VIEW View
CHECK_DEADLOCK FALSE
