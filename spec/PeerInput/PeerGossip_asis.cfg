SPECIFICATION Spec
CONSTANTS
  NodeClasses = {"g-h1-parts", "g-h1-commit", "g-h1-propose", "g-h2-propose", "g-h3-pruned"}
  MaxMsgs = 3
  FixBitArrays = FALSE
  FixCrisis = FALSE
  FixTotals = FALSE
INVARIANTS TypeOK Lead
VIEW View
CHECK_DEADLOCK FALSE
