----------------------------- MODULE PeerGossip -----------------------------
(***************************************************************************)
(* C16, second half: what a peer ANNOUNCES about itself is read by three   *)
(* goroutines the reactor starts per peer (gossipDataRoutine,              *)
(* gossipVotesRoutine, queryMaj23Routine).  They do not run under the      *)
(* connection's recover(): a failure there ends the PROCESS, and the       *)
(* consensus routine with it.                                              *)
(*                                                                         *)
(* State: the node's class (height, round, whether it holds a proposal /   *)
(* a part set, which heights its block store still has) and the            *)
(* PeerRoundState the reactor keeps for the peer (consensus/types/         *)
(* peer_round_state.go), restricted to the fields a peer can set to values *)
(* of its own making: Height, Round, Proposal, ProposalBlockPartsHeader,   *)
(* ProposalBlockParts, ProposalPOLRound, ProposalPOL, CatchupCommitRound.  *)
(* (Prevotes / Precommits / LastCommit / CatchupCommit are allocated by    *)
(* the node with its own sizes and only updated element-wise; Step and     *)
(* StartTime are not read by anything that can fail.)                      *)
(*                                                                         *)
(* A BitArray (libs/common/bit_array.go) is decoded field by field (Bits,  *)
(* Elems), so a peer can send one whose Bits and len(Elems) disagree.  It  *)
(* is abstracted to <<bits, elems>>: bits in "neg" (negative, not a        *)
(* multiple of 64) / "eq" (the size the node expects) / "gt" (larger),     *)
(* elems in "none" (empty) / "few" (at least one, fewer than Bits needs) / *)
(* "ok"; the partial operations Sub / and / PickRandom / SetIndex are      *)
(* transcribed with their failure conditions.                              *)
(*                                                                         *)
(* Actions: one per message type that writes the PeerRoundState            *)
(* (ApplyNewRoundStepMessage, SetHasProposal, ApplyCommitStepMessage,      *)
(* ApplyProposalPOLMessage) and one per loop iteration of the gossip       *)
(* routines; the iteration of gossipDataRoutine is split where the code    *)
(* releases the PeerState lock between reading it and                      *)
(* SetHasProposalBlockPart (a message can arrive in between).              *)
(* Invariant Alive.  FixBitArrays = the repaired Receive (malformed bit    *)
(* arrays are a decode-level error: the peer is stopped); FixCrisis = the  *)
(* repaired catch-up (a missing block is logged, not PanicCrisis);         *)
(* FixTotals = the repaired Receive stops a peer whose proposal names a    *)
(* negative number of parts or more than the largest block can have.       *)
(***************************************************************************)
EXTENDS Integers, FiniteSets, Sequences, TLC, Json

CONSTANTS NodeClasses,    \* node classes to explore
          MaxMsgs,        \* bound on the number of peer messages in a behaviour
          FixBitArrays, FixCrisis, FixTotals

FAR == 7
Nil == <<"nil", "nil">>
OwnBA == <<"eq", "ok">>                     \* what NewBitArray(n) of the node's own size gives
PeerBAs == {Nil, <<"eq", "ok">>, <<"gt", "ok">>, <<"eq", "none">>, <<"gt", "few">>, <<"neg", "ok">>}
WellFormed(ba) == ba = Nil \/ (ba[1] \in {"eq", "gt"} /\ ba[2] = "ok")

\* node classes: h, r; pbp = it holds a part set with at least one part; proposal = cs.Proposal # nil;
\* commit = it has +2/3 precommits of round 0 (PickSendVote then sets CatchupCommitRound);
\* stored = heights LoadBlockMeta answers for (everything below h unless pruned: keep_latest_blocks)
NodeTab ==
  [ c \in {"g-h1-parts", "g-h1-commit", "g-h1-propose", "g-h2-propose", "g-h3-pruned"} |->
    CASE c = "g-h1-parts"   -> [h |-> 1, r |-> 0, pbp |-> TRUE,  proposal |-> TRUE,  commit |-> FALSE, stored |-> {}]
      [] c = "g-h1-commit"  -> [h |-> 1, r |-> 0, pbp |-> FALSE, proposal |-> FALSE, commit |-> TRUE,  stored |-> {}]
      [] c = "g-h1-propose" -> [h |-> 1, r |-> 0, pbp |-> FALSE, proposal |-> FALSE, commit |-> FALSE, stored |-> {}]
      [] c = "g-h2-propose" -> [h |-> 2, r |-> 0, pbp |-> FALSE, proposal |-> FALSE, commit |-> FALSE, stored |-> {1}]
      [] c = "g-h3-pruned"  -> [h |-> 3, r |-> 0, pbp |-> FALSE, proposal |-> FALSE, commit |-> FALSE, stored |-> {2}] ]

VARIABLES node,    \* class name
          prs,     \* the PeerRoundState
          pend,    \* "none" | "part": gossipDataRoutine sent a part and is about to call SetHasProposalBlockPart
                   \*   (the part exists, so its index is below the node's own size)
          pendHR,  \* the (Height, Round) it read when it picked the part
          alive,   \* the process
          site,    \* where it died
          n,       \* peer messages so far
          hist     \* the behaviour so far (output only)
vars == <<node, prs, pend, pendHR, alive, site, n, hist>>

N == NodeTab[node]
PRS0 == [h |-> 0, r |-> -1, prop |-> FALSE, hdr |-> "zero", pbp |-> Nil, polr |-> -1, pol |-> Nil, ccr |-> -1]
Tracked(rr) == rr \in 0 .. N.r + 1

(* ---- libs/common.BitArray, partial operations -------------------------------- *)
\* own.Sub(o) for a well-formed `own` of the expected size: "panic" or the result
Sub(o) == IF o = Nil THEN Nil
          ELSE IF o[1] = "neg" THEN OwnBA                     \* bA.Bits > o.Bits: copy, nothing to clear
          ELSE IF o[2] = "none" THEN <<"panic", "panic">>     \* bA.and(o.Not()): c.Elems[i] &= o.Elems[i]
          ELSE OwnBA
\* x.PickRandom(): "panic" | "none" | "some"  (x.Not() has the same shape as x)
Pick(x) == IF x = Nil \/ x[2] = "none" THEN {"none"}
           ELSE IF x[1] = "neg" THEN {"panic"}                \* RandIntn(Bits % 64) with a negative argument
           ELSE {"none", "some"}
\* x.SetIndex(i, true) with i below the node's own size
SetIndexFails(x) == /\ x # Nil /\ x[1] \in {"eq", "gt"}               \* i >= Bits returns early (always for negative Bits)
                    /\ x[2] = "none"                                   \* Elems[i/64] of an empty slice

(* ---- messages that write the PeerRoundState ----------------------------------- *)
\* (Say comes last in every action: it records the PeerRoundState the step leads to)
Say(lbl) == hist' = Append(hist, [a |-> lbl, to |-> prs', pend |-> pend'])
Msg == /\ alive /\ n < MaxMsgs /\ n' = n + 1 /\ UNCHANGED <<node, pend, pendHR, alive, site>>

\* PeerState.ApplyNewRoundStepMessage (CompareHRS without the step: a higher step alone changes nothing modelled)
NewRoundStep(h, r) ==
  /\ Msg
  /\ prs' = IF h < prs.h \/ (h = prs.h /\ r <= prs.r) THEN prs
            ELSE [prs EXCEPT !.h = h, !.r = r, !.prop = FALSE, !.hdr = "zero", !.pbp = Nil, !.polr = -1, !.pol = Nil,
                             !.ccr = IF h # prs.h THEN -1 ELSE @]
  /\ Say([t |-> "nrs", h |-> h, r |-> r])

\* PeerState.SetHasProposal, called by Receive for the peer's own (unverified) ProposalMessage.
\* kind: "node" = exactly the node's part-set header; "other" / "other-neg" / "other-big" = another hash with a
\* plausible / negative / huge Total (ProposalBlockParts = NewBitArray(Total): nil for Total <= 0)
Proposal(h, r, pol, kind) ==
  /\ Msg
  /\ prs' = IF FixTotals /\ kind \in {"other-neg", "other-big"} THEN PRS0     \* repaired Receive: the peer is stopped
            ELSE IF prs.h # h \/ prs.r # r \/ prs.prop THEN prs
            ELSE [prs EXCEPT !.prop = TRUE, !.hdr = IF kind = "node" THEN "node" ELSE "other", !.polr = pol, !.pol = Nil,
                             !.pbp = CASE kind = "other-neg" -> Nil [] kind = "other-big" -> <<"gt", "ok">> [] OTHER -> OwnBA]
  /\ Say([t |-> "proposal", h |-> h, r |-> r, pol |-> pol, kind |-> kind])

\* PeerState.ApplyCommitStepMessage
CommitStep(h, hdr, ba) ==
  /\ Msg
  /\ prs' = IF FixBitArrays /\ ~WellFormed(ba) THEN PRS0        \* repaired Receive: the peer is stopped; it connects again
            ELSE IF prs.h # h THEN prs
            ELSE [prs EXCEPT !.hdr = hdr, !.pbp = ba]
  /\ Say([t |-> "commitstep", h |-> h, hdr |-> hdr, ba |-> ba])

\* PeerState.ApplyProposalPOLMessage
ProposalPOL(h, polr, ba) ==
  /\ Msg
  /\ prs' = IF FixBitArrays /\ ~WellFormed(ba) THEN PRS0
            ELSE IF prs.h # h \/ prs.polr # polr THEN prs
            ELSE [prs EXCEPT !.pol = ba]
  /\ Say([t |-> "pol", h |-> h, polr |-> polr, ba |-> ba])

(* ---- the gossip routines -------------------------------------------------------- *)
Die(where) == /\ alive' = FALSE /\ site' = where /\ prs' = PRS0 /\ pend' = "none" /\ pendHR' = <<0, -1>>
Step == /\ alive /\ UNCHANGED <<node, n>>

Keep == UNCHANGED <<prs, pend, pendHR, alive, site>>

\* gossipDataRoutine when there is no part of the current part set to send: catch-up, our proposal, or sleep
GossipDataOther ==
  IF 0 < prs.h /\ prs.h < N.h THEN
    IF prs.pbp = Nil THEN
      IF prs.h \notin N.stored
      THEN (IF FixCrisis THEN Keep ELSE Die("gossipDataRoutine/PanicCrisis"))      \* LoadBlockMeta(prs.Height) = nil
      ELSE /\ prs' = [prs EXCEPT !.hdr = "stored", !.pbp = OwnBA]                  \* InitProposalBlockParts
           /\ UNCHANGED <<pend, pendHR, alive, site>>
    ELSE \* gossipDataForCatchup: prs.ProposalBlockParts.Not().PickRandom()
      \E p \in Pick(prs.pbp) :
        IF p = "panic" THEN Die("gossipDataForCatchup/BitArray.PickRandom")
        ELSE IF p = "some" /\ prs.h \in N.stored /\ prs.hdr = "stored"            \* header matches the stored block, part loaded and sent
             THEN /\ pend' = "part" /\ pendHR' = <<prs.h, prs.r>>
                  /\ UNCHANGED <<prs, alive, site>>
             ELSE Keep
  ELSE IF N.h = prs.h /\ N.r = prs.r /\ N.proposal /\ ~prs.prop
       THEN /\ prs' = [prs EXCEPT !.prop = TRUE, !.hdr = "node", !.pbp = OwnBA, !.polr = -1, !.pol = Nil]  \* our proposal sent: SetHasProposal(rs.Proposal)
            /\ UNCHANGED <<pend, pendHR, alive, site>>
       ELSE Keep                                                                  \* sleep

\* one iteration of gossipDataRoutine up to the point where it has sent a part (or slept)
GossipData ==
  /\ Step /\ pend = "none"
  /\ LET d == IF N.pbp /\ prs.hdr = "node" THEN Sub(prs.pbp) ELSE Nil   \* rs.ProposalBlockParts.BitArray().Sub(prs.ProposalBlockParts.Copy())
     IN  IF d[1] = "panic" THEN Die("gossipDataRoutine/BitArray.Sub")
         ELSE \/ /\ d # Nil                                            \* PickRandom found a part the peer lacks: Send, then SetHasProposalBlockPart
                 /\ pend' = "part" /\ pendHR' = <<prs.h, prs.r>> /\ UNCHANGED <<prs, alive, site>>
              \/ GossipDataOther
  /\ Say([t |-> "g-data"])

\* ... the rest of that iteration: ps.SetHasProposalBlockPart(prs.Height, prs.Round, index) on the CURRENT PeerState
GossipDataSetHas ==
  /\ Step /\ pend # "none"
  /\ IF prs.h = pendHR[1] /\ prs.r = pendHR[2] /\ SetIndexFails(prs.pbp)
     THEN Die("gossipDataRoutine/SetHasProposalBlockPart")
     ELSE pend' = "none" /\ pendHR' = <<0, -1>> /\ UNCHANGED <<prs, alive, site>>
  /\ Say([t |-> "g-data2"])

\* one iteration of gossipVotesRoutine: the only vote set whose peer-side bit array the peer can supply is the
\* POL prevotes (gossipVotesForHeight, last branch is unconditional); PickVoteToSend first fills nil arrays in
\* (ensureVoteBitArrays) and notes the round of a commit it holds (ensureCatchupCommitRound)
GossipVotes ==
  /\ Step
  /\ LET p1  == IF N.h = prs.h /\ N.commit /\ prs.ccr = -1 THEN [prs EXCEPT !.ccr = 0] ELSE prs
         pol == IF p1.pol = Nil THEN OwnBA ELSE p1.pol
         usesPOL == N.h = p1.h /\ p1.polr # -1 /\ Tracked(p1.polr) /\ p1.r # p1.polr /\ p1.ccr # p1.polr   \* getVoteBitArray resolves to ProposalPOL
     IN
     IF usesPOL /\ Sub(pol)[1] = "panic" THEN Die("gossipVotesRoutine/BitArray.Sub")   \* votes.BitArray().Sub(psVotes)
     ELSE /\ prs' = IF usesPOL THEN [p1 EXCEPT !.pol = pol] ELSE p1
          /\ UNCHANGED <<pend, pendHR, alive, site>>
  /\ Say([t |-> "g-votes"])

Heights == {0, N.h - 2, N.h - 1, N.h, N.h + 1} \ {-1}
Rounds  == {-1, 0, 1, FAR}
Next ==
  \/ \E h \in Heights, r \in Rounds : NewRoundStep(h, r)
  \/ \E h \in {prs.h}, r \in {prs.r}, pol \in {-1, 0, 1}, kind \in {"node", "other", "other-neg", "other-big"} : Proposal(h, r, pol, kind)
  \/ \E h \in {prs.h}, hdr \in {"zero", "node", "stored", "other"}, ba \in PeerBAs : CommitStep(h, hdr, ba)
  \/ \E h \in {prs.h}, polr \in {prs.polr, -1, 0} , ba \in PeerBAs : ProposalPOL(h, polr, ba)
  \/ GossipData \/ GossipDataSetHas \/ GossipVotes

Init == /\ node \in NodeClasses /\ prs = PRS0 /\ pend = "none" /\ pendHR = <<0, -1>> /\ alive = TRUE /\ site = "" /\ n = 0 /\ hist = <<>>
Spec == Init /\ [][Next]_vars

TypeOK == /\ prs.pbp \in PeerBAs \cup {OwnBA} /\ prs.pol \in PeerBAs \cup {OwnBA} /\ pend \in {"none", "part"}

\* the process survives whatever the peer announces
Alive == alive

\* Lead: the same as Alive, but instead of stopping at the first violation it prints the behaviour that
\* reached each distinct site of death (breadth first: a shortest one) and lets the search continue.
Lead == alive \/ PrintT(ToJson([lead |-> site, node |-> node, hist |-> hist]))

\* export of simulated behaviours: a behaviour is printed when it reaches WalkLen steps
WalkLen == 14
Walk == Len(hist) # WalkLen \/ PrintT(ToJson([walk |-> hist, node |-> node]))
View == <<node, prs, pend, pendHR, alive, site, n>>
=============================================================================
