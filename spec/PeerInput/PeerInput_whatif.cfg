SPECIFICATION Spec
CONSTANTS
  Classes = {"h1-newheight", "h1-propose", "h1-r1-propose"}
  Pairs = "key"
  FixLastCommitNil = TRUE
  FixPartIndexNeg = TRUE
  FixTotalNeg = TRUE
  FixTotalMax = TRUE
  FixRecoverAuth = TRUE
  FixBlockComponents = TRUE
  SetRoundSkipsExisting = FALSE
  WalEncoderLimit = TRUE
INVARIANTS TypeOK Hazard
VIEW View
CHECK_DEADLOCK FALSE
