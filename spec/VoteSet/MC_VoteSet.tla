---------------------------- MODULE MC_VoteSet ----------------------------
(* Bounded instances of VoteSet: the sets of voting-power vectors.  Up to   *)
(* permutation there are 1 / 2 / 4 / 8 classes of vectors of 1 / 2 / 3 / 4  *)
(* validators that differ in which subsets exceed 2/3 of the total or equal *)
(* it (enumerated over powers 1..7); every class of 1..3 validators is in   *)
(* the quick instance, several orders of them and sets of four validators   *)
(* in the thorough one (slots are positional).  An instance is split over   *)
(* several configurations only so that TLC runs proceed in parallel; the    *)
(* harness merges the exported graphs (they share the initial state).       *)
EXTENDS VoteSet

\* quick, vote graph (1 peer, reduced defect generation): all classes of 1..3 validators
VotesQuickA == { <<1>>, <<1, 1>>, <<1, 3>>, <<1, 1, 1>>, <<1, 5, 1>> }
VotesQuickB == { <<2, 1, 1>>, <<1, 2, 2>> }
\* thorough 1 (1 peer, every defect for every validator, defective votes for B1 and nil):
\* the classes of 1..3 validators in more orders
VotesT1 == VotesQuickA \cup VotesQuickB \cup { <<3, 1>>, <<1, 1, 2>>, <<2, 2, 1>>, <<5, 1, 1>> }
\* thorough 2 (2 peers claiming majorities)
VotesT2 == { <<1, 1, 1>>, <<2, 1, 1>> }
\* thorough 3 (4 validators): the classic equal set and two uneven ones
VotesT3 == { <<1, 1, 1, 1>>, <<1, 1, 2, 3>>, <<2, 1, 1, 1>> }
\* quick, commit lattice: every class of 1..3 validators
CommitsQuick == VotesQuickA \cup VotesQuickB
\* thorough, commit lattice: every class of 1..4 validators
CommitsThorough == CommitsQuick \cup { <<3, 1>>, <<1, 1, 2>>, <<5, 1, 1>>,
                                     <<1, 1, 1, 1>>, <<2, 1, 1, 1>>, <<1, 1, 2, 2>>, <<1, 4, 1, 1>>, <<1, 1, 2, 3>>,
                                     <<3, 1, 1, 3>>, <<1, 1, 1, 7>>, <<5, 2, 2, 1>> }
=============================================================================
