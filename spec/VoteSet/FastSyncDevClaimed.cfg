SPECIFICATION SpecFastSync
CONSTANTS
  PowerVectors <- FastSyncDev
  Blocks = {"B1", "B2"}
  Peers = {"p1"}
  Defects = {}
  DefectBlocks = {}
  DefectSlots = "one"
  SlotKinds = {"absent"}
  FirstKinds = {"G", "X", "D", "later"}
  SecondIDs = {"G", "X", "J"}
  CommitIDs = {"G", "X"}
  FsSlotKinds = {"absent", "B", "O", "nil", "sigBad"}
  MaxPeers = 1
  VerifyAgainst = "claimed"
INVARIANTS FastSyncSound

VIEW FsView
CHECK_DEADLOCK FALSE
