SPECIFICATION SpecFastSync
CONSTANTS
  PowerVectors <- CommitsQuick
  Blocks = {"B1", "B2"}
  Peers = {"p1"}
  Defects = {}
  DefectBlocks = {}
  DefectSlots = "one"
  SlotKinds = {"absent"}
  FirstKinds = {"G", "X", "D", "later"}
  SecondIDs = {"G", "X", "D", "J"}
  CommitIDs = {"G", "X"}
  FsSlotKinds = {"absent", "B", "B@r1", "O", "nil", "hBad", "sigBad", "foreign", "nextAsSlot"}
  MaxPeers = 2
  VerifyAgainst = "computed"
INVARIANTS FsTypeOK FastSyncSound FastSyncLinks
PROPERTIES FastSyncSteps
ACTION_CONSTRAINT FsEdge
VIEW FsView
CHECK_DEADLOCK FALSE
