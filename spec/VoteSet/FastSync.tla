------------------------------ MODULE FastSync ------------------------------
(***************************************************************************)
(* What fast sync accepts as a commit (property C03, third part).          *)
(*                                                                         *)
(* VoteSet.tla, part 2, varies the COMMIT that VerifyCommit is asked       *)
(* about.  The fast-sync call site (blockchain/reactor.go poolRoutine,     *)
(* SYNC_LOOP) additionally has to BIND three things that a peer supplies   *)
(* independently of each other:                                            *)
(*    first               the block served for height H,                   *)
(*    second.LastBlockID  the id the block served for H+1 names as its     *)
(*                        predecessor,                                     *)
(*    second.LastCommit   precommits (with a BlockID field of their own),  *)
(* and it commits `first` - nothing else - when VerifyCommit returns nil.  *)
(* This module models the syncing node at the grain of the code:           *)
(*    BlockPool.AddBlock      files a served block under the block's OWN   *)
(*                            height (requesters[block.Height]);           *)
(*    PeekTwoBlocks           nothing happens before both slots are full;  *)
(*    firstID                 Hash() and MakePartSet().Header() of first;  *)
(*    VerifyCommit(chainID, firstID, first.Height, second.LastCommit)      *)
(*                            the operator of VoteSet.tla, unchanged;      *)
(*    error                   RedoRequest of both heights, the peer is     *)
(*                            stopped, another peer is asked;              *)
(*    nil                     PopRequest, appmgr.CommitBlock(first, parts, *)
(*                            second.LastCommit), ApplyBlock(status,       *)
(*                            firstID, first) which panics (PanicQ) when   *)
(*                            validateBlock rejects the committed block.   *)
(* One Serve action = the peer currently connected answers the requests    *)
(* for H and H+1 and the next trySync tick examines the pair (the routine  *)
(* never acts on one block alone, so the two deliveries are not split).    *)
(*                                                                         *)
(* Block ids are strings: "G" the id of the block the chain committed at   *)
(* H, "X" the id of another internally consistent block of height H, "D"   *)
(* the id of the genuine header over altered content (Block.Hash() covers  *)
(* the header only, so "D" differs from "G" in the part-set header alone), *)
(* "J" an id of no block at all.  The precommits of second.LastCommit are  *)
(* the slot alternatives of the commit lattice with B = "G" and O = "X".   *)
(***************************************************************************)
EXTENDS MC_VoteSet

CONSTANTS FirstKinds,     \* blocks a peer may serve for height H (subset of AllFirstKinds)
          SecondIDs,      \* ids second.LastBlockID may name
          CommitIDs,      \* ids the BlockID field of second.LastCommit may name
          FsSlotKinds,    \* per-slot alternatives of second.LastCommit (subset of AllSlotKinds)
          MaxPeers,       \* peers that serve in turn; each is stopped after a failed verification
          VerifyAgainst   \* "computed": as coded.  Named deviations, which TLC must refute:
                          \* "claimed" = the id second.LastBlockID names, "commitField" = the id the
                          \* commit names itself

\* thorough: sets of four validators (with the smaller lattice); the named deviations are refuted on one set
FastSyncFour == { <<1, 1, 1, 1>>, <<2, 1, 1, 1>>, <<1, 1, 2, 3>> }
FastSyncDev  == { <<1, 1, 1>> }

VARIABLE fs               \* the syncing node (record, see FsStart)
fsvars == <<pw, vs, last, fs>>

Genuine == "G"
OtherB  == "X"
AllFirstKinds == {"G",      \* the genuine block
                  "X",      \* another internally consistent block of height H (own hash, own part set)
                  "D",      \* the genuine header with altered data / evidence / last commit
                  "later"}  \* a block whose height is H+1, sent in answer to the request for H

\* the id poolRoutine computes from a block of height H: BlockID{first.Hash(), first.MakePartSet(..).Header()}
FsIdOf(b) == b
\* validateBlock(status before H, b) passes: ValidateBasic (header hashes match the content) and the status
FsValid(b) == b \in {"G", "X"}

FsStart == [height  |-> 1,         \* BlockPool.height: the height being synced (H = 1, H+1 = 2)
            store   |-> NoBlock,   \* the block the application holds at H (appmgr.CommitBlock)
            seen    |-> <<>>,      \* the commit stored with it (slot kinds of second.LastCommit)
            lastID  |-> NoBlock,   \* status.LastBlockID after ApplyBlock
            dropped |-> 0,         \* peers stopped for a validation error so far
            stalled |-> FALSE,     \* the requester of H waits for a peer that answered with something else
            dead    |-> FALSE]     \* ApplyBlock failed after CommitBlock: the node panicked

FsCommitOf(kinds) == [k \in DOMAIN kinds |-> SlotPre(kinds[k], k, Len(kinds), Genuine, OtherB)]

FsInit == Init /\ fs = FsStart

FsNew(P) == NewVoteSet(P) /\ UNCHANGED fs

\* the peer serves `first` for H and, for H+1, a block naming sid as its predecessor and carrying the
\* commit <<cid, kinds>>; the next trySync tick of poolRoutine
Serve(first, sid, cid, kinds) ==
  /\ pw # <<>> /\ vs = EmptySet(N)
  /\ fs.store = NoBlock /\ ~fs.stalled /\ ~fs.dead /\ fs.dropped < MaxPeers
  /\ LET c       == FsCommitOf(kinds)
         placed  == first # "later"                       \* AddBlock: requesters[block.Height]
         firstID == CASE VerifyAgainst = "computed"    -> FsIdOf(first)
                      [] VerifyAgainst = "claimed"     -> sid
                      [] VerifyAgainst = "commitField" -> cid
         ok      == placed /\ VerifyCommit(pw, c, firstID, TRUE)      \* first.Height = H = the votes' height
         applied == ok /\ FsValid(first)
     IN /\ fs' = IF ~placed THEN [fs EXCEPT !.stalled = TRUE]          \* PeekTwoBlocks: first == nil
                 ELSE IF ~ok THEN [fs EXCEPT !.dropped = @ + 1]        \* RedoRequest x 2, StopPeerForError
                 ELSE [fs EXCEPT !.store = first, !.seen = kinds,      \* CommitBlock(first, parts, second.LastCommit)
                                 !.height = IF applied THEN 2 ELSE @,
                                 !.lastID = IF applied THEN firstID ELSE @,   \* ApplyBlock(status, firstID, first)
                                 !.dead = ~applied]
        /\ last' = [op |-> "sync", first |-> first, sid |-> sid, cid |-> cid, kinds |-> kinds,
                    placed |-> placed, ok |-> ok,
                    \* the property's own notion, for the block served and for the two ids votes are cast for
                    committedFirst |-> placed /\ Committed(pw, c, FsIdOf(first), TRUE),
                    committedG |-> Committed(pw, c, Genuine, TRUE),
                    committedX |-> Committed(pw, c, OtherB, TRUE)]
  /\ UNCHANGED <<pw, vs>>

FsNext ==
  \/ \E P \in PowerVectors : FsNew(P)
  \/ \E first \in FirstKinds, sid \in SecondIDs, cid \in CommitIDs :
       \E kinds \in [Idx -> FsSlotKinds] : Serve(first, sid, cid, kinds)

SpecFastSync == FsInit /\ [][FsNext]_fsvars

(* ---- what TLC checks ---------------------------------------------------------- *)
FsTypeOK ==
  /\ pw = <<>> \/ pw \in PowerVectors
  /\ fs.store \in (FirstKinds \ {"later"}) \cup {NoBlock}
  /\ fs.dropped \in 0..MaxPeers
  /\ fs.height \in {1, 2}
  /\ fs.store = NoBlock <=> fs.seen = <<>>

\* C03 at this call site: fast sync stores a block at H only if validators holding strictly more than
\* two thirds of the power each contributed one correctly signed precommit for exactly THAT block's id,
\* at H, in one common round - in the commit that is stored with it
FastSyncSound ==
  fs.store # NoBlock => Committed(pw, FsCommitOf(fs.seen), FsIdOf(fs.store), TRUE)

\* the status names the block that was stored, and a node that stored a block keeps running
FastSyncLinks ==
  fs.store # NoBlock => /\ ~fs.dead
                        /\ fs.lastID = FsIdOf(fs.store) /\ fs.height = 2

\* nothing is stored except by a verification that passed; a failed one changes nothing but the peer count;
\* a genuine block with a clean commit of it is stored whatever else the peer claims
FastSyncSteps ==
  [][ /\ fs'.store # fs.store => (last'.op = "sync" /\ last'.ok /\ fs.store = NoBlock /\ fs'.store = last'.first)
      /\ (last'.op = "sync" /\ ~last'.ok) => (fs'.store = fs.store /\ fs'.lastID = fs.lastID /\ fs'.height = fs.height)
      /\ (last'.op = "sync" /\ last'.ok) => last'.committedFirst
      /\ (last'.op = "sync" /\ last'.placed /\ last'.committedFirst /\ Clean(FsCommitOf(last'.kinds))) => last'.ok ]_fsvars

(* ---- export -------------------------------------------------------------------- *)
FsProj(P, f) == [pw |-> P, height |-> f.height, store |-> f.store, seen |-> f.seen, lastID |-> f.lastID,
                 dropped |-> f.dropped, stalled |-> f.stalled, dead |-> f.dead]
FsEdge == PrintT(ToJson([from |-> FsProj(pw, fs), act |-> last', to |-> FsProj(pw', fs')]))
FsView == <<pw, fs>>
=============================================================================
