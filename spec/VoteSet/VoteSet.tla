------------------------------ MODULE VoteSet ------------------------------
(***************************************************************************)
(* What counts as a commit (property C03).                                 *)
(*                                                                         *)
(* Part 1 models types.VoteSet (types/vote_set.go): one action per public  *)
(* call - NewVoteSet, AddVote, SetPeerMaj23 - with AddVote following the   *)
(* admission order of addVote / addVerifiedVote line by line.  The queries *)
(* TwoThirdsMajority, HasTwoThirdsAny, HasAll, BitArray, BitArrayByBlockID *)
(* and MakeCommit are derived operators of the state.                      *)
(*                                                                         *)
(* Part 2 transcribes ValidatorSet.VerifyCommit (types/validator_set.go),  *)
(* the operator every call site uses (validateBlock, fast sync), and the   *)
(* loop of ConsensusState.reconstructLastCommit, over a lattice of         *)
(* adversarial commits.                                                    *)
(*                                                                         *)
(* Part 3 is the module FastSync.tla (EXTENDS this one): the syncing node  *)
(* of blockchain/reactor.go poolRoutine, which must bind the block it      *)
(* commits to the id the precommits of second.LastCommit sign.             *)
(*                                                                         *)
(* Votes are abstract records.  What a wire vote can get wrong is kept as  *)
(* one flag per check of the code; the harness instantiates every flag in  *)
(* every way the wire allows (wrong index vs wrong address, a signature    *)
(* transplanted from another vote / chain id / slot, ...) and signs with   *)
(* real ed25519 keys.  Voting powers are small integers; the code depends  *)
(* on them only through comparisons of subset sums with total*2/3 and      *)
(* total, so the harness replays every behaviour also with power vectors   *)
(* near 2^62 that it has verified to be comparison-equivalent.             *)
(*                                                                         *)
(* Block ids are strings: "nil" is the zero BlockID, NoBlock means "no     *)
(* vote / no majority".                                                    *)
(***************************************************************************)
EXTENDS Integers, Sequences, FiniteSets, TLC, Json

CONSTANTS PowerVectors,   \* the validator sets tried: a set of sequences of positive powers
          Blocks,         \* non-nil block ids (strings)
          Peers,          \* peer ids (strings) that may claim a majority
          Defects,        \* kinds of defective votes that are generated (subset of AllDefects)
          DefectBlocks,   \* block ids used by defective votes
          DefectSlots,    \* "all": defective votes are generated for every validator; "one": signature
                          \* defects for every validator, the others for one validator per state
          SlotKinds       \* per-slot alternatives of the commit lattice (subset of AllSlotKinds)

NilBlock == "nil"
NoBlock  == "none"
BlockIds == Blocks \cup {NilBlock}

AllDefects == {"idxNeg", "idxBig", "addrEmpty", "addrWrong", "size", "height", "round", "type", "sig"}

VARIABLES pw,     \* voting power by validator index (1-based here, 0-based in the code); <<>> before NewVoteSet
          vs,     \* the VoteSet object (record, see EmptySet)
          last    \* label of the last action, with the results of the call (output only; hidden by VIEW)
vars == <<pw, vs, last>>

N     == Len(pw)
Idx   == 1..N

RECURSIVE SumOver(_, _)
SumOver(P, S) == IF S = {} THEN 0
                 ELSE LET i == CHOOSE i \in S : TRUE IN P[i] + SumOver(P, S \ {i})
TotalOf(P) == SumOver(P, 1..Len(P))
Total == TotalOf(pw)                       \* ValidatorSet.TotalVotingPower()

(* ---- the VoteSet object ------------------------------------------------ *)
NoBlockVotes(n) == [tracked |-> FALSE,     \* an entry exists in votesByBlock
                    peer    |-> FALSE,     \* blockVotes.peerMaj23
                    has     |-> [i \in 1..n |-> FALSE],   \* blockVotes.bitArray / votes[i] # nil
                    sum     |-> 0]

EmptySet(n) == [votes   |-> [i \in 1..n |-> NoBlock],    \* voteSet.votes[i].BlockID (canonical votes)
                bits    |-> [i \in 1..n |-> FALSE],      \* voteSet.votesBitArray
                sum     |-> 0,                           \* voteSet.sum
                maj23   |-> NoBlock,                     \* voteSet.maj23
                byBlock |-> [b \in BlockIds |-> NoBlockVotes(n)],  \* voteSet.votesByBlock
                peerMaj |-> [p \in Peers |-> NoBlock]]   \* voteSet.peerMaj23s

(* ---- votes -------------------------------------------------------------- *)
(* who   : the validator (index) the vote is built for and signed by       *)
(* idx   : ValidatorIndex  "ok" = who | "neg" = below zero | "big" = beyond the set *)
(* addr  : ValidatorAddress "ok" = address of validator who | "empty" | "wrong"     *)
(* size  : ValidatorSize   "ok" = size of the set | "bad"                  *)
(* h,r,t : Height, Round, Type  "ok" = those of the vote set | "bad"        *)
(* sig   : "ok" = signature of validator who over exactly these fields on  *)
(*         this chain | "bad" = anything else                              *)
(* rel   : relation to a vote already stored for (who, block):             *)
(*         "fresh" none stored | "exact" same signature | "resign" another *)
(*         signature (same validator signed the same block id again)       *)
GoodVote(i, b, rel) == [who |-> i, idx |-> "ok", addr |-> "ok", size |-> "ok", h |-> "ok", r |-> "ok",
                        t |-> "ok", sig |-> "ok", block |-> b, rel |-> rel]
DefectVote(d, i, b, rel) ==
  LET g == GoodVote(i, b, rel) IN
  CASE d = "idxNeg"    -> [g EXCEPT !.idx = "neg"]
    [] d = "idxBig"    -> [g EXCEPT !.idx = "big"]
    [] d = "addrEmpty" -> [g EXCEPT !.addr = "empty"]
    [] d = "addrWrong" -> [g EXCEPT !.addr = "wrong"]
    [] d = "size"      -> [g EXCEPT !.size = "bad"]
    [] d = "height"    -> [g EXCEPT !.h = "bad"]
    [] d = "round"     -> [g EXCEPT !.r = "bad"]
    [] d = "type"      -> [g EXCEPT !.t = "bad"]
    [] d = "sig"       -> [g EXCEPT !.sig = "bad"]

\* the declarative notion the property uses: a correctly signed vote of validator who for v.block
WellFormed(v) == /\ v.idx = "ok" /\ v.addr = "ok" /\ v.size = "ok"
                 /\ v.h = "ok" /\ v.r = "ok" /\ v.t = "ok" /\ v.sig = "ok"

\* VoteSet.getVote: a vote of validator i for block id b is already stored
Known(s, i, b) == s.votes[i] = b \/ s.byBlock[b].has[i]

NoEvidence == [who |-> 0, a |-> NoBlock, b |-> NoBlock]
Reply(s, added, err, ev) == [s |-> s, added |-> added, err |-> err, ev |-> ev]

(* ---- addVerifiedVote (vote_set.go:217) ---------------------------------- *)
AddVerified(P, s, i, b) ==
  LET existing    == s.votes[i]
      conflicting == existing # NoBlock             \* existing # b is guaranteed by the Known test
      \* "Already exists in voteSet.votes?" - replace it only if b is the majority block
      s1 == IF conflicting
              THEN (IF s.maj23 # NoBlock /\ s.maj23 = b
                      THEN [s EXCEPT !.votes[i] = b, !.bits[i] = TRUE] ELSE s)
              ELSE [s EXCEPT !.votes[i] = b, !.bits[i] = TRUE, !.sum = s.sum + P[i]]
      bb == s1.byBlock[b]
      ev == IF conflicting THEN [who |-> i, a |-> existing, b |-> b] ELSE NoEvidence
      err == IF conflicting THEN "conflict" ELSE "none"
  IN IF conflicting /\ ~(bb.tracked /\ bb.peer)
       \* a conflict, and no peer claims that this block is special: not added
       THEN Reply(s1, FALSE, err, ev)
       ELSE
         LET origSum == bb.sum
             quorum  == (TotalOf(P) * 2) \div 3 + 1
             \* blockVotes.addVerifiedVote: counted only if this slot is still empty
             bb1 == IF bb.has[i] THEN [bb EXCEPT !.tracked = TRUE]
                    ELSE [bb EXCEPT !.tracked = TRUE, !.has[i] = TRUE, !.sum = bb.sum + P[i]]
             s2  == [s1 EXCEPT !.byBlock[b] = bb1]
             crossed == origSum < quorum /\ quorum <= bb1.sum
             \* "Only consider the first quorum reached": copy that block's votes over
             s3  == IF crossed /\ s2.maj23 = NoBlock
                      THEN [s2 EXCEPT !.maj23 = b,
                                      !.votes = [j \in DOMAIN s2.votes |-> IF bb1.has[j] THEN b ELSE s2.votes[j]]]
                      ELSE s2
         IN Reply(s3, TRUE, err, ev)

(* ---- addVote (vote_set.go:137): the admission order --------------------- *)
AddVoteF(P, s, v) ==
  LET reject == Reply(s, FALSE, "invalid", NoEvidence) IN
  IF v.idx = "neg"                      THEN reject      \* valIndex < 0
  ELSE IF v.addr = "empty"              THEN reject      \* len(valAddr) == 0
  ELSE IF v.size # "ok"                 THEN reject      \* ValidatorSize != valSet.Size()
  ELSE IF v.h # "ok" \/ v.r # "ok" \/ v.t # "ok" THEN reject   \* unexpected step
  ELSE IF v.idx = "big"                 THEN reject      \* GetByIndex returns nil
  ELSE IF v.addr # "ok"                 THEN reject      \* address differs from the slot's
  ELSE IF Known(s, v.who, v.block)
         THEN (IF v.rel = "exact" THEN Reply(s, FALSE, "none", NoEvidence)   \* duplicate
               ELSE reject)                                                  \* non-deterministic signature
  ELSE IF v.sig # "ok"                  THEN reject      \* vote.Verify
  ELSE AddVerified(P, s, v.who, v.block)

(* ---- SetPeerMaj23 (vote_set.go:291) ------------------------------------- *)
SetPeerMaj23F(s, p, b) ==
  IF s.peerMaj[p] # NoBlock
    THEN [s |-> s, ok |-> (s.peerMaj[p] = b)]           \* repeated claim: nothing to do / conflicting claim: error
    ELSE [s |-> [s EXCEPT !.peerMaj[p] = b, !.byBlock[b].tracked = TRUE, !.byBlock[b].peer = TRUE], ok |-> TRUE]

(* ---- queries ------------------------------------------------------------- *)
TwoThirdsMajority(s)  == s.maj23                                   \* NoBlock = (BlockID{}, false)
HasTwoThirdsAny(P, s) == s.sum > (TotalOf(P) * 2) \div 3
HasAll(P, s)          == s.sum = TotalOf(P)
BitArray(s)           == s.bits
BitArrayByBlockID(s, b) == IF s.byBlock[b].tracked THEN s.byBlock[b].has ELSE <<>>

(* ---- commits -------------------------------------------------------------- *)
(* A precommit in slot k of a commit:                                        *)
(*   signer : index of the validator whose key signed it (0 = a key outside  *)
(*            the set); claims : the validator named by ValidatorIndex /     *)
(*            ValidatorAddress; block, rnd (round tag), h, t, sig as above.   *)
Absent == [signer |-> -1, claims |-> -1, block |-> NoBlock, rnd |-> -1, h |-> "ok", t |-> "ok", sig |-> "ok"]
Pre(signer, claims, b, rnd, h, t, sig) ==
  [signer |-> signer, claims |-> claims, block |-> b, rnd |-> rnd, h |-> h, t |-> t, sig |-> sig]

\* VoteSet.MakeCommit: the canonical votes, slot by slot, under the majority block id
MakeCommit(s) ==
  [bid |-> s.maj23,
   pre |-> [k \in DOMAIN s.votes |->
              IF s.votes[k] = NoBlock THEN Absent ELSE Pre(k, k, s.votes[k], 0, "ok", "ok", "ok")]]

\* the signature of precommit p verifies under the key of the validator of slot k
SigVerifies(p, k) == p.signer = k /\ p.sig = "ok"

FirstPresent(c) == IF \E k \in DOMAIN c : c[k] # Absent
                     THEN c[CHOOSE k \in DOMAIN c : c[k] # Absent /\ \A j \in DOMAIN c : j < k => c[j] = Absent]
                     ELSE Absent

\* the loop of VerifyCommit from slot k on: tallied power, or -1 after an error return
RECURSIVE VerifyLoop(_, _, _, _, _)
VerifyLoop(P, c, bid, round, k) ==
  IF k > Len(c) THEN 0
  ELSE LET p == c[k] IN
    IF p = Absent THEN VerifyLoop(P, c, bid, round, k + 1)            \* may be nil if validator skipped
    ELSE IF p.h # "ok"          THEN -1                                \* wrong height
    ELSE IF p.rnd # round       THEN -1                                \* wrong round
    ELSE IF p.t # "ok"          THEN -1                                \* not a precommit
    ELSE IF ~SigVerifies(p, k)  THEN -1                                \* invalid signature (key of slot k)
    ELSE LET rest == VerifyLoop(P, c, bid, round, k + 1) IN
         IF rest < 0 THEN -1
         ELSE IF p.block # bid THEN rest                               \* not an error, but does not count
         ELSE P[k] + rest                                              \* good precommit

\* ValidatorSet.VerifyCommit(chainID, bid, height, commit); hOK: the claimed height is the commit's
VerifyCommit(P, c, bid, hOK) ==
  IF Len(c) # Len(P) THEN FALSE                                         \* wrong set size
  ELSE IF FirstPresent(c) = Absent \/ ~hOK \/ FirstPresent(c).h # "ok" THEN FALSE   \* height != commit.Height()
  ELSE LET tallied == VerifyLoop(P, c, bid, FirstPresent(c).rnd, 1) IN
       tallied >= 0 /\ tallied > (TotalOf(P) * 2) \div 3

\* the property's own notion of a commit for bid: strictly more than 2/3 of the power of the
\* set, each unit contributed by the validator of that slot with a correctly signed precommit
\* for exactly bid at the height, all in one common round
Committed(P, c, bid, hOK) ==
  /\ hOK /\ Len(c) = Len(P)
  /\ \E rho \in {c[k].rnd : k \in DOMAIN c} :
       LET good == {k \in DOMAIN c : /\ c[k] # Absent /\ SigVerifies(c[k], k) /\ c[k].h = "ok" /\ c[k].t = "ok"
                                     /\ c[k].rnd = rho /\ c[k].block = bid}
       IN 3 * SumOver(P, good) > 2 * TotalOf(P)

\* every precommit present is a precommit of the height, of the commit's round, signed by its slot
Clean(c) == \A k \in DOMAIN c : c[k] # Absent =>
               /\ SigVerifies(c[k], k) /\ c[k].h = "ok" /\ c[k].t = "ok" /\ c[k].rnd = FirstPresent(c).rnd

\* ConsensusState.reconstructLastCommit: the stored commit is fed vote by vote into a new
\* precommit VoteSet of round commit.Round(); any vote not added, or no majority, is fatal
VoteOfPre(p, round) ==
  [who |-> IF p.claims >= 1 THEN p.claims ELSE 1,
   idx |-> "ok", addr |-> "ok", size |-> "ok", h |-> p.h, r |-> IF p.rnd = round THEN "ok" ELSE "bad", t |-> p.t,
   sig |-> IF p.signer = p.claims /\ p.sig = "ok" THEN "ok" ELSE "bad", block |-> p.block, rel |-> "exact"]
\* (the loop returns the majority block the reconstruction ends with, NoBlock if it fails)
RECURSIVE ReconstructMaj(_, _, _, _, _)
ReconstructMaj(P, c, s, round, k) ==
  IF k > Len(c) THEN s.maj23
  ELSE IF c[k] = Absent THEN ReconstructMaj(P, c, s, round, k + 1)
  ELSE LET r == AddVoteF(P, s, VoteOfPre(c[k], round)) IN
       IF ~r.added \/ r.err # "none" THEN NoBlock ELSE ReconstructMaj(P, c, r.s, round, k + 1)
Reconstruct(P, c) == IF Len(c) = Len(P) THEN ReconstructMaj(P, c, EmptySet(Len(P)), FirstPresent(c).rnd, 1) ELSE NoBlock

(* ---- the commit lattice ---------------------------------------------------- *)
(* Per-slot alternatives.  B is the block id the verifier asks about, O another   *)
(* block; "next" is the validator after the slot's (cyclically).                  *)
AllSlotKinds == {"absent", "B", "B@r1", "O", "O@r1", "nil", "nil@r1",
                 "hBad", "tBad", "sigBad", "foreign", "nextAsNext", "nextAsSlot"}
SlotPre(kind, k, n, B, O) ==
  LET nx == (k % n) + 1 IN
  CASE kind = "absent"     -> Absent
    [] kind = "B"          -> Pre(k, k, B, 0, "ok", "ok", "ok")
    [] kind = "B@r1"       -> Pre(k, k, B, 1, "ok", "ok", "ok")
    [] kind = "O"          -> Pre(k, k, O, 0, "ok", "ok", "ok")
    [] kind = "O@r1"       -> Pre(k, k, O, 1, "ok", "ok", "ok")
    [] kind = "nil"        -> Pre(k, k, NilBlock, 0, "ok", "ok", "ok")
    [] kind = "nil@r1"     -> Pre(k, k, NilBlock, 1, "ok", "ok", "ok")
    [] kind = "hBad"       -> Pre(k, k, B, 0, "bad", "ok", "ok")      \* validly signed for another height
    [] kind = "tBad"       -> Pre(k, k, B, 0, "ok", "bad", "ok")      \* a validly signed prevote
    [] kind = "sigBad"     -> Pre(k, k, B, 0, "ok", "ok", "bad")      \* other chain id / transplanted / garbage
    [] kind = "foreign"    -> Pre(0, k, B, 0, "ok", "ok", "ok")       \* a key outside the set, naming slot k
    [] kind = "nextAsNext" -> Pre(nx, nx, B, 0, "ok", "ok", "ok")     \* the next validator's own vote, in slot k
    [] kind = "nextAsSlot" -> Pre(nx, k, B, 0, "ok", "ok", "ok")      \* the next validator's key, naming slot k

(* ---- actions ---------------------------------------------------------------- *)
Init == /\ pw = <<>>
        /\ vs = EmptySet(0)
        /\ last = [op |-> "init"]

NewVoteSet(P) == /\ pw = <<>>
                 /\ pw' = P
                 /\ vs' = EmptySet(Len(P))
                 /\ last' = [op |-> "new", pw |-> P]

AddVote(v) == /\ pw # <<>>
              /\ LET r == AddVoteF(pw, vs, v) IN
                   /\ vs' = r.s
                   /\ last' = [op |-> "vote", v |-> v, added |-> r.added, err |-> r.err, ev |-> r.ev]
              /\ UNCHANGED pw

SetPeerMaj23(p, b) == /\ pw # <<>>
                      /\ LET r == SetPeerMaj23F(vs, p, b) IN
                           /\ vs' = r.s
                           /\ last' = [op |-> "peer", p |-> p, b |-> b, ok |-> r.ok]
                      /\ UNCHANGED pw

\* the relations a new vote of i for b can have to what is stored
Rels(i, b) == IF Known(vs, i, b) THEN {"exact", "resign"} ELSE {"fresh"}
DefRel(i, b) == IF Known(vs, i, b) THEN "resign" ELSE "fresh"

\* the validators defective votes of kind d are generated for (a bound of the instance, not of the code:
\* every check but the signature check is made before the stored votes are consulted)
DefectWho(d) == IF DefectSlots = "all" \/ d = "sig" \/ N = 0 THEN Idx
                ELSE {1 + (Cardinality({j \in Idx : vs.bits[j]}) % N)}

\* VerifyCommit / reconstructLastCommit on a commit of the lattice: a query, the state is unchanged
CheckCommit(kinds, extra, hOK) ==
  /\ pw # <<>> /\ vs = EmptySet(N)
  /\ LET B == CHOOSE b \in Blocks : TRUE
         O == CHOOSE b \in Blocks : b # B
         c0 == [k \in Idx |-> SlotPre(kinds[k], k, N, B, O)]
         c  == IF extra = 0 THEN c0
               ELSE IF extra > 0 THEN Append(c0, SlotPre("B", N, N, B, O))   \* one slot too many
               ELSE SubSeq(c0, 1, N - 1)                                      \* one slot too few
     IN last' = [op |-> "commit", kinds |-> kinds, extra |-> extra, hOK |-> hOK, bid |-> B, other |-> O,
                 verify |-> VerifyCommit(pw, c, B, hOK),
                 verifyOther |-> VerifyCommit(pw, c, O, hOK),
                 reconstruct |-> IF extra = 0 /\ hOK THEN Reconstruct(pw, c) ELSE NoBlock,
                 committed |-> Committed(pw, c, B, hOK), clean |-> Clean(c)]
  /\ UNCHANGED <<pw, vs>>

NextVotes ==
  \/ \E P \in PowerVectors : NewVoteSet(P)
  \/ \E i \in Idx, b \in BlockIds : \E rel \in Rels(i, b) : AddVote(GoodVote(i, b, rel))
  \/ \E d \in Defects : \E i \in DefectWho(d), b \in DefectBlocks : AddVote(DefectVote(d, i, b, DefRel(i, b)))
  \/ \E p \in Peers, b \in BlockIds : SetPeerMaj23(p, b)

NextCommits ==
  \/ \E P \in PowerVectors : NewVoteSet(P)
  \/ \E kinds \in [Idx -> SlotKinds] : CheckCommit(kinds, 0, TRUE)
  \/ \E kinds \in [Idx -> {"B", "absent"}], extra \in {-1, 1}, hOK \in BOOLEAN : CheckCommit(kinds, extra, hOK)
  \/ \E kinds \in [Idx -> {"B", "absent"}] : CheckCommit(kinds, 0, FALSE)

SpecVotes   == Init /\ [][NextVotes]_vars
SpecCommits == Init /\ [][NextCommits]_vars

(* ---- what TLC checks ---------------------------------------------------------- *)
TypeOK ==
  /\ pw = <<>> \/ pw \in PowerVectors
  /\ vs.votes \in [Idx -> BlockIds \cup {NoBlock}]
  /\ vs.bits \in [Idx -> BOOLEAN]
  /\ vs.maj23 \in BlockIds \cup {NoBlock}
  /\ vs.peerMaj \in [Peers -> BlockIds \cup {NoBlock}]
  /\ \A b \in BlockIds : vs.byBlock[b].has \in [Idx -> BOOLEAN]

\* every validator is counted at most once in the round total and once per block id
CountedOnce ==
  /\ vs.sum = SumOver(pw, {i \in Idx : vs.bits[i]})
  /\ \A i \in Idx : vs.bits[i] <=> vs.votes[i] # NoBlock
  /\ \A b \in BlockIds : vs.byBlock[b].sum = SumOver(pw, {i \in Idx : vs.byBlock[b].has[i]})
  /\ \A b \in BlockIds : (\E i \in Idx : vs.byBlock[b].has[i]) => vs.byBlock[b].tracked
  /\ vs.sum <= Total

\* a reported majority is backed by strictly more than 2/3 of the power, tallied for that block id
MajorityBacked ==
  vs.maj23 # NoBlock =>
    /\ 3 * vs.byBlock[vs.maj23].sum > 2 * Total
    /\ \A i \in Idx : vs.byBlock[vs.maj23].has[i] => vs.votes[i] = vs.maj23
    /\ HasTwoThirdsAny(pw, vs)

\* no majority is reported although one block id crossed the threshold
MajorityReported ==
  \A b \in BlockIds : 3 * vs.byBlock[b].sum > 2 * Total => vs.maj23 # NoBlock

\* two block ids can both be above 2/3 only if validators holding more than 1/3 equivocated
QuorumIntersection ==
  \A b1, b2 \in BlockIds :
    (b1 # b2 /\ 3 * vs.byBlock[b1].sum > 2 * Total /\ 3 * vs.byBlock[b2].sum > 2 * Total) =>
      3 * SumOver(pw, {i \in Idx : vs.byBlock[b1].has[i] /\ vs.byBlock[b2].has[i]}) > Total

\* the commit a vote set hands out is accepted by VerifyCommit for its block id and for no other
CommitVerifies ==
  vs.maj23 # NoBlock =>
    LET c == MakeCommit(vs) IN
      /\ VerifyCommit(pw, c.pre, c.bid, TRUE)
      /\ Committed(pw, c.pre, c.bid, TRUE)
      /\ \A b \in BlockIds \ {c.bid} : ~VerifyCommit(pw, c.pre, b, TRUE)

\* the first majority stays
MajorityStable == [][vs.maj23 # NoBlock => vs'.maj23 = vs.maj23]_vars

\* only well-formed votes are counted, and only for their own block id and validator
OnlyValidCounted ==
  [][ \A b \in BlockIds, i \in Idx :
        (vs'.byBlock[b].has[i] /\ ~vs.byBlock[b].has[i]) =>
            /\ last'.op = "vote" /\ WellFormed(last'.v) /\ last'.v.who = i /\ last'.v.block = b /\ last'.added ]_vars

\* a defective vote changes nothing and is reported as invalid
DefectiveRejected ==
  [][ (last'.op = "vote" /\ ~WellFormed(last'.v)) => (vs' = vs /\ ~last'.added /\ last'.err = "invalid") ]_vars

\* a well-formed vote that contradicts the validator's canonical vote is surfaced as evidence
\* (the pair canonical vote / new vote) and never counted in the round total a second time
ConflictSurfaced ==
  [][ (last'.op = "vote" /\ WellFormed(last'.v)) =>
        LET i == last'.v.who  b == last'.v.block IN
          IF Known(vs, i, b) THEN vs' = vs /\ ~last'.added /\ last'.ev = NoEvidence
          ELSE IF vs.votes[i] # NoBlock
            THEN /\ last'.err = "conflict" /\ last'.ev = [who |-> i, a |-> vs.votes[i], b |-> b]
                 /\ vs'.sum = vs.sum
                 /\ last'.added <=> (vs.byBlock[b].tracked /\ vs.byBlock[b].peer)
            ELSE /\ last'.err = "none" /\ last'.added /\ last'.ev = NoEvidence
                 /\ vs'.sum = vs.sum + pw[i] ]_vars

\* a peer's claim never changes a tally
PeerClaimsDoNotCount ==
  [][ last'.op = "peer" => /\ vs'.sum = vs.sum /\ vs'.maj23 = vs.maj23 /\ vs'.votes = vs.votes
                           /\ \A b \in BlockIds : vs'.byBlock[b].sum = vs.byBlock[b].sum ]_vars

\* VerifyCommit accepts only what the property calls a commit (and every such commit that carries
\* no malformed precommit), never for two block ids; a reconstructed LastCommit is backed the same way
VerifySound ==
  [][ last'.op = "commit" =>
        /\ last'.verify => last'.committed
        /\ (last'.committed /\ last'.clean) => last'.verify
        /\ ~(last'.verify /\ last'.verifyOther)
        /\ last'.reconstruct # NoBlock =>
             \E S \in SUBSET Idx : /\ 3 * SumOver(pw, S) > 2 * Total
                                   /\ \A k \in S : \E j \in Idx :
                                        LET p == SlotPre(last'.kinds[j], j, N, last'.bid, last'.other) IN
                                          /\ p.signer = k /\ p.claims = k /\ p.sig = "ok" /\ p.h = "ok" /\ p.t = "ok"
                                          /\ p.block = last'.reconstruct ]_vars

(* ---- export for the replay harness ------------------------------------------- *)
(* One JSON line per explored transition (ACTION_CONSTRAINT Edge, -workers 1).   *)
(* The projection is written compactly because the export cost is per byte:      *)
(* booleans of bit arrays as 0/1, a blockVotes entry as <<flags, has>> with      *)
(* flags = tracked + 2 * peerMaj23.                                              *)
B01(f) == [i \in DOMAIN f |-> IF f[i] THEN 1 ELSE 0]
Proj(P, s) == [pw |-> P, v |-> s.votes, bits |-> B01(s.bits), sum |-> s.sum, maj |-> s.maj23,
               any |-> IF P = <<>> THEN FALSE ELSE HasTwoThirdsAny(P, s),
               all |-> IF P = <<>> THEN FALSE ELSE HasAll(P, s),
               bb |-> [b \in BlockIds |-> <<(IF s.byBlock[b].tracked THEN 1 ELSE 0) + (IF s.byBlock[b].peer THEN 2 ELSE 0),
                                             B01(s.byBlock[b].has)>>],
               pm |-> s.peerMaj]
DefectOf(v) == IF v.idx = "neg" THEN "idxNeg" ELSE IF v.idx = "big" THEN "idxBig"
               ELSE IF v.addr = "empty" THEN "addrEmpty" ELSE IF v.addr = "wrong" THEN "addrWrong"
               ELSE IF v.size # "ok" THEN "size" ELSE IF v.h # "ok" THEN "height" ELSE IF v.r # "ok" THEN "round"
               ELSE IF v.t # "ok" THEN "type" ELSE IF v.sig # "ok" THEN "sig" ELSE "none"
Label(l) == IF l.op = "vote"
              THEN [op |-> "vote", who |-> l.v.who, d |-> DefectOf(l.v), b |-> l.v.block, rel |-> l.v.rel,
                    added |-> l.added, err |-> l.err, ev |-> <<l.ev.who, l.ev.a, l.ev.b>>]
              ELSE l
Edge == PrintT(ToJson([from |-> Proj(pw, vs), act |-> Label(last'), to |-> Proj(pw', vs')]))
View == <<pw, vs>>
=============================================================================
