SPECIFICATION SpecVotes
CONSTANTS
  PowerVectors <- VotesT2
  Blocks = {"B1", "B2"}
  Peers = {"p1", "p2"}
  Defects = {"idxNeg", "idxBig", "addrEmpty", "addrWrong", "size", "height", "round", "type", "sig"}
  DefectBlocks = {"B1"}
  DefectSlots = "one"
  SlotKinds = {"absent"}
INVARIANTS TypeOK CountedOnce MajorityBacked MajorityReported QuorumIntersection CommitVerifies
PROPERTIES MajorityStable OnlyValidCounted DefectiveRejected ConflictSurfaced PeerClaimsDoNotCount
ACTION_CONSTRAINT Edge
VIEW View
CHECK_DEADLOCK FALSE
