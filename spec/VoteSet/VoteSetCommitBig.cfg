SPECIFICATION SpecCommits
CONSTANTS
  PowerVectors <- CommitsThorough
  Blocks = {"B1", "B2"}
  Peers = {"p1"}
  Defects = {}
  DefectBlocks = {}
  DefectSlots = "one"
  SlotKinds = {"absent", "B", "B@r1", "O", "O@r1", "nil", "nil@r1", "hBad", "tBad", "sigBad", "foreign", "nextAsNext", "nextAsSlot"}
INVARIANTS TypeOK
PROPERTIES VerifySound
ACTION_CONSTRAINT Edge
VIEW View
CHECK_DEADLOCK FALSE
