SPECIFICATION Spec
CONSTANTS
  KeyTab <- MCKeyTab
  VLen <- MCVLen
  Digits = {0, 1}
  Vals = {1, 2}
  EmptyProofAsCoded = TRUE
  Limit = 0
INVARIANTS TypeOK Canonical RootCanonical CacheCoherent FlagsOK Resolvable NormalForm GetOK ProofOK TamperOK IterOK
PROPERTIES Stable
ACTION_CONSTRAINT Edge
VIEW View
CHECK_DEADLOCK FALSE
