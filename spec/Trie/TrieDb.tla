------------------------------- MODULE TrieDb -------------------------------
(***************************************************************************)
(* libs/trie/database.go: the reference counting node cache between the    *)
(* tries and the disk, with SEVERAL committed versions alive at once.      *)
(*                                                                         *)
(* Trie.Commit stores the dirty nodes of a trie in Database.nodes (memory  *)
(* only).  A version ("block") is kept alive by Reference(root, {}) from   *)
(* the meta root and given up by Dereference(root), which deletes every    *)
(* node whose parent count drops to zero -- nodes that were never written  *)
(* to disk.  Database.Commit(root) and Cap(limit) move nodes to disk.  The *)
(* property's clause "the root does not depend on caching, or on           *)
(* intermediate commits and reloads from the database" needs: whatever is  *)
(* still referenced can be opened and read, from the cache or from disk.   *)
(*                                                                         *)
(* Implementation state (one Database object over one disk):               *)
(*   mem    Database.nodes: cached node -> cachedNode.parents              *)
(*   meta   Database.nodes[{}].children: root -> number of references      *)
(*   fl     the flush-list (oldest first): insertion order of mem          *)
(*   disk   the nodes written to the disk database (never deleted)         *)
(* plus one trie handle (root, content) as in Trie.tla.  Nodes are         *)
(* identified with their hash (TrieOps); a node's children are the hash    *)
(* references inside its collapsed form, WITH multiplicity (childs() /     *)
(* gatherChildren return a list: two equal subtrees below one branch node  *)
(* count twice).                                                           *)
(*                                                                         *)
(* Specification state: `vers`, the bag of maps that were referenced and   *)
(* not yet dereferenced -- two references to the SAME root (content        *)
(* unchanged between two commits, or changed and changed back) are two     *)
(* versions; `flushed`, the maps a user of the API may expect on disk:     *)
(* those handed to Database.Commit and the versions alive at a Cap(0).     *)
(* (Which maps a partial Cap completes on disk is not promised; a restart  *)
(* keeps the versions in `flushed`.)                                       *)
(*                                                                         *)
(* Actions:                                                                *)
(*   Update(k,v)     TryUpdate on the handle                               *)
(*   Commit          Trie.Commit: hasher.store -> Database.insert per node *)
(*   Reference       Database.Reference(root of the handle, {})            *)
(*   Dereference(m)  Database.Dereference(root of version m)               *)
(*   Flush(m)        Database.Commit(root of m, false)                     *)
(*   CapOldest       Database.Cap(Size() - 1): writes the oldest node      *)
(*   CapAll          Database.Cap(0): writes the whole flush-list          *)
(*   Open(m)         handle := trie.New(root of a referenced version)      *)
(*   Restart         NewDatabase(disk); handle := the empty trie           *)
(* Usage discipline (what geth's blockchain.go keeps to): a version is     *)
(* dereferenced only if no open trie is based on it (`base`).              *)
(***************************************************************************)
EXTENDS TrieOps

CONSTANTS Explore,      \* which of "open", "flush", "cap", "restart" the instance explores
          MaxRefs,      \* references alive at once
          MaxCommits,   \* Trie.Commit calls per behaviour (every commit can leave nodes behind)
          MaxCaps,      \* Cap calls per behaviour
          MaxRestarts,  \* (after the last restart the versions are only opened and given up)
          RootRefsCounted  \* TRUE (the code): Reference counts a root once per call;
                           \* FALSE: "the reference already exists" also for the meta root

EmptyMap == [i \in KIdx |-> Absent]
Maps     == [KIdx -> Vals \cup {Absent}]

VARIABLES content, root,   \* the open trie
          base,            \* the map of the version the handle was opened from / last committed
          mem, meta, fl, disk,
          vers,            \* [map -> number of live references], maps with none left out
          flushed,         \* maps that were written to disk as a whole
          commits, caps, restarts,
          last
vars == <<content, root, base, mem, meta, fl, disk, vers, flushed, commits, caps, restarts, last>>
db   == [mem |-> mem, meta |-> meta, fl |-> fl]

(* ---- functions as bags ------------------------------------------------------ *)
Inc(f, x)  == IF x \in DOMAIN f THEN [f EXCEPT ![x] = @ + 1] ELSE [y \in DOMAIN f \cup {x} |-> IF y = x THEN 1 ELSE f[y]]
Dec(f, x)  == IF f[x] > 1 THEN [f EXCEPT ![x] = @ - 1] ELSE [y \in DOMAIN f \ {x} |-> f[y]]
Without(f, S) == [y \in DOMAIN f \ S |-> f[y]]
Range(s)   == {s[j] : j \in DOMAIN s}
RECURSIVE BagSize(_)
BagSize(f) == IF DOMAIN f = {} THEN 0
              ELSE LET x == CHOOSE y \in DOMAIN f : TRUE IN f[x] + BagSize(Without(f, {x}))
EmptyFn    == [y \in {} |-> 0]

(* ---- nodes of the database --------------------------------------------------- *)
RECURSIVE SortSet(_)
SortSet(S) == IF S = {} THEN <<>>
              ELSE LET x == CHOOSE a \in S : \A b \in S : a <= b IN <<x>> \o SortSet(S \ {x})
ChildSlots == SortSet(Slots \ {T})       \* gatherChildren / hashChildren: for i := 0; i < 16; i++

\* cachedNode.childs(): the hash references inside a collapsed node, in order, with repeats
RECURSIVE KidSeq(_), KidSeqCh(_, _)
KidSeq(c) == IF c.t = "hash" THEN <<c.h>>
             ELSE IF c.t = "short" THEN KidSeq(c.val)
             ELSE IF c.t = "full" THEN KidSeqCh(c.ch, 1)
             ELSE <<>>
KidSeqCh(ch, j) == IF j > Len(ChildSlots) THEN <<>> ELSE KidSeq(ch[ChildSlots[j]]) \o KidSeqCh(ch, j + 1)
Kids(c) == Range(KidSeq(c))

\* the nodes hasher.hash(n, db, force) hands to Database.insert, children before parents
RECURSIVE StoreSeq(_, _), StoreSeqCh(_, _)
StoreSeq(n, force) ==
  IF ~Inner(n) THEN <<>>
  ELSE IF n.f.hc # NoHash /\ ~n.f.dirty THEN <<>>           \* unloaded or kept as it is
  ELSE LET below == IF n.t = "short" THEN StoreSeq(n.val, FALSE) ELSE StoreSeqCh(n.ch, 1)
           hs    == HashStep(n, TRUE, force)
       IN below \o (IF hs.h.t = "hash" THEN <<hs.h.h>> ELSE <<>>)   \* store: >= 32 bytes or the root
StoreSeqCh(ch, j) == IF j > Len(ChildSlots) THEN <<>> ELSE StoreSeq(ch[ChildSlots[j]], FALSE) \o StoreSeqCh(ch, j + 1)

\* Database.insert, for a sequence of nodes
RECURSIVE BumpAll(_, _)
BumpAll(m, ks) == IF ks = <<>> THEN m                           \* c.parents++ for the cached children
                  ELSE BumpAll(IF Head(ks) \in DOMAIN m THEN [m EXCEPT ![Head(ks)] = @ + 1] ELSE m, Tail(ks))
RECURSIVE InsertAll(_, _)
InsertAll(d, cs) ==
  IF cs = <<>> THEN d
  ELSE LET c == Head(cs) IN
       IF c \in DOMAIN d.mem THEN InsertAll(d, Tail(cs))        \* "if the node's already cached, skip"
       ELSE LET m1 == BumpAll(d.mem, KidSeq(c))
                m2 == [y \in DOMAIN m1 \cup {c} |-> IF y = c THEN 0 ELSE m1[y]]
            IN InsertAll([d EXCEPT !.mem = m2, !.fl = Append(d.fl, c)], Tail(cs))

\* Database.reference(child, {})
Ref(d, c) ==
  IF c \notin DOMAIN d.mem THEN d                               \* "a node pulled from disk, skip"
  ELSE IF ~RootRefsCounted /\ c \in DOMAIN d.meta THEN d        \* (not in the code)
  ELSE [d EXCEPT !.mem[c] = @ + 1, !.meta = Inc(d.meta, c)]

\* Database.dereference(child, parent)
RECURSIVE Deref(_, _, _), DerefAll(_, _)
Deref(d, c, fromMeta) ==
  LET d1 == IF fromMeta /\ c \in DOMAIN d.meta THEN [d EXCEPT !.meta = Dec(d.meta, c)] ELSE d
  IN IF c \notin DOMAIN d1.mem THEN d1                          \* "a previously committed node"
     ELSE LET p == IF d1.mem[c] > 0 THEN d1.mem[c] - 1 ELSE 0
          IN IF p > 0 THEN [d1 EXCEPT !.mem[c] = p]
             ELSE LET d2 == DerefAll([d1 EXCEPT !.mem[c] = 0, !.fl = SelectSeq(d1.fl, LAMBDA x : x # c)], KidSeq(c))
                  IN [d2 EXCEPT !.mem = Without(d2.mem, {c})]
DerefAll(d, ks) == IF ks = <<>> THEN d ELSE DerefAll(Deref(d, Head(ks), FALSE), Tail(ks))

\* Database.commit / uncache: the cached nodes reachable from c through cached nodes
RECURSIVE Reach(_, _)
Reach(m, c) == IF c \notin DOMAIN m THEN {} ELSE {c} \cup UNION {Reach(m, k) : k \in Kids(c)}

\* what trie.New / resolveHash can get at: Database.node looks in mem, then on disk
RECURSIVE Avail(_, _)
Avail(S, c) == c \in S /\ \A k \in Kids(c) : Avail(S, k)
RootNode(m)    == CanonRoot(m).h                                \* NilN for the empty map
Openable(S, m) == m = EmptyMap \/ Avail(S, RootNode(m))

(* ---- the system ----------------------------------------------------------------- *)
Init == /\ content = EmptyMap /\ root = NilN /\ base = EmptyMap
        /\ mem = EmptyFn /\ meta = EmptyFn /\ fl = <<>> /\ disk = {}
        /\ vers = EmptyFn /\ flushed = {}
        /\ commits = 0 /\ caps = 0 /\ restarts = 0
        /\ last = [op |-> "init"]

IsClean(r) == IF Inner(r) THEN ~r.f.dirty ELSE TRUE      \* nothing to store
Committed  == IsClean(root)
\* (conjoined last) the maps expected on disk, as far as they still matter
Keep(F) == flushed' = F \cap (DOMAIN vers' \cup {content', base'})
SetDb(d)  == mem' = d.mem /\ meta' = d.meta /\ fl' = d.fl

Update(i, v) ==          \* TryUpdate(key, value); an empty value deletes
  /\ commits < MaxCommits /\ (restarts = MaxRestarts => MaxRestarts = 0)   \* (writes that can still be committed)
  /\ LET r == IF v # Absent THEN Insert(root, Hex(i), ValN(v)) ELSE Delete(root, Hex(i))
     IN root' = r.n
  /\ content' = [content EXCEPT ![i] = v]
  /\ UNCHANGED <<base, mem, meta, fl, disk, vers, commits, caps, restarts>>
  /\ last' = [op |-> "update", k |-> i, v |-> v]
  /\ Keep(flushed)

Commit ==                \* Trie.Commit(nil): the nodes go to the cache, nothing to disk
  /\ commits < MaxCommits
  /\ root' = IF root = NilN THEN root ELSE AgeAll(HashStep(root, TRUE, TRUE).c)
  /\ SetDb(InsertAll(db, StoreSeq(root, TRUE)))
  /\ base' = content
  /\ commits' = commits + 1
  /\ UNCHANGED <<content, disk, vers, caps, restarts>>
  /\ last' = [op |-> "commit"]
  /\ Keep(flushed)

Reference ==             \* Database.Reference(root, common.Hash{}): one more version
  /\ Committed /\ BagSize(vers) < MaxRefs
  /\ SetDb(IF root = NilN THEN db ELSE Ref(db, RootHash(root).h))
  /\ vers' = Inc(vers, content)
  /\ UNCHANGED <<content, root, base, disk, commits, caps, restarts>>
  /\ last' = [op |-> "reference"]
  /\ Keep(flushed)

Dereference(m) ==        \* Database.Dereference(root of m): one version less
  /\ m \in DOMAIN vers
  /\ m = base => vers[m] > 1                  \* no open trie is based on a version given up
  /\ SetDb(IF m = EmptyMap THEN db ELSE Deref(db, RootNode(m), TRUE))
  /\ vers' = Dec(vers, m)
  /\ UNCHANGED <<content, root, base, disk, commits, caps, restarts>>
  /\ last' = [op |-> "dereference", m |-> m]
  /\ Keep(flushed)

Flush(m) ==              \* Database.Commit(root of m, false): write m and drop it from the cache
  /\ "flush" \in Explore
  /\ m \in DOMAIN vers \/ (m = content /\ Committed)
  /\ m # EmptyMap
  /\ LET R == Reach(mem, RootNode(m))
     IN /\ disk' = disk \cup R
        /\ mem' = Without(mem, R)
        /\ fl' = SelectSeq(fl, LAMBDA x : x \notin R)
  /\ UNCHANGED <<content, root, base, meta, vers, commits, caps, restarts>>
  /\ last' = [op |-> "flush", m |-> m]
  /\ Keep(flushed \cup {m})

CapOldest ==             \* Database.Cap(total size - 1): exactly the oldest node goes to disk
  /\ "cap" \in Explore /\ fl # <<>> /\ caps < MaxCaps
  /\ disk' = disk \cup {Head(fl)}
  /\ mem' = Without(mem, {Head(fl)})
  /\ fl' = Tail(fl)
  /\ caps' = caps + 1
  /\ UNCHANGED <<content, root, base, meta, vers, commits, restarts>>
  /\ last' = [op |-> "cap", n |-> 1]
  /\ Keep(flushed)

CapAll ==                \* Database.Cap(0)
  /\ "cap" \in Explore /\ fl # <<>> /\ caps < MaxCaps
  /\ disk' = disk \cup Range(fl)
  /\ mem' = Without(mem, Range(fl))
  /\ fl' = <<>>
  /\ caps' = caps + 1
  /\ UNCHANGED <<content, root, base, meta, vers, commits, restarts>>
  /\ last' = [op |-> "cap", n |-> 0]
  /\ Keep(flushed \cup DOMAIN vers)         \* everything cached went to disk

Open(m) ==               \* handle := trie.New(root of a live version, the Database)
  /\ "open" \in Explore
  /\ m \in DOMAIN vers /\ (m # content \/ ~Committed)
  /\ root' = IF m = EmptyMap THEN NilN ELSE Load(RootNode(m))
  /\ content' = m /\ base' = m
  /\ UNCHANGED <<mem, meta, fl, disk, vers, commits, caps, restarts>>
  /\ last' = [op |-> "open", m |-> m]
  /\ Keep(flushed)

Restart ==               \* the process ends; NewDatabase(disk); handle := the empty trie
  /\ "restart" \in Explore /\ restarts < MaxRestarts
  /\ mem' = EmptyFn /\ meta' = EmptyFn /\ fl' = <<>>
  /\ vers' = [x \in DOMAIN vers \cap (flushed \cup {EmptyMap}) |-> vers[x]]   \* what was only cached is given up
  /\ root' = NilN /\ content' = EmptyMap /\ base' = EmptyMap
  /\ restarts' = restarts + 1
  /\ UNCHANGED <<disk, commits, caps>>
  /\ last' = [op |-> "restart"]
  /\ Keep(flushed)

Next == \/ \E i \in KIdx, v \in Vals \cup {Absent} : Update(i, v)
        \/ Commit \/ Reference \/ CapOldest \/ CapAll \/ Restart
        \/ \E m \in DOMAIN vers \cup {content} : Dereference(m) \/ Flush(m) \/ Open(m)

Spec == Init /\ [][Next]_vars

(* ---- what TLC checks --------------------------------------------------------------- *)
Store == DOMAIN mem \cup disk
TypeOK == /\ content \in Maps /\ base \in Maps
          /\ DOMAIN vers \subseteq Maps /\ \A m \in DOMAIN vers : vers[m] \in 1..MaxRefs
          /\ flushed \subseteq Maps
          /\ \A c \in DOMAIN mem : mem[c] \in Nat
          /\ \A c \in DOMAIN meta : meta[c] \in 1..MaxRefs
          /\ commits \in 0..MaxCommits /\ caps \in 0..MaxCaps /\ restarts \in 0..MaxRestarts

\* THE property: every version that is still referenced can be opened and read -- from the
\* cache or the disk now, and (once it was flushed) from the disk alone.  Nodes are content
\* addressed: what can be opened reads its own map.
VersionsOpenable == /\ \A m \in DOMAIN vers : Openable(Store, m)
                    /\ \A m \in flushed : Openable(disk, m)
\* the disk never holds a node without its children: a root found on disk after a restart
\* opens completely (Flush writes whole subtrees, Cap writes children before parents)
DiskClosed == \A c \in disk : Kids(c) \subseteq disk
\* the open trie: everything of Trie.tla, and every node it has dropped from memory or not
\* loaded yet can be resolved
Canonical     == CanonicalP(root, content)
RootCanonical == RootCanonicalP(root, content)
CacheCoherent == CacheCoherentP(root)
FlagsOK       == FlagsP(root)
GetOK         == GetP(root, content)
HandleResolvable == /\ \A h \in HashesOf(root) : Avail(Store, h.h)
                    /\ Committed => Openable(Store, content)
\* the cache's own bookkeeping
FlushListOK == /\ Range(fl) = DOMAIN mem
               /\ \A j, k \in DOMAIN fl : j # k => fl[j] # fl[k]
\* a cached node that is not on disk is counted at least once per cached parent edge and
\* per live reference (else giving up ANOTHER version could delete it)
Occ(ks, c) == Cardinality({j \in DOMAIN ks : ks[j] = c})
RECURSIVE SumOcc(_, _)
SumOcc(S, c) == IF S = {} THEN 0 ELSE LET p == CHOOSE x \in S : TRUE IN Occ(KidSeq(p), c) + SumOcc(S \ {p}, c)
RefCountSound == \A c \in DOMAIN mem : c \notin disk =>
                    mem[c] >= SumOcc(DOMAIN mem, c) + (IF c \in DOMAIN meta THEN meta[c] ELSE 0)

(* ---- export for the replay harness ------------------------------------------------ *)
VersList(f) == LET RECURSIVE L(_)
                   L(S) == IF S = {} THEN <<>>
                           ELSE LET m == CHOOSE x \in S : TRUE IN <<[m |-> m, n |-> f[m]]>> \o L(S \ {m})
               IN L(DOMAIN f)
\* Everything the harness expects after a step (contents, live versions, flushed maps) is
\* a function of the projected state before the step and the action; the cache and the disk
\* are not exported.
Proj(c, r, b, v, f, cm, cp, rs) ==
  [c |-> c, cmt |-> IsClean(r), b |-> b, v |-> VersList(v), f |-> f, cm |-> cm, cp |-> cp, rst |-> rs]
Edge == PrintT(ToJson([from |-> Proj(content, root, base, vers, flushed, commits, caps, restarts), act |-> last',
                       to |-> Proj(content', root', base', vers', flushed', commits', caps', restarts')]))
View == <<content, root, base, mem, meta, fl, disk, vers, flushed, commits, caps, restarts>>
=============================================================================
