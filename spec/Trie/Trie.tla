-------------------------------- MODULE Trie --------------------------------
(***************************************************************************)
(* libs/trie: the Merkle-Patricia trie (trie.go, hasher.go, node.go,       *)
(* proof.go, iterator.go, database.go), modelled at the level of its       *)
(* nodes.                                                                  *)
(*                                                                         *)
(* A key is a byte string, i.e. an EVEN number of nibbles; keybytesToHex   *)
(* appends the terminator 16.  Nodes are the code's node types:            *)
(*   nil | valueNode | shortNode{Key,Val,flags} | fullNode{Children,flags} *)
(*   | hashNode                                                            *)
(* with flags = nodeFlag{hash, dirty, gen}.  `gen` is kept as an age       *)
(* (cachegen - gen, capped at the cache limit), which is all canUnload     *)
(* looks at.                                                               *)
(*                                                                         *)
(* Hashes are not interpreted: the "hash" of a node is its collapsed form  *)
(* (what hasher.hashChildren/store encode: children that encode to >= 32   *)
(* bytes are replaced by their hash, smaller ones are embedded), wrapped   *)
(* as HashN(..).  This is an injective function of the encoding, which is  *)
(* the only thing the property needs from Keccak.  The trie database is    *)
(* content addressed, so resolving HashN(c) yields c (Load); what is       *)
(* actually available in the Database object / on disk is tracked by       *)
(* `synced` for the current root only (older roots are checked by the      *)
(* harness with its own root table); a hashNode held in memory carries a   *)
(* ghost bit saying whether the node it replaced had been written.         *)
(*                                                                         *)
(* One action per public call:                                             *)
(*   Update(k,v) = TryUpdate (v = 0: the empty value, i.e. delete)         *)
(*   Remove(k)   = TryDelete         Get(k) = TryGet (loads nodes)         *)
(*   HashIt      = Hash()            Commit = Trie.Commit / SecureTrie.    *)
(*   Flush       = Database.Commit(root)        Commit(onleaf, height)     *)
(*   Reopen      = trie.New(root, same Database)                           *)
(*   ReopenDisk  = trie.New(root, NewDatabase(same disk db))               *)
(*   Prove(k)    = Prove + VerifyProof (stuttering; result in the label)   *)
(*   Iterate(s)  = NewIterator(NodeIterator(start)) (stuttering)           *)
(*                                                                         *)
(* `content` is the specification variable of the property: the map the    *)
(* root is claimed to commit to.  Canon(content) is the unique trie for a  *)
(* map, defined without any reference to the history.                      *)
(*                                                                         *)
(* The node-level operators (insert, delete, hasher, proofs, iteration)    *)
(* and the predicates behind the invariants are in TrieOps.tla; they are   *)
(* shared with TrieCopy.tla (two handles on shared nodes) and TrieDb.tla   *)
(* (the reference counting node cache with several versions).              *)
(***************************************************************************)
EXTENDS TrieOps

VARIABLES content,  \* [KIdx -> Vals \cup {Absent}]
          root,     \* the in-memory node tree of the open trie (Trie.root)
          synced,   \* "none" | "mem" | "disk": where the CURRENT root hash can be resolved
          last      \* action label (output only)
vars == <<content, root, synced, last>>

(* ---- the system ----------------------------------------------------------- *)
Init == /\ content = [i \in KIdx |-> Absent]
        /\ root = NilN
        /\ synced = "none"
        /\ last = [op |-> "init"]

Touch(m2) == IF m2 = content THEN synced ELSE "none"

Update(i, v) ==          \* TryUpdate(key, value); an empty value deletes
  /\ LET r == IF v # Absent THEN Insert(root, Hex(i), ValN(v)) ELSE Delete(root, Hex(i))
         m2 == [content EXCEPT ![i] = v]
     IN /\ root' = r.n
        /\ content' = m2
        /\ synced' = Touch(m2)
  /\ last' = [op |-> "update", k |-> i, v |-> v]

Remove(i) ==             \* TryDelete(key)
  /\ LET m2 == [content EXCEPT ![i] = Absent]
     IN /\ root' = Delete(root, Hex(i)).n
        /\ content' = m2
        /\ synced' = Touch(m2)
  /\ last' = [op |-> "delete", k |-> i]

Get(i) ==                \* TryGet(key): may load nodes from the database
  LET g == TryGet(root, Hex(i))
  IN /\ root' = IF g.r THEN g.n ELSE root
     /\ UNCHANGED <<content, synced>>
     /\ last' = [op |-> "get", k |-> i, res |-> g.v]

HashIt ==                \* Hash(): caches hashes, writes nothing
  /\ root' = IF root = NilN THEN root ELSE HashStep(root, FALSE, TRUE).c
  /\ UNCHANGED <<content, synced>>
  /\ last' = [op |-> "hash"]

Commit ==                \* Trie.Commit(onleaf) / SecureTrie.Commit(onleaf, height)
  /\ root' = IF root = NilN THEN root ELSE AgeAll(HashStep(root, TRUE, TRUE).c)
  /\ synced' = IF synced = "none" THEN "mem" ELSE synced
  /\ UNCHANGED content
  /\ last' = [op |-> "commit"]

Flush ==                 \* Database.Commit(root, false): memory cache -> disk
  /\ synced = "mem"
  /\ synced' = "disk"
  /\ UNCHANGED <<content, root>>
  /\ last' = [op |-> "flush"]

Reopen(fresh) ==         \* trie.New(root, db) on the same / on a new Database over the disk
  /\ IF fresh THEN synced = "disk" ELSE synced # "none"
  /\ LET h == RootHash(root)
     IN root' = IF h = EmptyRoot THEN NilN ELSE Load(h.h)    \* resolveHash(root)
  /\ UNCHANGED <<content, synced>>
  /\ last' = [op |-> IF fresh THEN "reopendisk" ELSE "reopen"]

ProofResult(i) == ProofResultP(root, i)
Prove(i) ==
  /\ UNCHANGED <<content, root, synced>>
  /\ last' = [op |-> "prove", k |-> i, res |-> ProofResult(i),
              n |-> Cardinality(ProofSet(root, Hex(i)))]

Iterate(s) ==
  /\ UNCHANGED <<content, root, synced>>
  /\ last' = [op |-> "iter", k |-> s, res |-> IterFrom(content, s)]

Next == \/ \E i \in KIdx : \/ \E v \in Vals \cup {Absent} : Update(i, v)
                           \/ Remove(i) \/ Get(i) \/ Prove(i)
        \/ HashIt \/ Commit \/ Flush \/ Reopen(TRUE) \/ Reopen(FALSE)
        \/ \E s \in KIdx \cup {0} : Iterate(s)

Spec == Init /\ [][Next]_vars

(* ---- what TLC checks (the predicates are defined in TrieOps) ---------------- *)
TypeOK == /\ content \in [KIdx -> Vals \cup {Absent}]
          /\ synced \in {"none", "mem", "disk"}
          /\ \A n \in NodesOf(root) : n.f.age \in 0..Limit /\ n.f.dirty \in BOOLEAN

Canonical     == CanonicalP(root, content)          \* (1) the node tree is THE trie of the content
RootCanonical == RootCanonicalP(root, content)      \* (2) Hash() is a function of the content only
CacheCoherent == CacheCoherentP(root)               \* (3) cached hashes are never stale
FlagsOK       == /\ FlagsP(root)                    \* (4) flag discipline of the hasher
                 /\ synced # "none" => (Inner(root) => ~root.f.dirty)
Resolvable    == ResolvableP(root)                  \* (4b) unloaded nodes had been written
NormalForm    == NormalFormP(root)                  \* (5)
GetOK         == GetP(root, content)                \* (6) lookups return the last written value
ProofOK       == ProofP(root, content)              \* (7) proofs complete and sound
TamperOK      == TamperP(root, content)             \* (8) single-node tampering
IterOK        == IterP(root, content)               \* (9) iteration = content in path order
\* (10) reopening and reading never change the content or the commitment
Stable == [][ last'.op \in {"get", "hash", "commit", "flush", "reopen", "reopendisk", "prove", "iter"}
              => content' = content /\ RootHash(root') = RootHash(root) ]_vars

(* ---- export for the replay harness ----------------------------------------- *)
Proj(m, sy, rs) == [c |-> m, sy |-> sy, rs |-> rs]
Edge == PrintT(ToJson([from |-> Proj(content, synced, RootStatusOf(root)), act |-> last',
                       to |-> Proj(content', synced', RootStatusOf(root'))]))
View == <<content, root, synced>>
=============================================================================
