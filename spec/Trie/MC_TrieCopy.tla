----------------------------- MODULE MC_TrieCopy -----------------------------
(* Handle copies, instance A: three 1-byte keys that branch at the first and   *)
(* at the second nibble (a branch node below a branch node), a 2-byte value    *)
(* (nodes embedded in their parent) and a 33-byte value (nodes stored by       *)
(* hash, unloaded at commit; the value written while there is one handle),     *)
(* cache limit 1.  MC_TrieCopy.cfg (quick): one call explored per copy;        *)
(* MC_TrieCopyBig.cfg (thorough): two.                                         *)
EXTENDS TrieCopy
MCKeyTab == << <<0, 0>>, <<0, 1>>, <<1, 0>> >>
MCVLen   == [v \in {1, 2} |-> IF v = 1 THEN 2 ELSE 33]
ASSUME Meta
\* switches of the model-sensitivity configurations (MC_TrieCopy_inplace_*.cfg)
MutInsertFull == {"insert-full"}
MutDeleteFull == {"delete-full"}
MutInsertShort == {"insert-short"}
=============================================================================
