SPECIFICATION Spec
CONSTANTS
  KeyTab <- MCKeyTab
  VLen <- MCVLen
  Digits = {0, 1}
  Vals = {1, 2}
  Limit = 1
INVARIANTS TypeOK Canonical RootCanonical CacheCoherent FlagsOK Resolvable NormalForm GetOK ProofOK IterOK
PROPERTIES Stable
ACTION_CONSTRAINT Edge
VIEW View
CHECK_DEADLOCK FALSE
