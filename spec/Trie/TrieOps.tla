------------------------------ MODULE TrieOps ------------------------------
(***************************************************************************)
(* libs/trie: the node-level operators shared by the three system models   *)
(*   Trie.tla      one trie handle over a content addressed database       *)
(*   TrieCopy.tla  two handles that share their in-memory nodes            *)
(*                 (SecureTrie.Copy / cpy := *trie)                        *)
(*   TrieDb.tla    the reference counting node cache of trie.Database with *)
(*                 several committed versions alive at once                *)
(* See Trie.tla for the conventions (keys, node types, hashes, flags).     *)
(*                                                                         *)
(* Object identity.  The Go code shares nodes between trie handles by      *)
(* pointer and relies on nodes being immutable once they are reachable     *)
(* from a handle: every write copies (n.copy(), &shortNode{..}).  To make  *)
(* this discipline -- and its violation -- expressible, every in-memory    *)
(* inner node carries an object identity f.id:                             *)
(*     0   a fresh object (just allocated by the running call)             *)
(*   > 0   an object that existed before the call; the same id at two      *)
(*         places (two handles) is the same Go object                      *)
(*   < 0   object -id, WRITTEN IN PLACE by the running call                *)
(* Models with one handle never look at ids (they are all 0 there).        *)
(***************************************************************************)
EXTENDS Integers, Sequences, FiniteSets, TLC, Json

CONSTANTS KeyTab,  \* <<key_1, .., key_n>>: each a sequence of nibbles of even length
          Digits,  \* the nibble values that occur in KeyTab
          Vals,    \* non-empty values 1..n ; 0 is the empty value / absent
          VLen,    \* [Vals -> Nat]: byte length of the concrete value (decides embedding)
          Limit,   \* SetCacheLimit: generations a clean node stays loaded
          EmptyProofAsCoded  \* TRUE: VerifyProof(emptyRoot, ..) is an error (the code);
                             \* FALSE: it confirms the absence (the property as stated)

ASSUME /\ \A v \in Vals : VLen[v] \in 1..55          \* short SER strings (size formula below)
       /\ \A i \in 1..Len(KeyTab) : Len(KeyTab[i]) % 2 = 0 /\ \A j \in 1..Len(KeyTab[i]) : KeyTab[i][j] \in Digits

T      == 16                    \* terminator nibble of keybytesToHex
NK     == Len(KeyTab)
KIdx   == 1..NK
Hex(i) == KeyTab[i] \o <<T>>
Slots  == Digits \cup {T}
Absent == 0
Reject == 0 - 1                 \* VerifyProof returned an error

(* ---- sequences --------------------------------------------------------- *)
Drop(s, n)     == SubSeq(s, n + 1, Len(s))
Take(s, n)     == SubSeq(s, 1, n)
IsPrefix(p, s) == Len(p) <= Len(s) /\ Take(s, Len(p)) = p
Min(a, b)      == IF a < b THEN a ELSE b
RECURSIVE PrefixLen(_, _)
PrefixLen(a, b) == IF a = <<>> \/ b = <<>> \/ Head(a) # Head(b) THEN 0
                   ELSE 1 + PrefixLen(Tail(a), Tail(b))
\* bytes.Compare on nibble paths
RECURSIVE SeqLess(_, _)
SeqLess(a, b) == IF b = <<>> THEN FALSE
                 ELSE IF a = <<>> THEN TRUE
                 ELSE IF Head(a) # Head(b) THEN Head(a) < Head(b)
                 ELSE SeqLess(Tail(a), Tail(b))

(* ---- nodes ------------------------------------------------------------- *)
NilN           == [t |-> "nil"]
ValN(v)        == [t |-> "val", v |-> v]
HashN(c)       == [t |-> "hash", h |-> c]                 \* a hash, as it occurs inside encoded nodes
\* a hashNode held in memory; `ok` (ghost) records that the node it stands for had been
\* written to the database when it was dropped from memory
MemRef(c, ok)  == [t |-> "hash", h |-> c, ok |-> ok]
NoHash         == NilN
NewFlag        == [hc |-> NoHash, dirty |-> TRUE, age |-> 0, id |-> 0]   \* Trie.newFlag, on a fresh object
LoadedFlag(c)  == [hc |-> c, dirty |-> FALSE, age |-> 0, id |-> 0]       \* decodeNode(hash, buf, cachegen)
\* Writes that do NOT copy the node first (none in the code: trie.go insert / delete always
\* build a new shortNode or write to n.copy()).  A configuration may override this
\* definition to show that the copy-on-write discipline is what the handle independence of
\* TrieCopy rests on: "insert-full" / "insert-short" / "delete-full" write a DIRTY node of
\* that kind in place ("a dirty node was created by this trie after the last commit").
InPlaceWrites  == {}
WriteFlag(n, kind) == IF kind \in InPlaceWrites /\ n.f.dirty /\ n.f.id > 0
                      THEN [NewFlag EXCEPT !.id = 0 - n.f.id]     \* n.flags = t.newFlag() on n itself
                      ELSE NewFlag                                \* ... on n.copy() / a new node
ShortN(k, c, f) == [t |-> "short", key |-> k, val |-> c, f |-> f]
FullN(ch, f)   == [t |-> "full", ch |-> ch, f |-> f]
EmptyCh        == [s \in Slots |-> NilN]
Inner(n)       == n.t \in {"short", "full"}
EmptyRoot      == HashN(NilN)                                    \* emptyRoot

\* The abstract tree of a node: flags stripped, hash references followed.
RECURSIVE Abs(_)
Abs(n) == IF n.t = "short" THEN [t |-> "short", key |-> n.key, val |-> Abs(n.val)]
          ELSE IF n.t = "full" THEN [t |-> "full", ch |-> [s \in Slots |-> Abs(n.ch[s])]]
          ELSE IF n.t = "hash" THEN Abs(n.h)
          ELSE n

(* ---- encoded sizes (SER = RLP; decides hash-or-embed in hasher.store) --- *)
StrSize(n)  == IF n = 1 THEN 1 ELSE n + 1       \* single byte < 0x80 | short string
ListSize(p) == IF p < 56 THEN p + 1 ELSE p + 2
RECURSIVE SizeC(_), SumRef(_, _)
\* size of the encoding of a COLLAPSED node (children: hash | embedded | value | nil)
SizeC(c) ==
  IF c.t = "nil" THEN 1
  ELSE IF c.t = "val" THEN StrSize(VLen[c.v])
  ELSE IF c.t = "hash" THEN 33
  ELSE IF c.t = "short" THEN
    LET nib == IF c.key[Len(c.key)] = T THEN Len(c.key) - 1 ELSE Len(c.key)
    IN ListSize(StrSize(1 + nib \div 2) + SizeC(c.val))            \* hexToCompact
  ELSE ListSize((16 - Cardinality(Digits)) + SumRef(c.ch, Slots))  \* 17 slots, absent = 0x80
SumRef(ch, S) == IF S = {} THEN 0
                 ELSE LET s == CHOOSE x \in S : TRUE IN SizeC(ch[s]) + SumRef(ch, S \ {s})

(* ---- the canonical trie of a map ---------------------------------------- *)
PairsOf(m) == {[k |-> Hex(i), v |-> m[i]] : i \in {j \in KIdx : m[j] # Absent}}
MinLen(S)  == CHOOSE n \in {Len(e.k) : e \in S} : \A e \in S : n <= Len(e.k)
CommonLen(S) ==
  LET ok(n) == \A a \in S, b \in S : Take(a.k, n) = Take(b.k, n)
  IN CHOOSE n \in 0..MinLen(S) : ok(n) /\ (n = MinLen(S) \/ ~ok(n + 1))
RECURSIVE Build(_)
Build(S) ==
  IF S = {} THEN NilN
  ELSE IF Cardinality(S) = 1 THEN
    LET e == CHOOSE x \in S : TRUE IN [t |-> "short", key |-> e.k, val |-> ValN(e.v)]
  ELSE
    LET n    == CommonLen(S)
        R    == {[k |-> Drop(e.k, n), v |-> e.v] : e \in S}
        sub(s) == {[k |-> Tail(e.k), v |-> e.v] : e \in {x \in R : Head(x.k) = s}}
        full == [t |-> "full",
                 ch |-> [s \in Slots |->
                           IF s = T
                           THEN IF \E e \in R : e.k = <<T>>
                                THEN ValN((CHOOSE e \in R : e.k = <<T>>).v) ELSE NilN
                           ELSE Build(sub(s))]]
    IN IF n = 0 THEN full
       ELSE [t |-> "short", key |-> Take((CHOOSE e \in S : TRUE).k, n), val |-> full]
Canon(m) == Build(PairsOf(m))

\* canonical collapse of an abstract tree = what a from-scratch hasher produces
RECURSIVE Coll(_)
CRef(a) == IF Inner(a) THEN LET c == Coll(a) IN IF SizeC(c) < 32 THEN c ELSE HashN(c)
           ELSE a
Coll(a) == IF a.t = "short" THEN [t |-> "short", key |-> a.key, val |-> CRef(a.val)]
           ELSE [t |-> "full", ch |-> [s \in Slots |-> CRef(a.ch[s])]]
RootOf(a)    == IF a = NilN THEN EmptyRoot ELSE HashN(Coll(a))
CanonRoot(m) == RootOf(Canon(m))      \* THE commitment: a function of the map only

(* ---- resolving from the database (database.go node/expandNode, decodeNode) *)
RECURSIVE LoadEmb(_)
LoadEmb(c) == IF c.t = "short" THEN ShortN(c.key, LoadEmb(c.val), LoadedFlag(NoHash))
              ELSE IF c.t = "full" THEN FullN([s \in Slots |-> LoadEmb(c.ch[s])], LoadedFlag(NoHash))
              ELSE IF c.t = "hash" THEN MemRef(c.h, TRUE)   \* stored before its parent was
              ELSE c                                        \* value | nil
Load(c) == IF c.t = "short" THEN ShortN(c.key, LoadEmb(c.val), LoadedFlag(c))
           ELSE FullN([s \in Slots |-> LoadEmb(c.ch[s])], LoadedFlag(c))
Resolve(n) == IF n.t = "hash" THEN Load(n.h) ELSE n

(* ---- TryGet (tryGet: resolved nodes are kept, path generations refreshed) *)
RECURSIVE TryGet(_, _)
TryGet(n, key) ==
  IF n.t = "nil" THEN [v |-> Absent, n |-> n, r |-> FALSE]
  ELSE IF n.t = "val" THEN [v |-> n.v, n |-> n, r |-> FALSE]
  ELSE IF n.t = "short" THEN
    IF ~IsPrefix(n.key, key) THEN [v |-> Absent, n |-> n, r |-> FALSE]
    ELSE LET s == TryGet(n.val, Drop(key, Len(n.key)))
         IN [v |-> s.v, r |-> s.r,
             n |-> IF s.r THEN [n EXCEPT !.val = s.n, !.f.age = 0, !.f.id = 0] ELSE n]   \* n.copy()
  ELSE IF n.t = "full" THEN
    LET s == TryGet(n.ch[Head(key)], Tail(key))
    IN [v |-> s.v, r |-> s.r,
        n |-> IF s.r THEN [n EXCEPT !.ch[Head(key)] = s.n, !.f.age = 0, !.f.id = 0] ELSE n]
  ELSE LET s == TryGet(Load(n.h), key) IN [v |-> s.v, n |-> s.n, r |-> TRUE]

(* ---- insert (trie.go insert; `val` is a node: a value or a moved subtree) *)
RECURSIVE Insert(_, _, _)
Insert(n, key, val) ==
  IF key = <<>> THEN
    IF n.t = "val" THEN [d |-> n # val, n |-> val] ELSE [d |-> TRUE, n |-> val]
  ELSE IF n.t = "short" THEN
    LET m == PrefixLen(key, n.key) IN
    IF m = Len(n.key) THEN
      LET r == Insert(n.val, Drop(key, m), val)
      IN IF ~r.d THEN [d |-> FALSE, n |-> n]
         ELSE [d |-> TRUE, n |-> ShortN(n.key, r.n, WriteFlag(n, "insert-short"))]
    ELSE
      LET branch == FullN([EmptyCh EXCEPT
                             ![n.key[m + 1]] = Insert(NilN, Drop(n.key, m + 1), n.val).n,
                             ![key[m + 1]]   = Insert(NilN, Drop(key, m + 1), val).n], NewFlag)
      IN [d |-> TRUE, n |-> IF m = 0 THEN branch ELSE ShortN(Take(key, m), branch, NewFlag)]
  ELSE IF n.t = "full" THEN
    LET r == Insert(n.ch[Head(key)], Tail(key), val)
    IN IF ~r.d THEN [d |-> FALSE, n |-> n]
       ELSE [d |-> TRUE, n |-> FullN([n.ch EXCEPT ![Head(key)] = r.n], WriteFlag(n, "insert-full"))]
  ELSE IF n.t = "nil" THEN [d |-> TRUE, n |-> ShortN(key, val, NewFlag)]
  ELSE \* hashNode: load it and insert into it
    LET rn == Load(n.h)
        r  == Insert(rn, key, val)
    IN IF ~r.d THEN [d |-> FALSE, n |-> rn] ELSE r

(* ---- delete (trie.go delete: keeps the trie in normal form) ------------- *)
\* `w`: the objects written in place that are no longer part of the result (a branch node
\* that was written and then reduced to a short node); always {} for the code as it is
RECURSIVE Delete(_, _)
Delete(n, key) ==
  IF n.t = "short" THEN
    LET m == PrefixLen(key, n.key) IN
    IF m < Len(n.key) THEN [d |-> FALSE, n |-> n, w |-> {}]
    ELSE IF m = Len(key) THEN [d |-> TRUE, n |-> NilN, w |-> {}]
    ELSE
      LET r == Delete(n.val, Drop(key, Len(n.key)))
      IN IF ~r.d THEN [d |-> FALSE, n |-> n, w |-> {}]
         ELSE IF r.n.t = "short"   \* merge: never shortNode{.., shortNode{..}}
              THEN [d |-> TRUE, n |-> ShortN(n.key \o r.n.key, r.n.val, NewFlag), w |-> r.w]
              ELSE [d |-> TRUE, n |-> ShortN(n.key, r.n, NewFlag), w |-> r.w]
  ELSE IF n.t = "full" THEN
    LET r == Delete(n.ch[Head(key)], Tail(key)) IN
    IF ~r.d THEN [d |-> FALSE, n |-> n, w |-> {}]
    ELSE
      LET ch2  == [n.ch EXCEPT ![Head(key)] = r.n]
          wn   == FullN(ch2, WriteFlag(n, "delete-full"))   \* n = n.copy(); n.flags = newFlag(); n.Children[..] = nn
          ww   == r.w \cup (IF wn.f.id < 0 THEN {wn} ELSE {})
          live == {s \in Slots : ch2[s] # NilN}
      IN IF Cardinality(live) = 1 THEN      \* reduce the full node to a short node
           LET pos == CHOOSE s \in live : TRUE IN
           IF pos # T THEN
             LET cn == Resolve(ch2[pos])
             IN IF cn.t = "short"
                THEN [d |-> TRUE, n |-> ShortN(<<pos>> \o cn.key, cn.val, NewFlag), w |-> ww]
                ELSE [d |-> TRUE, n |-> ShortN(<<pos>>, ch2[pos], NewFlag), w |-> ww]
           ELSE [d |-> TRUE, n |-> ShortN(<<pos>>, ch2[pos], NewFlag), w |-> ww]
         ELSE [d |-> TRUE, n |-> wn, w |-> ww]
  ELSE IF n.t = "val" THEN [d |-> TRUE, n |-> NilN, w |-> {}]
  ELSE IF n.t = "nil" THEN [d |-> FALSE, n |-> NilN, w |-> {}]
  ELSE
    LET rn == Load(n.h)
        r  == Delete(rn, key)
    IN IF ~r.d THEN [d |-> FALSE, n |-> rn, w |-> {}] ELSE r

(* ---- hasher.hash / hashChildren / store --------------------------------- *)
\* returns [h |-> what the parent encodes (hash | embedded collapsed node | value | nil),
\*          c |-> the node kept in memory (hash cached, dirty cleared on commit, or unloaded)]
RECURSIVE HashStep(_, _, _)
HashStep(n, commit, force) ==
  IF n.t = "hash" THEN [h |-> HashN(n.h), c |-> n]
  ELSE IF ~Inner(n) THEN [h |-> n, c |-> n]
  ELSE IF n.f.hc # NoHash /\ ~commit THEN [h |-> HashN(n.f.hc), c |-> n]
  ELSE IF n.f.hc # NoHash /\ ~n.f.dirty /\ n.f.age >= Limit      \* canUnload
       THEN [h |-> HashN(n.f.hc), c |-> MemRef(n.f.hc, ~n.f.dirty)]
  ELSE IF n.f.hc # NoHash /\ ~n.f.dirty THEN [h |-> HashN(n.f.hc), c |-> n]
  ELSE
    LET kid  == IF n.t = "short" THEN HashStep(n.val, commit, FALSE) ELSE [h |-> NilN, c |-> NilN]
        kids == IF n.t = "full" THEN [s \in Slots |-> HashStep(n.ch[s], commit, FALSE)]
                ELSE [s \in Slots |-> [h |-> NilN, c |-> NilN]]
        coll == IF n.t = "short" THEN [t |-> "short", key |-> n.key, val |-> kid.h]
                ELSE [t |-> "full", ch |-> [s \in Slots |-> kids[s].h]]
        big  == force \/ SizeC(coll) >= 32
        hc2  == IF ~big THEN NoHash ELSE IF n.f.hc # NoHash THEN n.f.hc ELSE coll
        \* hashChildren works on n.copy(): the cached node is a fresh object
        f2   == [hc |-> hc2, dirty |-> IF commit THEN FALSE ELSE n.f.dirty, age |-> n.f.age, id |-> 0]
        mem  == IF n.t = "short" THEN ShortN(n.key, kid.c, f2)
                ELSE FullN([s \in Slots |-> kids[s].c], f2)
    IN [h |-> IF big THEN HashN(hc2) ELSE coll, c |-> mem]

RootHash(n) == IF n = NilN THEN EmptyRoot ELSE HashStep(n, FALSE, TRUE).h   \* Trie.Hash()

RECURSIVE AgeAll(_)       \* Commit: cachegen++
AgeAll(n) == IF n.t = "short"
             THEN [n EXCEPT !.val = AgeAll(n.val), !.f.age = Min(n.f.age + 1, Limit)]
             ELSE IF n.t = "full"
             THEN [n EXCEPT !.ch = [s \in Slots |-> AgeAll(n.ch[s])], !.f.age = Min(n.f.age + 1, Limit)]
             ELSE n

(* ---- proofs (proof.go) --------------------------------------------------- *)
\* the nodes Prove walks over (hash nodes are resolved, the trie is not modified)
RECURSIVE PathNodes(_, _)
PathNodes(n, key) ==
  IF key = <<>> \/ n.t = "nil" \/ n.t = "val" THEN <<>>
  ELSE IF n.t = "short" THEN
    IF IsPrefix(n.key, key) THEN <<n>> \o PathNodes(n.val, Drop(key, Len(n.key))) ELSE <<n>>
  ELSE IF n.t = "full" THEN <<n>> \o PathNodes(n.ch[Head(key)], Tail(key))
  ELSE PathNodes(Load(n.h), key)
\* hashChildren + store(.., false): the collapsed node and whether it is a proof element
Collapsed(n) == IF n.t = "short" THEN [t |-> "short", key |-> n.key, val |-> HashStep(n.val, FALSE, FALSE).h]
                ELSE [t |-> "full", ch |-> [s \in Slots |-> HashStep(n.ch[s], FALSE, FALSE).h]]
ProofSet(n, key) ==
  LET p == PathNodes(n, key)
  IN {Collapsed(p[i]) : i \in {j \in 1..Len(p) : j = 1 \/ SizeC(Collapsed(p[j])) >= 32}}
\* proof.go get(): walk inside one decoded proof node
RECURSIVE VGet(_, _)
VGet(c, key) ==
  IF c.t = "short" THEN
    IF IsPrefix(c.key, key) THEN VGet(c.val, Drop(key, Len(c.key))) ELSE [k |-> <<>>, n |-> NilN]
  ELSE IF c.t = "full" THEN VGet(c.ch[Head(key)], Tail(key))
  ELSE [k |-> key, n |-> c]
\* VerifyProof over a content-addressed proof db P (node c is stored under HashN(c))
RECURSIVE Verify(_, _, _)
Verify(want, key, P) ==
  IF want.h \notin P THEN Reject
  ELSE LET r == VGet(want.h, key)
       IN IF r.n.t = "nil" THEN Absent
          ELSE IF r.n.t = "val" THEN r.n.v
          ELSE Verify(r.n, r.k, P)

(* ---- iteration (iterator.go): leaves in the order of their nibble paths --- *)
\* The terminator 16 is larger than every nibble, so a key that is a proper
\* prefix of other keys is enumerated AFTER them (libs/trie/iterator_test.go
\* testdata1 fixes exactly this order); on prefix-free key sets this is the
\* bytewise order.
PathLess(i, j) == SeqLess(Hex(i), Hex(j))
RECURSIVE Sorted(_)
Sorted(S) == IF S = {} THEN <<>>
             ELSE LET x == CHOOSE a \in S : \A b \in S \ {a} : PathLess(a, b)
                  IN <<x>> \o Sorted(S \ {x})
\* nodeIterator.seek(start): first path >= hex(start) without terminator; 0 = nil start
IterFrom(m, s) == Sorted({i \in KIdx : m[i] # Absent /\ (s = 0 \/ ~SeqLess(Hex(i), KeyTab[s]))})
\* what a walk over the actual node tree yields (children 0..15 first, then slot 16)
RECURSIVE Leaves(_, _)
Leaves(a, path) ==
  IF a.t = "nil" THEN <<>>
  ELSE IF a.t = "val" THEN <<[p |-> path, v |-> a.v]>>
  ELSE IF a.t = "short" THEN Leaves(a.val, path \o a.key)
  ELSE LET RECURSIVE Over(_)
           Over(S) == IF S = {} THEN <<>>
                      ELSE LET s == CHOOSE x \in S : \A y \in S : x <= y
                           IN Leaves(a.ch[s], path \o <<s>>) \o Over(S \ {s})
       IN Over(Slots)

(* ---- what the system models check, as predicates of (node tree, map) ------- *)
RECURSIVE NodesOf(_)      \* all in-memory inner nodes
NodesOf(n) == IF n.t = "short" THEN {n} \cup NodesOf(n.val)
              ELSE IF n.t = "full" THEN {n} \cup UNION {NodesOf(n.ch[s]) : s \in Slots}
              ELSE {}
RECURSIVE HashesOf(_)     \* all hash references held in memory
HashesOf(n) == IF n.t = "short" THEN HashesOf(n.val)
               ELSE IF n.t = "full" THEN UNION {HashesOf(n.ch[s]) : s \in Slots}
               ELSE IF n.t = "hash" THEN {n} ELSE {}

\* (1) canonical form: the node tree is THE trie of the map, whatever the history
CanonicalP(r, m) == Abs(r) = Canon(m)
\* (2) canonical commitment: what Hash() returns now (trusting every cached hash and
\*     every hash reference, as the code does) is a function of the map only
RootCanonicalP(r, m) == RootHash(r) = CanonRoot(m)
\* (3) cached hashes are never stale; hash references point at canonically collapsed nodes
CacheCoherentP(r) == /\ \A n \in NodesOf(r) : n.f.hc # NoHash => n.f.hc = Coll(Abs(n))
                     /\ \A h \in HashesOf(r) : h.h = Coll(Abs(h))
\* (4) flag discipline the hasher relies on: nothing dirty below a clean node (it would
\*     never be written), a clean node that is stored by hash has its hash cached
RECURSIVE DirtyClosed(_, _)
DirtyClosed(n, underClean) ==
  IF ~Inner(n) THEN TRUE
  ELSE /\ underClean => ~n.f.dirty
       /\ IF n.t = "short" THEN DirtyClosed(n.val, ~n.f.dirty)
          ELSE \A s \in Slots : DirtyClosed(n.ch[s], ~n.f.dirty)
FlagsP(r) == /\ DirtyClosed(r, FALSE)
             /\ \A n \in NodesOf(r) : (~n.f.dirty /\ SizeC(Coll(Abs(n))) >= 32) => n.f.hc # NoHash
\* (4b) whatever was dropped from memory can be resolved again: it had been written
ResolvableP(r) == \A h \in HashesOf(r) : h.ok
\* (5) normal form, stated directly (implied by (1); kept as a readable lemma)
NormalFormP(r) ==
  \A n \in NodesOf(r) :
     IF n.t = "short" THEN n.key # <<>> /\ n.val.t # "nil" /\ Resolve(n.val).t # "short"
                           /\ (n.val.t = "val" <=> n.key[Len(n.key)] = T)
     ELSE Cardinality({s \in Slots : n.ch[s] # NilN}) >= 2 /\ n.ch[T].t \in {"nil", "val"}
\* (6) lookups return the last written value
GetP(r, m) == \A i \in KIdx : TryGet(r, Hex(i)).v = m[i]
\* (7) proofs: complete and sound for presence and absence.
\*     Deviation of the code, named: the empty trie has no node, Prove emits nothing and
\*     VerifyProof fails with "proof node 0 missing" instead of confirming the absence;
\*     with EmptyProofAsCoded the empty trie is exempted (the harness reports that case)
ProofResultP(r, i) == IF r = NilN THEN (IF EmptyProofAsCoded THEN Reject ELSE Absent)
                      ELSE Verify(RootHash(r), Hex(i), ProofSet(r, Hex(i)))
ProofP(r, m) == (EmptyProofAsCoded /\ r = NilN) \/ \A i \in KIdx : ProofResultP(r, i) = m[i]
\* (8) single-node tampering: replacing or dropping one proof node, by any node of any
\*     other proof of this trie or by an edited copy, never changes the claim
\*     (the proof nodes are a function of the map by (1)-(3), which hold in every state;
\*     the battery is therefore evaluated once per map: right after the update that
\*     produced it, when the root is new and nothing is cached)
Edits(c) ==
  IF c.t = "short"
  THEN {[c EXCEPT !.val = x] : x \in {NilN} \cup {ValN(v) : v \in Vals}}
       \cup {[c EXCEPT !.key = [c.key EXCEPT ![j] = d]] :
               j \in {x \in 1..Len(c.key) : c.key[x] # T}, d \in Digits}
  ELSE {[c EXCEPT !.ch[s] = x] : s \in Slots, x \in {NilN} \cup {ValN(v) : v \in Vals}}
AllProofNodesP(r) == UNION {ProofSet(r, Hex(i)) : i \in KIdx}
TamperP(r, m) ==
  (Inner(r) /\ r.f.dirty /\ r.f.hc = NoHash) =>
    \A i \in KIdx :
      LET P == ProofSet(r, Hex(i))
          R == RootHash(r)
      IN \A c \in P :
           /\ Verify(R, Hex(i), P \ {c}) \in {Reject, m[i]}
           /\ \A x \in (AllProofNodesP(r) \cup Edits(c)) \ {c} :
                Verify(R, Hex(i), (P \ {c}) \cup {x}) \in {Reject, m[i]}
\* (9) iteration: the leaves of the node tree are exactly the map, in path order
IterP(r, m) ==
  LET ls == Leaves(Abs(r), <<>>)
      ks == IterFrom(m, 0)
  IN /\ Len(ls) = Len(ks)
     /\ \A j \in 1..Len(ks) : ls[j].p = Hex(ks[j]) /\ ls[j].v = m[ks[j]]
     /\ \A j \in 1..Len(ls) - 1 : SeqLess(ls[j].p, ls[j + 1].p)

(* ---- export helpers --------------------------------------------------------- *)
RootStatusOf(r) == IF r = NilN THEN "nil"
                   ELSE IF r.t = "hash" THEN "unloaded"
                   ELSE IF r.f.dirty THEN (IF r.f.hc = NoHash THEN "new" ELSE "hashed")
                   ELSE "clean"
Meta == PrintT(ToJson([meta |-> [keys |-> KeyTab, vlen |-> [v \in Vals |-> VLen[v]], limit |-> Limit]]))
=============================================================================
