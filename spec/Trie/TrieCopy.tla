------------------------------ MODULE TrieCopy ------------------------------
(***************************************************************************)
(* libs/trie: TWO trie handles that share their in-memory nodes.           *)
(*                                                                         *)
(* SecureTrie.Copy() (secure_trie.go) is `cpy := *t`: a shallow copy of    *)
(* the Trie struct (root pointer, cachegen, cachelimit, db).  It is what   *)
(* state.cachingDB.CopyTrie / StateDB.Copy / cachingDB.OpenTrie (through   *)
(* pastTries) hand out.  After the copy both handles point at the SAME     *)
(* node objects -- clean ones, hashed-but-uncommitted ones and nodes that  *)
(* have never been hashed -- and from then on each handle is a trie of its *)
(* own: what one handle writes, hashes, commits, unloads or resolves must  *)
(* never show in the other.  The code achieves this by never writing to a  *)
(* node that is reachable from a handle (TrieOps: object identity).        *)
(*                                                                         *)
(* The model keeps one node tree per handle; the same object id at two     *)
(* places is the same Go object.  A call through handle h                  *)
(*   - allocates objects (id 0) exactly where the code does: insert /      *)
(*     delete build new short nodes and write to n.copy() of branch nodes, *)
(*     tryGet copies the path above a resolved node, hashChildren copies   *)
(*     every node it processes, resolveHash decodes fresh nodes;           *)
(*   - returns every other object as it is (same id: still shared);        *)
(*   - would write an object in place only under TrieOps!InPlaceWrites     *)
(*     (id < 0): such a write is applied to every occurrence of the        *)
(*     object, i.e. to the other handle's tree as well (Propagate).        *)
(* After the call the ids are renumbered canonically (preorder over handle *)
(* 1, then handle 2), so that states differ only by the sharing relation.  *)
(* `age` (cachegen - gen) is relative to the handle: the two handles have  *)
(* cache generations of their own, the same object can have two ages.      *)
(*                                                                         *)
(* `content[h]` is the specification variable of the property, per handle: *)
(* the map written through THIS handle (starting from the map of the       *)
(* handle it was copied from).  Every invariant of Trie.tla is required of *)
(* every live handle against its own content.                              *)
(*                                                                         *)
(* Actions (h = the handle the call goes through):                         *)
(*   Copy(s)      the other handle := a copy of handle s, in ANY state of  *)
(*                s (uncommitted, hashed-but-uncommitted, clean, unloaded) *)
(*   Update(h,k,v) Remove(h,k) Get(h,k) HashIt(h) Commit(h)                *)
(*   Reopen(h)    trie.New(root of h, same Database)                       *)
(* Bounds of an instance (not of the system): after a copy at most MaxFork *)
(* calls that change something are explored (a write, or a hash / commit / *)
(* get / reopen that replaces nodes); a handle is copied only while its    *)
(* content consists of the values SoloVals (the only values written while  *)
(* there is one handle), so that copying again -- which is how a behaviour *)
(* goes on after MaxFork calls -- leads back to the states of a first      *)
(* copy; right after a copy the two handles are indistinguishable, the     *)
(* first call goes through handle 1 (the harness decides at random which   *)
(* real object that is).                                                   *)
(***************************************************************************)
EXTENDS TrieOps

CONSTANTS MaxFork,     \* state-changing calls explored after a Copy
          SoloVals     \* values written while there is one handle / a handle that is copied holds

H        == {1, 2}
Other(h) == 3 - h
EmptyMap == [i \in KIdx |-> Absent]

VARIABLES content,  \* [H -> [KIdx -> Vals \cup {Absent}]]
          root,     \* [H -> node tree]  (Trie.root of the handle)
          synced,   \* [H -> "none" | "mem"]: the handle's CURRENT root was committed to the Database
          two,      \* handle 2 exists
          fork,     \* state-changing calls since the last Copy
          last      \* action label (output only)
vars == <<content, root, synced, two, fork, last>>

(* ---- object identity ------------------------------------------------------- *)
RECURSIVE SortSet(_)
SortSet(S) == IF S = {} THEN <<>>
              ELSE LET x == CHOOSE a \in S : \A b \in S : a <= b IN <<x>> \o SortSet(S \ {x})
SlotSeq == SortSet(Slots)
AbsI(x) == IF x < 0 THEN 0 - x ELSE x

\* the objects of a tree in preorder (children in slot order)
RECURSIVE IdSeq(_), IdSeqCh(_, _)
IdSeq(n) == IF n.t = "short" THEN <<AbsI(n.f.id)>> \o IdSeq(n.val)
            ELSE IF n.t = "full" THEN <<AbsI(n.f.id)>> \o IdSeqCh(n.ch, 1)
            ELSE <<>>
IdSeqCh(ch, j) == IF j > Len(SlotSeq) THEN <<>> ELSE IdSeq(ch[SlotSeq[j]]) \o IdSeqCh(ch, j + 1)

\* canonical numbers: the k-th distinct object of the sequence gets number k (0 = a fresh
\* object, distinct from every other)
NumOf(S) ==
  [p \in 1..Len(S) |->
     LET isFirst(q) == S[q] = 0 \/ \A r \in 1..(q - 1) : S[r] # S[q]
         fq == IF isFirst(p) THEN p ELSE CHOOSE q \in 1..p : S[q] = S[p] /\ isFirst(q)
     IN Cardinality({q \in 1..fq : isFirst(q)})]

RECURSIVE Relabel(_, _, _), SumLen(_, _)
SumLen(ch, S) == IF S = {} THEN 0
                 ELSE LET s == CHOOSE x \in S : TRUE IN Len(IdSeq(ch[s])) + SumLen(ch, S \ {s})
Relabel(n, p, num) ==      \* p: position of n in the preorder
  IF n.t = "short" THEN [n EXCEPT !.f.id = num[p], !.val = Relabel(n.val, p + 1, num)]
  ELSE IF n.t = "full"
  THEN [n EXCEPT !.f.id = num[p],
                 !.ch = [s \in Slots |-> Relabel(n.ch[s], p + 1 + SumLen(n.ch, {x \in Slots : x < s}), num)]]
  ELSE n
Renumber(t1, t2) ==
  LET s1  == IdSeq(t1)
      num == NumOf(s1 \o IdSeq(t2))
  IN <<Relabel(t1, 1, num), Relabel(t2, 1 + Len(s1), num)>>

\* the objects a call wrote in place, and the same write seen from another tree
RECURSIVE Written(_)
Written(n) == IF n.t = "short" THEN (IF n.f.id < 0 THEN {n} ELSE {}) \cup Written(n.val)
              ELSE IF n.t = "full"
              THEN (IF n.f.id < 0 THEN {n} ELSE {}) \cup UNION {Written(n.ch[s]) : s \in Slots}
              ELSE {}
RECURSIVE Propagate(_, _)
Propagate(n, W) ==
  IF W = {} \/ ~Inner(n) THEN n
  ELSE IF \E w \in W : w.f.id = 0 - n.f.id THEN CHOOSE w \in W : w.f.id = 0 - n.f.id
  ELSE IF n.t = "short" THEN [n EXCEPT !.val = Propagate(n.val, W)]
  ELSE [n EXCEPT !.ch = [s \in Slots |-> Propagate(n.ch[s], W)]]

(* ---- the system ------------------------------------------------------------- *)
Init == /\ content = [h \in H |-> EmptyMap]
        /\ root = [h \in H |-> NilN]
        /\ synced = [h \in H |-> "none"]
        /\ two = FALSE
        /\ fork = 0
        /\ last = [op |-> "init", h |-> 1]

Alive(h) == h = 1 \/ two
\* a call through handle h may be explored
May(h)   == Alive(h) /\ (two => fork < MaxFork /\ (fork = 0 => h = 1))
\* (conjoined last) calls that changed nothing are not counted
Count    == /\ fork' = IF two /\ (root' # root \/ content' # content \/ synced' # synced) THEN fork + 1 ELSE fork
            /\ two' = two

\* handle h's tree became t, the objects W were written in place.  While there is one
\* handle nobody can tell objects apart: all ids stay 0, as in Trie.tla.
\* (Fresh objects below an object written in place would be shared as well; they are
\* numbered per tree.  Such a state already violates the invariants.)
Set(h, t, W) ==
  IF ~two THEN root' = [root EXCEPT ![h] = t]
  ELSE LET rr == Renumber(IF h = 1 THEN t ELSE Propagate(root[1], W),
                          IF h = 2 THEN t ELSE Propagate(root[2], W))
       IN root' = [k \in H |-> rr[k]]

Write(h, i, v, r, op) ==
  LET m2 == [content[h] EXCEPT ![i] = v]
  IN /\ Set(h, r.n, Written(r.n) \cup (IF "w" \in DOMAIN r THEN r.w ELSE {}))
     /\ content' = [content EXCEPT ![h] = m2]
     /\ synced' = [synced EXCEPT ![h] = IF m2 = content[h] THEN @ ELSE "none"]
     /\ last' = [op |-> op, h |-> h, k |-> i, v |-> v]
     /\ Count

Update(h, i, v) ==       \* TryUpdate(key, value) through handle h; an empty value deletes
  /\ May(h) /\ (two \/ v \in SoloVals \cup {Absent})
  /\ Write(h, i, v, IF v # Absent THEN Insert(root[h], Hex(i), ValN(v)) ELSE Delete(root[h], Hex(i)), "update")

Remove(h, i) ==          \* TryDelete(key)
  /\ May(h)
  /\ Write(h, i, Absent, Delete(root[h], Hex(i)), "delete")

Get(h, i) ==             \* TryGet(key): may load nodes, which copies the path above them
  /\ May(h)
  /\ LET g == TryGet(root[h], Hex(i))
     IN /\ g.r           \* explored where it loads something (every lookup is an invariant)
        /\ Set(h, g.n, {})
        /\ last' = [op |-> "get", h |-> h, k |-> i, res |-> g.v]
  /\ UNCHANGED <<content, synced>>
  /\ Count

HashIt(h) ==             \* Hash(): the processed nodes are replaced by copies carrying their hash
  /\ May(h)
  /\ Set(h, IF root[h] = NilN THEN NilN ELSE HashStep(root[h], FALSE, TRUE).c, {})
  /\ UNCHANGED <<content, synced>>
  /\ last' = [op |-> "hash", h |-> h]
  /\ Count

Commit(h) ==             \* Trie.Commit / SecureTrie.Commit; cachegen++ of THIS handle only
  /\ May(h)
  /\ Set(h, IF root[h] = NilN THEN NilN ELSE AgeAll(HashStep(root[h], TRUE, TRUE).c), {})
  /\ synced' = [synced EXCEPT ![h] = "mem"]
  /\ UNCHANGED content
  /\ last' = [op |-> "commit", h |-> h]
  /\ Count

Reopen(h) ==             \* handle h := trie.New(its root, the same Database)
  /\ May(h) /\ synced[h] # "none"
  /\ LET rh == RootHash(root[h])
     IN Set(h, IF rh = EmptyRoot THEN NilN ELSE Load(rh.h), {})
  /\ UNCHANGED <<content, synced>>
  /\ last' = [op |-> "reopen", h |-> h]
  /\ Count

Copy(s) ==               \* the other handle := handle s .Copy()   (cpy := *t)
  /\ Alive(s) /\ \A i \in KIdx : content[s][i] \in SoloVals \cup {Absent}
  /\ LET d  == Other(s)
         t  == Renumber(root[s], NilN)[1]             \* (name the objects if they had no names yet)
     IN /\ root' = [k \in H |-> t]                    \* both handles point at the objects of s
        /\ content' = [content EXCEPT ![d] = content[s]]
        /\ synced' = [synced EXCEPT ![d] = synced[s]]
        /\ last' = [op |-> "copy", h |-> d, s |-> s]
  /\ two' = TRUE
  /\ fork' = 0

Next == \/ \E h \in H : \/ \E i \in KIdx : \/ \E v \in Vals \cup {Absent} : Update(h, i, v)
                                           \/ Remove(h, i) \/ Get(h, i)
                        \/ HashIt(h) \/ Commit(h) \/ Reopen(h) \/ Copy(h)

Spec == Init /\ [][Next]_vars

(* ---- what TLC checks ---------------------------------------------------------- *)
Live == {h \in H : Alive(h)}
TypeOK == /\ content \in [H -> [KIdx -> Vals \cup {Absent}]]
          /\ synced \in [H -> {"none", "mem"}]
          /\ two \in BOOLEAN /\ fork \in 0..MaxFork
          /\ \A h \in H : \A n \in NodesOf(root[h]) : n.f.age \in 0..Limit /\ n.f.dirty \in BOOLEAN /\ (n.f.id > 0 <=> two) /\ n.f.id >= 0
          /\ ~two => root[2] = NilN /\ content[2] = EmptyMap

\* every invariant of the one-handle model, for every live handle against ITS OWN content
Canonical     == \A h \in Live : CanonicalP(root[h], content[h])
RootCanonical == \A h \in Live : RootCanonicalP(root[h], content[h])
CacheCoherent == \A h \in Live : CacheCoherentP(root[h])
FlagsOK       == \A h \in Live : FlagsP(root[h]) /\ (synced[h] # "none" => (Inner(root[h]) => ~root[h].f.dirty))
Resolvable    == \A h \in Live : ResolvableP(root[h])
GetOK         == \A h \in Live : GetP(root[h], content[h])
ProofOK       == \A h \in Live : ProofP(root[h], content[h])
IterOK        == \A h \in Live : IterP(root[h], content[h])

\* one object, one value: what two handles share is the same node (the handle-relative
\* age aside), and no object occurs twice in one tree
RECURSIVE Bare(_)
Bare(n) == IF n.t = "short" THEN [n EXCEPT !.val = Bare(n.val), !.f.age = 0]
           ELSE IF n.t = "full" THEN [n EXCEPT !.ch = [s \in Slots |-> Bare(n.ch[s])], !.f.age = 0]
           ELSE n
Identity == two =>
            /\ fork = 0 => root[1] = root[2]        \* a copy shares everything
            /\ \A n1 \in NodesOf(root[1]), n2 \in NodesOf(root[2]) : n1.f.id = n2.f.id => Bare(n1) = Bare(n2)
            /\ \A h \in H : Cardinality({n.f.id : n \in NodesOf(root[h])}) = Len(IdSeq(root[h]))

\* handle independence: a call through one handle changes nothing that can be observed
\* through the other (Copy: nothing of its source)
Independent == [][ \A h \in H : h # last'.h =>
                     /\ content'[h] = content[h]
                     /\ Abs(root'[h]) = Abs(root[h])
                     /\ RootHash(root'[h]) = RootHash(root[h]) ]_vars
\* reading, hashing, committing and reopening never change the content or the commitment
Stable == [][ last'.op \in {"get", "hash", "commit", "reopen"}
              => content' = content /\ \A h \in H : RootHash(root'[h]) = RootHash(root[h]) ]_vars

(* ---- export for the replay harness ------------------------------------------- *)
SharedIds == {n.f.id : n \in NodesOf(root[1])} \cap {n.f.id : n \in NodesOf(root[2])}
Proj(c, sy, r, tw, fk) ==
  [c |-> c, sy |-> sy, rs |-> [h \in H |-> RootStatusOf(r[h])], two |-> tw, fork |-> fk,
   \* shared objects: all / those that are dirty (uncommitted)
   sh |-> Cardinality({n.f.id : n \in NodesOf(r[1])} \cap {n.f.id : n \in NodesOf(r[2])}),
   sd |-> Cardinality({n.f.id : n \in {x \in NodesOf(r[1]) : x.f.dirty}} \cap {n.f.id : n \in NodesOf(r[2])})]
Edge == PrintT(ToJson([from |-> Proj(content, synced, root, two, fork), act |-> last',
                       to |-> Proj(content', synced', root', two', fork')]))
View == <<content, root, synced, two, fork>>
=============================================================================
