SPECIFICATION Spec
CONSTANTS
  KeyTab <- MCKeyTab
  VLen <- MCVLen
  Digits = {0, 1}
  Vals = {1, 2}
  EmptyProofAsCoded = TRUE
  Limit = 1
  MaxFork = 2
  SoloVals = {2}
INVARIANTS TypeOK Canonical RootCanonical CacheCoherent FlagsOK Resolvable GetOK ProofOK IterOK Identity
PROPERTIES Independent Stable
ACTION_CONSTRAINT Edge
VIEW View
CHECK_DEADLOCK FALSE
