SPECIFICATION Spec
CONSTANTS
  KeyTab <- MCKeyTab
  VLen <- MCVLen
  Digits = {0, 1}
  Vals = {1}
  EmptyProofAsCoded = TRUE
  Limit = 0
  MaxRefs = 3
  Explore = {"open"}
  MaxCommits = 2
  MaxRestarts = 1
  MaxCaps = 1
  RootRefsCounted = TRUE
INVARIANTS TypeOK VersionsOpenable DiskClosed Canonical RootCanonical CacheCoherent FlagsOK GetOK HandleResolvable FlushListOK RefCountSound
ACTION_CONSTRAINT Edge
VIEW View
CHECK_DEADLOCK FALSE
