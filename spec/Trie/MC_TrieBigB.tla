----------------------------- MODULE MC_TrieBigB -----------------------------
(* Thorough instance B: three nibble values, four keys branching at nibble    *)
(* 1, 2 and 3 (one a 2-byte extension of a 1-byte key), a 20-byte and a       *)
(* 33-byte value, cache limit 2 (clean nodes survive one more commit).        *)
EXTENDS Trie
MCKeyTab == << <<0, 0>>, <<0, 0, 1, 2>>, <<0, 2>>, <<2, 1>> >>
MCVLen   == [v \in {1, 2} |-> IF v = 1 THEN 20 ELSE 33]
ASSUME Meta
=============================================================================
