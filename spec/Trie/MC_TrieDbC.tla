------------------------------ MODULE MC_TrieDbC ------------------------------
(* Database versions, chains: two 1-byte keys below one branch node, one       *)
(* 33-byte value; THREE trie commits, so that a version can be given up and    *)
(* its nodes deleted from the middle / the end of the flush-list before the    *)
(* next commit appends to it and a Cap walks over it; versions are reopened as *)
(* the base of the next one; 2 live references, 1 Cap; no Database.Commit, no  *)
(* restart (MC_TrieDbDisk.cfg has those).  MC_TrieDbCBig.cfg (thorough): the   *)
(* same with Database.Commit and a restart.                                    *)
EXTENDS TrieDb
MCKeyTab == << <<0, 0>>, <<1, 0>> >>
MCVLen   == [v \in {1} |-> 33]
ASSUME Meta
=============================================================================
