------------------------------ MODULE MC_TrieDb ------------------------------
(* Database versions: three 1-byte keys branching at the first and at the      *)
(* second nibble, one 33-byte value (every node is stored by hash: a version   *)
(* is a root node over subtrees it shares with other versions; the two leaves  *)
(* below one branch node are the SAME node), cache limit 0.  Configurations:   *)
(*   MC_TrieDb.cfg      (quick)    reference counting: 2 trie commits, 3 live  *)
(*                                 references, versions reopened as the base   *)
(*                                 of the next one; nothing goes to disk       *)
(*   MC_TrieDbDisk.cfg  (quick)    Database.Commit / Cap / restart: 2 trie     *)
(*                                 commits, 2 live references, 1 Cap, 1 restart*)
(*   MC_TrieDbBig.cfg   (thorough) everything, 3 live references               *)
(*   MC_TrieDbBigB.cfg  (thorough) reference counting with 3 trie commits      *)
(*   MC_TrieDb_rootonce.cfg        model sensitivity (RootRefsCounted = FALSE) *)
EXTENDS TrieDb
MCKeyTab == << <<0, 0>>, <<0, 1>>, <<1, 0>> >>
MCVLen   == [v \in {1} |-> 33]
ASSUME Meta
=============================================================================
