\* A mutant of the MODEL (not checked as a property of the code): insert writes a dirty
\* branch node in place.  TLC must report Canonical violated (handle independence).
SPECIFICATION Spec
CONSTANTS
  InPlaceWrites <- MutInsertFull
  KeyTab <- MCKeyTab
  VLen <- MCVLen
  Digits = {0, 1}
  Vals = {1, 2}
  EmptyProofAsCoded = TRUE
  Limit = 1
  MaxFork = 1
  SoloVals = {2}
INVARIANTS Canonical

VIEW View
CHECK_DEADLOCK FALSE
