---------------------------- MODULE MC_TrieQuickB ----------------------------
(* Quick instance B: keys that branch at the first nibble, at the second      *)
(* nibble, and a 3-byte extension of a 1-byte key; 1- and 2-byte values, so   *)
(* everything below the root is embedded; cache limit 0 (every clean node is  *)
(* unloaded at the next commit).                                              *)
EXTENDS Trie
MCKeyTab == << <<0, 0>>, <<0, 0, 0, 0, 0, 0>>, <<0, 1>>, <<1, 0>> >>
MCVLen   == [v \in {1, 2} |-> v]
ASSUME Meta
=============================================================================
