----------------------------- MODULE MC_TrieCopyB -----------------------------
(* Handle copies, instance B: two 1-byte keys below one branch node at the     *)
(* root; while there is one handle the 2-byte value is written (everything is  *)
(* embedded in the root node), after a copy also the 33-byte value (the leaf   *)
(* becomes a node of its own); cache limit 0 (clean nodes are unloaded at the  *)
(* next commit of the handle); two calls explored per copy.                    *)
EXTENDS TrieCopy
MCKeyTab == << <<0, 0>>, <<1, 0>> >>
MCVLen   == [v \in {1, 2} |-> IF v = 1 THEN 33 ELSE 2]
ASSUME Meta
=============================================================================
