\* A mutant of the MODEL: Reference treats a root that is already referenced like any other
\* existing parent-child edge.  TLC must report VersionsOpenable violated.
SPECIFICATION Spec
CONSTANTS
  KeyTab <- MCKeyTab
  VLen <- MCVLen
  Digits = {0, 1}
  Vals = {1}
  EmptyProofAsCoded = TRUE
  Limit = 0
  MaxRefs = 3
  Explore = {"open", "flush", "cap", "restart"}
  MaxCommits = 2
  MaxRestarts = 1
  MaxCaps = 1
  RootRefsCounted = FALSE
INVARIANTS VersionsOpenable

VIEW View
CHECK_DEADLOCK FALSE
