----------------------------- MODULE MC_TrieBig -----------------------------
(* Thorough instance A: instance A of the quick tier plus a sibling of the    *)
(* 1-byte key at the second nibble.                                           *)
EXTENDS Trie
MCKeyTab == << <<>>, <<0, 0>>, <<0, 0, 0, 0>>, <<0, 0, 0, 1>>, <<0, 1>> >>
MCVLen   == [v \in {1, 2} |-> IF v = 1 THEN 2 ELSE 33]
ASSUME Meta
=============================================================================
