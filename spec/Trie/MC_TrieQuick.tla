---------------------------- MODULE MC_TrieQuick ----------------------------
(* Quick instance A: the empty key, a 1-byte key and two 2-byte keys that     *)
(* extend it and differ in their last nibble (keys that are prefixes of one   *)
(* another, odd shared nibble prefix); one 2-byte value (small nodes are      *)
(* embedded in their parent) and one 33-byte value (nodes are stored by       *)
(* hash); cache limit 1.                                                      *)
EXTENDS Trie
MCKeyTab == << <<>>, <<0, 0>>, <<0, 0, 0, 0>>, <<0, 0, 0, 1>> >>
MCVLen   == [v \in {1, 2} |-> IF v = 1 THEN 2 ELSE 33]
ASSUME Meta
=============================================================================
