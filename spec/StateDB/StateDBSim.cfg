\* long weighted random histories: tlc -simulate num=N -depth 200 (the harness overrides Flat / DeleteEmpty)
SPECIFICATION SimSpec
CONSTANTS
  NInst = 3
  NAddr = 2
  NTok = 2
  NSlot = 2
  NTx = 2
  TokArg = {0, 1, 2}
  Amt = {0, 1, 2}
  SetV = {0, 1, 2}
  Gas = {1}
  Ops = {"addbal","subbal","setbal","settok","addtok","subtok","setnonce","setcred","setcode","setstate","create","suicide","addlog","addrefund","subrefund","snap","revert","badrevert","copy","drop","iroot","commit"}
  Flat = FALSE
  DeleteEmpty = FALSE
  Genesis = TRUE
  ResetDirties = TRUE
  RestoreDeleted = TRUE
  MaxSteps = 40
  MaxSnaps = 3
  MaxLogs = 6
  MaxVal = 4
  MaxRefund = 3
INVARIANTS TypeOK RevsWellFormed DirtyLive CleanAgree SimDone
PROPERTIES RevertExact RevertStack CopyExact Independent FinaliseKeeps
CHECK_DEADLOCK FALSE
