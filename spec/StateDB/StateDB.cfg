\* every call, two instances, two addresses, all behaviours of 3 calls (the harness overrides Flat / DeleteEmpty / MaxSteps)
SPECIFICATION Spec
CONSTANTS
  NInst = 2
  NAddr = 2
  NTok = 1
  NSlot = 1
  NTx = 1
  TokArg = {1}
  Amt = {0, 1}
  SetV = {2}
  Gas = {1}
  Ops = {"addbal","subbal","setbal","settok","addtok","subtok","setnonce","setcred","setcode","setstate","create","suicide","addlog","addrefund","subrefund","snap","revert","badrevert","copy","drop","iroot","commit"}
  Flat = FALSE
  DeleteEmpty = FALSE
  Genesis = TRUE
  ResetDirties = TRUE
  RestoreDeleted = TRUE
  MaxSteps = 3
  MaxSnaps = 2
  MaxLogs = 2
  MaxVal = 3
  MaxRefund = 2
INVARIANTS TypeOK RevsWellFormed DirtyLive CleanAgree
PROPERTIES RevertExact RevertStack CopyExact Independent FinaliseKeeps
ACTION_CONSTRAINT Edge
VIEW View
CHECK_DEADLOCK FALSE
