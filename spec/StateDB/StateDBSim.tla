---------------------------- MODULE StateDBSim ----------------------------
(***************************************************************************)
(* Random long histories of StateDB for `tlc -simulate`.                   *)
(*                                                                         *)
(* TLC's simulator chooses uniformly among the successor states, which     *)
(* drowns Snapshot / RevertToSnapshot / Copy / Commit (one successor each) *)
(* in the value-parameterised mutators (dozens each).  A scheduler         *)
(* variable restores a useful mix: a Pick step draws a class of calls from *)
(* the weighted list Mix (only classes with an enabled call are drawn),    *)
(* the next step is one StateDB call of that class.  Pick and Finish steps *)
(* leave the StateDB variables unchanged, so every property of StateDB is  *)
(* checked unchanged on the generated behaviours.  The finished behaviour  *)
(* is printed by SimDone in the single successor Finish produces (the      *)
(* simulator evaluates invariants on all candidate successors).            *)
(***************************************************************************)
EXTENDS StateDB

VARIABLE cls      \* class of the next call; "none" before a Pick; "done" after Finish
simvars == <<st, steps, last, path, cls>>

Mix == <<"bal", "bal", "bal", "tok", "tok", "tok", "stor", "life", "life", "misc",
         "snap", "snap", "revert", "revert", "copy", "final">>

Pickable(c) ==
  CASE c = "snap"   -> \E i \in Inst : st[i].al /\ Len(st[i].revs) < MaxSnaps
    [] c = "revert" -> \E i \in Inst : st[i].al /\ st[i].revs # <<>>
    [] c = "copy"   -> NInst > 1
    [] OTHER        -> TRUE

Pick == /\ cls = "none" /\ steps < MaxSteps
        /\ \E x \in DOMAIN Mix : Pickable(Mix[x]) /\ cls' = Mix[x]
        /\ UNCHANGED vars

\* one call of the drawn class (the disjuncts of StateDB!Next, grouped)
Call ==
  /\ cls \notin {"none", "done"} /\ cls' = "none"
  /\ \E i \in Inst :
       \/ cls = "bal" /\ \E a \in Addr :
            \/ \E v \in Amt : AddBalance(i, a, v) \/ SubBalance(i, a, v)
            \/ \E v \in SetV : SetBalance(i, a, v) \/ SetNonce(i, a, v) \/ SetCredits(i, a, v) \/ SetCode(i, a, v)
       \/ cls = "tok" /\ \E a \in Addr, t \in TokArg :
            \/ \E v \in SetV : SetTokenBalance(i, a, t, v)
            \/ \E v \in Amt : AddTokenBalance(i, a, t, v) \/ SubTokenBalance(i, a, t, v)
       \/ cls = "stor" /\ \E a \in Addr, s \in Slot, v \in SetV : SetState(i, a, s, v)
       \/ cls = "life" /\ \E a \in Addr : CreateAccount(i, a) \/ Suicide(i, a)
       \/ cls = "misc" /\ \/ \E tx \in Txs : AddLog(i, tx)
                          \/ \E g \in Gas : AddRefund(i, g) \/ SubRefund(i, g)
                          \/ \E id \in 0..MaxSteps : BadRevert(i, id)
       \/ cls = "snap" /\ Snapshot(i)
       \/ cls = "revert" /\ \E k \in 1..MaxSnaps : Revert(i, k)
       \/ cls = "copy" /\ (Drop(i) \/ \E j \in Inst : Copy(i, j))
       \/ cls = "final" /\ (IRoot(i) \/ Commit(i))

Finish == /\ cls = "none" /\ steps = MaxSteps /\ cls' = "done" /\ UNCHANGED vars

SimInit == Init /\ cls = "none"
SimNext == Pick \/ Call \/ Finish
SimSpec == SimInit /\ [][SimNext]_simvars

SimDone == cls # "done" \/ PrintT(ToJson(path))
=============================================================================
