\* flat mode: copies taken between IntermediateRoot and Commit, then committed and copied again (pending storage writes), 5 calls
SPECIFICATION Spec
CONSTANTS
  NInst = 3
  NAddr = 1
  NTok = 1
  NSlot = 1
  NTx = 1
  TokArg = {1}
  Amt = {1}
  SetV = {2}
  Gas = {1}
  Ops = {"setstate","copy","iroot","commit"}
  Flat = FALSE
  DeleteEmpty = FALSE
  Genesis = TRUE
  ResetDirties = TRUE
  RestoreDeleted = TRUE
  MaxSteps = 5
  MaxSnaps = 1
  MaxLogs = 2
  MaxVal = 3
  MaxRefund = 2
INVARIANTS TypeOK RevsWellFormed DirtyLive CleanAgree
PROPERTIES RevertExact RevertStack CopyExact Independent FinaliseKeeps
ACTION_CONSTRAINT Edge
VIEW View
CHECK_DEADLOCK FALSE
