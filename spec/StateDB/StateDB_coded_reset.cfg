\* as coded: resetObjectChange does not dirty its address, a bare CreateAccount over a clean account is not carried into a copy; TLC reports CopyExact violated (no export)
SPECIFICATION Spec
CONSTANTS
  NInst = 3
  NAddr = 1
  NTok = 1
  NSlot = 1
  NTx = 1
  TokArg = {1}
  Amt = {1}
  SetV = {2}
  Gas = {1}
  Ops = {"settok","setstate","setcode","addlog","suicide","create","copy","iroot","commit","snap","revert"}
  Flat = FALSE
  DeleteEmpty = FALSE
  Genesis = TRUE
  ResetDirties = FALSE
  RestoreDeleted = TRUE
  MaxSteps = 3
  MaxSnaps = 1
  MaxLogs = 2
  MaxVal = 3
  MaxRefund = 2
INVARIANTS TypeOK RevsWellFormed DirtyLive
PROPERTIES RevertExact RevertStack CopyExact Independent FinaliseKeeps
VIEW View
CHECK_DEADLOCK FALSE
