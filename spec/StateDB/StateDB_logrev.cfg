\* logs under nested snapshots and reverts: the block-wide log counter and the per-transaction lists after every revert, 6 calls
SPECIFICATION Spec
CONSTANTS
  NInst = 1
  NAddr = 1
  NTok = 1
  NSlot = 1
  NTx = 2
  TokArg = {1}
  Amt = {1}
  SetV = {2}
  Gas = {1}
  Ops = {"addlog","snap","revert"}
  Flat = FALSE
  DeleteEmpty = FALSE
  Genesis = TRUE
  ResetDirties = TRUE
  RestoreDeleted = TRUE
  MaxSteps = 6
  MaxSnaps = 2
  MaxLogs = 4
  MaxVal = 3
  MaxRefund = 2
INVARIANTS TypeOK RevsWellFormed DirtyLive CleanAgree
PROPERTIES RevertExact RevertStack CopyExact Independent FinaliseKeeps
ACTION_CONSTRAINT Edge
VIEW View
CHECK_DEADLOCK FALSE
